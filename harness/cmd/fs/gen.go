package main

import (
	"bufio"
	"fmt"
	"strings"

	"gcverif/internal/hx"
)

// ---------------------------------------------------------------------------------------------
// Random histories (C01).  One PRNG; everything a history contains derives from it.
//
//   paths     segments from the live pool {a,b,c}, depth 1..4; half of the time a path already used
//             in this history (or its parent, or a child of it) so that operations collide
//   spelling  a separate mutator re-spells a path without changing its meaning: `.` segments,
//             `//`, a leading `/`, `x/..` detours, a trailing `/` (any combination)
//   climbing  a separate ~10 % stream of paths that leave the root: `..`, `a/../..`, `../a`, …
//   root      `""`, `.`, `/`, `./`, `a/..` (the filespace's own root), ~5 %
//   contents  empty, 1 byte, 00 80 ff, short random, `hello`, 4 KiB
//   handles   the root filespace (id 0) and child views opened at any depth from any open handle
//   probes    keep / mutate / recheck of handed-in and handed-out buffers and listings
// A history is `reset`, `new 0 mem`, ≤ 40 operation lines, then `recheck` of every slot and `dump 0`.
// ---------------------------------------------------------------------------------------------

var pool = []string{"a", "b", "c"}

type histGen struct {
	r     *hx.Rand
	used  [][]string // segment lists used so far in this history
	files [][]string // … those written as files (a guess: the write may have failed)
	dirs  [][]string // … those created as directories, and parents of written files
	want  int        // what the next path should preferably be: wantAny/wantFile/wantDir/wantFresh
	ids   []int      // open filespace ids
	slots int
	w     *bufio.Writer
	// distribution of what was generated (printed by `gen` on stderr as `genstat k=v …`)
	count map[string]int
}

const (
	wantAny = iota
	wantFile
	wantDir
	wantFresh
)

func (g *histGen) segs() []string {
	r := g.r
	from := g.used
	reuse := 50
	switch g.want {
	case wantFile:
		from, reuse = g.files, 75
	case wantDir:
		from, reuse = g.dirs, 75
	case wantFresh:
		reuse = 25
	}
	if len(from) == 0 {
		from = g.used
	}
	if len(from) > 0 && r.Intn(100) < reuse {
		base := from[r.Intn(len(from))]
		if g.want == wantFile || g.want == wantDir {
			if r.Chance(4, 5) {
				return append([]string{}, base...)
			}
		}
		switch r.Intn(4) {
		case 0:
			if len(base) > 1 {
				return append([]string{}, base[:len(base)-1]...)
			}
		case 1:
			if len(base) < 4 {
				return append(append([]string{}, base...), r.Pick(pool))
			}
		}
		return append([]string{}, base...)
	}
	depth := 1
	switch x := r.Intn(100); {
	case x < 40:
		depth = 1
	case x < 75:
		depth = 2
	case x < 90:
		depth = 3
	default:
		depth = 4
	}
	s := make([]string, depth)
	for i := range s {
		s[i] = r.Pick(pool)
	}
	return s
}

// spell re-spells a segment list; the result reduces to the same path.
func (g *histGen) spell(segs []string) string {
	r := g.r
	if r.Chance(1, 2) {
		g.count["spell:plain"]++
		return strings.Join(segs, "/")
	}
	parts := append([]string{}, segs...)
	n := 1 + r.Intn(3)
	lead, trail := false, false
	for i := 0; i < n; i++ {
		pos := r.Intn(len(parts) + 1)
		ins := func(xs ...string) {
			parts = append(parts[:pos], append(append([]string{}, xs...), parts[pos:]...)...)
		}
		switch r.Intn(5) {
		case 0:
			g.count["spell:dot"]++
			ins(".")
		case 1:
			g.count["spell:dslash"]++
			ins("")
		case 2:
			g.count["spell:lead"]++
			lead = true
		case 3:
			g.count["spell:detour"]++
			ins([]string{"a", "b", "c", "z"}[r.Intn(4)], "..")
		default:
			g.count["spell:trail"]++
			trail = true
		}
	}
	s := strings.Join(parts, "/")
	if lead {
		s = "/" + s
	}
	if trail {
		s += "/"
	}
	return s
}

var climbers = []string{"..", "a/../..", "../a", "a/b/../../..", "/..", "./..", "a/../../b", "../..", "b/../../a/b", "..//a", "a/./../.."}
var roots = []string{"", ".", "/", "./", "a/..", "//", "./.", "b/c/../.."}

// pathW draws a path that is preferably of the given kind and records what it will become.
func (g *histGen) pathW(want int, becomes int) string {
	g.want = want
	n := len(g.used)
	p := g.path()
	g.want = wantAny
	if len(g.used) > n {
		segs := g.used[len(g.used)-1]
		switch becomes {
		case wantFile:
			g.files = append(g.files, segs)
			if len(segs) > 1 {
				g.dirs = append(g.dirs, segs[:len(segs)-1])
			}
		case wantDir:
			g.dirs = append(g.dirs, segs)
		}
	}
	return p
}

func (g *histGen) path() string {
	r := g.r
	switch x := r.Intn(100); {
	case x < 10:
		g.count["path:climbing"]++
		return climbers[r.Intn(len(climbers))]
	case x < 15:
		g.count["path:root"]++
		return roots[r.Intn(len(roots))]
	}
	s := g.segs()
	g.used = append(g.used, s)
	g.count[fmt.Sprintf("path:depth%d", len(s))]++
	return g.spell(s)
}

func (g *histGen) content() []byte {
	r := g.r
	switch x := r.Intn(100); {
	case x < 12:
		return []byte{}
	case x < 24:
		return []byte{byte(r.Intn(256))}
	case x < 34:
		return []byte{0x00, 0x80, 0xff}
	case x < 37:
		b := make([]byte, 4096)
		for i := range b {
			b[i] = byte(r.U64())
		}
		return b
	case x < 55:
		return []byte("hello")
	}
	b := make([]byte, 1+r.Intn(8))
	for i := range b {
		b[i] = byte(r.Intn(256))
	}
	return b
}

func hp(s string) string { return hx.Enc([]byte(s)) }

func (g *histGen) emit(format string, a ...interface{}) {
	fmt.Fprintf(g.w, format+"\n", a...)
}

type weighted struct {
	w  int
	fn func(g *histGen)
}

func (g *histGen) fs() int { return g.ids[g.r.Intn(len(g.ids))] }

func (g *histGen) maybeKeep() {
	if g.r.Chance(1, 3) {
		g.emit("keep %d", g.slots)
		g.slots++
		g.count["op:keep"]++
	}
}

var opTable []weighted

func init() {
	one := func(cmd string, want, becomes int) func(g *histGen) {
		return func(g *histGen) { g.emit("%s %d %s", cmd, g.fs(), hp(g.pathW(want, becomes))); g.count["op:"+cmd]++ }
	}
	two := func(cmd string, want int) func(g *histGen) {
		return func(g *histGen) {
			g.emit("%s %d %s %s", cmd, g.fs(), hp(g.pathW(want, wantAny)), hp(g.pathW(wantFresh, want)))
			g.count["op:"+cmd]++
		}
	}
	opTable = []weighted{
		{14, func(g *histGen) {
			g.emit("write %d %s %s", g.fs(), hp(g.pathW(wantAny, wantFile)), hx.Enc(g.content()))
			g.count["op:write"]++
			g.maybeKeep()
		}},
		{6, func(g *histGen) {
			n := g.r.Intn(4)
			cs := make([]string, n)
			for i := range cs {
				cs[i] = hx.Enc(g.content())
			}
			g.emit("%s", strings.TrimRight(fmt.Sprintf("writer %d %s %s", g.fs(), hp(g.pathW(wantAny, wantFile)), strings.Join(cs, " ")), " "))
			g.count["op:writer"]++
			g.maybeKeep()
		}},
		{10, one("mkdir", wantAny, wantDir)},
		{8, one("remove", wantAny, wantAny)},
		{5, one("removeall", wantAny, wantAny)},
		{6, two("copy", wantAny)},
		{4, two("copyfile", wantFile)},
		{4, two("copydir", wantDir)},
		{7, func(g *histGen) { one("readfile", wantFile, wantAny)(g); g.maybeKeep() }},
		{7, func(g *histGen) { one("readdir", wantDir, wantAny)(g); g.maybeKeep() }},
		{3, one("isexist", wantAny, wantAny)},
		{3, one("isfile", wantAny, wantAny)},
		{3, one("isdir", wantAny, wantAny)},
		{3, one("lstat", wantAny, wantAny)},
		{4, func(g *histGen) {
			n := g.r.Intn(5)
			ss := make([]string, n)
			for i := range ss {
				ss[i] = fmt.Sprint([]int{0, 1, 2, 3, 5, 8, 4096, 5000}[g.r.Intn(8)])
			}
			g.emit("%s", strings.TrimRight(fmt.Sprintf("reader %d %s %s", g.fs(), hp(g.pathW(wantFile, wantAny)), strings.Join(ss, " ")), " "))
			g.count["op:reader"]++
			g.maybeKeep()
		}},
		{5, func(g *histGen) { // Filespace(path): a child view of any open handle
			id := len(g.ids)
			g.emit("view %d %d %s", id, g.fs(), hp(g.pathW(wantDir, wantAny)))
			g.ids = append(g.ids, id) // if the call fails the id stays unbound: both sides answer `nofs`
			g.count["op:view"]++
		}},
		{3, func(g *histGen) { g.emit("dump %d", g.fs()); g.count["op:dump"]++ }},
		{5, func(g *histGen) {
			if g.slots == 0 {
				return
			}
			g.emit("mutate %d %d %d", g.r.Intn(g.slots), g.r.Intn(6), g.r.Intn(256))
			g.count["op:mutate"]++
		}},
		{2, func(g *histGen) {
			if g.slots == 0 {
				return
			}
			g.emit("recheck %d", g.r.Intn(g.slots))
			g.count["op:recheck"]++
		}},
	}
}

func (g *histGen) history() {
	g.used, g.files, g.dirs, g.ids, g.slots = nil, nil, nil, []int{0}, 0
	g.emit("reset")
	g.emit("new 0 mem")
	total := 0
	for _, o := range opTable {
		total += o.w
	}
	n := 5 + g.r.Intn(34)
	for i := 0; i < n; i++ {
		x := g.r.Intn(total)
		for _, o := range opTable {
			if x < o.w {
				o.fn(g)
				break
			}
			x -= o.w
		}
	}
	for k := 0; k < g.slots; k++ {
		g.emit("recheck %d", k)
	}
	g.emit("dump 0")
	g.count["histories"]++
}

func gen(w *bufio.Writer, stat *bufio.Writer, n int, shard, nshards int) {
	seed := hx.SeedFromEnv()*1000003 + uint64(shard)*7919 + 17
	g := &histGen{r: hx.NewRand(seed), w: w, count: map[string]int{}}
	for i := shard; i < n; i += nshards {
		g.history()
	}
	printCounts(stat, "genstat", g.count)
}

// ---------------------------------------------------------------------------------------------
// Exhaustive small scope: every sequence of length 1..maxLen over
//   {WriteFile, MkdirAll, Remove, RemoveAll, ReadDir} × 12 path strings  +  Copy × 12 × 12
// where the 12 path strings are 2 names × 6 spellings (n = the name, m = the other one):
//   n   ./n//   /n   m/../n   n/m (depth 2)   n/../.. (climbing)
// Each sequence is its own history ending in `dump 0`.
// ---------------------------------------------------------------------------------------------

func exhaustiveAlphabet() []string {
	var paths []string
	for _, nm := range [][2]string{{"a", "b"}, {"b", "a"}} {
		n, m := nm[0], nm[1]
		paths = append(paths, n, "./"+n+"//", "/"+n, m+"/../"+n, n+"/"+m, n+"/../..")
	}
	var ops []string
	for _, p := range paths {
		ops = append(ops, "write 0 "+hp(p)+" 78")
	}
	for _, cmd := range []string{"mkdir", "remove", "removeall", "readdir"} {
		for _, p := range paths {
			ops = append(ops, cmd+" 0 "+hp(p))
		}
	}
	for _, s := range paths {
		for _, d := range paths {
			ops = append(ops, "copy 0 "+hp(s)+" "+hp(d))
		}
	}
	return ops
}

func genExhaustive(w *bufio.Writer, stat *bufio.Writer, maxLen, shard, nshards int) {
	ops := exhaustiveAlphabet()
	count := 0
	idx := make([]int, maxLen)
	for l := 1; l <= maxLen; l++ {
		for i := range idx {
			idx[i] = 0
		}
		for {
			if count%nshards == shard {
				w.WriteString("reset\nnew 0 mem\n")
				for i := 0; i < l; i++ {
					w.WriteString(ops[idx[i]])
					w.WriteByte('\n')
				}
				w.WriteString("dump 0\n")
			}
			count++
			k := l - 1
			for k >= 0 {
				idx[k]++
				if idx[k] < len(ops) {
					break
				}
				idx[k] = 0
				k--
			}
			if k < 0 {
				break
			}
		}
	}
	fmt.Fprintf(stat, "exhstat alphabet=%d maxlen=%d sequences=%d\n", len(ops), maxLen, count)
}
