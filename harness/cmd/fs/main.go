// Command fs is the implementation-side driver, generator and oracle of the `fs` line protocol
// (filespace family, properties C01–C07; protocol described in /verif/lean/Driver/FS.lean).
//
//	fs drive [-stats <file>] [-nohash]   op lines on stdin -> one result line per op on stdout, real code of /repo
//	fs gen <n> [<shard> <nshards>]       n random C01 histories (this shard's share), seeded from VERIF_SEED
//	fs genx <maxlen> [<shard> <nshards>] exhaustive small-scope histories (see gen.go)
//	fs oracle <n> [<shard> <nshards>]    property oracle: real code against the flat reference, no Lean model
//	fs refcheck                          the same comparison on the op lines given on stdin (used on minimised replays)
//
// Files: backend.go (factory `newFS`, extension point for further backends), drive.go (protocol
// interpreter, alias probes, dump), gen.go (generators), oracle.go (reference + oracle).
package main

import (
	"bufio"
	"fmt"
	"os"
	"strconv"
)

func shardArgs(a []string) (int, int) {
	if len(a) >= 2 {
		s, _ := strconv.Atoi(a[0])
		n, _ := strconv.Atoi(a[1])
		if n > 0 && s >= 0 && s < n {
			return s, n
		}
	}
	return 0, 1
}

func main() {
	w := bufio.NewWriterSize(os.Stdout, 1<<20)
	defer w.Flush()
	ew := bufio.NewWriter(os.Stderr)
	defer ew.Flush()
	if len(os.Args) < 2 {
		fmt.Fprintln(os.Stderr, "usage: fs drive [-stats file] [-nohash] | gen <n> [shard nshards] | genx <maxlen> [shard nshards] | oracle <n>")
		os.Exit(2)
	}
	switch os.Args[1] {
	case "drive":
		statsPath, noHash := "", false
		for i := 2; i < len(os.Args); i++ {
			switch os.Args[i] {
			case "-stats":
				i++
				statsPath = os.Args[i]
			case "-nohash":
				noHash = true
			}
		}
		drive(os.Stdin, w, statsPath, noHash)
	case "gen":
		n, _ := strconv.Atoi(os.Args[2])
		s, ns := shardArgs(os.Args[3:])
		gen(w, ew, n, s, ns)
	case "genx":
		n, _ := strconv.Atoi(os.Args[2])
		s, ns := shardArgs(os.Args[3:])
		genExhaustive(w, ew, n, s, ns)
	case "oracle":
		n, _ := strconv.Atoi(os.Args[2])
		s, ns := shardArgs(os.Args[3:])
		oracle(w, n, s, ns)
	case "refcheck":
		sc := bufio.NewScanner(os.Stdin)
		sc.Buffer(make([]byte, 1<<20), 1<<28)
		refcheck(sc, w)
	default:
		fmt.Fprintln(os.Stderr, "unknown command", os.Args[1])
		os.Exit(2)
	}
}
