// Command fs is the implementation-side driver, generator and oracle of the `fs` line protocol for
// property C01 (in-memory filespace).  Everything reusable lives in gcverif/internal/fsdrv (protocol
// interpreter, registries of backend kinds and extra commands, generators, flat reference oracle);
// the protocol is described in /verif/lean/Driver/FSCore.lean, how other families (C02–C07) add
// their own kinds in /verif/notes/FS_EXTENDING.md.  This command registers nothing: kind `mem` is
// built into fsdrv.
//
//	fs drive [-stats <file>] [-nohash]   op lines on stdin -> one result line per op on stdout, real code of /repo
//	fs gen <n> [<shard> <nshards>]       n random C01 histories (this shard's share), seeded from VERIF_SEED
//	fs genx <maxlen> [<shard> <nshards>] exhaustive small-scope histories (see fsdrv/genx.go)
//	fs gennest <maxseg> [<shard> <nshards>]  exhaustive nested-view spellings (see fsdrv/nest.go)
//	fs oracle <n> [<shard> <nshards>]    property oracle: real code against the flat reference, no Lean model
//	fs refcheck                          the same comparison on the op lines given on stdin (used on minimised replays)
package main

import (
	"bufio"
	"fmt"
	"os"
	"strconv"

	"gcverif/internal/fsdrv"
)

func main() {
	w := bufio.NewWriterSize(os.Stdout, 1<<20)
	defer w.Flush()
	ew := bufio.NewWriter(os.Stderr)
	defer ew.Flush()
	if len(os.Args) < 2 {
		fmt.Fprintln(os.Stderr, "usage: fs drive [-stats file] [-nohash] | gen <n> [shard nshards] | genx <maxlen> [shard nshards] | gennest <maxseg> [shard nshards] | oracle <n> [shard nshards] | refcheck")
		os.Exit(2)
	}
	num := func() int {
		if len(os.Args) < 3 {
			fmt.Fprintln(os.Stderr, "missing <n>")
			os.Exit(2)
		}
		n, _ := strconv.Atoi(os.Args[2])
		return n
	}
	switch os.Args[1] {
	case "drive":
		fsdrv.Drive(os.Stdin, w, fsdrv.ParseDriveArgs(os.Args[2:]))
	case "gen":
		n := num()
		s, ns := fsdrv.ShardArgs(os.Args[3:])
		fsdrv.Gen(w, ew, n, s, ns)
	case "genx":
		n := num()
		s, ns := fsdrv.ShardArgs(os.Args[3:])
		fsdrv.GenExhaustive(w, ew, n, s, ns)
	case "gennest":
		n := num()
		s, ns := fsdrv.ShardArgs(os.Args[3:])
		fsdrv.GenNestExhaustive(w, ew, n, s, ns)
	case "oracle":
		n := num()
		s, ns := fsdrv.ShardArgs(os.Args[3:])
		fsdrv.Oracle(w, n, s, ns)
	case "refcheck":
		sc := bufio.NewScanner(os.Stdin)
		sc.Buffer(make([]byte, 1<<20), 1<<28)
		fsdrv.Refcheck(sc, w)
	default:
		fmt.Fprintln(os.Stderr, "unknown command", os.Args[1])
		os.Exit(2)
	}
}
