// Command fsdemo is an EXAMPLE, not part of any property's check: the smallest family built on
// gcverif/internal/fsdrv (see /verif/notes/FS_EXTENDING.md; Lean twin: /verif/lean/Driver/FSDemo.lean,
// executable m_fsdemo).  It adds
//
//	new <id> sub <fs> <hexpath>   fshelper.NewSubFS(<fs>, path)        (a backend kind)
//	size <fs> <hexpath>           -> n <len(ReadFile(path))> | err     (an extra protocol word)
//
//	fsdemo drive [-stats <file>] [-nohash]   op lines on stdin -> result lines, real code
//	fsdemo gen <n>                           n random histories over a mem filespace and a sub view of it
package main

import (
	"bufio"
	"fmt"
	"os"
	"strconv"

	"gcverif/internal/fsdrv"
	"gcverif/internal/hx"

	"github.com/goatcms/goatcore/filesystem/fshelper"
)

func init() {
	fsdrv.RegisterKind("sub", func(s *fsdrv.Session, args []string) (fsdrv.FS, error) {
		if len(args) != 2 {
			return nil, fsdrv.ErrBadOp
		}
		inner, ok := s.FSArg(args[0])
		base, err := hx.Dec(args[1])
		if !ok || err != nil {
			return nil, fsdrv.ErrBadOp // (an unbound <fs> is bad-op here; the Lean side says the same)
		}
		return fshelper.NewSubFS(inner, string(base)), nil
	})
	fsdrv.RegisterCommand("size", func(s *fsdrv.Session, args []string) string {
		if len(args) != 2 {
			return "bad-op"
		}
		p, err := hx.Dec(args[1])
		if _, e := strconv.Atoi(args[0]); e != nil || err != nil {
			return "bad-op"
		}
		fs, ok := s.FSArg(args[0])
		if !ok {
			return "nofs"
		}
		return s.Exec(func() string { // every call into the code under test: recover + watchdog
			data, err := fs.ReadFile(string(p))
			if err != nil {
				return "err"
			}
			return fmt.Sprintf("n %d", len(data))
		})
	})
}

func main() {
	w := bufio.NewWriterSize(os.Stdout, 1<<20)
	defer w.Flush()
	switch {
	case len(os.Args) >= 2 && os.Args[1] == "drive":
		fsdrv.Drive(os.Stdin, w, fsdrv.ParseDriveArgs(os.Args[2:]))
	case len(os.Args) >= 3 && os.Args[1] == "gen":
		n, _ := strconv.Atoi(os.Args[2])
		g := fsdrv.NewHistGen(hx.NewRand(fsdrv.GenSeed(0)), w)
		g.Preamble = []string{"new 0 mem", "mkdir 0 " + fsdrv.HP("a/b"), "new 1 sub 0 " + fsdrv.HP("a/./b/")}
		g.InitIDs = []int{0, 1}
		g.Ops = append(fsdrv.DefaultOps(), fsdrv.Weighted{W: 6, Fn: func(g *fsdrv.HistGen) {
			g.Emit("size %d %s", g.PickFS(), fsdrv.HP(g.PathW(fsdrv.WantFile, fsdrv.WantAny)))
			g.Count["op:size"]++
		}})
		for i := 0; i < n; i++ {
			g.History()
		}
	default:
		fmt.Fprintln(os.Stderr, "usage: fsdemo drive [-stats file] [-nohash] | gen <n>")
		os.Exit(2)
	}
}
