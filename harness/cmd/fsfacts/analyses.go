package main

// The three analyses built on the canonical printer, and the two censuses.
//
//   discipline   what a method does with each of its string (path) parameters before anything else:
//                one line "Method: p1 p2" per method; `pK` alone means "the statement
//                `if pK, err = varutil.ReduceAbsPath(pK); err != nil { return ..., err }` (for a method
//                without an error result: `return false`) stands at the top level of the body before
//                any other mention of pK, and pK is never assigned again"; anything else is spelled out:
//                pK(raw->f,g) mentioned before it is reduced (handed to f, g / `?` = used otherwise),
//                pK(noerr) the failure of ReduceAbsPath is not returned, pK(reassigned),
//                pK->f,g never reduced here, handed to f, g; pK- never mentioned.
//                The order of the reduce statements among themselves and relative to statements that
//                do not mention the parameter does not matter.
//   tail         the canonical body of the method without those reduce statements, after a line "Method:".
//   flow         the slice events of a function: only the simple statements, conditions and returns
//                that mention a slice (a parameter of slice type, a local that was assigned a
//                make/append/slice expression/slice literal/another tracked slice, the fields .data and
//                .nodes, the calls getData/getNodes/setData, the builtins make/append/copy, a slice
//                literal); control structure is dropped.
//   census       which functions of a package mention a given field at all.
//   open flags   the flag set of every os.OpenFile call.

import (
	"go/ast"
	"go/token"
	"sort"
	"strings"
)

func isStringType(t ast.Expr) bool {
	id, ok := t.(*ast.Ident)
	return ok && id.Name == "string"
}

func isSliceType(t ast.Expr) bool {
	a, ok := t.(*ast.ArrayType)
	return ok && a.Len == nil
}

type param struct {
	obj   *ast.Object
	canon string
}

func stringParams(fd *ast.FuncDecl, e *env) []param {
	var res []param
	for _, f := range fd.Type.Params.List {
		if !isStringType(f.Type) {
			continue
		}
		for _, n := range f.Names {
			if n.Name != "_" && n.Obj != nil {
				res = append(res, param{n.Obj, e.fixed[n.Obj]})
			}
		}
	}
	return res
}

func hasErrorResult(fd *ast.FuncDecl) bool {
	if fd.Type.Results == nil {
		return false
	}
	l := fd.Type.Results.List
	return len(l) > 0 && isErrorType(l[len(l)-1].Type)
}

// `if P, E = varutil.ReduceAbsPath(P); E != nil { return ... }` -> (P, does the failure reach the caller)
func reduceGuard(fd *ast.FuncDecl, s ast.Stmt) (*ast.Object, bool, bool) {
	is, ok := s.(*ast.IfStmt)
	if !ok || is.Else != nil || is.Init == nil || len(is.Body.List) != 1 {
		return nil, false, false
	}
	as, ok := is.Init.(*ast.AssignStmt)
	if !ok || as.Tok != token.ASSIGN || len(as.Lhs) != 2 || len(as.Rhs) != 1 {
		return nil, false, false
	}
	call, ok := as.Rhs[0].(*ast.CallExpr)
	if !ok || len(call.Args) != 1 {
		return nil, false, false
	}
	if pkg, name := callName(call); pkg != "varutil" || name != "ReduceAbsPath" {
		return nil, false, false
	}
	p, ok1 := as.Lhs[0].(*ast.Ident)
	e, ok2 := as.Lhs[1].(*ast.Ident)
	a, ok3 := call.Args[0].(*ast.Ident)
	if !ok1 || !ok2 || !ok3 || p.Obj == nil || p.Obj != a.Obj {
		return nil, false, false
	}
	be, ok := is.Cond.(*ast.BinaryExpr)
	if !ok || be.Op != token.NEQ {
		return nil, false, false
	}
	cx, ok1 := be.X.(*ast.Ident)
	cy, ok2 := be.Y.(*ast.Ident)
	if !ok1 || !ok2 || cx.Obj == nil || cx.Obj != e.Obj || cy.Name != "nil" {
		return nil, false, false
	}
	ret, ok := is.Body.List[0].(*ast.ReturnStmt)
	if !ok {
		return nil, false, false
	}
	passes := false
	if hasErrorResult(fd) {
		if len(ret.Results) == 0 {
			// bare return: the error travels when E is the named error result
			for _, f := range fd.Type.Results.List {
				for _, n := range f.Names {
					if n.Obj == e.Obj && isErrorType(f.Type) {
						passes = true
					}
				}
			}
		} else if id, ok := ret.Results[len(ret.Results)-1].(*ast.Ident); ok && id.Obj == e.Obj {
			passes = true
		}
	} else if len(ret.Results) == 1 {
		if id, ok := ret.Results[0].(*ast.Ident); ok && id.Name == "false" {
			passes = true
		}
	}
	return p.Obj, true, passes
}

// where an identifier is mentioned inside a node: the functions it is handed to as a direct argument,
// "?" for every other mention
func mentions(n ast.Node, name *ast.Object, pr *printer) []string {
	var res []string
	direct := map[*ast.Ident]bool{}
	ast.Inspect(n, func(x ast.Node) bool {
		switch v := x.(type) {
		case *ast.CallExpr:
			for _, a := range v.Args {
				if id, ok := a.(*ast.Ident); ok && id.Obj == name {
					direct[id] = true
					res = append(res, pr.expr(v.Fun))
				}
			}
		case *ast.SelectorExpr:
			// the selected field is not a mention
			ast.Inspect(v.X, func(y ast.Node) bool {
				if id, ok := y.(*ast.Ident); ok && id.Obj == name && !direct[id] {
					res = append(res, "?")
				}
				return true
			})
			return false
		case *ast.KeyValueExpr:
			if _, ok := v.Key.(*ast.Ident); ok {
				res = append(res, mentions(v.Value, name, pr)...)
				return false
			}
		case *ast.Ident:
			if v.Obj == name && !direct[v] {
				res = append(res, "?")
			}
		}
		return true
	})
	return res
}

func assigns(n ast.Node, name *ast.Object) bool {
	found := false
	ast.Inspect(n, func(x ast.Node) bool {
		switch v := x.(type) {
		case *ast.AssignStmt:
			for _, l := range v.Lhs {
				if id, ok := l.(*ast.Ident); ok && id.Obj == name {
					found = true
				}
			}
		case *ast.IncDecStmt:
			if id, ok := v.X.(*ast.Ident); ok && id.Obj == name {
				found = true
			}
		case *ast.UnaryExpr:
			if v.Op == token.AND {
				if id, ok := v.X.(*ast.Ident); ok && id.Obj == name {
					found = true
				}
			}
		}
		return true
	})
	return found
}

func dedup(xs []string) []string {
	var res []string
	seen := map[string]bool{}
	for _, x := range xs {
		if !seen[x] {
			seen[x] = true
			res = append(res, x)
		}
	}
	return res
}

// discipline and tail of one method
func discipline(fd *ast.FuncDecl) (reduce string, tail []string) {
	e := newEnv(fd)
	pr := &printer{e: e}
	ps := stringParams(fd, e)
	type st struct {
		reduced, noerr, reassigned bool
		before, handed             []string
	}
	state := map[*ast.Object]*st{}
	for _, p := range ps {
		state[p.obj] = &st{}
	}
	var rest []ast.Stmt
	for _, s := range fd.Body.List {
		if dropped(s) {
			continue
		}
		if name, ok, passes := reduceGuard(fd, s); ok {
			if t, tracked := state[name]; tracked && !t.reduced {
				t.reduced = true
				t.noerr = !passes
				continue
			}
		}
		rest = append(rest, s)
		for _, p := range ps {
			t := state[p.obj]
			if t.reduced {
				if assigns(s, p.obj) {
					t.reassigned = true
				}
			} else {
				t.handed = append(t.handed, mentions(s, p.obj, pr)...)
			}
		}
	}
	// mentions collected while a parameter was not yet reduced: "before" if it is reduced later
	var toks []string
	for _, p := range ps {
		t := state[p.obj]
		tok := p.canon
		if t.reduced {
			var notes []string
			if len(t.handed) > 0 {
				notes = append(notes, "raw->"+strings.Join(dedup(t.handed), ","))
			}
			if t.noerr {
				notes = append(notes, "noerr")
			}
			if t.reassigned {
				notes = append(notes, "reassigned")
			}
			if len(notes) > 0 {
				tok += "(" + strings.Join(notes, ";") + ")"
			}
		} else if len(t.handed) > 0 {
			tok += "->" + strings.Join(dedup(t.handed), ",")
		} else {
			tok += "-"
		}
		toks = append(toks, tok)
	}
	// the tail is printed with a fresh printer so that the numbering of locals starts at v1
	tp := &printer{e: newEnv(fd)}
	tp.block(rest)
	return fd.Name.Name + ": " + strings.Join(toks, " "), append([]string{fd.Name.Name + ":"}, tp.out...)
}

// ------------------------------------------------------------------------------------------- flow

var sliceFields = map[string]bool{"data": true, "nodes": true}
var sliceCalls = map[string]bool{"getData": true, "getNodes": true, "setData": true}
var sliceBuiltins = map[string]bool{"make": true, "append": true, "copy": true}

type flowState struct{ tracked map[*ast.Object]bool }

func (f *flowState) relevant(n ast.Node) bool {
	if n == nil {
		return false
	}
	found := false
	ast.Inspect(n, func(x ast.Node) bool {
		if found {
			return false
		}
		switch v := x.(type) {
		case *ast.FuncLit:
			return false
		case *ast.Ident:
			if v.Obj != nil && f.tracked[v.Obj] {
				found = true
			}
		case *ast.SelectorExpr:
			if sliceFields[v.Sel.Name] {
				found = true
			}
		case *ast.CallExpr:
			pkg, name := callName(v)
			if _, isSel := v.Fun.(*ast.SelectorExpr); isSel && sliceCalls[name] {
				found = true
			}
			if _, isId := v.Fun.(*ast.Ident); isId && pkg == "" && sliceBuiltins[name] {
				found = true
			}
		case *ast.CompositeLit:
			if v.Type != nil && isSliceType(v.Type) {
				found = true
			}
		}
		return true
	})
	return found
}

// does the expression yield a slice that the left-hand side then names?
func (f *flowState) yieldsSlice(x ast.Expr) bool {
	switch v := x.(type) {
	case *ast.Ident:
		return v.Obj != nil && f.tracked[v.Obj]
	case *ast.SelectorExpr:
		return sliceFields[v.Sel.Name]
	case *ast.SliceExpr:
		return true
	case *ast.CompositeLit:
		return v.Type != nil && isSliceType(v.Type)
	case *ast.ParenExpr:
		return f.yieldsSlice(v.X)
	case *ast.CallExpr:
		pkg, name := callName(v)
		if _, isId := v.Fun.(*ast.Ident); isId && pkg == "" && (name == "make" || name == "append") {
			return true
		}
		if _, isSel := v.Fun.(*ast.SelectorExpr); isSel && (name == "getData" || name == "getNodes") {
			return true
		}
	}
	return false
}

func flowBody(fd *ast.FuncDecl) []string {
	f := &flowState{tracked: map[*ast.Object]bool{}}
	for _, fl := range fd.Type.Params.List {
		if isSliceType(fl.Type) {
			for _, n := range fl.Names {
				if n.Obj != nil {
					f.tracked[n.Obj] = true
				}
			}
		}
	}
	p := &printer{e: newEnv(fd)}
	p.keep = func(s ast.Stmt) bool { return f.relevant(s) }
	p.cond = func(x ast.Expr) bool { return f.relevant(x) }
	p.onDef = func(lhs, rhs ast.Expr) {
		if id, ok := lhs.(*ast.Ident); ok && id.Name != "_" && id.Obj != nil && f.yieldsSlice(rhs) {
			f.tracked[id.Obj] = true
		}
	}
	// the tracking must know an assignment before `keep` judges the statement it occurs in
	pre := func(s ast.Stmt) {
		switch v := s.(type) {
		case *ast.AssignStmt:
			if len(v.Lhs) == len(v.Rhs) {
				for i := range v.Lhs {
					p.onDef(v.Lhs[i], v.Rhs[i])
				}
			}
		case *ast.DeclStmt:
			if gd, ok := v.Decl.(*ast.GenDecl); ok && gd.Tok == token.VAR {
				for _, sp := range gd.Specs {
					vs := sp.(*ast.ValueSpec)
					if len(vs.Names) == len(vs.Values) {
						for i := range vs.Names {
							p.onDef(vs.Names[i], vs.Values[i])
						}
					}
				}
			}
		}
	}
	keep := p.keep
	p.keep = func(s ast.Stmt) bool { pre(s); return keep(s) }
	p.block(fd.Body.List)
	return p.out
}

// ------------------------------------------------------------------------------------------ census

func funcLabel(fd *ast.FuncDecl) string {
	if fd.Recv != nil && len(fd.Recv.List) == 1 {
		t := fd.Recv.List[0].Type
		if s, ok := t.(*ast.StarExpr); ok {
			t = s.X
		}
		if id, ok := t.(*ast.Ident); ok {
			return id.Name + "." + fd.Name.Name
		}
	}
	return fd.Name.Name
}

// the functions of the package that mention the field (as a selector or as a key of a composite literal)
func census(files []*ast.File, field string) []string {
	var res []string
	for _, f := range files {
		for _, d := range f.Decls {
			fd, ok := d.(*ast.FuncDecl)
			if !ok || fd.Body == nil {
				continue
			}
			hit := false
			ast.Inspect(fd.Body, func(x ast.Node) bool {
				switch v := x.(type) {
				case *ast.SelectorExpr:
					if v.Sel.Name == field {
						hit = true
					}
				case *ast.KeyValueExpr:
					if id, ok := v.Key.(*ast.Ident); ok && id.Name == field {
						hit = true
					}
				}
				return !hit
			})
			if hit {
				res = append(res, funcLabel(fd))
			}
		}
	}
	sort.Strings(res)
	return res
}

// "Recv.Method: O_A|O_B" for every os.OpenFile call of the package, flags in alphabetical order
func openFlags(files []*ast.File) []string {
	var res []string
	for _, f := range files {
		for _, d := range f.Decls {
			fd, ok := d.(*ast.FuncDecl)
			if !ok || fd.Body == nil {
				continue
			}
			pr := &printer{e: newEnv(fd)}
			ast.Inspect(fd.Body, func(x ast.Node) bool {
				c, ok := x.(*ast.CallExpr)
				if !ok {
					return true
				}
				if pkg, name := callName(c); pkg != "os" || name != "OpenFile" || len(c.Args) != 3 {
					return true
				}
				var flags []string
				plain := true
				var walk func(e ast.Expr)
				walk = func(e ast.Expr) {
					switch v := e.(type) {
					case *ast.BinaryExpr:
						if v.Op != token.OR {
							plain = false
							return
						}
						walk(v.X)
						walk(v.Y)
					case *ast.ParenExpr:
						walk(v.X)
					case *ast.SelectorExpr:
						if id, ok := v.X.(*ast.Ident); ok && id.Name == "os" {
							flags = append(flags, v.Sel.Name)
						} else {
							plain = false
						}
					default:
						plain = false
					}
				}
				walk(c.Args[1])
				if plain {
					sort.Strings(flags)
					res = append(res, funcLabel(fd)+": "+strings.Join(dedup(flags), "|"))
				} else {
					res = append(res, funcLabel(fd)+": "+pr.expr(c.Args[1]))
				}
				return true
			})
		}
	}
	sort.Strings(res)
	return res
}
