package main

// Canonical printing of Go function bodies (go/ast only, no type information).
//
// A function body is flattened, in source order, to a list of short lines.  The form is chosen so that
// edits which cannot change what the function does leave it unchanged:
//
//   * identifiers declared by the function are replaced (per declaration, as resolved by the parser's scope
//     analysis, not per name): receiver -> recv, parameters -> p1, p2, ... (by position), named results ->
//     err (type error) / r1, r2, ..., variables declared `error` -> err, parameters of a function literal
//     -> a1, a2, ... (b1 ... one level deeper), every other local (:=, var, range, local types) -> v1,
//     v2, ... numbered in the order in which they first appear in the EMITTED lines; package-level names,
//     field names and the universe (nil, len, make, ...) are printed as they are;
//   * comments never reach the AST; `:=` and `=` are both printed `=`; `var x T` without a value is dropped;
//   * statements that belong to other properties are dropped: verifhook.Yield(...) (add-only
//     instrumentation), Lock/Unlock/RLock/RUnlock calls and their defers (C09), assignments to a field
//     named `time` (time stamps are not modelled), local type declarations;
//   * the message arguments of error constructors are dropped: goaterr.Errorf(...), fmt.Errorf(...),
//     errors.New(...) are all printed `error`;
//   * the fields of a keyed composite literal and the operands of a chain a | b | c are printed in
//     alphabetical order.
//
// Control flow is kept: `if h` ... [`else` ...] `end`, `for h` ... `end`, `range k, v = x` ... `end`,
// `switch`/`case`/`end`; an `if` without else whose body is one return statement is printed on one line,
// `if h => return ...`.  The body of a function literal follows the line of the statement it occurs in,
// between `func [key](params)` and `end func`.
//
// What is deliberately NOT normalised: the order of two emitted statements (where a statement stands in the
// body is what a whole-body fact pins; the analyses in analyses.go are order-insensitive where the order cannot
// matter: reduce statements among themselves, dropped statements, literal fields, flag sets), and equivalent
// control-flow shapes (`if c { return a }; return b` against `if c { return a } else { return b }`).  Such an
// edit moves the skeleton: the tie theorem fails by name and the check reports `no-failing-input-found`
// unless its search finds a failing input.

import (
	"go/ast"
	"go/token"
	"sort"
	"strconv"
	"strings"
)

var lockNames = map[string]bool{"Lock": true, "Unlock": true, "RLock": true, "RUnlock": true}

// Identifiers are resolved by the parser's scope analysis (ast.Ident.Obj): two variables of the same name
// in different scopes are different objects, a renamed variable is the same object.
type env struct {
	fd    *ast.FuncDecl
	fixed map[*ast.Object]string // receiver, parameters, named results, variables declared `error`, parameters of literals
	vnum  map[*ast.Object]string
	next  int
}

func isErrorType(t ast.Expr) bool {
	id, ok := t.(*ast.Ident)
	return ok && id.Name == "error"
}

func newEnv(fd *ast.FuncDecl) *env {
	e := &env{fd: fd, fixed: map[*ast.Object]string{}, vnum: map[*ast.Object]string{}}
	fix := func(id *ast.Ident, c string) {
		if id != nil && id.Name != "_" && id.Obj != nil {
			e.fixed[id.Obj] = c
		}
	}
	if fd.Recv != nil {
		for _, f := range fd.Recv.List {
			for _, n := range f.Names {
				fix(n, "recv")
			}
		}
	}
	i := 0
	for _, f := range fd.Type.Params.List {
		if len(f.Names) == 0 {
			i++
		}
		for _, n := range f.Names {
			i++
			fix(n, "p"+strconv.Itoa(i))
		}
	}
	if fd.Type.Results != nil {
		i = 0
		for _, f := range fd.Type.Results.List {
			if len(f.Names) == 0 {
				i++
			}
			for _, n := range f.Names {
				i++
				if isErrorType(f.Type) {
					fix(n, "err")
				} else {
					fix(n, "r"+strconv.Itoa(i))
				}
			}
		}
	}
	if fd.Body == nil {
		return e
	}
	depth := 0
	var visit func(n ast.Node) bool
	visit = func(n ast.Node) bool {
		switch x := n.(type) {
		case *ast.ValueSpec:
			if x.Type != nil && isErrorType(x.Type) {
				for _, id := range x.Names {
					fix(id, "err")
				}
			}
		case *ast.FuncLit:
			// parameters of a function literal: a1 a2 ... by position (b1 ... one level deeper)
			depth++
			pre := string(rune('a' + (depth-1)%26))
			k := 0
			for _, f := range x.Type.Params.List {
				if len(f.Names) == 0 {
					k++
				}
				for _, id := range f.Names {
					k++
					fix(id, pre+strconv.Itoa(k))
				}
			}
			if x.Type.Results != nil {
				for _, f := range x.Type.Results.List {
					for _, id := range f.Names {
						if isErrorType(f.Type) {
							fix(id, "err")
						}
					}
				}
			}
			ast.Inspect(x.Body, visit)
			depth--
			return false
		}
		return true
	}
	ast.Inspect(fd.Body, visit)
	return e
}

func (e *env) ident(id *ast.Ident) string {
	o := id.Obj
	if o == nil || id.Name == "_" {
		return id.Name
	}
	if c, ok := e.fixed[o]; ok {
		return c
	}
	if (o.Kind == ast.Var || o.Kind == ast.Typ || o.Kind == ast.Con) && o.Pos() >= e.fd.Pos() && o.Pos() < e.fd.End() {
		if c, ok := e.vnum[o]; ok {
			return c
		}
		e.next++
		c := "v" + strconv.Itoa(e.next)
		e.vnum[o] = c
		return c
	}
	return id.Name
}

type printer struct {
	e     *env
	out   []string
	lits  []pendingLit            // function literals met while printing the current statement
	keep  func(ast.Stmt) bool     // nil = every statement; else only simple statements it accepts (flow mode)
	cond  func(ast.Expr) bool     // flow mode: which conditions are events
	onDef func(lhs, rhs ast.Expr) // flow mode: called for every single assignment before it is printed
}

type pendingLit struct {
	key string
	lit *ast.FuncLit
}

func isErrorCtor(fun string) bool {
	switch fun {
	case "goaterr.Errorf", "fmt.Errorf", "errors.New", "goaterr.NewError":
		return true
	}
	return false
}

func (p *printer) exprs(xs []ast.Expr) string {
	s := make([]string, len(xs))
	for i, x := range xs {
		s[i] = p.expr(x)
	}
	return strings.Join(s, ", ")
}

func (p *printer) expr(x ast.Expr) string {
	switch v := x.(type) {
	case nil:
		return ""
	case *ast.Ident:
		return p.e.ident(v)
	case *ast.BasicLit:
		return v.Value
	case *ast.SelectorExpr:
		return p.expr(v.X) + "." + v.Sel.Name
	case *ast.CallExpr:
		fun := p.expr(v.Fun)
		if isErrorCtor(fun) {
			return "error"
		}
		args := make([]string, len(v.Args))
		for i, a := range v.Args {
			args[i] = p.expr(a)
		}
		s := fun + "(" + strings.Join(args, ", ")
		if v.Ellipsis.IsValid() {
			s += "..."
		}
		return s + ")"
	case *ast.BinaryExpr:
		if v.Op == token.OR {
			// a | b | c is printed with its operands in alphabetical order (flag sets)
			var ops []string
			var flat func(x ast.Expr)
			flat = func(x ast.Expr) {
				if b, ok := x.(*ast.BinaryExpr); ok && b.Op == token.OR {
					flat(b.X)
					flat(b.Y)
				} else {
					ops = append(ops, p.expr(x))
				}
			}
			flat(v)
			sort.Strings(ops)
			return strings.Join(ops, " | ")
		}
		return p.expr(v.X) + " " + v.Op.String() + " " + p.expr(v.Y)
	case *ast.UnaryExpr:
		return v.Op.String() + p.expr(v.X)
	case *ast.StarExpr:
		return "*" + p.expr(v.X)
	case *ast.ParenExpr:
		return "(" + p.expr(v.X) + ")"
	case *ast.IndexExpr:
		return p.expr(v.X) + "[" + p.expr(v.Index) + "]"
	case *ast.SliceExpr:
		s := p.expr(v.X) + "[" + p.expr(v.Low) + ":" + p.expr(v.High)
		if v.Slice3 {
			s += ":" + p.expr(v.Max)
		}
		return s + "]"
	case *ast.TypeAssertExpr:
		if v.Type == nil {
			return p.expr(v.X) + ".(type)"
		}
		return p.expr(v.X) + ".(" + p.expr(v.Type) + ")"
	case *ast.CompositeLit:
		elts := make([]string, len(v.Elts))
		keyed := len(v.Elts) > 0
		for i, el := range v.Elts {
			if kv, ok := el.(*ast.KeyValueExpr); ok {
				k := ""
				if id, ok := kv.Key.(*ast.Ident); ok {
					k = id.Name // a field name (or a constant key): never renamed
				} else {
					k = p.expr(kv.Key)
					keyed = false
				}
				if fl, ok := kv.Value.(*ast.FuncLit); ok {
					p.lits = append(p.lits, pendingLit{k, fl})
					elts[i] = k + ": func"
				} else {
					elts[i] = k + ": " + p.expr(kv.Value)
				}
			} else {
				keyed = false
				elts[i] = p.expr(el)
			}
		}
		if keyed {
			sort.Strings(elts)
		}
		return p.expr(v.Type) + "{" + strings.Join(elts, ", ") + "}"
	case *ast.KeyValueExpr:
		return p.expr(v.Key) + ": " + p.expr(v.Value)
	case *ast.ArrayType:
		return "[" + p.expr(v.Len) + "]" + p.expr(v.Elt)
	case *ast.MapType:
		return "map[" + p.expr(v.Key) + "]" + p.expr(v.Value)
	case *ast.InterfaceType:
		return "interface{}"
	case *ast.StructType:
		return "struct{}"
	case *ast.FuncType:
		return "func()"
	case *ast.ChanType:
		return "chan " + p.expr(v.Value)
	case *ast.Ellipsis:
		return "..." + p.expr(v.Elt)
	case *ast.FuncLit:
		p.lits = append(p.lits, pendingLit{"", v})
		return "func"
	}
	return "?"
}

// simple statement as one string (assignments, expressions, ++/--, declarations with values)
func (p *printer) simple(s ast.Stmt) string {
	switch v := s.(type) {
	case nil:
		return ""
	case *ast.AssignStmt:
		if p.onDef != nil && len(v.Lhs) == len(v.Rhs) {
			for i := range v.Lhs {
				p.onDef(v.Lhs[i], v.Rhs[i])
			}
		}
		op := v.Tok.String()
		if v.Tok == token.DEFINE {
			op = "="
		}
		// right-hand sides first: Go evaluates them first, and the numbering of a local that is
		// defined here should not depend on whether it is mentioned on the right
		r := p.exprs(v.Rhs)
		return p.exprs(v.Lhs) + " " + op + " " + r
	case *ast.ExprStmt:
		return p.expr(v.X)
	case *ast.IncDecStmt:
		return p.expr(v.X) + v.Tok.String()
	case *ast.DeclStmt:
		gd, ok := v.Decl.(*ast.GenDecl)
		if !ok || gd.Tok != token.VAR {
			return ""
		}
		var parts []string
		for _, sp := range gd.Specs {
			vs := sp.(*ast.ValueSpec)
			if len(vs.Values) == 0 {
				continue
			}
			if p.onDef != nil && len(vs.Names) == len(vs.Values) {
				for i := range vs.Names {
					p.onDef(vs.Names[i], vs.Values[i])
				}
			}
			r := p.exprs(vs.Values)
			names := make([]string, len(vs.Names))
			for i, n := range vs.Names {
				names[i] = p.e.ident(n)
			}
			parts = append(parts, strings.Join(names, ", ")+" = "+r)
		}
		return strings.Join(parts, "; ")
	case *ast.SendStmt:
		return p.expr(v.Chan) + " <- " + p.expr(v.Value)
	}
	return "?stmt"
}

func callName(c *ast.CallExpr) (pkg, name string) {
	switch f := c.Fun.(type) {
	case *ast.SelectorExpr:
		if id, ok := f.X.(*ast.Ident); ok {
			pkg = id.Name
		}
		return pkg, f.Sel.Name
	case *ast.Ident:
		return "", f.Name
	}
	return "", ""
}

// statements that are not part of any fact of this family
func dropped(s ast.Stmt) bool {
	switch v := s.(type) {
	case *ast.ExprStmt:
		if c, ok := v.X.(*ast.CallExpr); ok {
			pkg, name := callName(c)
			if pkg == "verifhook" && name == "Yield" {
				return true
			}
			if _, sel := c.Fun.(*ast.SelectorExpr); sel && lockNames[name] && len(c.Args) == 0 {
				return true
			}
		}
	case *ast.DeferStmt:
		_, name := callName(v.Call)
		if _, sel := v.Call.Fun.(*ast.SelectorExpr); sel && lockNames[name] && len(v.Call.Args) == 0 {
			return true
		}
	case *ast.AssignStmt:
		if len(v.Lhs) == 1 {
			if se, ok := v.Lhs[0].(*ast.SelectorExpr); ok && se.Sel.Name == "time" {
				return true
			}
		}
	case *ast.DeclStmt:
		gd, ok := v.Decl.(*ast.GenDecl)
		if !ok {
			return true
		}
		if gd.Tok != token.VAR {
			return true // local types and constants
		}
		for _, sp := range gd.Specs {
			if len(sp.(*ast.ValueSpec).Values) > 0 {
				return false
			}
		}
		return true
	case *ast.EmptyStmt:
		return true
	}
	return false
}

func (p *printer) emit(line string) {
	p.out = append(p.out, line)
	p.flushLits()
}

func (p *printer) flushLits() {
	lits := p.lits
	p.lits = nil
	for _, pl := range lits {
		var ps []string
		for _, f := range pl.lit.Type.Params.List {
			for _, n := range f.Names {
				ps = append(ps, p.e.ident(n))
			}
		}
		head := "func"
		if pl.key != "" {
			head += " " + pl.key
		}
		p.out = append(p.out, head+"("+strings.Join(ps, ", ")+")")
		p.block(pl.lit.Body.List)
		p.out = append(p.out, "end func")
	}
}

func (p *printer) block(list []ast.Stmt) {
	for _, s := range list {
		p.stmt(s)
	}
}

func (p *printer) header(init ast.Stmt, cond ast.Expr) string {
	h := ""
	if init != nil {
		h = p.simple(init) + "; "
	}
	return h + p.expr(cond)
}

func (p *printer) ret(v *ast.ReturnStmt) string {
	if len(v.Results) == 0 {
		return "return"
	}
	return "return " + p.exprs(v.Results)
}

func (p *printer) stmt(s ast.Stmt) {
	if dropped(s) {
		return
	}
	flow := p.keep != nil
	switch v := s.(type) {
	case *ast.BlockStmt:
		p.block(v.List)
	case *ast.IfStmt:
		if flow {
			if v.Init != nil {
				p.stmt(v.Init)
			}
			if p.cond(v.Cond) {
				p.emit("if " + p.expr(v.Cond))
			}
			p.block(v.Body.List)
			if v.Else != nil {
				p.stmt(v.Else)
			}
			return
		}
		if v.Else == nil && len(v.Body.List) == 1 {
			if r, ok := v.Body.List[0].(*ast.ReturnStmt); ok {
				h := p.header(v.Init, v.Cond)
				p.emit("if " + h + " => " + p.ret(r))
				return
			}
		}
		p.emit("if " + p.header(v.Init, v.Cond))
		p.block(v.Body.List)
		if v.Else != nil {
			p.emit("else")
			p.stmt(v.Else)
		}
		p.emit("end")
	case *ast.ForStmt:
		if flow {
			if v.Init != nil {
				p.stmt(v.Init)
			}
			if v.Cond != nil && p.cond(v.Cond) {
				p.emit("for " + p.expr(v.Cond))
			}
			p.block(v.Body.List)
			return
		}
		h := p.simple(v.Init) + "; " + p.expr(v.Cond) + "; " + p.simple(v.Post)
		p.emit("for " + h)
		p.block(v.Body.List)
		p.emit("end")
	case *ast.RangeStmt:
		if flow {
			if p.cond(v.X) {
				p.emit("range " + p.expr(v.X))
			}
			p.block(v.Body.List)
			return
		}
		x := p.expr(v.X)
		k, val := "_", "_"
		if v.Key != nil {
			k = p.expr(v.Key)
		}
		if v.Value != nil {
			val = p.expr(v.Value)
		}
		p.emit("range " + k + ", " + val + " = " + x)
		p.block(v.Body.List)
		p.emit("end")
	case *ast.SwitchStmt:
		if flow {
			p.block(v.Body.List)
			return
		}
		p.emit("switch " + p.header(v.Init, v.Tag))
		p.block(v.Body.List)
		p.emit("end")
	case *ast.TypeSwitchStmt:
		if flow {
			p.block(v.Body.List)
			return
		}
		p.emit("switch " + p.simple(v.Assign))
		p.block(v.Body.List)
		p.emit("end")
	case *ast.CaseClause:
		if !flow {
			if v.List == nil {
				p.emit("default")
			} else {
				p.emit("case " + p.exprs(v.List))
			}
		}
		p.block(v.Body)
	case *ast.SelectStmt:
		if !flow {
			p.emit("select")
		}
		p.block(v.Body.List)
		if !flow {
			p.emit("end")
		}
	case *ast.CommClause:
		if !flow {
			if v.Comm == nil {
				p.emit("default")
			} else {
				p.emit("case " + p.simple(v.Comm))
			}
		}
		p.block(v.Body)
	case *ast.LabeledStmt:
		p.stmt(v.Stmt)
	case *ast.ReturnStmt:
		if flow && !p.keep(s) {
			return
		}
		p.emit(p.ret(v))
	case *ast.DeferStmt:
		if flow && !p.keep(s) {
			return
		}
		p.emit("defer " + p.expr(v.Call))
	case *ast.GoStmt:
		if flow && !p.keep(s) {
			return
		}
		p.emit("go " + p.expr(v.Call))
	case *ast.BranchStmt:
		if flow {
			return
		}
		l := v.Tok.String()
		if v.Label != nil {
			l += " " + v.Label.Name
		}
		p.emit(l)
	case *ast.DeclStmt:
		// one line per `name = value` of a var block
		gd := v.Decl.(*ast.GenDecl)
		for _, sp := range gd.Specs {
			if len(sp.(*ast.ValueSpec).Values) == 0 {
				continue
			}
			one := &ast.DeclStmt{Decl: &ast.GenDecl{Tok: token.VAR, Specs: []ast.Spec{sp}}}
			if flow && !p.keep(one) {
				continue
			}
			p.emit(p.simple(one))
		}
	default:
		if flow && !p.keep(s) {
			return
		}
		p.emit(p.simple(s))
	}
}

// full canonical body
func canonBody(fd *ast.FuncDecl) []string {
	p := &printer{e: newEnv(fd)}
	p.block(fd.Body.List)
	return p.out
}
