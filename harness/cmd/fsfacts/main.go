// fsfacts — the structural tie of the filesystem family (properties C01-C04, DESIGN 1.4).
//
//	fsfacts facts <C01|C02|C03|C04>    print the Lean file Goat/Tie/ExtractedFS<Cxx>.lean
//
// Reads the Go sources of the repository under test ($VERIF_REPO, default /repo) with go/parser and
// prints, as Lean `List String` data, normal forms of the functions the Lean models of the property
// mirror (see canon.go and analyses.go for the normal forms).  The hand-written expectations and the
// theorems `tie_* : Extracted... = expected := by decide` are in Goat/Tie/FS<Cxx>.lean.
//
// Standard library only (go/ast, go/parser, go/token); the goatcore packages are never imported, so the
// command builds and runs whatever state the repository under test is in.  The tie is syntactic and is
// trusted as such: it sees the text of the functions it is pointed at, not what they call.
package main

import (
	"fmt"
	"go/ast"
	"go/parser"
	"go/token"
	"os"
	"path/filepath"
	"sort"
	"strconv"
	"strings"
)

var repo = "/repo"

type pkg struct {
	dir   string
	files []*ast.File
}

var pkgCache = map[string]*pkg{}

// all non-test Go files of a directory of the repository under test
func load(dir string) *pkg {
	if p, ok := pkgCache[dir]; ok {
		return p
	}
	p := &pkg{dir: dir}
	full := filepath.Join(repo, dir)
	ents, err := os.ReadDir(full)
	if err != nil {
		fmt.Fprintln(os.Stderr, "fsfacts:", err)
		os.Exit(3)
	}
	fset := token.NewFileSet()
	var names []string
	for _, e := range ents {
		n := e.Name()
		if e.IsDir() || !strings.HasSuffix(n, ".go") || strings.HasSuffix(n, "_test.go") {
			continue
		}
		names = append(names, n)
	}
	sort.Strings(names)
	for _, n := range names {
		f, err := parser.ParseFile(fset, filepath.Join(full, n), nil, 0)
		if err != nil {
			fmt.Fprintln(os.Stderr, "fsfacts:", err)
			os.Exit(3)
		}
		p.files = append(p.files, f)
	}
	pkgCache[dir] = p
	return p
}

func recvName(fd *ast.FuncDecl) string {
	if fd.Recv == nil || len(fd.Recv.List) != 1 {
		return ""
	}
	t := fd.Recv.List[0].Type
	if s, ok := t.(*ast.StarExpr); ok {
		t = s.X
	}
	if id, ok := t.(*ast.Ident); ok {
		return id.Name
	}
	return "?"
}

func (p *pkg) fn(recv, name string) *ast.FuncDecl {
	for _, f := range p.files {
		for _, d := range f.Decls {
			if fd, ok := d.(*ast.FuncDecl); ok && fd.Body != nil && fd.Name.Name == name && recvName(fd) == recv {
				return fd
			}
		}
	}
	return nil
}

// every method of the type that has at least one string parameter, by name
func (p *pkg) pathMethods(recv string) []*ast.FuncDecl {
	var res []*ast.FuncDecl
	for _, f := range p.files {
		for _, d := range f.Decls {
			fd, ok := d.(*ast.FuncDecl)
			if !ok || fd.Body == nil || recvName(fd) != recv {
				continue
			}
			for _, fl := range fd.Type.Params.List {
				if isStringType(fl.Type) && len(fl.Names) > 0 {
					res = append(res, fd)
					break
				}
			}
		}
	}
	sort.Slice(res, func(i, j int) bool { return res[i].Name.Name < res[j].Name.Name })
	return res
}

// ---------------------------------------------------------------------------------------- fact kinds

type fact struct {
	lean string
	doc  string
	get  func() []string
}

func missing(recv, name string) []string {
	if recv != "" {
		name = recv + "." + name
	}
	return []string{"missing " + name}
}

func full(dir, recv, name string) func() []string {
	return func() []string {
		fd := load(dir).fn(recv, name)
		if fd == nil {
			return missing(recv, name)
		}
		return canonBody(fd)
	}
}

func flow(dir, recv, name string) func() []string {
	return func() []string {
		fd := load(dir).fn(recv, name)
		if fd == nil {
			return missing(recv, name)
		}
		return flowBody(fd)
	}
}

func reduceTable(dir, recv string) func() []string {
	return func() []string {
		var res []string
		for _, fd := range load(dir).pathMethods(recv) {
			r, _ := discipline(fd)
			res = append(res, r)
		}
		if res == nil {
			return missing(recv, "*")
		}
		return res
	}
}

func tailTable(dir, recv string) func() []string {
	return func() []string {
		var res []string
		for _, fd := range load(dir).pathMethods(recv) {
			_, t := discipline(fd)
			res = append(res, t...)
		}
		if res == nil {
			return missing(recv, "*")
		}
		return res
	}
}

const (
	memfs   = "filesystem/filespace/memfs"
	diskfs  = "filesystem/filespace/diskfs"
	disk    = "filesystem/disk"
	helper  = "filesystem/fshelper"
	encfs   = "filesystem/filespace/encryptfs"
	fscache = "filesystem/fscache"
	varutil = "varutil"
)

var (
	fReduceAbsPath = fact{"reduceAbsPath", "varutil.ReduceAbsPath (paths.go), whole body", full(varutil, "", "ReduceAbsPath")}

	fWrapperReduce = fact{"wrapperReduce", "memfs.FilespaceWrapper (wraper.go): path discipline of every method", reduceTable(memfs, "FilespaceWrapper")}
	fWrapperTail   = fact{"wrapperTail", "memfs.FilespaceWrapper: every method after its reduce statements", tailTable(memfs, "FilespaceWrapper")}
	fWrapperCtor   = fact{"newFilespaceWrapper", "memfs.NewFilespaceWrapper, whole body", full(memfs, "", "NewFilespaceWrapper")}

	fDiskfsReduce = fact{"diskfsReduce", "diskfs.Filespace (filespace.go): path discipline of every method", reduceTable(diskfs, "Filespace")}
	fDiskfsTail   = fact{"diskfsTail", "diskfs.Filespace: every method after its reduce statements", tailTable(diskfs, "Filespace")}
	fDiskFlags    = fact{"diskOpenFlags", "the flag set of every os.OpenFile call in package diskfs", func() []string { return openFlags(load(diskfs).files) }}
	fDiskClose    = fact{"diskHandlerClose", "diskfs.FileHandler.Close (handler.go), whole body", full(diskfs, "FileHandler", "Close")}

	fHandlerWrite = fact{"handlerWrite", "memfs.FileHandler.Write (file_handler.go), whole body", full(memfs, "FileHandler", "Write")}
	fHandlerRead  = fact{"handlerRead", "memfs.FileHandler.Read, whole body", full(memfs, "FileHandler", "Read")}
	fWriterFlow   = fact{"memWriterFlow", "memfs.Filespace.Writer (filespace.go): slice events", flow(memfs, "Filespace", "Writer")}
)

func factsOf(prop string) []fact {
	switch prop {
	case "C01":
		return []fact{
			{"getData", "memfs.File.getData (file.go), whole body", full(memfs, "File", "getData")},
			{"setData", "memfs.File.setData, whole body", full(memfs, "File", "setData")},
			{"getNodes", "memfs.Dir.getNodes (dir.go), whole body", full(memfs, "Dir", "getNodes")},
			{"copyFile", "memfs.copyFile (copy.go), whole body", full(memfs, "", "copyFile")},
			{"copyDir", "memfs.copyDir, whole body", full(memfs, "", "copyDir")},
			fHandlerWrite,
			fHandlerRead,
			{"writeFileFlow", "memfs.Filespace.WriteFile (filespace.go): slice events", flow(memfs, "Filespace", "WriteFile")},
			fWriterFlow,
			{"readFileFlow", "memfs.Filespace.ReadFile: slice events", flow(memfs, "Filespace", "ReadFile")},
			{"readDirFlow", "memfs.Filespace.ReadDir: slice events", flow(memfs, "Filespace", "ReadDir")},
			{"addNodeFlow", "memfs.Dir.addNode: slice events", flow(memfs, "Dir", "addNode")},
			{"mkdirFlow", "memfs.Dir.mkdir: slice events", flow(memfs, "Dir", "mkdir")},
			{"removeNodeByName", "memfs.Dir.removeNodeByName, whole body", full(memfs, "Dir", "removeNodeByName")},
			{"newFile", "memfs.NewFile, whole body", full(memfs, "", "NewFile")},
			{"newDir", "memfs.NewDir, whole body", full(memfs, "", "NewDir")},
			{"dataTouchers", "the functions of package memfs that mention the field `data`", func() []string { return census(load(memfs).files, "data") }},
			{"nodesTouchers", "the functions of package memfs that mention the field `nodes`", func() []string { return census(load(memfs).files, "nodes") }},
			{"rootReduce", "memfs.Filespace (filespace.go): path discipline of every method", reduceTable(memfs, "Filespace")},
			fWrapperReduce, fWrapperTail, fWrapperCtor,
			fReduceAbsPath,
		}
	case "C02":
		return []fact{
			fDiskfsReduce, fDiskfsTail, fDiskFlags, fDiskClose,
			{"diskNewFilespace", "diskfs.NewFilespace, whole body", full(diskfs, "", "NewFilespace")},
			{"diskCopy", "disk.Copy (copy.go), whole body", full(disk, "", "Copy")},
			{"diskCopyDirectory", "disk.CopyDirectory, whole body", full(disk, "", "CopyDirectory")},
			{"diskCopyFile", "disk.CopyFile, whole body", full(disk, "", "CopyFile")},
			{"diskIsExist", "disk.IsExist (disk.go), whole body", full(disk, "", "IsExist")},
			{"diskIsDir", "disk.IsDir, whole body", full(disk, "", "IsDir")},
			{"diskIsFile", "disk.IsFile, whole body", full(disk, "", "IsFile")},
			{"diskMkdirAll", "disk.MkdirAll, whole body", full(disk, "", "MkdirAll")},
			fReduceAbsPath,
		}
	case "C03":
		return []fact{
			fWrapperReduce, fWrapperTail, fWrapperCtor,
			{"subfsReduce", "fshelper.SubFS (subfs.go): path discipline of every method", reduceTable(helper, "SubFS")},
			{"subfsTail", "fshelper.SubFS: every method after its reduce statements", tailTable(helper, "SubFS")},
			{"newSubFS", "fshelper.NewSubFS, whole body", full(helper, "", "NewSubFS")},
			fDiskfsReduce, fDiskfsTail,
			{"rofsReduce", "fshelper.ROFilespace (rofs.go): what every method does with its path parameters", reduceTable(helper, "ROFilespace")},
			{"rofsTail", "fshelper.ROFilespace: every method", tailTable(helper, "ROFilespace")},
			{"newReadonlyFS", "fshelper.NewReadonlyFS, whole body", full(helper, "", "NewReadonlyFS")},
			{"cacheFilespace", "fscache.Cache.Filespace (cache.go), whole body", full(fscache, "Cache", "Filespace")},
			{"encryptReduce", "encryptfs.EncryptFS (filespace.go): what every method does with its path parameters", reduceTable(encfs, "EncryptFS")},
			{"encryptTail", "encryptfs.EncryptFS: every method", tailTable(encfs, "EncryptFS")},
			fReduceAbsPath,
		}
	case "C04":
		return []fact{
			{"streamCopy", "fshelper.StreamCopy (main.go), whole body", full(helper, "", "StreamCopy")},
			{"copierCopyFile", "fshelper.Copier.copyFile (copier.go), whole body", full(helper, "Copier", "copyFile")},
			{"copierDo", "fshelper.Copier.Do, whole body", full(helper, "Copier", "Do")},
			{"copierCopyDirectory", "fshelper.Copier.copyDirectory, whole body", full(helper, "Copier", "copyDirectory")},
			{"treeCopy", "fshelper.Copy (copy.go), whole body with its two callbacks", full(helper, "", "Copy")},
			fWriterFlow, fHandlerWrite, fHandlerRead,
			{"handlerClose", "memfs.FileHandler.Close, whole body", full(memfs, "FileHandler", "Close")},
			fDiskFlags, fDiskClose,
		}
	}
	return nil
}

// Lean string literal (ASCII only; everything else escaped)
func leanString(s string) string {
	return strconv.QuoteToASCII(s)
}

func main() {
	if len(os.Args) != 3 || os.Args[1] != "facts" {
		fmt.Fprintln(os.Stderr, "usage: fsfacts facts <C01|C02|C03|C04>")
		os.Exit(3)
	}
	if r := os.Getenv("VERIF_REPO"); r != "" {
		repo = r
	}
	prop := os.Args[2]
	fs := factsOf(prop)
	if fs == nil {
		fmt.Fprintln(os.Stderr, "fsfacts: no facts for", prop)
		os.Exit(3)
	}
	var b strings.Builder
	fmt.Fprintf(&b, "/- GENERATED by `harness/cmd/fsfacts facts %s` (go/ast) from the Go sources of the repository under\n", prop)
	b.WriteString("test: normal forms of the functions the Lean models of this property mirror (harness/cmd/fsfacts/canon.go\n")
	b.WriteString("and analyses.go define them).  Compared with the models' assumptions in Goat/Tie/FS" + prop + ".lean.  Do not edit. -/\n")
	fmt.Fprintf(&b, "namespace Goat.Tie.ExtractedFS%s\n", prop)
	for _, f := range fs {
		lines := f.get()
		fmt.Fprintf(&b, "\n/-- %s -/\ndef %s : List String := [", f.doc, f.lean)
		for i, l := range lines {
			if i > 0 {
				b.WriteString(",")
			}
			b.WriteString("\n  " + leanString(l))
		}
		b.WriteString("]\n")
	}
	fmt.Fprintf(&b, "\nend Goat.Tie.ExtractedFS%s\n", prop)
	os.Stdout.WriteString(b.String())
}
