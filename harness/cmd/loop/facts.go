package main

// go/ast facts about the synchronisation skeleton of fsloop (DESIGN 1.4): for each modelled
// function the ordered list of the calls / channel operations that the model's atomic actions
// correspond to, emitted as Lean data (module Goat.Tie.ExtractedC08) and compared with the model's
// expectations by `decide` in Goat/Tie/C08.lean.  verifhook.Yield call sites are skipped.

import (
	"bytes"
	"fmt"
	"go/ast"
	"go/parser"
	"go/printer"
	"go/token"
	"os"
	"path/filepath"
	"sort"
	"strings"
)

// ---- control skeleton: the body of a function as a list of lines, one per statement head, with the
// nesting made explicit ("{" / "}" / "} else {"), expressions printed by go/printer, comments and
// verifhook.Yield call sites dropped.  This pins WHERE the kill flag is tested, that every callback /
// listing error reaches lifecycle.Error on every path, and what Wait waits for.

func src(fset *token.FileSet, n ast.Node) string {
	var b bytes.Buffer
	printer.Fprint(&b, fset, n)
	return strings.Join(strings.Fields(b.String()), " ")
}

func isYield(s ast.Stmt) bool {
	var call *ast.CallExpr
	switch x := s.(type) {
	case *ast.ExprStmt:
		call, _ = x.X.(*ast.CallExpr)
	case *ast.DeferStmt:
		call = x.Call
	}
	return call != nil && exprStr(call.Fun) == "verifhook.Yield"
}

func ctl(fset *token.FileSet, stmts []ast.Stmt, out *[]string) {
	emit := func(s string) { *out = append(*out, s) }
	for _, st := range stmts {
		if isYield(st) {
			continue
		}
		switch x := st.(type) {
		case *ast.IfStmt:
			for cur := x; ; {
				h := "if "
				if cur.Init != nil {
					h += src(fset, cur.Init) + "; "
				}
				emit(h + src(fset, cur.Cond) + " {")
				ctl(fset, cur.Body.List, out)
				if cur.Else == nil {
					emit("}")
					break
				}
				if e, ok := cur.Else.(*ast.IfStmt); ok {
					emit("} else")
					cur = e
					continue
				}
				emit("} else {")
				ctl(fset, cur.Else.(*ast.BlockStmt).List, out)
				emit("}")
				break
			}
		case *ast.ForStmt:
			h := "for"
			if x.Init != nil || x.Cond != nil || x.Post != nil {
				h += " " + src(fset, &ast.ForStmt{Init: x.Init, Cond: x.Cond, Post: x.Post, Body: &ast.BlockStmt{}})
				h = strings.TrimSuffix(strings.TrimSuffix(h, "{ }"), "{}")
				h = strings.TrimSpace(strings.TrimPrefix(h, "for for"))
				h = "for " + h
			}
			emit(strings.TrimSpace(h) + " {")
			ctl(fset, x.Body.List, out)
			emit("}")
		case *ast.RangeStmt:
			h := "for "
			if x.Key != nil {
				h += src(fset, x.Key)
				if x.Value != nil {
					h += ", " + src(fset, x.Value)
				}
				h += " " + x.Tok.String() + " "
			}
			emit(h + "range " + src(fset, x.X) + " {")
			ctl(fset, x.Body.List, out)
			emit("}")
		case *ast.SelectStmt:
			emit("select {")
			for _, c := range x.Body.List {
				cc := c.(*ast.CommClause)
				if cc.Comm == nil {
					emit("default:")
				} else {
					emit("case " + src(fset, cc.Comm) + ":")
				}
				ctl(fset, cc.Body, out)
			}
			emit("}")
		case *ast.BlockStmt:
			emit("{")
			ctl(fset, x.List, out)
			emit("}")
		case *ast.GoStmt:
			if _, ok := x.Call.Fun.(*ast.FuncLit); ok {
				emit("go func")
			} else {
				emit(src(fset, x))
			}
		default:
			emit(src(fset, st))
		}
	}
}

func ctlOf(fset *token.FileSet, f *ast.File, recv, name string) []string {
	fd := findFunc(f, recv, name)
	if fd == nil || fd.Body == nil {
		return []string{"missing"}
	}
	var out []string
	ctl(fset, fd.Body.List, &out)
	return out
}

func exprStr(e ast.Expr) string {
	switch x := e.(type) {
	case *ast.Ident:
		return x.Name
	case *ast.SelectorExpr:
		return exprStr(x.X) + "." + x.Sel.Name
	case *ast.CallExpr:
		return exprStr(x.Fun) + "()"
	case *ast.FuncLit:
		return "func"
	case *ast.ParenExpr:
		return exprStr(x.X)
	}
	return "?"
}

func lastSel(e ast.Expr) string {
	s := exprStr(e)
	if i := strings.LastIndexByte(s, '.'); i >= 0 {
		return s[i+1:]
	}
	return s
}

type ev struct {
	pos token.Pos
	s   string
}

// skeleton lists, in source order, the calls and channel operations of a body; the bodies of
// function literals are not entered (they are listed separately).
func skeleton(body *ast.BlockStmt) []string {
	var evs []ev
	prefix := map[*ast.CallExpr]string{}
	ast.Inspect(body, func(n ast.Node) bool {
		switch x := n.(type) {
		case *ast.FuncLit:
			return false
		case *ast.DeferStmt:
			prefix[x.Call] = "defer "
		case *ast.GoStmt:
			prefix[x.Call] = "go "
		case *ast.CallExpr:
			name := exprStr(x.Fun)
			if name == "verifhook.Yield" {
				return true
			}
			if (name == "len" || name == "close") && len(x.Args) == 1 {
				name = name + ":" + lastSel(x.Args[0])
			}
			evs = append(evs, ev{x.Pos(), prefix[x] + name})
		case *ast.UnaryExpr:
			if x.Op == token.ARROW {
				evs = append(evs, ev{x.Pos(), "recv:" + lastSel(x.X)})
			}
		case *ast.SendStmt:
			evs = append(evs, ev{x.Pos(), "send:" + lastSel(x.Chan)})
		}
		return true
	})
	sort.SliceStable(evs, func(i, j int) bool { return evs[i].pos < evs[j].pos })
	res := make([]string, len(evs))
	for i, e := range evs {
		res[i] = e.s
	}
	return res
}

func findFunc(f *ast.File, recv, name string) *ast.FuncDecl {
	for _, d := range f.Decls {
		fd, ok := d.(*ast.FuncDecl)
		if !ok || fd.Name.Name != name {
			continue
		}
		if recv == "" && fd.Recv == nil {
			return fd
		}
		if fd.Recv != nil && len(fd.Recv.List) == 1 {
			t := fd.Recv.List[0].Type
			if s, ok := t.(*ast.StarExpr); ok {
				t = s.X
			}
			if id, ok := t.(*ast.Ident); ok && id.Name == recv {
				return fd
			}
		}
	}
	return nil
}

func leanList(xs []string) string {
	q := make([]string, len(xs))
	for i, x := range xs {
		q[i] = fmt.Sprintf("%q", x)
	}
	return "[" + strings.Join(q, ", ") + "]"
}

func facts() {
	repo := os.Getenv("VERIF_REPO")
	if repo == "" {
		repo = "/repo"
	}
	fset := token.NewFileSet()
	parse := func(name string) *ast.File {
		f, err := parser.ParseFile(fset, filepath.Join(repo, "filesystem", "fsloop", name), nil, 0)
		if err != nil {
			fmt.Fprintln(os.Stderr, err)
			os.Exit(3)
		}
		return f
	}
	get := func(f *ast.File, recv, name string) []string {
		fd := findFunc(f, recv, name)
		if fd == nil || fd.Body == nil {
			return []string{"missing"}
		}
		return skeleton(fd.Body)
	}
	cons, loop, prod := parse("consumer.go"), parse("loop.go"), parse("producer.go")
	// the completion goroutine: the (only) function literal started with `go` in Loop.Run
	closer := []string{"missing"}
	if fd := findFunc(loop, "Loop", "Run"); fd != nil {
		ast.Inspect(fd.Body, func(n ast.Node) bool {
			if g, ok := n.(*ast.GoStmt); ok {
				if fl, ok := g.Call.Fun.(*ast.FuncLit); ok {
					closer = skeleton(fl.Body)
				}
			}
			return true
		})
	}
	fmt.Println("/- GENERATED by `harness/cmd/loop facts` from filesystem/fsloop/{consumer,loop,producer}.go — do not edit -/")
	fmt.Println("namespace Goat.Tie.ExtractedC08")
	fmt.Printf("def consumerLoop : List String := %s\n", leanList(get(cons, "Consumer", "Loop")))
	fmt.Printf("def loopRun : List String := %s\n", leanList(get(loop, "Loop", "Run")))
	fmt.Printf("def closer : List String := %s\n", leanList(closer))
	fmt.Printf("def loopWait : List String := %s\n", leanList(get(loop, "Loop", "Wait")))
	fmt.Printf("def producerLoop : List String := %s\n", leanList(get(prod, "Producer", "Loop")))
	fmt.Printf("def processList : List String := %s\n", leanList(get(prod, "Producer", "processList")))
	fmt.Printf("def processDir : List String := %s\n", leanList(get(prod, "Producer", "processDir")))
	fmt.Printf("def processFile : List String := %s\n", leanList(get(prod, "Producer", "processFile")))
	// control skeletons (kill tests, error reporting, Wait, the lifecycle)
	lcf, err := parser.ParseFile(fset, filepath.Join(repo, "workers", "jobsync", "lifecycle.go"), nil, 0)
	if err != nil {
		fmt.Fprintln(os.Stderr, err)
		os.Exit(3)
	}
	fmt.Printf("def consumerBody : List String := %s\n", leanList(ctlOf(fset, cons, "Consumer", "Loop")))
	fmt.Printf("def producerLoopBody : List String := %s\n", leanList(ctlOf(fset, prod, "Producer", "Loop")))
	fmt.Printf("def processListBody : List String := %s\n", leanList(ctlOf(fset, prod, "Producer", "processList")))
	fmt.Printf("def processDirBody : List String := %s\n", leanList(ctlOf(fset, prod, "Producer", "processDir")))
	fmt.Printf("def processFileBody : List String := %s\n", leanList(ctlOf(fset, prod, "Producer", "processFile")))
	fmt.Printf("def waitBody : List String := %s\n", leanList(ctlOf(fset, loop, "Loop", "Wait")))
	fmt.Printf("def killSlotBody : List String := %s\n", leanList(ctlOf(fset, loop, "Loop", "KillSlot")))
	fmt.Printf("def errorsBody : List String := %s\n", leanList(ctlOf(fset, loop, "Loop", "Errors")))
	// Loop.Run: how the lifecycle is created and which scope events reach KillSlot
	runLc := []string{}
	if fd := findFunc(loop, "Loop", "Run"); fd != nil {
		ast.Inspect(fd.Body, func(n ast.Node) bool {
			if c, ok := n.(*ast.CallExpr); ok {
				switch exprStr(c.Fun) {
				case "jobsync.NewLifecycle", "loop.scope.On":
					runLc = append(runLc, src(fset, c))
				}
			}
			return true
		})
	}
	fmt.Printf("def runLifecycle : List String := %s\n", leanList(runLc))
	fmt.Printf("def lcError : List String := %s\n", leanList(ctlOf(fset, lcf, "Lifecycle", "Error")))
	fmt.Printf("def lcKill : List String := %s\n", leanList(ctlOf(fset, lcf, "Lifecycle", "Kill")))
	fmt.Printf("def lcIsKilled : List String := %s\n", leanList(ctlOf(fset, lcf, "Lifecycle", "IsKilled")))
	fmt.Printf("def lcErrors : List String := %s\n", leanList(ctlOf(fset, lcf, "Lifecycle", "Errors")))
	fmt.Printf("def lcNew : List String := %s\n", leanList(ctlOf(fset, lcf, "", "NewLifecycle")))
	// the constants the model's capacities and deadline stand for
	consts := []string{}
	for _, spec := range []struct{ file, name string }{{"filesystem/fsloop/main.go", "ChanSize"}, {"filesystem/fsloop/main.go", "StepClose"}, {"workers/main.go", "DefaultTimeout"}} {
		cf, err := parser.ParseFile(fset, filepath.Join(repo, spec.file), nil, 0)
		if err != nil {
			consts = append(consts, spec.name+"=missing")
			continue
		}
		val := "missing"
		ast.Inspect(cf, func(n ast.Node) bool {
			if vs, ok := n.(*ast.ValueSpec); ok {
				for i, id := range vs.Names {
					if id.Name == spec.name && i < len(vs.Values) {
						val = src(fset, vs.Values[i])
					}
				}
			}
			return true
		})
		consts = append(consts, spec.name+"="+val)
	}
	fmt.Printf("def consts : List String := %s\n", leanList(consts))
	fmt.Println("end Goat.Tie.ExtractedC08")
}
