// Command loop is the implementation side of property C08 (filesystem/fsloop).
//
//	loop drive            case lines on stdin -> one result line per case (same format as m_loop):
//	                      gated schedule replay of the REAL fsloop; goroutines park at the verifhook
//	                      yield points (consumer top / gap / exit, closer waited / announced / closed),
//	                      inside the callbacks and — the single producer — before every ReadDir and
//	                      filter call, and are released one at a time in the order of the schedule; the
//	                      environment acts of the schedule are injected between tokens: x = scope Kill
//	                      event, e = scope Error event (eventscope.Trigger -> Loop.KillSlot), t = the
//	                      lifecycle's deadline (the private context is swapped for an expired one);
//	                      w probes Loop.Wait (called on its own goroutine right after Run), D drains
//	                      deterministically; the comparison with the model goes on after a kill
//	loop gen <n>          n seeded case lines (random trees, filters, schedules + adversarial and kill families)
//	loop stress <quick|thorough>   ungated stress over tree shapes, limits 1..16, GOMAXPROCS, random scope events
//	loop lifecycle        the real jobsync.Lifecycle API against what the model's lifecycle transitions assume
//	loop users <n>        the two real users: fshelper.Copy (Consumers: 1) and fsi18loader.Load
//	loop facts            go/ast facts about Consumer.Loop and the closer as Lean data (see facts.go)
package main

import (
	"bufio"
	"bytes"
	"context"
	"fmt"
	"os"
	"reflect"
	"runtime"
	"sort"
	"strconv"
	"strings"
	"sync"
	"sync/atomic"
	"time"
	"unsafe"

	"gcverif/internal/hx"

	"github.com/goatcms/goatcore/app"
	"github.com/goatcms/goatcore/app/scope/eventscope"
	"github.com/goatcms/goatcore/filesystem"
	"github.com/goatcms/goatcore/filesystem/filespace/memfs"
	"github.com/goatcms/goatcore/filesystem/fsloop"
	"github.com/goatcms/goatcore/verifhook"
	"github.com/goatcms/goatcore/workers/jobsync"
)

// FS is the alias needed to embed the interface (it has a method named Filespace).
type FS = filesystem.Filespace

// ---------------------------------------------------------------------------------------------
// trees and the specification of the walk (computed independently of fsloop)

type node struct {
	name     string
	dir      bool
	listable bool
	kids     []*node
}

func parseNode(s string, i int) (*node, int, bool) {
	if i >= len(s) {
		return nil, i, false
	}
	switch {
	case s[i] == 'f':
		return &node{}, i + 1, true
	case (s[i] == 'd' || s[i] == 'x') && i+1 < len(s) && s[i+1] == '(':
		n := &node{dir: true, listable: s[i] == 'd'}
		i += 2
		for {
			if i >= len(s) {
				return nil, i, false
			}
			if s[i] == ')' {
				return n, i + 1, true
			}
			if s[i] == ',' {
				i++
				continue
			}
			j := strings.IndexByte(s[i:], ':')
			if j < 0 {
				return nil, i, false
			}
			name := s[i : i+j]
			k, ni, ok := parseNode(s, i+j+1)
			if !ok {
				return nil, ni, false
			}
			k.name = name
			n.kids = append(n.kids, k)
			i = ni
		}
	}
	return nil, i, false
}

func (n *node) encode(b *strings.Builder) {
	if !n.dir {
		b.WriteByte('f')
		return
	}
	if n.listable {
		b.WriteString("d(")
	} else {
		b.WriteString("x(")
	}
	for i, k := range n.kids {
		if i > 0 {
			b.WriteByte(',')
		}
		b.WriteString(k.name)
		b.WriteByte(':')
		k.encode(b)
	}
	b.WriteByte(')')
}

type walkCfg struct {
	ff, df        func(string) bool // accept predicates; nil = no filter configured
	onFile, onDir bool
}

func (c *walkCfg) accF(p string) bool { return c.ff == nil || c.ff(p) }
func (c *walkCfg) accD(p string) bool { return c.df == nil || c.df(p) }

// selectedOf: "every file and every directory that passes the filters, descending only into
// accepted (and listable) directories"; items are "d<path>" / "f<path>".
func selectedOf(c *walkCfg, root string, r *node) (sel []string, listFails []string) {
	var rec func(base string, n *node)
	rec = func(base string, n *node) {
		for _, k := range n.kids {
			if k.name == "." || k.name == ".." {
				continue
			}
			p := base + k.name
			if k.dir {
				if !c.accD(p) {
					continue
				}
				if c.onDir {
					sel = append(sel, "d"+p)
				}
				if k.listable {
					rec(p+"/", k)
				} else {
					listFails = append(listFails, p)
				}
			} else if c.onFile && c.accF(p) {
				sel = append(sel, "f"+p)
			}
		}
	}
	if r.listable {
		rec(root, r)
	} else {
		listFails = append(listFails, root)
	}
	sort.Strings(sel)
	return
}

// ---------------------------------------------------------------------------------------------
// the gate scheduler

type slot struct {
	point string
	rel   chan struct{}
}

type sched struct {
	mu       sync.Mutex
	cond     *sync.Cond
	free     bool
	cur      map[string]*slot
	gids     map[int64]string
	nextCons int
	kClosed  bool
	kSeen    bool // the closer has passed producerPool.Wait (all producers have signed off)
	timedOut bool
	exits    int32 // consumers that have reached their deferred exit hook (atomic)
	pGID     int64 // goroutine id of the (single) producer
}

func (s *sched) prodGID() int64 {
	s.mu.Lock()
	defer s.mu.Unlock()
	return s.pGID
}

func newSched() *sched {
	s := &sched{cur: map[string]*slot{}, gids: map[int64]string{}}
	s.cond = sync.NewCond(&s.mu)
	return s
}

func curGID() int64 {
	var buf [64]byte
	n := runtime.Stack(buf[:], false)
	f := strings.Fields(string(buf[:n]))
	if len(f) < 2 {
		return -1
	}
	id, _ := strconv.ParseInt(f[1], 10, 64)
	return id
}

// arrive parks the calling goroutine as `thread` at `point` until released (no-op in free mode).
func (s *sched) arrive(thread, point string) {
	s.mu.Lock()
	if s.free {
		s.mu.Unlock()
		return
	}
	sl := &slot{point: point, rel: make(chan struct{})}
	s.cur[thread] = sl
	s.cond.Broadcast()
	s.mu.Unlock()
	<-sl.rel
}

func (s *sched) consThread() string {
	gid := curGID()
	s.mu.Lock()
	defer s.mu.Unlock()
	if t, ok := s.gids[gid]; ok {
		return t
	}
	t := "c" + strconv.Itoa(s.nextCons)
	s.nextCons++
	s.gids[gid] = t
	return t
}

func (s *sched) hook(point string) {
	switch point {
	case "fsloop.consumer.top":
		s.arrive(s.consThread(), "top")
	case "fsloop.consumer.gap":
		s.arrive(s.consThread(), "gap")
	case "fsloop.consumer.exit":
		atomic.AddInt32(&s.exits, 1)
		s.arrive(s.consThread(), "exit")
	case "fsloop.closer.waited":
		s.arrive("k", "waited")
	case "fsloop.closer.announced":
		s.arrive("k", "announced")
	case "fsloop.closer.closed":
		s.mu.Lock()
		s.kClosed = true
		s.cond.Broadcast()
		s.mu.Unlock()
	}
}

// waitFor blocks (generously) until pred holds under the lock; false = watchdog expired.
func (s *sched) waitFor(pred func() bool) bool {
	s.mu.Lock()
	defer s.mu.Unlock()
	if pred() {
		return true
	}
	s.timedOut = false
	t := time.AfterFunc(watchdog, func() {
		s.mu.Lock()
		s.timedOut = true
		s.cond.Broadcast()
		s.mu.Unlock()
	})
	defer t.Stop()
	for !pred() {
		if s.timedOut {
			return false
		}
		s.cond.Wait()
	}
	return true
}

// waitForSlow is waitFor with a second, expensive predicate that is evaluated (outside the lock) only
// when the cheap one has not become true within 2 ms, and then every 2 ms.
func (s *sched) waitForSlow(pred func() bool, slow func() bool) bool {
	start := time.Now()
	for {
		s.mu.Lock()
		if pred() {
			s.mu.Unlock()
			return true
		}
		woke := false
		t := time.AfterFunc(2*time.Millisecond, func() {
			s.mu.Lock()
			woke = true
			s.cond.Broadcast()
			s.mu.Unlock()
		})
		for !pred() && !woke {
			s.cond.Wait()
		}
		ok := pred()
		s.mu.Unlock()
		t.Stop()
		if ok {
			return true
		}
		if slow() {
			// the cheap predicate may have become true meanwhile: it wins
			return true
		}
		if time.Since(start) > watchdog {
			return false
		}
	}
}

func (s *sched) parkedAt(thread string) (string, bool) {
	var p string
	ok := s.waitFor(func() bool {
		if sl := s.cur[thread]; sl != nil {
			p = sl.point
			return true
		}
		return false
	})
	return p, ok
}

func (s *sched) release(thread string) {
	s.mu.Lock()
	if sl := s.cur[thread]; sl != nil {
		delete(s.cur, thread)
		close(sl.rel)
	}
	s.mu.Unlock()
}

func (s *sched) setFree() {
	s.mu.Lock()
	s.free = true
	for t, sl := range s.cur {
		delete(s.cur, t)
		close(sl.rel)
	}
	s.mu.Unlock()
}

var watchdog = 20 * time.Second

// ---------------------------------------------------------------------------------------------
// the gated source filespace (only ReadDir is used by fsloop; callbacks never touch it)

type info struct {
	name string
	dir  bool
}

func (i info) Name() string { return i.name }
func (i info) Size() int64  { return 0 }
func (i info) Mode() os.FileMode {
	if i.dir {
		return os.ModeDir | 0777
	}
	return 0644
}
func (i info) ModTime() time.Time { return time.Time{} }
func (i info) IsDir() bool        { return i.dir }
func (i info) Sys() interface{}   { return nil }

type listErr struct{ p string }

func (e *listErr) Error() string { return "listing failed: " + e.p }

type stubFS struct {
	FS
	root     *node
	rootPath string
	sc       *sched
	mu       sync.Mutex
	listErrs []error
}

func (f *stubFS) resolve(p string) *node {
	rel := strings.TrimPrefix(p, f.rootPath)
	rel = strings.Trim(rel, "/")
	n := f.root
	if rel == "" {
		return n
	}
	for _, seg := range strings.Split(rel, "/") {
		var nx *node
		for _, k := range n.kids {
			if k.name == seg {
				nx = k
				break
			}
		}
		if nx == nil {
			return nil
		}
		n = nx
	}
	return n
}

func (f *stubFS) ReadDir(p string) ([]os.FileInfo, error) {
	if f.sc != nil {
		gid := curGID()
		f.sc.mu.Lock()
		f.sc.pGID = gid
		f.sc.mu.Unlock()
		f.sc.arrive("p", "list:"+p)
	}
	n := f.resolve(p)
	if n == nil || !n.dir || !n.listable {
		e := &listErr{p}
		f.mu.Lock()
		f.listErrs = append(f.listErrs, e)
		f.mu.Unlock()
		return nil, e
	}
	res := make([]os.FileInfo, len(n.kids))
	for i, k := range n.kids {
		res[i] = info{k.name, k.dir}
	}
	return res, nil
}

// backing builds a real memfs with the same tree: fsloop only calls ReadDir (which the stub answers
// itself, so that listing order, failing listings and "." / ".." entries are under the harness's
// control); any other Filespace method the code under test might call goes to this memfs.
func backing(t *node) filesystem.Filespace {
	fs, err := memfs.NewFilespace()
	if err != nil {
		panic(err)
	}
	var rec func(base string, n *node)
	rec = func(base string, n *node) {
		for _, k := range n.kids {
			if k.name == "." || k.name == ".." {
				continue
			}
			if k.dir {
				fs.MkdirAll(base+k.name, 0777)
				rec(base+k.name+"/", k)
			} else {
				fs.WriteFile(base+k.name, []byte(k.name), 0644)
			}
		}
	}
	rec("", t)
	return fs
}

// ---------------------------------------------------------------------------------------------
// one gated case

type gcase struct {
	n      int
	order  string
	root   string
	tree   *node
	cfg    walkCfg
	failcb map[string]bool
	sched  []string
}

func kv(toks []string, key string) (string, bool) {
	for _, t := range toks {
		if strings.HasPrefix(t, key+"=") {
			return t[len(key)+1:], true
		}
	}
	return "", false
}

func parseSet(s string) map[string]bool {
	m := map[string]bool{}
	if s == "" {
		return m
	}
	for _, p := range strings.Split(s, ";") {
		m[p] = true
	}
	return m
}

func parseCase(line string) (*gcase, bool) {
	toks := strings.Split(line, " ")
	c := &gcase{}
	get := func(k string) string {
		v, _ := kv(toks, k)
		return v
	}
	var err error
	if c.n, err = strconv.Atoi(get("n")); err != nil {
		return nil, false
	}
	c.order = get("order")
	c.root = get("root")
	t, _, ok := parseNode(get("tree"), 0)
	if !ok || !t.dir {
		return nil, false
	}
	c.tree = t
	for _, k := range []string{"ff", "df"} {
		v := get(k)
		var f func(string) bool
		switch {
		case v == "nil":
		case strings.HasPrefix(v, "rej:"):
			m := parseSet(v[4:])
			f = func(p string) bool { return !m[p] }
		default:
			return nil, false
		}
		if k == "ff" {
			c.cfg.ff = f
		} else {
			c.cfg.df = f
		}
	}
	c.cfg.onFile = get("onfile") == "1"
	c.cfg.onDir = get("ondir") == "1"
	if f := get("failcb"); f != "-" {
		c.failcb = parseSet(f)
	} else {
		c.failcb = map[string]bool{}
	}
	if s := get("sched"); s != "" {
		c.sched = strings.Split(s, ",")
	}
	return c, true
}

type cbErr struct{ item string }

func (e *cbErr) Error() string { return "callback failed: " + e.item }

// recorder observes the callbacks of one loop run
type recorder struct {
	mu      sync.Mutex
	done    []string
	cbErrs  map[string]error // failing callbacks that returned
	active  int32
	maxAct  int32
	started int32
}

func (r *recorder) enter() {
	atomic.AddInt32(&r.started, 1)
	a := atomic.AddInt32(&r.active, 1)
	for {
		m := atomic.LoadInt32(&r.maxAct)
		if a <= m || atomic.CompareAndSwapInt32(&r.maxAct, m, a) {
			break
		}
	}
}

func (r *recorder) leave(item string, fail bool) error {
	var e error
	r.mu.Lock()
	r.done = append(r.done, item)
	if fail {
		e = &cbErr{item}
		if r.cbErrs == nil {
			r.cbErrs = map[string]error{}
		}
		r.cbErrs[item] = e
	}
	r.mu.Unlock()
	atomic.AddInt32(&r.active, -1)
	return e
}

func containsErr(errs []error, e error) bool {
	for _, x := range errs {
		if x == e {
			return true
		}
	}
	return false
}

// verdict evaluates the clauses of the property on what was observed.  sel is sorted.
//
// strictListing: the producers are known to have finished (gated runs wait for the closer), so every
// listing failure must already be in errs.  In ungated runs a producer that is still running after
// a kill may fail a listing after Wait returned; there only "a failure happened => errs not empty"
// is a deterministic consequence of the property.
func verdict(rec *recorder, sel []string, listFailsExpected int, listErrs []error, errs []error,
	consumers int, activeAtWait int32, anyFailure bool, strictListing bool) string {
	rec.mu.Lock()
	done := append([]string(nil), rec.done...)
	rec.mu.Unlock()
	sort.Strings(done)
	want := map[string]int{}
	for _, s := range sel {
		want[s]++
	}
	got := map[string]int{}
	for _, d := range done {
		got[d]++
		if got[d] > want[d] {
			return "FAIL(repeated-or-unselected:" + d + ")"
		}
	}
	if activeAtWait != 0 {
		return "FAIL(callback-running-when-wait-returned)"
	}
	if int(atomic.LoadInt32(&rec.maxAct)) > consumers {
		return fmt.Sprintf("FAIL(concurrent-callbacks:%d>%d)", rec.maxAct, consumers)
	}
	for item, e := range rec.cbErrs {
		if !containsErr(errs, e) {
			return "FAIL(callback-error-not-recorded:" + item + ")"
		}
	}
	for _, e := range listErrs {
		if strictListing && !containsErr(errs, e) {
			return "FAIL(listing-error-not-recorded:" + errStr(e) + ")"
		}
	}
	if len(errs) == 0 {
		if anyFailure {
			return "FAIL(failure-but-empty-error-list)"
		}
		if len(done) != len(sel) {
			for _, s := range sel {
				if got[s] < want[s] {
					return "FAIL(skipped:" + s + ")"
				}
			}
		}
		if strictListing && len(listErrs) != listFailsExpected {
			return "FAIL(listing-failures-missed)"
		}
	}
	return "ok"
}

// errStr is the canonical form of one entry of Loop.Errors()
func errStr(e error) string {
	switch x := e.(type) {
	case *cbErr:
		return "cb:" + x.item
	case *listErr:
		return "list:" + x.p
	}
	switch e {
	case context.Canceled:
		return "canceled"
	case context.DeadlineExceeded:
		return "deadline"
	}
	return "other"
}

// goroutineInChanSend reports whether goroutine gid is parked in a channel send (runtime.Stack header
// "goroutine <gid> [chan send...]").  With every consumer parked or gone this state is stable: a send
// on a buffered channel parks only when the buffer is full, and only a receive un-parks it.
func goroutineInChanSend(gid int64) bool {
	if gid <= 0 {
		return false
	}
	buf := make([]byte, 1<<16)
	for {
		n := runtime.Stack(buf, true)
		if n < len(buf) {
			buf = buf[:n]
			break
		}
		buf = make([]byte, 2*len(buf))
	}
	return bytes.Contains(buf, []byte("goroutine "+strconv.FormatInt(gid, 10)+" [chan send"))
}

// injectTimeout makes the loop's lifecycle look exactly as it does once its deadline has passed:
// the deadline is the constant workers.DefaultTimeout (2 min) and the lifecycle is a private field, so
// the harness replaces the lifecycle's context by one whose deadline has already expired (Done closed,
// Err() = context.DeadlineExceeded).  Only called while every goroutine of the loop is parked.
func injectTimeout(loop *fsloop.Loop) bool {
	lv := reflect.ValueOf(loop).Elem().FieldByName("lifecycle")
	if !lv.IsValid() || lv.Kind() != reflect.Ptr || lv.IsNil() {
		return false
	}
	lv = reflect.NewAt(lv.Type(), unsafe.Pointer(lv.UnsafeAddr())).Elem()
	lc, ok := lv.Interface().(*jobsync.Lifecycle)
	if !ok {
		return false
	}
	if lc.IsKilled() {
		return true // the deadline passing after a cancel changes nothing
	}
	cv := reflect.ValueOf(lc).Elem().FieldByName("ctx")
	if !cv.IsValid() || cv.Kind() != reflect.Interface {
		return false
	}
	cv = reflect.NewAt(cv.Type(), unsafe.Pointer(cv.UnsafeAddr())).Elem()
	ctx, cancel := context.WithDeadline(context.Background(), time.Now().Add(-time.Hour))
	_ = cancel
	cv.Set(reflect.ValueOf(ctx))
	return lc.IsKilled()
}

func runGated(c *gcase) string {
	sc := newSched()
	verifhook.Set(sc.hook)
	defer verifhook.Set(nil)
	fs := &stubFS{FS: backing(c.tree), root: c.tree, rootPath: c.root, sc: sc}
	rec := &recorder{}
	cfg := c.cfg
	data := &fsloop.LoopData{Filespace: fs, Consumers: c.n, Producents: 1}
	if cfg.ff != nil {
		data.FileFilter = func(_ filesystem.Filespace, p string) bool {
			sc.arrive("p", "ff:"+p)
			return cfg.ff(p)
		}
	}
	if cfg.df != nil {
		data.DirFilter = func(_ filesystem.Filespace, p string) bool {
			sc.arrive("p", "fd:"+p)
			return cfg.df(p)
		}
	}
	cb := func(kind string) filesystem.LoopOn {
		return func(_ filesystem.Filespace, p string) error {
			rec.enter()
			sc.arrive(sc.consThread(), "cb"+kind+":"+p)
			return rec.leave(kind+p, c.failcb[kind+p])
		}
	}
	if cfg.onFile {
		data.OnFile = cb("f")
	}
	if cfg.onDir {
		data.OnDir = cb("d")
	}
	sel, listFails := selectedOf(&cfg, c.root, c.tree)
	// a scope whenever the schedule sends events, and in half of the other cases
	var scope app.EventScope
	needScope := (len(c.sched)/2)%2 == 0
	for _, t := range c.sched {
		if t == "x" || t == "e" {
			needScope = true
		}
	}
	if needScope {
		scope = eventscope.New()
	}
	loop := fsloop.NewLoop(data, scope)
	runPath := c.root
	if runPath == "./" && len(c.sched)%2 == 0 {
		runPath = "" // Run("") means "./"
	}
	loop.Run(runPath)
	// Wait is called at once, on its own goroutine; what it sees at the moment it returns is recorded
	waitDone := make(chan struct{})
	var activeAtWait, startedAtWait, exitedAtWait int32
	go func() {
		loop.Wait()
		activeAtWait = atomic.LoadInt32(&rec.active)
		startedAtWait = atomic.LoadInt32(&rec.started)
		exitedAtWait = atomic.LoadInt32(&sc.exits)
		close(waitDone)
	}()
	waitReturned := func() bool {
		select {
		case <-waitDone:
			return true
		default:
			return false
		}
	}

	var obs []string
	hang := func(what string) string {
		sc.setFree()
		return strings.Join(append(obs, "hang:"+what), " ") + " | hang oracle=FAIL(hang:" + what + ")"
	}
	// all consumers reach the top of their loop, the producer its first ReadDir
	for i := 0; i < c.n; i++ {
		ok := sc.waitFor(func() bool { return sc.nextCons >= c.n })
		if !ok {
			return hang("consumers-start")
		}
	}
	for i := 0; i < c.n; i++ {
		if _, ok := sc.parkedAt("c" + strconv.Itoa(i)); !ok {
			return hang("consumer-top")
		}
	}
	if _, ok := sc.parkedAt("p"); !ok {
		return hang("producer-start")
	}
	gone := make([]bool, c.n)
	nGone := 0
	prodDone := false
	prodBlocked := false
	parkOf := func(t string) string {
		sc.mu.Lock()
		defer sc.mu.Unlock()
		if sl := sc.cur[t]; sl != nil {
			return sl.point
		}
		return ""
	}
	// settleP: the producer runs until it is parked at a gate, has finished (the closer's
	// producerPool.Wait returned), or is blocked in a send on a full channel
	settleP := func() bool {
		ok := sc.waitForSlow(func() bool { return sc.cur["p"] != nil || sc.cur["k"] != nil },
			func() bool { return goroutineInChanSend(sc.prodGID()) })
		if !ok {
			return false
		}
		sc.mu.Lock()
		atGate := sc.cur["p"] != nil
		finished := sc.cur["k"] != nil
		sc.mu.Unlock()
		prodBlocked = false
		switch {
		case atGate:
		case finished:
			prodDone = true
		default:
			prodBlocked = true
		}
		return true
	}
	stepP := func() (string, bool) {
		if prodDone {
			return "p:noop", true
		}
		if prodBlocked {
			return "p:blocked", true
		}
		gate := parkOf("p")
		sc.release("p")
		return "p:" + gate, settleP()
	}
	stepK := func() (string, bool) {
		switch parkOf("k") {
		case "waited":
			sc.release("k")
			if _, ok := sc.parkedAt("k"); !ok {
				return "k:?", false
			}
			return "k:announced", true
		case "announced":
			sc.release("k")
			if !sc.waitFor(func() bool { return sc.kClosed }) {
				return "k:?", false
			}
			return "k:closed", true
		}
		return "k:noop", true
	}
	stepC := func(i int) (string, bool) {
		name := "c" + strconv.Itoa(i)
		if i >= c.n || gone[i] {
			return name + ":noop", true
		}
		at := parkOf(name)
		sc.release(name)
		if at == "exit" {
			gone[i] = true
			nGone++
			return name + ":gone", true
		}
		nx, ok := sc.parkedAt(name)
		if !ok {
			return name + ":?", false
		}
		if prodBlocked && !settleP() {
			return name + ":" + nx, false
		}
		return name + ":" + nx, true
	}
	settled := func() bool {
		sc.mu.Lock()
		kc := sc.kClosed
		sc.mu.Unlock()
		return nGone == c.n && (kc || prodBlocked)
	}
	emit := func(o string, ok bool) bool {
		obs = append(obs, o)
		return ok
	}
	earlyWait := ""
loopSched:
	for _, tok := range c.sched {
		switch {
		case tok == "p":
			if !emit(stepP()) {
				return hang("p")
			}
		case tok == "k":
			if !emit(stepK()) {
				return hang("k")
			}
		case tok == "K":
			for j := 0; j < 2; j++ {
				if !emit(stepK()) {
					return hang("k")
				}
			}
		case tok == "P":
			for j := 0; j < 100000 && !prodDone && !prodBlocked; j++ {
				if !emit(stepP()) {
					return hang("p")
				}
			}
		case tok == "x":
			if scope != nil {
				scope.Trigger(app.KillEvent, nil)
			}
			obs = append(obs, "x:ok")
		case tok == "e":
			if scope != nil {
				scope.Trigger(app.ErrorEvent, &cbErr{"scope-error-event"})
			}
			obs = append(obs, "e:ok")
		case tok == "t":
			if injectTimeout(loop) {
				obs = append(obs, "t:ok")
			} else {
				obs = append(obs, "t:unsupported")
			}
		case tok == "w":
			if nGone == c.n {
				// every consumer has passed its exit hook: pool.Done follows, Wait must return
				select {
				case <-waitDone:
					obs = append(obs, "w:returned")
				case <-time.After(watchdog):
					return hang("w")
				}
			} else {
				// it must NOT have returned; yielding only raises the chance of seeing a wrong early return
				for y := 0; y < 50 && !waitReturned(); y++ {
					runtime.Gosched()
				}
				if waitReturned() {
					obs = append(obs, "w:returned")
					if earlyWait == "" {
						earlyWait = fmt.Sprintf("FAIL(wait-returned-with-%d-of-%d-consumers-still-running)", c.n-nGone, c.n)
					}
				} else {
					obs = append(obs, "w:pending")
				}
			}
		case tok == "D":
			for r := 0; r < 100000 && !settled(); r++ {
				if !emit(stepP()) {
					return hang("p")
				}
				for i := 0; i < c.n; i++ {
					if !emit(stepC(i)) {
						return hang("c" + strconv.Itoa(i))
					}
				}
				if !emit(stepK()) {
					return hang("k")
				}
			}
		case strings.HasPrefix(tok, "c"):
			i, err := strconv.Atoi(tok[1:])
			if err != nil {
				obs = append(obs, "bad-token")
				continue loopSched
			}
			if !emit(stepC(i)) {
				return hang(tok)
			}
		case strings.HasPrefix(tok, "g"):
			i, err := strconv.Atoi(tok[1:])
			if err != nil {
				obs = append(obs, "bad-token")
				continue loopSched
			}
			name := "c" + strconv.Itoa(i)
			for j := 0; j < 8 && parkOf(name) != "gap"; j++ {
				o, ok := stepC(i)
				if !emit(o, ok) {
					return hang(tok)
				}
				if strings.HasSuffix(o, ":noop") {
					break
				}
			}
		default:
			obs = append(obs, "bad-token")
		}
	}
	wasSettled := settled()
	stuck := wasSettled && prodBlocked
	// everything runs to completion
	sc.setFree()
	steps := strings.Join(obs, " ")
	select {
	case <-waitDone:
	case <-time.After(watchdog):
		return steps + " | done=? wait=hang oracle=FAIL(wait-never-returned)"
	}
	if !stuck && !sc.waitFor(func() bool { return sc.kClosed }) {
		return steps + " | done=? wait=ok oracle=FAIL(closer-never-finished)"
	}
	if stuck && !goroutineInChanSend(sc.prodGID()) {
		return steps + " | done=? wait=ok oracle=FAIL(producer-state-changed-after-all-consumers-left)"
	}
	errs := loop.Errors()
	fs.mu.Lock()
	listErrs := append([]error(nil), fs.listErrs...)
	fs.mu.Unlock()
	rec.mu.Lock()
	anyFailure := len(rec.cbErrs) > 0 || len(listErrs) > 0
	doneCopy := append([]string(nil), rec.done...)
	rec.mu.Unlock()
	v := verdict(rec, sel, len(listFails), listErrs, errs, c.n, activeAtWait, anyFailure, !stuck)
	if v == "ok" && earlyWait != "" {
		v = earlyWait
	}
	if v == "ok" && int(exitedAtWait) != c.n {
		v = fmt.Sprintf("FAIL(wait-returned-with-%d-of-%d-consumers-not-at-exit)", c.n-int(exitedAtWait), c.n)
	}
	if v == "ok" && atomic.LoadInt32(&rec.started) != startedAtWait {
		v = "FAIL(callback-started-after-wait-returned)"
	}
	sort.Strings(doneCopy)
	if wasSettled {
		es := make([]string, len(errs))
		for i, e := range errs {
			es[i] = errStr(e)
		}
		pr := "done"
		if stuck {
			pr = "stuck"
		}
		return steps + " | done=" + strings.Join(doneCopy, ";") + " errs=" + strings.Join(es, ";") + " wait=ok prods=" + pr + " oracle=" + v
	}
	if anyFailure || len(errs) > 0 {
		return steps + " | killed oracle=" + v
	}
	return steps + " | done=" + strings.Join(doneCopy, ";") + " wait=ok oracle=" + v
}

func drive() {
	in := bufio.NewScanner(os.Stdin)
	in.Buffer(make([]byte, 1<<20), 1<<26)
	w := bufio.NewWriter(os.Stdout)
	defer w.Flush()
	aborted := false
	for in.Scan() {
		line := in.Text()
		if line == "" || strings.HasPrefix(line, "#") {
			continue
		}
		if aborted {
			fmt.Fprintln(w, "aborted")
			continue
		}
		c, ok := parseCase(line)
		if !ok || !strings.HasPrefix(line, "case ") {
			fmt.Fprintln(w, "bad-op")
			w.Flush()
			continue
		}
		var res string
		if p, v := hx.Guard(func() { res = runGated(c) }); p {
			res = fmt.Sprintf("panic | panic oracle=FAIL(panic:%v)", v)
		}
		if strings.Contains(res, "hang") {
			aborted = true // parked goroutines of this case may linger: later cases would be unreliable
		}
		fmt.Fprintln(w, res)
		w.Flush()
	}
}

// ---------------------------------------------------------------------------------------------
// generator

func genTree(r *hx.Rand, depth int, budget *int, stub bool) *node {
	n := &node{dir: true, listable: !r.Chance(1, 16)}
	names := []string{"a", "b", "c", "d", "e", "f2", "g", ".h", "..k"} // dot-prefixed real names are ordinary nodes
	if stub && r.Chance(1, 10) {
		names = append(names, ".", "..")
	}
	k := r.Intn(5)
	perm := r.Intn(len(names))
	for i := 0; i < k && *budget > 0; i++ {
		name := names[(perm+i)%len(names)]
		*budget--
		if depth > 0 && r.Chance(2, 5) {
			c := genTree(r, depth-1, budget, stub)
			c.name = name
			n.kids = append(n.kids, c)
		} else {
			n.kids = append(n.kids, &node{name: name})
		}
	}
	return n
}

func allPaths(base string, n *node, dirs, files *[]string) {
	for _, k := range n.kids {
		p := base + k.name
		if k.dir {
			*dirs = append(*dirs, p)
			allPaths(p+"/", k, dirs, files)
		} else {
			*files = append(*files, p)
		}
	}
}

func genFilter(r *hx.Rand, paths []string) string {
	if r.Chance(1, 3) {
		return "nil"
	}
	var rej []string
	for _, p := range paths {
		if r.Chance(1, 4) {
			rej = append(rej, p)
		}
	}
	return "rej:" + strings.Join(rej, ";")
}

// wideCase: a tree wider than the channel capacity (ChanSize = 1000), so that the producer blocks in
// its send; a failing callback or an environment act kills the lifecycle while it is blocked.
func wideCase(r *hx.Rand) string {
	nf := 1001 + r.Intn(12)
	var b strings.Builder
	b.WriteString("d(")
	for i := 0; i < nf; i++ {
		if i > 0 {
			b.WriteByte(',')
		}
		fmt.Fprintf(&b, "w%04d:f", i)
	}
	b.WriteString(")")
	n := 1 + r.Intn(2)
	failcb := "-"
	killTok := []string{"x", "e", "t"}[r.Intn(3)]
	if r.Chance(1, 2) {
		failcb = "f./w0000"
		killTok = ""
	}
	toks := []string{"p", "p"}
	for i := 0; i < n; i++ {
		toks = append(toks, "g"+strconv.Itoa(i), "c"+strconv.Itoa(i)) // into a callback
	}
	toks = append(toks, "p")
	if killTok != "" {
		toks = append(toks, killTok)
	}
	toks = append(toks, "c0", "w")
	if r.Chance(1, 2) {
		toks = append(toks, "c0", "c0", "p")
	}
	toks = append(toks, "D", "w", "p")
	return fmt.Sprintf("case n=%d order=fixed root=./ tree=%s ff=nil df=nil onfile=1 ondir=1 failcb=%s sched=%s",
		n, b.String(), failcb, strings.Join(toks, ","))
}

func genCase(r *hx.Rand) string {
	if r.Chance(1, 500) {
		return wideCase(r)
	}
	budget := 3 + r.Intn(12)
	tree := genTree(r, 3, &budget, true)
	if r.Chance(9, 10) {
		tree.listable = true
	}
	fam := r.Intn(16)
	if fam == 13 {
		// listing-failure family: one directory below the root cannot be listed
		var ds []*node
		var coll func(n *node)
		coll = func(n *node) {
			for _, k := range n.kids {
				if k.dir {
					ds = append(ds, k)
					coll(k)
				}
			}
		}
		coll(tree)
		if len(ds) > 0 {
			tree.listable = true
			ds[r.Intn(len(ds))].listable = false
		}
	}
	var tb strings.Builder
	tree.encode(&tb)
	root := "./"
	if r.Chance(1, 5) {
		root = "w/"
	}
	var dirs, files []string
	allPaths(root, tree, &dirs, &files)
	ff, df := genFilter(r, files), genFilter(r, dirs)
	onfile, ondir := "1", "1"
	if r.Chance(1, 8) {
		onfile = "0"
	}
	if r.Chance(1, 8) {
		ondir = "0"
	}
	n := 1 + r.Intn(3)
	if r.Chance(1, 6) {
		n = 1 + r.Intn(16)
	}
	if (fam == 9 || fam == 10 || fam == 11) && n < 2 {
		n = 2
	}
	failcb := "-"
	if r.Chance(1, 5) || fam == 11 {
		var fs []string
		den := 3
		if fam == 11 {
			den = 1 // every callback fails: several failures are in flight at once
			if r.Chance(1, 2) {
				den = 2
			}
		}
		for _, f := range files {
			if r.Chance(1, den) {
				fs = append(fs, "f"+f)
			}
		}
		for _, d := range dirs {
			if r.Chance(1, den+1) {
				fs = append(fs, "d"+d)
			}
		}
		if len(fs) > 0 {
			failcb = strings.Join(fs, ";")
		}
	}
	ci := func() string { return strconv.Itoa(r.Intn(n)) }
	env := func() string { return []string{"x", "e", "t"}[r.Intn(3)] }
	var toks []string
	envP := 40 // one token in envP is an environment act
	if fam == 14 {
		envP = 8
	}
	randTok := func() string {
		if r.Chance(1, envP) {
			return env()
		}
		if r.Chance(1, 15) {
			return "w"
		}
		switch r.Intn(10) {
		case 0, 1, 2:
			return "p"
		case 3:
			return "k"
		case 4:
			return "g" + ci()
		default:
			return "c" + ci()
		}
	}
	order := r.Intn(n + 1) // rotation for "all consumers" sequences
	allG := func() {
		for i := 0; i < n; i++ {
			toks = append(toks, "g"+strconv.Itoa((i+order)%n))
		}
	}
	switch {
	case fam < 4: // random
		for i, l := 0, 5+r.Intn(70); i < l; i++ {
			toks = append(toks, randTok())
		}
		if r.Chance(1, 2) {
			toks = append(toks, "D", "w")
		}
	case fam < 7: // adversarial: hold consumers in the gap while producers finish and the closer announces
		for i, l := 0, r.Intn(12); i < l; i++ {
			toks = append(toks, randTok())
		}
		allG()
		toks = append(toks, "P")
		if r.Chance(1, 4) {
			toks = append(toks, "K")
		} else {
			toks = append(toks, "k")
		}
		for i, l := 0, r.Intn(20); i < l; i++ {
			toks = append(toks, "c"+ci())
		}
	case fam < 8: // hold one consumer, let the others work
		h := r.Intn(n)
		toks = append(toks, "g"+strconv.Itoa(h))
		for i, l := 0, 5+r.Intn(40); i < l; i++ {
			t := randTok()
			if t == "c"+strconv.Itoa(h) || t == "g"+strconv.Itoa(h) {
				t = "p"
			}
			toks = append(toks, t)
		}
		toks = append(toks, "P", "K", "c"+strconv.Itoa(h))
	case fam < 9: // free run
	case fam < 12:
		// kill while callbacks are running: the producer publishes, consumers enter callbacks and are held
		// there; then an environment act (9, 10) or the return of a failing callback (11) kills the
		// lifecycle; Wait is probed; the held callbacks return (their results must still be handled)
		for i, l := 0, 1+r.Intn(4); i < l; i++ {
			toks = append(toks, "p")
		}
		held := 1 + r.Intn(n)
		for i := 0; i < held; i++ {
			c := strconv.Itoa((i + order) % n)
			toks = append(toks, "g"+c, "c"+c) // gap, then (if something is queued) into a callback
		}
		if fam != 11 || r.Chance(1, 3) {
			toks = append(toks, env())
		}
		toks = append(toks, "w")
		for i := 0; i < held; i++ {
			c := strconv.Itoa((i + order) % n)
			toks = append(toks, "c"+c)
			if r.Chance(1, 2) {
				toks = append(toks, "w")
			}
			if r.Chance(1, 3) {
				toks = append(toks, "p")
			}
		}
		for i, l := 0, r.Intn(10); i < l; i++ {
			toks = append(toks, randTok())
		}
		toks = append(toks, "D", "w")
	case fam < 13: // an environment act at a random point of a random schedule, then a deterministic drain
		for i, l := 0, r.Intn(40); i < l; i++ {
			toks = append(toks, randTok())
		}
		toks = append(toks, env())
		for i, l := 0, r.Intn(25); i < l; i++ {
			toks = append(toks, randTok())
		}
		toks = append(toks, "D", "w")
	case fam < 14: // listing failure (inline descent), consumers interleaved, deterministic drain
		for i, l := 0, r.Intn(30); i < l; i++ {
			toks = append(toks, randTok())
		}
		if r.Chance(1, 2) {
			toks = append(toks, "P")
		}
		toks = append(toks, "D", "w")
	default: // dense environment acts
		for i, l := 0, 5+r.Intn(50); i < l; i++ {
			toks = append(toks, randTok())
		}
		toks = append(toks, "D", "w")
	}
	return fmt.Sprintf("case n=%d order=fixed root=%s tree=%s ff=%s df=%s onfile=%s ondir=%s failcb=%s sched=%s",
		n, root, tb.String(), ff, df, onfile, ondir, failcb, strings.Join(toks, ","))
}

func gen(n int) {
	r := hx.NewRand(hx.SeedFromEnv()*0x9e3779b97f4a7c15 + 8)
	w := bufio.NewWriter(os.Stdout)
	defer w.Flush()
	// the named witness: one consumer held in the gap, one file (lost on the pinned order)
	fmt.Fprintln(w, "case n=1 order=fixed root=./ tree=d(a:f) ff=nil df=nil onfile=1 ondir=1 failcb=- sched=g0,P,k,c0,c0")
	fmt.Fprintln(w, "case n=2 order=fixed root=./ tree=d(a:f,d:d(x:f)) ff=nil df=nil onfile=1 ondir=1 failcb=- sched=g1,g0,P,K,c0,c1")
	// named kill cases: Wait must not return while a callback runs (kill / error event / deadline while c0 is
	// inside OnFile); the error of a callback that was running when another one killed the lifecycle is recorded;
	// a listing error in the inline descent is recorded
	fmt.Fprintln(w, "case n=2 order=fixed root=./ tree=d(a:f,b:f) ff=nil df=nil onfile=1 ondir=1 failcb=- sched=p,g0,c0,x,w,c1,c1,w,c0,w,D,w")
	fmt.Fprintln(w, "case n=1 order=fixed root=./ tree=d(a:f,b:f) ff=nil df=nil onfile=1 ondir=1 failcb=f./a sched=p,g0,c0,t,w,c0,w,D,w")
	fmt.Fprintln(w, "case n=2 order=fixed root=./ tree=d(a:f,b:f,c:f) ff=nil df=nil onfile=1 ondir=1 failcb=f./a;f./b sched=p,g0,c0,g1,c1,c0,w,c1,w,D,w")
	fmt.Fprintln(w, "case n=2 order=fixed root=./ tree=d(a:f,b:f,c:f) ff=nil df=nil onfile=1 ondir=1 failcb=f./b sched=p,g0,c0,g1,c1,e,w,c1,w,c0,D,w")
	fmt.Fprintln(w, "case n=1 order=fixed root=./ tree=d(a:f,d:x(x:f),e:f,g:d(y:f)) ff=nil df=nil onfile=1 ondir=1 failcb=- sched=p,g0,p,c0,w,D,w")
	for i := 7; i < n; i++ {
		fmt.Fprintln(w, genCase(r))
	}
}

// lifecycleAPI checks, on the real jobsync.Lifecycle, the behaviour the model's `Ctx` / `errorsOf` /
// `lifecycle.Error` transitions assume: strict Error appends and kills (also when already killed); Kill
// cancels without adding an entry; the deadline kills by itself (a short lifetime is used; the loop's own
// lifetime is the constant workers.DefaultTimeout); Errors() = the entries, then the context's error;
// the first cause stays.
func lifecycleAPI() {
	var bad []string
	chk := func(ok bool, what string) {
		if !ok {
			bad = append(bad, what)
		}
	}
	kinds := func(errs []error) string {
		var r []string
		for _, e := range errs {
			r = append(r, errStr(e))
		}
		return strings.Join(r, ";")
	}
	e1, e2 := &cbErr{"1"}, &cbErr{"2"}
	// strict Error: append, then kill
	lc := jobsync.NewLifecycle(time.Hour, true)
	chk(!lc.IsKilled() && len(lc.Errors()) == 0, "fresh lifecycle is alive with no errors")
	lc.Error(e1)
	chk(lc.IsKilled(), "strict Error kills")
	chk(kinds(lc.Errors()) == "cb:1;canceled", "Errors after Error = entry, canceled: "+kinds(lc.Errors()))
	lc.Error(e2)
	chk(kinds(lc.Errors()) == "cb:1;cb:2;canceled", "Error on a killed lifecycle still appends: "+kinds(lc.Errors()))
	// Kill: no entry
	lc = jobsync.NewLifecycle(time.Hour, true)
	lc.Kill()
	chk(lc.IsKilled() && kinds(lc.Errors()) == "canceled", "Kill cancels without an entry: "+kinds(lc.Errors()))
	lc.Kill()
	lc.Error(e1)
	chk(kinds(lc.Errors()) == "cb:1;canceled", "Error after Kill appends: "+kinds(lc.Errors()))
	// the deadline: wait generously for what must happen
	lc = jobsync.NewLifecycle(20*time.Millisecond, true)
	dl := time.Now().Add(30 * time.Second)
	for !lc.IsKilled() && time.Now().Before(dl) {
		time.Sleep(time.Millisecond)
	}
	chk(lc.IsKilled(), "the deadline kills")
	chk(kinds(lc.Errors()) == "deadline", "Errors after the deadline = deadline: "+kinds(lc.Errors()))
	lc.Kill()
	chk(kinds(lc.Errors()) == "deadline", "Kill after the deadline changes nothing: "+kinds(lc.Errors()))
	lc.Error(e1)
	chk(kinds(lc.Errors()) == "cb:1;deadline", "Error after the deadline appends: "+kinds(lc.Errors()))
	// step
	lc = jobsync.NewLifecycle(time.Hour, true)
	chk(lc.Step() == 0, "initial step 0")
	lc.NextStep(fsloop.StepClose)
	chk(lc.Step() == fsloop.StepClose, "NextStep sets the step")
	// the injected deadline used by the gated replay is indistinguishable from the real one through the API
	lp := fsloop.NewLoop(&fsloop.LoopData{Filespace: backing(&node{dir: true, listable: true}), Consumers: 1, Producents: 1}, nil)
	lp.Run("")
	lp.Wait()
	chk(len(lp.Errors()) == 0, "empty walk ends without errors")
	chk(injectTimeout(lp) && kinds(lp.Errors()) == "deadline", "injected deadline shows as deadline: "+kinds(lp.Errors()))
	if len(bad) == 0 {
		fmt.Println("lifecycle checks=14 verdict=ok")
	} else {
		fmt.Printf("lifecycle verdict=FAIL(%s)\n", strings.ReplaceAll(strings.Join(bad, "|"), " ", "_"))
	}
}

func main() {
	if len(os.Args) < 2 {
		fmt.Fprintln(os.Stderr, "usage: loop drive|gen <n>|stress <tier>|users <n>|facts")
		os.Exit(2)
	}
	switch os.Args[1] {
	case "drive":
		drive()
	case "gen":
		n, _ := strconv.Atoi(os.Args[2])
		gen(n)
	case "stress":
		tier := "quick"
		if len(os.Args) > 2 {
			tier = os.Args[2]
		}
		stress(tier)
	case "hammer":
		n, _ := strconv.Atoi(os.Args[2])
		hammer(n)
	case "stressone":
		reps := 200
		if len(os.Args) > 3 {
			reps, _ = strconv.Atoi(os.Args[3])
		}
		stressOneLine(os.Args[2], reps)
	case "users":
		n := 200
		if len(os.Args) > 2 {
			n, _ = strconv.Atoi(os.Args[2])
		}
		users(n)
	case "facts":
		facts()
	case "lifecycle":
		lifecycleAPI()
	default:
		os.Exit(2)
	}
}
