// Command loop is the implementation side of property C08 (filesystem/fsloop).
//
//	loop drive            case lines on stdin -> one result line per case (same format as m_loop):
//	                      gated schedule replay of the REAL fsloop; goroutines park at the verifhook
//	                      yield points (consumer top / gap / exit, closer waited / announced / closed),
//	                      inside the callbacks and — the single producer — before every ReadDir and
//	                      filter call, and are released one at a time in the order of the schedule
//	loop gen <n>          n seeded case lines (random trees, filters, schedules + adversarial family)
//	loop stress <quick|thorough>   ungated stress over tree shapes, limits 1..16, GOMAXPROCS
//	loop users <n>        the two real users: fshelper.Copy (Consumers: 1) and fsi18loader.Load
//	loop facts            go/ast facts about Consumer.Loop and the closer as Lean data (see facts.go)
package main

import (
	"bufio"
	"fmt"
	"os"
	"runtime"
	"sort"
	"strconv"
	"strings"
	"sync"
	"sync/atomic"
	"time"

	"gcverif/internal/hx"

	"github.com/goatcms/goatcore/filesystem"
	"github.com/goatcms/goatcore/filesystem/filespace/memfs"
	"github.com/goatcms/goatcore/filesystem/fsloop"
	"github.com/goatcms/goatcore/verifhook"
)

// FS is the alias needed to embed the interface (it has a method named Filespace).
type FS = filesystem.Filespace

// ---------------------------------------------------------------------------------------------
// trees and the specification of the walk (computed independently of fsloop)

type node struct {
	name     string
	dir      bool
	listable bool
	kids     []*node
}

func parseNode(s string, i int) (*node, int, bool) {
	if i >= len(s) {
		return nil, i, false
	}
	switch {
	case s[i] == 'f':
		return &node{}, i + 1, true
	case (s[i] == 'd' || s[i] == 'x') && i+1 < len(s) && s[i+1] == '(':
		n := &node{dir: true, listable: s[i] == 'd'}
		i += 2
		for {
			if i >= len(s) {
				return nil, i, false
			}
			if s[i] == ')' {
				return n, i + 1, true
			}
			if s[i] == ',' {
				i++
				continue
			}
			j := strings.IndexByte(s[i:], ':')
			if j < 0 {
				return nil, i, false
			}
			name := s[i : i+j]
			k, ni, ok := parseNode(s, i+j+1)
			if !ok {
				return nil, ni, false
			}
			k.name = name
			n.kids = append(n.kids, k)
			i = ni
		}
	}
	return nil, i, false
}

func (n *node) encode(b *strings.Builder) {
	if !n.dir {
		b.WriteByte('f')
		return
	}
	if n.listable {
		b.WriteString("d(")
	} else {
		b.WriteString("x(")
	}
	for i, k := range n.kids {
		if i > 0 {
			b.WriteByte(',')
		}
		b.WriteString(k.name)
		b.WriteByte(':')
		k.encode(b)
	}
	b.WriteByte(')')
}

type walkCfg struct {
	ff, df        func(string) bool // accept predicates; nil = no filter configured
	onFile, onDir bool
}

func (c *walkCfg) accF(p string) bool { return c.ff == nil || c.ff(p) }
func (c *walkCfg) accD(p string) bool { return c.df == nil || c.df(p) }

// selectedOf: "every file and every directory that passes the filters, descending only into
// accepted (and listable) directories"; items are "d<path>" / "f<path>".
func selectedOf(c *walkCfg, root string, r *node) (sel []string, listFails []string) {
	var rec func(base string, n *node)
	rec = func(base string, n *node) {
		for _, k := range n.kids {
			if k.name == "." || k.name == ".." {
				continue
			}
			p := base + k.name
			if k.dir {
				if !c.accD(p) {
					continue
				}
				if c.onDir {
					sel = append(sel, "d"+p)
				}
				if k.listable {
					rec(p+"/", k)
				} else {
					listFails = append(listFails, p)
				}
			} else if c.onFile && c.accF(p) {
				sel = append(sel, "f"+p)
			}
		}
	}
	if r.listable {
		rec(root, r)
	} else {
		listFails = append(listFails, root)
	}
	sort.Strings(sel)
	return
}

// ---------------------------------------------------------------------------------------------
// the gate scheduler

type slot struct {
	point string
	rel   chan struct{}
}

type sched struct {
	mu       sync.Mutex
	cond     *sync.Cond
	free     bool
	cur      map[string]*slot
	gids     map[int64]string
	nextCons int
	kClosed  bool
	timedOut bool
}

func newSched() *sched {
	s := &sched{cur: map[string]*slot{}, gids: map[int64]string{}}
	s.cond = sync.NewCond(&s.mu)
	return s
}

func curGID() int64 {
	var buf [64]byte
	n := runtime.Stack(buf[:], false)
	f := strings.Fields(string(buf[:n]))
	if len(f) < 2 {
		return -1
	}
	id, _ := strconv.ParseInt(f[1], 10, 64)
	return id
}

// arrive parks the calling goroutine as `thread` at `point` until released (no-op in free mode).
func (s *sched) arrive(thread, point string) {
	s.mu.Lock()
	if s.free {
		s.mu.Unlock()
		return
	}
	sl := &slot{point: point, rel: make(chan struct{})}
	s.cur[thread] = sl
	s.cond.Broadcast()
	s.mu.Unlock()
	<-sl.rel
}

func (s *sched) consThread() string {
	gid := curGID()
	s.mu.Lock()
	defer s.mu.Unlock()
	if t, ok := s.gids[gid]; ok {
		return t
	}
	t := "c" + strconv.Itoa(s.nextCons)
	s.nextCons++
	s.gids[gid] = t
	return t
}

func (s *sched) hook(point string) {
	switch point {
	case "fsloop.consumer.top":
		s.arrive(s.consThread(), "top")
	case "fsloop.consumer.gap":
		s.arrive(s.consThread(), "gap")
	case "fsloop.consumer.exit":
		s.arrive(s.consThread(), "exit")
	case "fsloop.closer.waited":
		s.arrive("k", "waited")
	case "fsloop.closer.announced":
		s.arrive("k", "announced")
	case "fsloop.closer.closed":
		s.mu.Lock()
		s.kClosed = true
		s.cond.Broadcast()
		s.mu.Unlock()
	}
}

// waitFor blocks (generously) until pred holds under the lock; false = watchdog expired.
func (s *sched) waitFor(pred func() bool) bool {
	s.mu.Lock()
	defer s.mu.Unlock()
	if pred() {
		return true
	}
	s.timedOut = false
	t := time.AfterFunc(watchdog, func() {
		s.mu.Lock()
		s.timedOut = true
		s.cond.Broadcast()
		s.mu.Unlock()
	})
	defer t.Stop()
	for !pred() {
		if s.timedOut {
			return false
		}
		s.cond.Wait()
	}
	return true
}

func (s *sched) parkedAt(thread string) (string, bool) {
	var p string
	ok := s.waitFor(func() bool {
		if sl := s.cur[thread]; sl != nil {
			p = sl.point
			return true
		}
		return false
	})
	return p, ok
}

func (s *sched) release(thread string) {
	s.mu.Lock()
	if sl := s.cur[thread]; sl != nil {
		delete(s.cur, thread)
		close(sl.rel)
	}
	s.mu.Unlock()
}

func (s *sched) setFree() {
	s.mu.Lock()
	s.free = true
	for t, sl := range s.cur {
		delete(s.cur, t)
		close(sl.rel)
	}
	s.mu.Unlock()
}

var watchdog = 20 * time.Second

// ---------------------------------------------------------------------------------------------
// the gated source filespace (only ReadDir is used by fsloop; callbacks never touch it)

type info struct {
	name string
	dir  bool
}

func (i info) Name() string { return i.name }
func (i info) Size() int64  { return 0 }
func (i info) Mode() os.FileMode {
	if i.dir {
		return os.ModeDir | 0777
	}
	return 0644
}
func (i info) ModTime() time.Time { return time.Time{} }
func (i info) IsDir() bool        { return i.dir }
func (i info) Sys() interface{}   { return nil }

type listErr struct{ p string }

func (e *listErr) Error() string { return "listing failed: " + e.p }

type stubFS struct {
	FS
	root     *node
	rootPath string
	sc       *sched
	mu       sync.Mutex
	listErrs []error
}

func (f *stubFS) resolve(p string) *node {
	rel := strings.TrimPrefix(p, f.rootPath)
	rel = strings.Trim(rel, "/")
	n := f.root
	if rel == "" {
		return n
	}
	for _, seg := range strings.Split(rel, "/") {
		var nx *node
		for _, k := range n.kids {
			if k.name == seg {
				nx = k
				break
			}
		}
		if nx == nil {
			return nil
		}
		n = nx
	}
	return n
}

func (f *stubFS) ReadDir(p string) ([]os.FileInfo, error) {
	if f.sc != nil {
		f.sc.arrive("p", "list:"+p)
	}
	n := f.resolve(p)
	if n == nil || !n.dir || !n.listable {
		e := &listErr{p}
		f.mu.Lock()
		f.listErrs = append(f.listErrs, e)
		f.mu.Unlock()
		return nil, e
	}
	res := make([]os.FileInfo, len(n.kids))
	for i, k := range n.kids {
		res[i] = info{k.name, k.dir}
	}
	return res, nil
}

// backing builds a real memfs with the same tree: fsloop only calls ReadDir (which the stub answers
// itself, so that listing order, failing listings and "." / ".." entries are under the harness's
// control); any other Filespace method the code under test might call goes to this memfs.
func backing(t *node) filesystem.Filespace {
	fs, err := memfs.NewFilespace()
	if err != nil {
		panic(err)
	}
	var rec func(base string, n *node)
	rec = func(base string, n *node) {
		for _, k := range n.kids {
			if k.name == "." || k.name == ".." {
				continue
			}
			if k.dir {
				fs.MkdirAll(base+k.name, 0777)
				rec(base+k.name+"/", k)
			} else {
				fs.WriteFile(base+k.name, []byte(k.name), 0644)
			}
		}
	}
	rec("", t)
	return fs
}

// ---------------------------------------------------------------------------------------------
// one gated case

type gcase struct {
	n      int
	order  string
	root   string
	tree   *node
	cfg    walkCfg
	failcb map[string]bool
	sched  []string
}

func kv(toks []string, key string) (string, bool) {
	for _, t := range toks {
		if strings.HasPrefix(t, key+"=") {
			return t[len(key)+1:], true
		}
	}
	return "", false
}

func parseSet(s string) map[string]bool {
	m := map[string]bool{}
	if s == "" {
		return m
	}
	for _, p := range strings.Split(s, ";") {
		m[p] = true
	}
	return m
}

func parseCase(line string) (*gcase, bool) {
	toks := strings.Split(line, " ")
	c := &gcase{}
	get := func(k string) string {
		v, _ := kv(toks, k)
		return v
	}
	var err error
	if c.n, err = strconv.Atoi(get("n")); err != nil {
		return nil, false
	}
	c.order = get("order")
	c.root = get("root")
	t, _, ok := parseNode(get("tree"), 0)
	if !ok || !t.dir {
		return nil, false
	}
	c.tree = t
	for _, k := range []string{"ff", "df"} {
		v := get(k)
		var f func(string) bool
		switch {
		case v == "nil":
		case strings.HasPrefix(v, "rej:"):
			m := parseSet(v[4:])
			f = func(p string) bool { return !m[p] }
		default:
			return nil, false
		}
		if k == "ff" {
			c.cfg.ff = f
		} else {
			c.cfg.df = f
		}
	}
	c.cfg.onFile = get("onfile") == "1"
	c.cfg.onDir = get("ondir") == "1"
	if f := get("failcb"); f != "-" {
		c.failcb = parseSet(f)
	} else {
		c.failcb = map[string]bool{}
	}
	if s := get("sched"); s != "" {
		c.sched = strings.Split(s, ",")
	}
	return c, true
}

type cbErr struct{ item string }

func (e *cbErr) Error() string { return "callback failed: " + e.item }

// recorder observes the callbacks of one loop run
type recorder struct {
	mu      sync.Mutex
	done    []string
	cbErrs  map[string]error // failing callbacks that returned
	active  int32
	maxAct  int32
	started int32
}

func (r *recorder) enter() {
	atomic.AddInt32(&r.started, 1)
	a := atomic.AddInt32(&r.active, 1)
	for {
		m := atomic.LoadInt32(&r.maxAct)
		if a <= m || atomic.CompareAndSwapInt32(&r.maxAct, m, a) {
			break
		}
	}
}

func (r *recorder) leave(item string, fail bool) error {
	var e error
	r.mu.Lock()
	r.done = append(r.done, item)
	if fail {
		e = &cbErr{item}
		if r.cbErrs == nil {
			r.cbErrs = map[string]error{}
		}
		r.cbErrs[item] = e
	}
	r.mu.Unlock()
	atomic.AddInt32(&r.active, -1)
	return e
}

func containsErr(errs []error, e error) bool {
	for _, x := range errs {
		if x == e {
			return true
		}
	}
	return false
}

// verdict evaluates the clauses of the property on what was observed.  sel is sorted.
//
// strictListing: the producers are known to have finished (gated runs wait for the closer), so every
// listing failure must already be in errs.  In ungated runs a producer that is still running after
// a kill may fail a listing after Wait returned; there only "a failure happened => errs not empty"
// is a deterministic consequence of the property.
func verdict(rec *recorder, sel []string, listFailsExpected int, listErrs []error, errs []error,
	consumers int, activeAtWait int32, anyFailure bool, strictListing bool) string {
	rec.mu.Lock()
	done := append([]string(nil), rec.done...)
	rec.mu.Unlock()
	sort.Strings(done)
	want := map[string]int{}
	for _, s := range sel {
		want[s]++
	}
	got := map[string]int{}
	for _, d := range done {
		got[d]++
		if got[d] > want[d] {
			return "FAIL(repeated-or-unselected:" + d + ")"
		}
	}
	if activeAtWait != 0 {
		return "FAIL(callback-running-when-wait-returned)"
	}
	if int(atomic.LoadInt32(&rec.maxAct)) > consumers {
		return fmt.Sprintf("FAIL(concurrent-callbacks:%d>%d)", rec.maxAct, consumers)
	}
	for item, e := range rec.cbErrs {
		if !containsErr(errs, e) {
			return "FAIL(callback-error-not-recorded:" + item + ")"
		}
	}
	for _, e := range listErrs {
		if strictListing && !containsErr(errs, e) {
			return "FAIL(listing-error-not-recorded:" + e.Error() + ")"
		}
	}
	if len(errs) == 0 {
		if anyFailure {
			return "FAIL(failure-but-empty-error-list)"
		}
		if len(done) != len(sel) {
			for _, s := range sel {
				if got[s] < want[s] {
					return "FAIL(skipped:" + s + ")"
				}
			}
		}
		if strictListing && len(listErrs) != listFailsExpected {
			return "FAIL(listing-failures-missed)"
		}
	}
	return "ok"
}

func runGated(c *gcase) string {
	sc := newSched()
	verifhook.Set(sc.hook)
	defer verifhook.Set(nil)
	fs := &stubFS{FS: backing(c.tree), root: c.tree, rootPath: c.root, sc: sc}
	rec := &recorder{}
	cfg := c.cfg
	data := &fsloop.LoopData{Filespace: fs, Consumers: c.n, Producents: 1}
	if cfg.ff != nil {
		data.FileFilter = func(_ filesystem.Filespace, p string) bool {
			sc.arrive("p", "ff:"+p)
			return cfg.ff(p)
		}
	}
	if cfg.df != nil {
		data.DirFilter = func(_ filesystem.Filespace, p string) bool {
			sc.arrive("p", "fd:"+p)
			return cfg.df(p)
		}
	}
	cb := func(kind string) filesystem.LoopOn {
		return func(_ filesystem.Filespace, p string) error {
			rec.enter()
			sc.arrive(sc.consThread(), "cb"+kind+":"+p)
			return rec.leave(kind+p, c.failcb[kind+p])
		}
	}
	if cfg.onFile {
		data.OnFile = cb("f")
	}
	if cfg.onDir {
		data.OnDir = cb("d")
	}
	sel, listFails := selectedOf(&cfg, c.root, c.tree)
	loop := fsloop.NewLoop(data, nil)
	runPath := c.root
	if runPath == "./" && len(c.sched)%2 == 0 {
		runPath = "" // Run("") means "./"
	}
	loop.Run(runPath)

	var obs []string
	hang := func(what string) string {
		sc.setFree()
		return strings.Join(append(obs, "hang:"+what), " ") + " | hang oracle=FAIL(hang:" + what + ")"
	}
	// all consumers reach the top of their loop, the producer its first ReadDir
	for i := 0; i < c.n; i++ {
		ok := sc.waitFor(func() bool { return sc.nextCons >= c.n })
		if !ok {
			return hang("consumers-start")
		}
	}
	for i := 0; i < c.n; i++ {
		if _, ok := sc.parkedAt("c" + strconv.Itoa(i)); !ok {
			return hang("consumer-top")
		}
	}
	if _, ok := sc.parkedAt("p"); !ok {
		return hang("producer-start")
	}
	gone := make([]bool, c.n)
	prodDone := false
	killed := false
	parkOf := func(t string) string {
		sc.mu.Lock()
		defer sc.mu.Unlock()
		if sl := sc.cur[t]; sl != nil {
			return sl.point
		}
		return ""
	}
	stepP := func() (string, bool) {
		if prodDone {
			return "p:noop", true
		}
		gate := parkOf("p")
		sc.release("p")
		if strings.HasPrefix(gate, "list:") {
			if n := fs.resolve(gate[5:]); n == nil || !n.listable {
				killed = true
				return "p:" + gate, true
			}
		}
		// next: the producer parks at its next gate, or it is done and the closer's Wait returns
		ok := sc.waitFor(func() bool { return sc.cur["p"] != nil || sc.cur["k"] != nil })
		if !ok {
			return "p:" + gate, false
		}
		if parkOf("p") == "" {
			prodDone = true
		}
		return "p:" + gate, true
	}
	stepK := func() (string, bool) {
		switch parkOf("k") {
		case "waited":
			sc.release("k")
			if _, ok := sc.parkedAt("k"); !ok {
				return "k:?", false
			}
			return "k:announced", true
		case "announced":
			sc.release("k")
			if !sc.waitFor(func() bool { return sc.kClosed }) {
				return "k:?", false
			}
			return "k:closed", true
		}
		return "k:noop", true
	}
	stepC := func(i int) (string, bool) {
		name := "c" + strconv.Itoa(i)
		if i >= c.n || gone[i] {
			return name + ":noop", true
		}
		at := parkOf(name)
		sc.release(name)
		if at == "exit" {
			gone[i] = true
			return name + ":gone", true
		}
		if strings.HasPrefix(at, "cb") && c.failcb[at[2:3]+at[4:]] {
			killed = true
		}
		nx, ok := sc.parkedAt(name)
		if !ok {
			return name + ":?", false
		}
		return name + ":" + nx, true
	}
	emit := func(o string, ok bool) bool {
		obs = append(obs, o)
		return ok
	}
loopSched:
	for _, tok := range c.sched {
		if killed {
			break
		}
		switch {
		case tok == "p":
			if !emit(stepP()) {
				return hang("p")
			}
		case tok == "k":
			if !emit(stepK()) {
				return hang("k")
			}
		case tok == "K":
			for j := 0; j < 2; j++ {
				if !emit(stepK()) {
					return hang("k")
				}
			}
		case tok == "P":
			for j := 0; j < 100000 && !prodDone && !killed; j++ {
				if !emit(stepP()) {
					return hang("p")
				}
			}
		case strings.HasPrefix(tok, "c"):
			i, err := strconv.Atoi(tok[1:])
			if err != nil {
				obs = append(obs, "bad-token")
				continue loopSched
			}
			if !emit(stepC(i)) {
				return hang(tok)
			}
		case strings.HasPrefix(tok, "g"):
			i, err := strconv.Atoi(tok[1:])
			if err != nil {
				obs = append(obs, "bad-token")
				continue loopSched
			}
			name := "c" + strconv.Itoa(i)
			for j := 0; j < 8 && !killed && parkOf(name) != "gap"; j++ {
				o, ok := stepC(i)
				if !emit(o, ok) {
					return hang(tok)
				}
				if strings.HasSuffix(o, ":noop") {
					break
				}
			}
		default:
			obs = append(obs, "bad-token")
		}
	}
	killedInSched := killed
	// everything runs to completion
	sc.setFree()
	waitDone := make(chan struct{})
	var activeAtWait int32
	go func() {
		loop.Wait()
		activeAtWait = atomic.LoadInt32(&rec.active)
		close(waitDone)
	}()
	steps := strings.Join(obs, " ")
	select {
	case <-waitDone:
	case <-time.After(watchdog):
		return steps + " | done=? wait=hang oracle=FAIL(wait-never-returned)"
	}
	if !sc.waitFor(func() bool { return sc.kClosed }) {
		return steps + " | done=? wait=ok oracle=FAIL(closer-never-finished)"
	}
	errs := loop.Errors()
	fs.mu.Lock()
	listErrs := append([]error(nil), fs.listErrs...)
	fs.mu.Unlock()
	rec.mu.Lock()
	anyFailure := len(rec.cbErrs) > 0 || len(listErrs) > 0
	doneCopy := append([]string(nil), rec.done...)
	rec.mu.Unlock()
	v := verdict(rec, sel, len(listFails), listErrs, errs, c.n, activeAtWait, anyFailure, true)
	if killedInSched {
		return steps + " !killed | killed oracle=" + v
	}
	if anyFailure || len(errs) > 0 {
		return steps + " | killed oracle=" + v
	}
	sort.Strings(doneCopy)
	return steps + " | done=" + strings.Join(doneCopy, ";") + " wait=ok oracle=" + v
}

func drive() {
	in := bufio.NewScanner(os.Stdin)
	in.Buffer(make([]byte, 1<<20), 1<<26)
	w := bufio.NewWriter(os.Stdout)
	defer w.Flush()
	aborted := false
	for in.Scan() {
		line := in.Text()
		if line == "" || strings.HasPrefix(line, "#") {
			continue
		}
		if aborted {
			fmt.Fprintln(w, "aborted")
			continue
		}
		c, ok := parseCase(line)
		if !ok || !strings.HasPrefix(line, "case ") {
			fmt.Fprintln(w, "bad-op")
			w.Flush()
			continue
		}
		var res string
		if p, v := hx.Guard(func() { res = runGated(c) }); p {
			res = fmt.Sprintf("panic | panic oracle=FAIL(panic:%v)", v)
		}
		if strings.Contains(res, "hang") {
			aborted = true // parked goroutines of this case may linger: later cases would be unreliable
		}
		fmt.Fprintln(w, res)
		w.Flush()
	}
}

// ---------------------------------------------------------------------------------------------
// generator

func genTree(r *hx.Rand, depth int, budget *int, stub bool) *node {
	n := &node{dir: true, listable: !r.Chance(1, 16)}
	names := []string{"a", "b", "c", "d", "e", "f2", "g", ".h", "..k"} // dot-prefixed real names are ordinary nodes
	if stub && r.Chance(1, 10) {
		names = append(names, ".", "..")
	}
	k := r.Intn(5)
	perm := r.Intn(len(names))
	for i := 0; i < k && *budget > 0; i++ {
		name := names[(perm+i)%len(names)]
		*budget--
		if depth > 0 && r.Chance(2, 5) {
			c := genTree(r, depth-1, budget, stub)
			c.name = name
			n.kids = append(n.kids, c)
		} else {
			n.kids = append(n.kids, &node{name: name})
		}
	}
	return n
}

func allPaths(base string, n *node, dirs, files *[]string) {
	for _, k := range n.kids {
		p := base + k.name
		if k.dir {
			*dirs = append(*dirs, p)
			allPaths(p+"/", k, dirs, files)
		} else {
			*files = append(*files, p)
		}
	}
}

func genFilter(r *hx.Rand, paths []string) string {
	if r.Chance(1, 3) {
		return "nil"
	}
	var rej []string
	for _, p := range paths {
		if r.Chance(1, 4) {
			rej = append(rej, p)
		}
	}
	return "rej:" + strings.Join(rej, ";")
}

func genCase(r *hx.Rand) string {
	budget := 3 + r.Intn(12)
	tree := genTree(r, 3, &budget, true)
	if r.Chance(9, 10) {
		tree.listable = true
	}
	var tb strings.Builder
	tree.encode(&tb)
	root := "./"
	if r.Chance(1, 5) {
		root = "w/"
	}
	var dirs, files []string
	allPaths(root, tree, &dirs, &files)
	ff, df := genFilter(r, files), genFilter(r, dirs)
	onfile, ondir := "1", "1"
	if r.Chance(1, 8) {
		onfile = "0"
	}
	if r.Chance(1, 8) {
		ondir = "0"
	}
	n := 1 + r.Intn(3)
	if r.Chance(1, 6) {
		n = 1 + r.Intn(16)
	}
	failcb := "-"
	if r.Chance(1, 7) {
		var fs []string
		for _, f := range files {
			if r.Chance(1, 3) {
				fs = append(fs, "f"+f)
			}
		}
		for _, d := range dirs {
			if r.Chance(1, 4) {
				fs = append(fs, "d"+d)
			}
		}
		if len(fs) > 0 {
			failcb = strings.Join(fs, ";")
		}
	}
	ci := func() string { return strconv.Itoa(r.Intn(n)) }
	var toks []string
	randTok := func() string {
		switch r.Intn(10) {
		case 0, 1, 2:
			return "p"
		case 3:
			return "k"
		case 4:
			return "g" + ci()
		default:
			return "c" + ci()
		}
	}
	order := r.Intn(n + 1) // rotation for "all consumers" sequences
	allG := func() {
		for i := 0; i < n; i++ {
			toks = append(toks, "g"+strconv.Itoa((i+order)%n))
		}
	}
	fam := r.Intn(10)
	switch {
	case fam < 4: // random
		for i, l := 0, 5+r.Intn(70); i < l; i++ {
			toks = append(toks, randTok())
		}
	case fam < 8: // adversarial: hold consumers in the gap while producers finish and the closer announces
		for i, l := 0, r.Intn(12); i < l; i++ {
			toks = append(toks, randTok())
		}
		allG()
		toks = append(toks, "P")
		if r.Chance(1, 4) {
			toks = append(toks, "K")
		} else {
			toks = append(toks, "k")
		}
		for i, l := 0, r.Intn(20); i < l; i++ {
			toks = append(toks, "c"+ci())
		}
	case fam < 9: // hold one consumer, let the others work
		h := r.Intn(n)
		toks = append(toks, "g"+strconv.Itoa(h))
		for i, l := 0, 5+r.Intn(40); i < l; i++ {
			t := randTok()
			if t == "c"+strconv.Itoa(h) || t == "g"+strconv.Itoa(h) {
				t = "p"
			}
			toks = append(toks, t)
		}
		toks = append(toks, "P", "K", "c"+strconv.Itoa(h))
	default: // free run
	}
	return fmt.Sprintf("case n=%d order=fixed root=%s tree=%s ff=%s df=%s onfile=%s ondir=%s failcb=%s sched=%s",
		n, root, tb.String(), ff, df, onfile, ondir, failcb, strings.Join(toks, ","))
}

func gen(n int) {
	r := hx.NewRand(hx.SeedFromEnv()*0x9e3779b97f4a7c15 + 8)
	w := bufio.NewWriter(os.Stdout)
	defer w.Flush()
	// the named witness: one consumer held in the gap, one file (lost on the pinned order)
	fmt.Fprintln(w, "case n=1 order=fixed root=./ tree=d(a:f) ff=nil df=nil onfile=1 ondir=1 failcb=- sched=g0,P,k,c0,c0")
	fmt.Fprintln(w, "case n=2 order=fixed root=./ tree=d(a:f,d:d(x:f)) ff=nil df=nil onfile=1 ondir=1 failcb=- sched=g1,g0,P,K,c0,c1")
	for i := 2; i < n; i++ {
		fmt.Fprintln(w, genCase(r))
	}
}

func main() {
	if len(os.Args) < 2 {
		fmt.Fprintln(os.Stderr, "usage: loop drive|gen <n>|stress <tier>|users <n>|facts")
		os.Exit(2)
	}
	switch os.Args[1] {
	case "drive":
		drive()
	case "gen":
		n, _ := strconv.Atoi(os.Args[2])
		gen(n)
	case "stress":
		tier := "quick"
		if len(os.Args) > 2 {
			tier = os.Args[2]
		}
		stress(tier)
	case "hammer":
		n, _ := strconv.Atoi(os.Args[2])
		hammer(n)
	case "stressone":
		reps := 200
		if len(os.Args) > 3 {
			reps, _ = strconv.Atoi(os.Args[3])
		}
		stressOneLine(os.Args[2], reps)
	case "users":
		n := 200
		if len(os.Args) > 2 {
			n, _ = strconv.Atoi(os.Args[2])
		}
		users(n)
	case "facts":
		facts()
	default:
		os.Exit(2)
	}
}
