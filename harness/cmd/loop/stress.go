package main

// Ungated stress of the real fsloop on memfs trees (support for the proof, not part of it):
// tree shapes empty / single / deep 200 / wide 3000 files (> channel capacity 1000) / wide 1500
// directories / mixed / random, consumer and producer limits 1..16, varying GOMAXPROCS, random
// filters, and in a quarter of the runs an injected failure (callback error or listing error).
// Every run is judged by `verdict`: nothing repeated or unselected, no callback running when Wait
// returns, at most `consumers` callbacks at once, every failure in Errors(), and with an empty
// error list done = selected (computed by selectedOf from the tree and the filters, not by fsloop).

import (
	"bufio"
	"fmt"
	"os"
	"runtime"
	"sort"
	"strconv"
	"sync/atomic"
	"time"

	"gcverif/internal/hx"

	"github.com/goatcms/goatcore/filesystem"
	"github.com/goatcms/goatcore/filesystem/filespace/memfs"
	"github.com/goatcms/goatcore/filesystem/fsloop"
)

type shape struct {
	name string
	tree *node
	fs   filesystem.Filespace
}

func buildMem(base string, n *node, fs filesystem.Filespace) {
	for _, k := range n.kids {
		p := base + k.name
		if k.dir {
			if err := fs.MkdirAll(p, 0777); err != nil {
				panic(err)
			}
			buildMem(p+"/", k, fs)
		} else if err := fs.WriteFile(p, []byte(p), 0644); err != nil {
			panic(err)
		}
	}
}

func mkShape(name string, tree *node) *shape {
	fs, err := memfs.NewFilespace()
	if err != nil {
		panic(err)
	}
	buildMem("", tree, fs)
	return &shape{name, tree, fs}
}

func dirOf(name string, kids ...*node) *node {
	return &node{name: name, dir: true, listable: true, kids: kids}
}

func shapes(r *hx.Rand, thorough bool) []*shape {
	var res []*shape
	res = append(res, mkShape("empty", dirOf("")))
	res = append(res, mkShape("single", dirOf("", &node{name: "only"})))
	// deep 200: a chain of directories, one file at every level
	deep := dirOf("")
	cur := deep
	for i := 0; i < 200; i++ {
		d := dirOf("d" + strconv.Itoa(i))
		cur.kids = append(cur.kids, &node{name: "f" + strconv.Itoa(i)}, d)
		cur = d
	}
	res = append(res, mkShape("deep200", deep))
	wide := dirOf("")
	for i := 0; i < 3000; i++ {
		wide.kids = append(wide.kids, &node{name: "w" + strconv.Itoa(i)})
	}
	res = append(res, mkShape("wide3000files", wide))
	wd := dirOf("")
	for i := 0; i < 1500; i++ {
		wd.kids = append(wd.kids, dirOf("d"+strconv.Itoa(i), &node{name: "x"}))
	}
	res = append(res, mkShape("wide1500dirs", wd))
	mixed := dirOf("")
	for i := 0; i < 40; i++ {
		d := dirOf("m" + strconv.Itoa(i))
		for j := 0; j < 40; j++ {
			d.kids = append(d.kids, &node{name: "f" + strconv.Itoa(j)})
		}
		mixed.kids = append(mixed.kids, d)
	}
	res = append(res, mkShape("mixed40x40", mixed))
	nr := 3
	if thorough {
		nr = 8
	}
	for i := 0; i < nr; i++ {
		budget := 100 + r.Intn(600)
		var grow func(depth int) *node
		grow = func(depth int) *node {
			n := dirOf("")
			k := 1 + r.Intn(9)
			for j := 0; j < k && budget > 0; j++ {
				budget--
				name := "n" + strconv.Itoa(j)
				if depth > 0 && r.Chance(1, 3) {
					c := grow(depth - 1)
					c.name = name
					n.kids = append(n.kids, c)
				} else {
					n.kids = append(n.kids, &node{name: name})
				}
			}
			return n
		}
		t := grow(7)
		for budget > 0 { // spend the budget on the root level so that sizes vary
			budget--
			t.kids = append(t.kids, &node{name: "r" + strconv.Itoa(budget)})
		}
		res = append(res, mkShape("random"+strconv.Itoa(i), t))
	}
	return res
}

func mix(s string, salt uint64) uint64 {
	h := salt ^ 0xcbf29ce484222325
	for i := 0; i < len(s); i++ {
		h ^= uint64(s[i])
		h *= 0x100000001b3
	}
	h ^= h >> 29
	h *= 0xbf58476d1ce4e5b9
	return h ^ (h >> 32)
}

// failFS makes ReadDir of chosen directories fail
type failFS struct {
	FS
	fail     func(string) bool
	listErrs []error
	mu       chan struct{}
}

func (f *failFS) ReadDir(p string) ([]os.FileInfo, error) {
	if f.fail != nil && f.fail(p) {
		e := &listErr{p}
		f.mu <- struct{}{}
		f.listErrs = append(f.listErrs, e)
		<-f.mu
		return nil, e
	}
	return f.FS.ReadDir(p)
}

type stressRes struct {
	verdict  string
	sel      int
	done     int
	nerr     int
	maxAct   int32
	lateCall bool
}

func stressOne(sh *shape, consumers, producers int, salt uint64, inject int, useFF, useDF, onDir, onFile bool) stressRes {
	cfg := walkCfg{onFile: onFile, onDir: onDir}
	if useFF {
		cfg.ff = func(p string) bool { return mix(p, salt)%4 != 0 }
	}
	if useDF {
		cfg.df = func(p string) bool { return mix(p, salt+1)%5 != 0 }
	}
	// the failing listing (inject == 2): an accepted directory chosen by hash; `strip` undoes the
	// trailing slash a freshly started producer adds
	strip := func(p string) string {
		if len(p) > 2 && p[len(p)-1] == '/' {
			return p[:len(p)-1]
		}
		return p
	}
	failList := func(p string) bool { return inject == 2 && p != "./" && mix(strip(p), salt+2)%7 == 0 }
	// spec tree with the listable flags this run uses
	var mark func(base string, n *node) *node
	mark = func(base string, n *node) *node {
		c := &node{name: n.name, dir: true, listable: base == "./" || !failList(strip(base))}
		for _, k := range n.kids {
			if k.dir {
				c.kids = append(c.kids, mark(base+k.name+"/", k))
			} else {
				c.kids = append(c.kids, k)
			}
		}
		return c
	}
	spec := sh.tree
	if inject == 2 {
		spec = mark("./", sh.tree)
	}
	sel, listFails := selectedOf(&cfg, "./", spec)
	failCb := func(item string) bool { return inject == 1 && mix(item, salt+3)%97 == 0 }
	rec := &recorder{}
	ffs := &failFS{FS: sh.fs, fail: failList, mu: make(chan struct{}, 1)}
	data := &fsloop.LoopData{Filespace: ffs, Consumers: consumers, Producents: producers}
	if cfg.ff != nil {
		data.FileFilter = func(_ filesystem.Filespace, p string) bool { return cfg.ff(p) }
	}
	if cfg.df != nil {
		data.DirFilter = func(_ filesystem.Filespace, p string) bool { return cfg.df(p) }
	}
	cb := func(kind string) filesystem.LoopOn {
		return func(_ filesystem.Filespace, p string) error {
			rec.enter()
			switch mix(p, salt+4) % 64 {
			case 0:
				time.Sleep(30 * time.Microsecond)
			case 1, 2, 3:
				runtime.Gosched()
			}
			return rec.leave(kind+p, failCb(kind+p))
		}
	}
	if onFile {
		data.OnFile = cb("f")
	}
	if onDir {
		data.OnDir = cb("d")
	}
	loop := fsloop.NewLoop(data, nil)
	loop.Run("")
	waitDone := make(chan struct{})
	var activeAtWait, startedAtWait int32
	go func() {
		loop.Wait()
		activeAtWait = atomic.LoadInt32(&rec.active)
		startedAtWait = atomic.LoadInt32(&rec.started)
		close(waitDone)
	}()
	select {
	case <-waitDone:
	case <-time.After(60 * time.Second):
		return stressRes{verdict: "FAIL(wait-never-returned)", sel: len(sel)}
	}
	errs := loop.Errors()
	ffs.mu <- struct{}{}
	listErrs := append([]error(nil), ffs.listErrs...)
	<-ffs.mu
	rec.mu.Lock()
	anyFailure := len(rec.cbErrs) > 0 || len(listErrs) > 0
	ndone := len(rec.done)
	rec.mu.Unlock()
	v := verdict(rec, sel, len(listFails), listErrs, errs, consumers, activeAtWait, anyFailure)
	// no callback may start after Wait returned (waiting here can only miss, never false-alarm)
	time.Sleep(300 * time.Microsecond)
	late := atomic.LoadInt32(&rec.started) != startedAtWait
	if late && v == "ok" {
		v = "FAIL(callback-started-after-wait-returned)"
	}
	return stressRes{v, len(sel), ndone, len(errs), atomic.LoadInt32(&rec.maxAct), late}
}

func stress(tier string) {
	thorough := tier == "thorough"
	r := hx.NewRand(hx.SeedFromEnv()*0x9e3779b97f4a7c15 + 88)
	w := bufio.NewWriter(os.Stdout)
	defer w.Flush()
	shs := shapes(r, thorough)
	gmps := []int{1, 2, 4, 8, 16}
	old := runtime.GOMAXPROCS(0)
	defer runtime.GOMAXPROCS(old)
	runs, fails := 0, 0
	for _, sh := range shs {
		type pair struct{ c, p int }
		var pairs []pair
		if thorough {
			for c := 1; c <= 16; c++ {
				for p := 1; p <= 16; p++ {
					pairs = append(pairs, pair{c, p})
				}
			}
		} else {
			pairs = []pair{{1, 1}, {1, 16}, {16, 1}, {16, 16}, {2, 3}}
			for c := 1; c <= 16; c++ { // every limit value occurs on both sides
				pairs = append(pairs, pair{c, 1 + r.Intn(16)}, pair{1 + r.Intn(16), c})
			}
		}
		reps := 1
		if sh.name == "empty" || sh.name == "single" {
			reps = 4 // cheap, and the exit protocol is most exposed when there is (almost) nothing to do
		}
		for _, pr := range pairs {
			for rep := 0; rep < reps; rep++ {
				g := gmps[r.Intn(len(gmps))]
				runtime.GOMAXPROCS(g)
				inject := 0
				if r.Chance(1, 4) {
					inject = 1 + r.Intn(2)
				}
				useFF, useDF := r.Chance(2, 3), r.Chance(2, 3)
				onDir, onFile := !r.Chance(1, 10), !r.Chance(1, 10)
				salt := r.U64()
				res := stressOne(sh, pr.c, pr.p, salt, inject, useFF, useDF, onDir, onFile)
				runs++
				if res.verdict != "ok" {
					fails++
				}
				fmt.Fprintf(w, "stress shape=%s c=%d p=%d gmp=%d inject=%d ff=%v df=%v ondir=%v onfile=%v salt=%d sel=%d done=%d errs=%d maxcb=%d verdict=%s\n",
					sh.name, pr.c, pr.p, g, inject, useFF, useDF, onDir, onFile, salt, res.sel, res.done, res.nerr, res.maxAct, res.verdict)
			}
		}
		w.Flush()
	}
	fmt.Fprintf(w, "stress-summary runs=%d fails=%d shapes=%d goroutines=%d\n", runs, fails, len(shs), runtime.NumGoroutine())
}

var _ = sort.Strings
