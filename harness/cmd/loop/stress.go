package main

// Ungated stress of the real fsloop on memfs trees (support for the proof, not part of it):
// tree shapes empty / single / deep 200 / wide 3000 files (> channel capacity 1000) / wide 1500
// directories / mixed / random, consumer and producer limits 1..16, varying GOMAXPROCS, random
// filters, in a quarter of the runs an injected failure (callback error or listing error), and in a
// quarter of the runs (independently) a scope Kill or Error event at a random moment: after a random
// short delay, or when the k-th callback starts.
// Every run is judged by `verdict`: nothing repeated or unselected, no callback running when Wait
// returns, at most `consumers` callbacks at once, every failure a callback returned in Errors(), a
// kill that was delivered before Wait returned shows in Errors(), Wait returns (60 s watchdog), no
// callback starts after Wait returned, and with an empty error list done = selected (computed by
// selectedOf from the tree and the filters, not by fsloop).

import (
	"bufio"
	"fmt"
	"os"
	"runtime"
	"sort"
	"strconv"
	"strings"
	"sync/atomic"
	"time"

	"gcverif/internal/hx"

	"github.com/goatcms/goatcore/app"
	"github.com/goatcms/goatcore/app/scope/eventscope"
	"github.com/goatcms/goatcore/filesystem"
	"github.com/goatcms/goatcore/filesystem/filespace/memfs"
	"github.com/goatcms/goatcore/filesystem/fsloop"
)

type shape struct {
	name string
	tree *node
	fs   filesystem.Filespace
}

func buildMem(base string, n *node, fs filesystem.Filespace) {
	for _, k := range n.kids {
		p := base + k.name
		if k.dir {
			if err := fs.MkdirAll(p, 0777); err != nil {
				panic(err)
			}
			buildMem(p+"/", k, fs)
		} else if err := fs.WriteFile(p, []byte(p), 0644); err != nil {
			panic(err)
		}
	}
}

func mkShape(name string, tree *node) *shape {
	fs, err := memfs.NewFilespace()
	if err != nil {
		panic(err)
	}
	buildMem("", tree, fs)
	return &shape{name, tree, fs}
}

func dirOf(name string, kids ...*node) *node {
	return &node{name: name, dir: true, listable: true, kids: kids}
}

func shapes(r *hx.Rand, thorough bool) []*shape {
	var res []*shape
	res = append(res, mkShape("empty", dirOf("")))
	res = append(res, mkShape("single", dirOf("", &node{name: "only"})))
	// deep 200: a chain of directories, one file at every level
	deep := dirOf("")
	cur := deep
	for i := 0; i < 200; i++ {
		d := dirOf("d" + strconv.Itoa(i))
		cur.kids = append(cur.kids, &node{name: "f" + strconv.Itoa(i)}, d)
		cur = d
	}
	res = append(res, mkShape("deep200", deep))
	wide := dirOf("")
	for i := 0; i < 3000; i++ {
		wide.kids = append(wide.kids, &node{name: "w" + strconv.Itoa(i)})
	}
	res = append(res, mkShape("wide3000files", wide))
	wd := dirOf("")
	for i := 0; i < 1500; i++ {
		wd.kids = append(wd.kids, dirOf("d"+strconv.Itoa(i), &node{name: "x"}))
	}
	res = append(res, mkShape("wide1500dirs", wd))
	mixed := dirOf("")
	for i := 0; i < 40; i++ {
		d := dirOf("m" + strconv.Itoa(i))
		for j := 0; j < 40; j++ {
			d.kids = append(d.kids, &node{name: "f" + strconv.Itoa(j)})
		}
		mixed.kids = append(mixed.kids, d)
	}
	res = append(res, mkShape("mixed40x40", mixed))
	nr := 3
	if thorough {
		nr = 8
	}
	for i := 0; i < nr; i++ {
		budget := 100 + r.Intn(600)
		var grow func(depth int) *node
		grow = func(depth int) *node {
			n := dirOf("")
			k := 1 + r.Intn(9)
			for j := 0; j < k && budget > 0; j++ {
				budget--
				name := "n" + strconv.Itoa(j)
				if depth > 0 && r.Chance(1, 3) {
					c := grow(depth - 1)
					c.name = name
					n.kids = append(n.kids, c)
				} else {
					n.kids = append(n.kids, &node{name: name})
				}
			}
			return n
		}
		t := grow(7)
		for budget > 0 { // spend the budget on the root level so that sizes vary
			budget--
			t.kids = append(t.kids, &node{name: "r" + strconv.Itoa(budget)})
		}
		res = append(res, mkShape("random"+strconv.Itoa(i), t))
	}
	return res
}

func mix(s string, salt uint64) uint64 {
	h := salt ^ 0xcbf29ce484222325
	for i := 0; i < len(s); i++ {
		h ^= uint64(s[i])
		h *= 0x100000001b3
	}
	h ^= h >> 29
	h *= 0xbf58476d1ce4e5b9
	return h ^ (h >> 32)
}

// failFS makes ReadDir of chosen directories fail
type failFS struct {
	FS
	fail     func(string) bool
	listErrs []error
	mu       chan struct{}
}

func (f *failFS) ReadDir(p string) ([]os.FileInfo, error) {
	if f.fail != nil && f.fail(p) {
		e := &listErr{p}
		f.mu <- struct{}{}
		f.listErrs = append(f.listErrs, e)
		<-f.mu
		return nil, e
	}
	return f.FS.ReadDir(p)
}

type stressRes struct {
	verdict  string
	sel      int
	done     int
	nerr     int
	maxAct   int32
	lateCall bool
}

func stressOne(sh *shape, consumers, producers int, salt uint64, inject, kill int, useFF, useDF, onDir, onFile bool) stressRes {
	cfg := walkCfg{onFile: onFile, onDir: onDir}
	if useFF {
		cfg.ff = func(p string) bool { return mix(p, salt)%4 != 0 }
	}
	if useDF {
		cfg.df = func(p string) bool { return mix(p, salt+1)%5 != 0 }
	}
	// the failing listing (inject == 2): an accepted directory chosen by hash; `strip` undoes the
	// trailing slash a freshly started producer adds
	strip := func(p string) string {
		if len(p) > 2 && p[len(p)-1] == '/' {
			return p[:len(p)-1]
		}
		return p
	}
	failList := func(p string) bool {
		if inject == 3 {
			return p == "./" // the root listing itself fails
		}
		return inject == 2 && p != "./" && mix(strip(p), salt+2)%7 == 0
	}
	// spec tree with the listable flags this run uses
	var mark func(base string, n *node) *node
	mark = func(base string, n *node) *node {
		c := &node{name: n.name, dir: true, listable: !failList(strip(base))}
		for _, k := range n.kids {
			if k.dir {
				c.kids = append(c.kids, mark(base+k.name+"/", k))
			} else {
				c.kids = append(c.kids, k)
			}
		}
		return c
	}
	spec := sh.tree
	if inject >= 2 {
		spec = mark("./", sh.tree)
	}
	sel, listFails := selectedOf(&cfg, "./", spec)
	fm := uint64(len(sel)/4 + 1) // about four failing callbacks, whatever the size
	failCb := func(item string) bool { return inject == 1 && mix(item, salt+3)%fm == 0 }
	rec := &recorder{}
	ffs := &failFS{FS: sh.fs, fail: failList, mu: make(chan struct{}, 1)}
	data := &fsloop.LoopData{Filespace: ffs, Consumers: consumers, Producents: producers}
	if cfg.ff != nil {
		data.FileFilter = func(_ filesystem.Filespace, p string) bool { return cfg.ff(p) }
	}
	if cfg.df != nil {
		data.DirFilter = func(_ filesystem.Filespace, p string) bool { return cfg.df(p) }
	}
	// the environment: a scope Kill (kill = 1, 3) or Error (2, 4) event, after a short random delay (1, 2) or
	// when the k-th callback starts (3, 4)
	var scope app.EventScope
	var killDone int32
	killAt := int32(-1)
	killCh := make(chan struct{}, 1)
	startKill := func() {}
	if kill != 0 {
		scope = eventscope.New()
		ev := interface{}(app.KillEvent)
		var evData interface{}
		if kill == 2 || kill == 4 {
			ev, evData = app.ErrorEvent, &cbErr{"scope-error-event"}
		}
		if kill >= 3 {
			killAt = int32(mix("k", salt+5) % uint64(len(sel)+1))
		}
		delay := time.Duration(mix("d", salt+6)%400) * time.Microsecond
		startKill = func() {
			go func() {
				if kill >= 3 {
					select {
					case <-killCh:
					case <-time.After(5 * time.Second): // fewer callbacks than k (filters, earlier failure): kill late
					}
				} else {
					time.Sleep(delay)
				}
				scope.Trigger(ev, evData)
				atomic.StoreInt32(&killDone, 1)
			}()
		}
	}
	cb := func(kind string) filesystem.LoopOn {
		return func(_ filesystem.Filespace, p string) error {
			rec.enter()
			if killAt >= 0 && atomic.LoadInt32(&rec.started) == killAt+1 {
				select {
				case killCh <- struct{}{}:
				default:
				}
			}
			switch mix(p, salt+4) % 64 {
			case 0:
				time.Sleep(30 * time.Microsecond)
			case 1, 2, 3:
				runtime.Gosched()
			}
			return rec.leave(kind+p, failCb(kind+p))
		}
	}
	if onFile {
		data.OnFile = cb("f")
	}
	if onDir {
		data.OnDir = cb("d")
	}
	loop := fsloop.NewLoop(data, scope)
	loop.Run("")
	startKill() // the scope's slots are connected in Run: events sent earlier would not reach the loop
	waitDone := make(chan struct{})
	var activeAtWait, startedAtWait, killDoneAtWait int32
	go func() {
		loop.Wait()
		activeAtWait = atomic.LoadInt32(&rec.active)
		startedAtWait = atomic.LoadInt32(&rec.started)
		killDoneAtWait = atomic.LoadInt32(&killDone)
		close(waitDone)
	}()
	select {
	case <-waitDone:
	case <-time.After(60 * time.Second):
		return stressRes{verdict: "FAIL(wait-never-returned)", sel: len(sel)}
	}
	errs := loop.Errors()
	ffs.mu <- struct{}{}
	listErrs := append([]error(nil), ffs.listErrs...)
	<-ffs.mu
	rec.mu.Lock()
	anyFailure := len(rec.cbErrs) > 0 || len(listErrs) > 0
	ndone := len(rec.done)
	rec.mu.Unlock()
	v := verdict(rec, sel, len(listFails), listErrs, errs, consumers, activeAtWait, anyFailure, false)
	if v == "ok" && killDoneAtWait == 1 && len(errs) == 0 {
		v = "FAIL(killed-before-wait-returned-but-empty-error-list)"
	}
	// no callback may start after Wait returned (waiting here can only miss, never false-alarm)
	time.Sleep(300 * time.Microsecond)
	late := atomic.LoadInt32(&rec.started) != startedAtWait
	if late && v == "ok" {
		v = "FAIL(callback-started-after-wait-returned)"
	}
	return stressRes{v, len(sel), ndone, len(errs), atomic.LoadInt32(&rec.maxAct), late}
}

func stress(tier string) {
	thorough := tier == "thorough"
	r := hx.NewRand(hx.SeedFromEnv()*0x9e3779b97f4a7c15 + 88)
	w := bufio.NewWriter(os.Stdout)
	defer w.Flush()
	shs := shapes(r, thorough)
	gmps := []int{1, 2, 4, 8, 16}
	old := runtime.GOMAXPROCS(0)
	defer runtime.GOMAXPROCS(old)
	runs, fails := 0, 0
	for _, sh := range shs {
		type pair struct{ c, p int }
		var pairs []pair
		if thorough {
			for c := 1; c <= 16; c++ {
				for p := 1; p <= 16; p++ {
					pairs = append(pairs, pair{c, p})
				}
			}
		} else {
			pairs = []pair{{1, 1}, {1, 16}, {16, 1}, {16, 16}, {2, 3}}
			for c := 1; c <= 16; c++ { // every limit value occurs on both sides
				pairs = append(pairs, pair{c, 1 + r.Intn(16)}, pair{1 + r.Intn(16), c})
			}
		}
		reps := 1
		if sh.name == "empty" || sh.name == "single" {
			reps = 4 // cheap, and the exit protocol is most exposed when there is (almost) nothing to do
		}
		for _, pr := range pairs {
			for rep := 0; rep < reps; rep++ {
				g := gmps[r.Intn(len(gmps))]
				runtime.GOMAXPROCS(g)
				inject := 0
				if r.Chance(1, 4) {
					inject = 1 + r.Intn(3)
				}
				kill := 0
				if r.Chance(1, 4) {
					kill = 1 + r.Intn(4)
				}
				useFF, useDF := r.Chance(2, 3), r.Chance(2, 3)
				onDir, onFile := !r.Chance(1, 10), !r.Chance(1, 10)
				salt := r.U64()
				res := stressOne(sh, pr.c, pr.p, salt, inject, kill, useFF, useDF, onDir, onFile)
				runs++
				if res.verdict != "ok" {
					fails++
				}
				hung := strings.Contains(res.verdict, "wait-never-returned")
				fmt.Fprintf(w, "stress shape=%s c=%d p=%d gmp=%d inject=%d kill=%d ff=%v df=%v ondir=%v onfile=%v salt=%d sel=%d done=%d errs=%d maxcb=%d verdict=%s\n",
					sh.name, pr.c, pr.p, g, inject, kill, useFF, useDF, onDir, onFile, salt, res.sel, res.done, res.nerr, res.maxAct, res.verdict)
				if hung { // every further run would cost a full watchdog period
					fmt.Fprintf(w, "stress-summary runs=%d fails=%d shapes=%d aborted-after-hang\n", runs, fails, len(shs))
					return
				}
			}
		}
		w.Flush()
	}
	fmt.Fprintf(w, "stress-summary runs=%d fails=%d shapes=%d goroutines=%d\n", runs, fails, len(shs), runtime.NumGoroutine())
}

// stressOneLine re-runs the configuration of one `stress …` result line `reps` times (replay).
func stressOneLine(line string, reps int) {
	f := map[string]string{}
	for _, t := range strings.Fields(line) {
		if i := strings.IndexByte(t, '='); i > 0 {
			f[t[:i]] = t[i+1:]
		}
	}
	r := hx.NewRand(1)
	var sh *shape
	for _, s := range shapes(r, true) {
		if s.name == f["shape"] {
			sh = s
		}
	}
	if sh == nil {
		fmt.Println("stress-replay unknown-shape (random shapes depend on VERIF_SEED of the original run)")
		return
	}
	c, _ := strconv.Atoi(f["c"])
	p, _ := strconv.Atoi(f["p"])
	g, _ := strconv.Atoi(f["gmp"])
	inj, _ := strconv.Atoi(f["inject"])
	kl, _ := strconv.Atoi(f["kill"])
	salt, _ := strconv.ParseUint(f["salt"], 10, 64)
	if g > 0 {
		runtime.GOMAXPROCS(g)
	}
	fails := 0
	for i := 0; i < reps; i++ {
		res := stressOne(sh, c, p, salt, inj, kl, f["ff"] == "true", f["df"] == "true", f["ondir"] == "true", f["onfile"] == "true")
		if res.verdict != "ok" {
			fails++
			fmt.Printf("stress-replay rep=%d sel=%d done=%d errs=%d verdict=%s\n", i, res.sel, res.done, res.nerr, res.verdict)
		}
	}
	fmt.Printf("stress-replay-summary reps=%d fails=%d\n", reps, fails)
}

// hammer: the exit race of the consumer protocol is most exposed when there is almost nothing to do
// and a single consumer (what fshelper.Copy configures): tiny trees on an in-process stub filespace,
// many rounds, every round judged by "Wait returned, error list empty => every selected node visited".
func hammer(rounds int) {
	r := hx.NewRand(hx.SeedFromEnv()*0x9e3779b97f4a7c15 + 8888)
	trees := []*node{
		dirOf("", &node{name: "a"}),
		dirOf("", dirOf("d")),
		dirOf("", dirOf("d", &node{name: "x"})),
		dirOf("", &node{name: "a"}, &node{name: "b"}, dirOf("d", &node{name: "x"}, &node{name: "y"})),
	}
	backings := make([]filesystem.Filespace, len(trees))
	for i, t := range trees {
		backings[i] = backing(t)
	}
	gmps := []int{1, 2, 3, 4, 8, 16}
	old := runtime.GOMAXPROCS(0)
	defer runtime.GOMAXPROCS(old)
	fails := 0
	first := ""
	for i := 0; i < rounds; i++ {
		if i%500 == 0 {
			runtime.GOMAXPROCS(gmps[r.Intn(len(gmps))])
		}
		ti := r.Intn(len(trees))
		if i%2 == 0 {
			ti = 0
		}
		t := trees[ti]
		consumers := 1
		if r.Chance(1, 4) {
			consumers = 1 + r.Intn(3)
		}
		fs := &stubFS{FS: backings[ti], root: t, rootPath: "./"}
		var nd, nf int32
		data := &fsloop.LoopData{Filespace: fs, Consumers: consumers, Producents: 1 + r.Intn(2),
			OnFile: func(_ filesystem.Filespace, p string) error { atomic.AddInt32(&nf, 1); return nil },
			OnDir:  func(_ filesystem.Filespace, p string) error { atomic.AddInt32(&nd, 1); return nil }}
		cfg := walkCfg{onFile: true, onDir: true}
		sel, _ := selectedOf(&cfg, "./", t)
		loop := fsloop.NewLoop(data, nil)
		loop.Run("")
		loop.Wait()
		if len(loop.Errors()) == 0 && int(atomic.LoadInt32(&nd)+atomic.LoadInt32(&nf)) != len(sel) {
			fails++
			if first == "" {
				first = fmt.Sprintf("round=%d consumers=%d selected=%d callbacks=%d", i, consumers, len(sel), nd+nf)
			}
		}
	}
	if fails > 0 {
		fmt.Printf("hammer rounds=%d fails=%d verdict=FAIL(skipped-or-repeated) first: %s\n", rounds, fails, first)
	} else {
		fmt.Printf("hammer rounds=%d fails=0 verdict=ok\n", rounds)
	}
}

var _ = sort.Strings
