package main

// The two real users of fsloop, ungated:
//   fshelper.Copy(src, dst, dirFilter)  — Consumers: 1, Producents: 1 (the configuration in which the
//       pinned consumer order could lose the last item): dst must hold exactly the selected nodes
//       with equal contents;
//   fsi18loader.Load(fs, "./", i18, nil) — every *.json file is read and Set exactly once.

import (
	"bufio"
	"bytes"
	"fmt"
	"os"
	"sort"
	"strconv"
	"strings"
	"sync"
	"time"

	"gcverif/internal/hx"

	"github.com/goatcms/goatcore/filesystem"
	"github.com/goatcms/goatcore/filesystem/filespace/memfs"
	"github.com/goatcms/goatcore/filesystem/fshelper"
	"github.com/goatcms/goatcore/i18n/fsi18loader"
)

func walkFS(fs filesystem.Filespace, base string, out map[string]string) error {
	if strings.Count(base, "/") > 64 {
		return fmt.Errorf("destination tree deeper than 64")
	}
	list, err := fs.ReadDir(base)
	if err != nil {
		return err
	}
	for _, n := range list {
		if n.Name() == "." || n.Name() == ".." {
			out["d"+base+n.Name()] = "" // a node with such a name is itself a defect of the filespace; do not follow it
			continue
		}
		p := base + n.Name()
		if n.IsDir() {
			out["d"+p] = ""
			if err := walkFS(fs, p+"/", out); err != nil {
				return err
			}
		} else {
			b, err := fs.ReadFile(p)
			if err != nil {
				return err
			}
			out["f"+p] = string(b)
		}
	}
	return nil
}

type recI18 struct {
	mu   sync.Mutex
	sets map[string]int
}

func (r *recI18) Set(values map[string]string) {
	r.mu.Lock()
	for k := range values {
		r.sets[k]++
	}
	r.mu.Unlock()
}
func (r *recI18) SetDefault(values map[string]string) {}
func (r *recI18) Translate(key string, values ...interface{}) (string, error) {
	return "", nil
}

// guardTimed runs f under recover and a watchdog; hung = f did not return in time
func guardTimed(f func()) (panicked bool, val interface{}, hung bool) {
	done := make(chan struct{})
	go func() {
		defer close(done)
		panicked, val = hx.Guard(f)
	}()
	select {
	case <-done:
		return panicked, val, false
	case <-time.After(30 * time.Second):
		return false, nil, true
	}
}

func users(n int) {
	r := hx.NewRand(hx.SeedFromEnv()*0x9e3779b97f4a7c15 + 888)
	w := bufio.NewWriter(os.Stdout)
	defer w.Flush()
	fails := 0
	for it := 0; it < n; it++ {
		// ---- fshelper.Copy
		budget := r.Intn(40)
		if it%7 == 0 {
			budget = r.Intn(3) // tiny trees: the exit race is most exposed
		}
		var grow func(depth int) *node
		grow = func(depth int) *node {
			d := dirOf("")
			k := r.Intn(6)
			for j := 0; j < k && budget > 0; j++ {
				budget--
				name := "n" + strconv.Itoa(j)
				if depth > 0 && r.Chance(1, 3) {
					c := grow(depth - 1)
					c.name = name
					d.kids = append(d.kids, c)
				} else {
					d.kids = append(d.kids, &node{name: name})
				}
			}
			return d
		}
		tree := grow(4)
		if it%7 == 0 && len(tree.kids) == 0 {
			tree.kids = append(tree.kids, &node{name: "last"})
		}
		src, _ := memfs.NewFilespace()
		dst, _ := memfs.NewFilespace()
		buildMem("", tree, src)
		salt := r.U64()
		var filter filesystem.LoopFilter
		cfg := walkCfg{onFile: true, onDir: true}
		if r.Chance(1, 2) {
			cfg.df = func(p string) bool { return mix(p, salt)%4 != 0 }
			filter = func(_ filesystem.Filespace, p string) bool { return cfg.df(p) }
		}
		sel, _ := selectedOf(&cfg, "./", tree)
		var err error
		res := "ok"
		if p, v, hung := guardTimed(func() { err = fshelper.Copy(src, dst, filter) }); hung {
			fmt.Fprintf(w, "users copy it=%d sel=%d filter=%v verdict=FAIL(copy-never-returned)\n", it, len(sel), filter != nil)
			fmt.Fprintf(w, "users-summary runs=%d fails=%d aborted-after-hang\n", 2*it+1, fails+1)
			return
		} else if p {
			res = fmt.Sprintf("FAIL(panic:%v)", v)
		} else if err != nil {
			res = "FAIL(error:" + strings.ReplaceAll(err.Error(), " ", "_") + ")"
		} else {
			got := map[string]string{}
			if e := walkFS(dst, "./", got); e != nil {
				res = "FAIL(walk-dst)"
			} else {
				var gotKeys []string
				for k := range got {
					gotKeys = append(gotKeys, k)
				}
				sort.Strings(gotKeys)
				if strings.Join(gotKeys, ";") != strings.Join(sel, ";") {
					res = fmt.Sprintf("FAIL(copy-set:want=%d,got=%d)", len(sel), len(gotKeys))
					for _, s := range sel {
						if _, ok := got[s]; !ok {
							res = "FAIL(copy-missing:" + s + ")"
							break
						}
					}
				} else {
					for k, v := range got {
						if k[0] == 'f' {
							b, _ := src.ReadFile(k[1:])
							if !bytes.Equal(b, []byte(v)) {
								res = "FAIL(copy-content:" + k + ")"
							}
						}
					}
				}
			}
		}
		if res != "ok" {
			fails++
		}
		fmt.Fprintf(w, "users copy it=%d sel=%d filter=%v verdict=%s\n", it, len(sel), filter != nil, res)

		// ---- fsi18loader.Load
		fs, _ := memfs.NewFilespace()
		want := map[string]int{}
		nf := r.Intn(30)
		if it%5 == 0 {
			nf = 1
		}
		for j := 0; j < nf; j++ {
			dir := ""
			for d, dd := 0, r.Intn(4); d < dd; d++ {
				dir += "l" + strconv.Itoa(r.Intn(3)) + "/"
			}
			key := "k" + strconv.Itoa(j)
			name := dir + "t" + strconv.Itoa(j)
			if r.Chance(3, 4) {
				name += ".json"
				want[key] = 1
			} else {
				name += ".txt"
			}
			if dir != "" {
				fs.MkdirAll(dir, 0777)
			}
			fs.WriteFile(name, []byte(`{"`+key+`":"v`+strconv.Itoa(j)+`"}`), 0644)
		}
		i18 := &recI18{sets: map[string]int{}}
		res = "ok"
		if p, v, hung := guardTimed(func() { err = fsi18loader.Load(fs, "./", i18, nil) }); hung {
			fmt.Fprintf(w, "users i18 it=%d json=%d verdict=FAIL(load-never-returned)\n", it, len(want))
			fmt.Fprintf(w, "users-summary runs=%d fails=%d aborted-after-hang\n", 2*it+2, fails+1)
			return
		} else if p {
			res = fmt.Sprintf("FAIL(panic:%v)", v)
		} else if err != nil {
			res = "FAIL(error)"
		} else {
			for k, c := range want {
				if i18.sets[k] != c {
					res = fmt.Sprintf("FAIL(i18:%s:set=%d)", k, i18.sets[k])
				}
			}
			for k := range i18.sets {
				if want[k] == 0 {
					res = "FAIL(i18-unselected:" + k + ")"
				}
			}
		}
		if res != "ok" {
			fails++
		}
		fmt.Fprintf(w, "users i18 it=%d json=%d verdict=%s\n", it, len(want), res)
	}
	fmt.Fprintf(w, "users-summary runs=%d fails=%d\n", 2*n, fails)
}
