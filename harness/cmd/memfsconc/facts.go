package main

import (
	"bufio"
	"fmt"
	"go/ast"
	"go/parser"
	"go/token"
	"os"
	"path/filepath"
	"sort"
	"strings"
)

// factsMain prints, for every function of the memfs package that touches a lock, the ordered list of
// lock operations and of the calls that themselves wait for a lock:
//
//	fact <func> <item> <item> …
//
// items: Lock(x) Unlock(x) RLock(x) RUnlock(x) — x is the selector the method is called on, with the
// receiver/variable name dropped ("mu", "dataMU", "" for the embedded RWMutex) — prefixed "defer:"
// where deferred, and call:<name> for calls of the lock-taking helpers.  The check compares them with
// the brackets the model assumes (checks/c09.py EXPECTED_FACTS).
func factsMain(out *bufio.Writer, repo string) {
	dir := filepath.Join(repo, "filesystem/filespace/memfs")
	fset := token.NewFileSet()
	files, _ := filepath.Glob(filepath.Join(dir, "*.go"))
	sort.Strings(files)
	helpers := map[string]bool{"getNode": true, "getDir": true, "addNode": true, "mkdir": true,
		"removeNodeByName": true, "getNodes": true, "contains": true, "setData": true, "getData": true,
		"NewFileHandler": true, "copyFile": true, "copyDir": true, "Yield": true}
	lockOps := map[string]bool{"Lock": true, "Unlock": true, "RLock": true, "RUnlock": true}
	lines := []string{}
	for _, fn := range files {
		if strings.HasSuffix(fn, "_test.go") {
			continue
		}
		f, err := parser.ParseFile(fset, fn, nil, 0)
		if err != nil {
			fmt.Fprintln(os.Stderr, err)
			os.Exit(2)
		}
		for _, d := range f.Decls {
			fd, ok := d.(*ast.FuncDecl)
			if !ok || fd.Body == nil {
				continue
			}
			name := fd.Name.Name
			if fd.Recv != nil && len(fd.Recv.List) == 1 {
				t := fd.Recv.List[0].Type
				if st, ok := t.(*ast.StarExpr); ok {
					t = st.X
				}
				if id, ok := t.(*ast.Ident); ok {
					name = id.Name + "." + name
				}
			}
			items := []string{}
			var visit func(n ast.Node, deferred bool)
			callItem := func(c *ast.CallExpr, deferred bool) {
				pre := ""
				if deferred {
					pre = "defer:"
				}
				switch fun := c.Fun.(type) {
				case *ast.SelectorExpr:
					m := fun.Sel.Name
					if lockOps[m] {
						on := ""
						if sel, ok := fun.X.(*ast.SelectorExpr); ok {
							on = sel.Sel.Name
						}
						items = append(items, fmt.Sprintf("%s%s(%s)", pre, m, on))
					} else if helpers[m] {
						if m == "Yield" {
							if len(c.Args) == 1 {
								if bl, ok := c.Args[0].(*ast.BasicLit); ok {
									items = append(items, "hook:"+strings.Trim(bl.Value, "\""))
								}
							}
						} else {
							items = append(items, pre+"call:"+m)
						}
					}
				case *ast.Ident:
					if helpers[fun.Name] {
						items = append(items, pre+"call:"+fun.Name)
					}
				}
			}
			visit = func(n ast.Node, deferred bool) {
				ast.Inspect(n, func(x ast.Node) bool {
					switch v := x.(type) {
					case *ast.DeferStmt:
						for _, a := range v.Call.Args {
							visit(a, false)
						}
						callItem(v.Call, true)
						return false
					case *ast.CallExpr:
						// arguments first (evaluation order), then the call itself
						for _, a := range v.Args {
							visit(a, false)
						}
						if sel, ok := v.Fun.(*ast.SelectorExpr); ok {
							visit(sel.X, false)
						}
						callItem(v, deferred)
						return false
					}
					return true
				})
			}
			visit(fd.Body, false)
			hasLock := false
			for _, it := range items {
				if strings.Contains(it, "ock(") || strings.Contains(it, "call:") {
					hasLock = true
				}
			}
			if hasLock {
				lines = append(lines, "fact "+name+" "+strings.Join(items, " "))
			}
		}
	}
	sort.Strings(lines)
	for _, l := range lines {
		fmt.Fprintln(out, l)
	}
}
