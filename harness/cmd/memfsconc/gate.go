package main

import (
	"bufio"
	"fmt"
	"io/ioutil"
	"os"
	"runtime"
	"sort"
	"strconv"
	"strings"
	"sync"
	"sync/atomic"
	"time"

	"gcverif/internal/hx"

	"github.com/goatcms/goatcore/filesystem"
	"github.com/goatcms/goatcore/filesystem/filespace/memfs"
	"github.com/goatcms/goatcore/verifhook"
)

// FS avoids the clash between the interface name and its method Filespace.
type FS = filesystem.Filespace

const (
	longWait  = 20 * time.Second       // for what the model says must happen
	shortWait = 120 * time.Millisecond // to confirm "blocked" (a blocked goroutine never arrives)
	// once this process has had ONE long wait expire - for whatever reason: a goroutine parked on a lock, a
	// goroutine that neither arrives nor parks, a tree walk that does not return - the property is already
	// violated on that scenario, and every later wait for "what must happen" uses the short figures, so that a
	// tree on which many scenarios go wrong is reported in bounded time.  On a tree where every awaited event
	// arrives nothing changes.  The verdict `hang` on a lock still comes from the runtime, not from the clock.
	hangWatchdog = 1500 * time.Millisecond // patience before the runtime is asked, after the first expiry
	hangConfirm  = 250 * time.Millisecond  // second reading of the goroutine's state
	hardLimit    = 120 * time.Second       // a goroutine that neither arrives nor parks on a lock: first time
	hardShort    = 5 * time.Second         // … after the first expiry
	hardDead     = 2 * time.Second         // … inside a scenario that is already dead
)

// slowSeen counts the long waits of this process that expired (see above).
var slowSeen int32

func expired() { atomic.AddInt32(&slowSeen, 1) }

// patience returns how long something the model says must happen is waited for before the runtime is asked
// (soft), and how long at most when the runtime does not show a goroutine parked on a lock (hard).
func (sc *scenario) patience() (soft, hard time.Duration) {
	switch {
	case sc != nil && sc.dead:
		return shortWait, hardDead
	case atomic.LoadInt32(&slowSeen) > 0:
		return hangWatchdog, hardShort
	}
	return longWait, hardLimit
}

type event struct{ kind, arg string }

type hnd struct {
	w      filesystem.Writer
	r      filesystem.Reader
	writer bool
}

type thr struct {
	id      int
	gid     int64 // runtime id of the thread's goroutine
	hung    bool  // a wait for this thread ended in `hang`
	ops     [][]string
	ev      chan event
	resume  chan struct{}
	state   string // "op", "<hook>", "running", "finished"
	nDone   int
	sc      *scenario
	handles map[int]*hnd
}

type scenario struct {
	dead  bool // a wait ended in "hang": the rest of the scenario is not waited for generously
	fs    FS
	thr   []*thr
	goids sync.Map // goroutine id -> *thr
}

var current atomic.Value // *scenario

func goid() int64 {
	var buf [64]byte
	n := runtime.Stack(buf[:], false)
	// "goroutine 123 ["
	f := strings.Fields(string(buf[:n]))
	if len(f) < 2 {
		return -1
	}
	id, _ := strconv.ParseInt(f[1], 10, 64)
	return id
}

func hook(point string) {
	sc, _ := current.Load().(*scenario)
	if sc == nil {
		return
	}
	v, ok := sc.goids.Load(goid())
	if !ok {
		return
	}
	t := v.(*thr)
	t.ev <- event{"park", point}
	<-t.resume
}

func showList(nodes []os.FileInfo) string {
	parts := make([]string, 0, len(nodes))
	for _, n := range nodes {
		k := ":f"
		if n.IsDir() {
			k = ":d"
		}
		parts = append(parts, n.Name()+k)
	}
	return "list " + strings.Join(parts, ",")
}

func okErr(err error) string {
	if err != nil {
		return "err"
	}
	return "ok"
}

func tf(b bool) string {
	if b {
		return "t"
	}
	return "f"
}

func fsPath(p string) string {
	if p == "-" || p == "" {
		return "."
	}
	return p
}

// exec runs one operation of the replay protocol on the real filespace.
func exec(fs FS, t *thr, op []string) string {
	switch op[0] {
	case "mkdirall":
		return okErr(fs.MkdirAll(fsPath(op[1]), filesystem.DefaultUnixDirMode))
	case "write":
		return okErr(fs.WriteFile(fsPath(op[1]), hx.MustDec(op[2]), filesystem.DefaultUnixFileMode))
	case "read":
		d, err := fs.ReadFile(fsPath(op[1]))
		if err != nil {
			return "err"
		}
		return "data " + hx.Enc(d)
	case "readdir":
		nodes, err := fs.ReadDir(fsPath(op[1]))
		if err != nil {
			return "err"
		}
		return showList(nodes)
	case "exist":
		return tf(fs.IsExist(fsPath(op[1])))
	case "isfile":
		return tf(fs.IsFile(fsPath(op[1])))
	case "isdir":
		return tf(fs.IsDir(fsPath(op[1])))
	case "remove":
		return okErr(fs.Remove(fsPath(op[1])))
	case "removeall":
		return okErr(fs.RemoveAll(fsPath(op[1])))
	case "copy":
		return okErr(fs.Copy(fsPath(op[1]), fsPath(op[2])))
	case "copyfile":
		return okErr(fs.CopyFile(fsPath(op[1]), fsPath(op[2])))
	case "copydir":
		return okErr(fs.CopyDirectory(fsPath(op[1]), fsPath(op[2])))
	case "openw":
		h, _ := strconv.Atoi(op[1])
		if _, used := t.handles[h]; used {
			return "err"
		}
		w, err := fs.Writer(fsPath(op[2]))
		if err != nil {
			return "err"
		}
		t.handles[h] = &hnd{w: w, writer: true}
		return "ok"
	case "openr":
		h, _ := strconv.Atoi(op[1])
		if _, used := t.handles[h]; used {
			return "err"
		}
		r, err := fs.Reader(fsPath(op[2]))
		if err != nil {
			return "err"
		}
		t.handles[h] = &hnd{r: r}
		return "ok"
	case "hwrite":
		h, _ := strconv.Atoi(op[1])
		hd := t.handles[h]
		if hd == nil || !hd.writer {
			return "err"
		}
		_, err := hd.w.Write(hx.MustDec(op[2]))
		return okErr(err)
	case "hread":
		h, _ := strconv.Atoi(op[1])
		hd := t.handles[h]
		if hd == nil || hd.writer {
			return "err"
		}
		d, err := ioutil.ReadAll(hd.r)
		if err != nil {
			return "err"
		}
		return "data " + hx.Enc(d)
	case "close":
		h, _ := strconv.Atoi(op[1])
		hd := t.handles[h]
		if hd == nil {
			return "err"
		}
		delete(t.handles, h)
		if hd.writer {
			return okErr(hd.w.Close())
		}
		return okErr(hd.r.Close())
	}
	return "bad-op"
}

func (sc *scenario) start(t *thr) {
	ready := make(chan struct{})
	go func() {
		t.gid = goid()
		sc.goids.Store(t.gid, t)
		close(ready)
		for _, op := range t.ops {
			<-t.resume
			res := "panic"
			hx.Guard(func() { res = exec(sc.fs, t, op) })
			t.ev <- event{"done", res}
		}
		<-t.resume
		t.ev <- event{"finished", ""}
	}()
	<-ready
}

// take records an event of a thread and renders it.
func (t *thr) take(e event) string {
	switch e.kind {
	case "park":
		t.state = e.arg
		return "park " + e.arg
	case "done":
		t.state = "op"
		t.nDone++
		return "done " + e.arg
	default:
		t.state = "finished"
		return "finished"
	}
}

// parkedOnLock reads from the runtime whether the thread's goroutine waits for a sync.Mutex / sync.RWMutex.
func (t *thr) parkedOnLock() bool {
	st, ok := hx.GoroutineStatus(t.gid)
	return ok && hx.ParkedOnLock(st)
}

// await waits for the next event of a thread.
//
// blockedExpected (the model says the thread cannot move): a short wait; a blocked goroutine never arrives.
//
// Otherwise the model says the thread proceeds.
//
//	stalled  the driver has not resumed the thread since its last event (it sits at a gate or between two
//	         operations, waiting for the driver) and no event is queued: nothing can arrive, whatever the
//	         time - the implementation reached that gate EARLIER than the model (where the model had it
//	         blocked) or the model expects a step the implementation does not have.  Decided from the
//	         driver's own bookkeeping, without waiting.
//	hang     a statement about the goroutine, read from the runtime: after a generous wait (patience: longWait;
//	         hangWatchdog once a long wait of this process has expired; shortWait inside a dead scenario) the
//	         goroutine's state is taken from a stop-the-world stack snapshot, and "parked on a sync lock" -
//	         twice, hangConfirm apart, with no event in between - is a hang.  In a gated replay every other
//	         goroutine of the scenario sits at a gate, is finished or is itself blocked, so nobody will
//	         release that lock.  A goroutine that is running, runnable or in anything else is waited for
//	         further, up to the hard limit of patience(), then it is reported as `hang` too (it never returned).
func (t *thr) await(blockedExpected bool) string {
	if blockedExpected {
		select {
		case e := <-t.ev:
			return t.take(e)
		case <-time.After(shortWait):
			return "blocked"
		}
	}
	if t.state != "running" {
		select {
		case e := <-t.ev:
			return t.take(e)
		default:
			return "stalled"
		}
	}
	wait, hard := t.sc.patience()
	if t.hung {
		wait = 0
	}
	start := time.Now()
	for {
		select {
		case e := <-t.ev:
			return t.take(e)
		case <-time.After(wait):
		}
		if t.parkedOnLock() {
			confirm := hangConfirm
			if t.hung {
				confirm = time.Millisecond
			}
			select {
			case e := <-t.ev:
				return t.take(e)
			case <-time.After(confirm):
			}
			if t.parkedOnLock() {
				break
			}
		}
		if time.Since(start) >= hard {
			break
		}
		wait = time.Second
		if hard < 10*time.Second {
			wait = 250 * time.Millisecond
		}
	}
	t.hung = true
	t.sc.dead = true
	expired()
	return "hang"
}

func (sc *scenario) step(t *thr, blockedExpected bool) string {
	if t.state == "finished" {
		return "finished"
	}
	if t.state != "running" {
		t.state = "running"
		t.resume <- struct{}{}
	}
	return t.await(blockedExpected)
}

func (sc *scenario) status() string {
	parts := []string{}
	for _, t := range sc.thr {
		st := t.state
		select {
		case e := <-t.ev:
			st = "unexpected:" + e.kind + ":" + e.arg
		default:
		}
		if st == "running" {
			st = "blocked"
		}
		if st == "op" && t.nDone == len(t.ops) {
			st = "finished"
		}
		parts = append(parts, fmt.Sprintf("%d=%s", t.id, st))
	}
	return "status " + strings.Join(parts, ",")
}

func dumpTree(fs FS, locked map[string]bool) string {
	done := make(chan string, 1)
	go func() {
		items := []string{}
		var walk func(dir string)
		walk = func(dir string) {
			nodes, err := fs.ReadDir(dir)
			if err != nil {
				items = append(items, dir+"!err")
				return
			}
			for _, n := range nodes {
				p := n.Name()
				if dir != "." {
					p = dir + "/" + n.Name()
				}
				if n.IsDir() {
					items = append(items, p+"/")
					walk(p)
				} else if locked[p] {
					items = append(items, p+"=locked")
				} else {
					d, err := fs.ReadFile(p)
					if err != nil {
						items = append(items, p+"=!err")
					} else {
						items = append(items, p+"="+hx.Enc(d))
					}
				}
			}
		}
		hx.Guard(func() { walk(".") })
		sort.Strings(items)
		done <- "tree " + strings.Join(items, " ")
	}()
	soft, _ := (*scenario)(nil).patience()
	select {
	case s := <-done:
		return s
	case <-time.After(soft):
		expired()
		return "tree hang"
	}
}

func (sc *scenario) release() {
	current.Store((*scenario)(nil))
	for _, t := range sc.thr {
		// let every parked goroutine run to completion; goroutines blocked for ever stay behind
		go func(t *thr) {
			for {
				select {
				case t.resume <- struct{}{}:
				case <-t.ev:
				case <-time.After(2 * time.Second):
					return
				}
			}
		}(t)
	}
}

func replayMain(out *bufio.Writer, scenPath, expectPath string) {
	verifhook.Set(hook)
	scen, err := os.Open(scenPath)
	if err != nil {
		fmt.Fprintln(os.Stderr, err)
		os.Exit(2)
	}
	expData, err := ioutil.ReadFile(expectPath)
	if err != nil {
		fmt.Fprintln(os.Stderr, err)
		os.Exit(2)
	}
	exp := strings.Split(strings.TrimRight(string(expData), "\n"), "\n")
	ei := 0
	nextExp := func() string {
		for ei < len(exp) && strings.HasPrefix(exp[ei], "note ") {
			ei++
		}
		if ei < len(exp) {
			ei++
			return exp[ei-1]
		}
		return ""
	}
	peekExp := func() string {
		for ei < len(exp) && strings.HasPrefix(exp[ei], "note ") {
			ei++
		}
		if ei < len(exp) {
			return exp[ei]
		}
		return ""
	}
	var sc *scenario
	rd := bufio.NewScanner(scen)
	rd.Buffer(make([]byte, 1<<20), 1<<26)
	emit := func(s string) { fmt.Fprintln(out, s); out.Flush() }
	for rd.Scan() {
		line := strings.TrimSpace(rd.Text())
		if line == "" || strings.HasPrefix(line, "#") {
			continue
		}
		f := strings.Fields(line)
		switch f[0] {
		case "scenario":
			nextExp()
			fs, _ := memfs.NewFilespace()
			sc = &scenario{fs: fs}
			current.Store(sc)
			emit("scenario " + f[1])
		case "thread":
			id, _ := strconv.Atoi(f[1])
			t := &thr{sc: sc, id: id, ev: make(chan event, 8), resume: make(chan struct{}), state: "op", handles: map[int]*hnd{}}
			for _, o := range strings.Split(strings.Join(f[2:], " "), " ; ") {
				t.ops = append(t.ops, strings.Fields(o))
			}
			sc.thr = append(sc.thr, t)
			sc.start(t)
		case "step":
			id, _ := strconv.Atoi(f[1])
			e := nextExp()
			blocked := strings.HasSuffix(e, " blocked")
			if id >= len(sc.thr) {
				emit("step " + f[1] + " finished")
				break
			}
			emit("step " + f[1] + " " + sc.step(sc.thr[id], blocked))
			for strings.HasPrefix(peekExp(), "auto ") {
				a := strings.Fields(nextExp())
				id2, _ := strconv.Atoi(a[1])
				if id2 < len(sc.thr) {
					emit("auto " + a[1] + " " + sc.thr[id2].await(a[len(a)-1] == "blocked"))
				}
			}
		case "end":
			nextExp() // status
			emit(sc.status())
			locked := map[string]bool{}
			for _, w := range strings.Fields(nextExp()) {
				if strings.HasSuffix(w, "=locked") {
					locked[strings.TrimSuffix(w, "=locked")] = true
				}
			}
			emit(dumpTree(sc.fs, locked))
			sc.release()
			sc = nil
		default:
			emit("bad-op")
		}
	}
}
