package main

import (
	"bufio"
	"fmt"
	"strings"

	"gcverif/internal/hx"
)

// Scenario generator for the gated replays.  Two families:
//   h<i>  "holder" scenarios: thread 2 creates d/f, thread 0 opens a handle on d/f and, while holding
//         it, touches directory d, thread 1 works on d/f or d; the schedule alternates between them so
//         that every lock-order inversion between the handle and the directory locks is exercised;
//   r<i>  random small programs on a 6-path pool under a random schedule (create races through the
//         mkdir/write gaps, listing while adding/removing, copy while writing).
// followed by nsa scenarios of the shared-ancestor family sa_<i> and nsib of the sibling family sib_<i>
// (gen_families.go; a negative count = the whole enumeration) and nwg of the write-gap family wg_<i> (gen_wg.go).
func genMain(out *bufio.Writer, n, nsa, nsib, n4assign, n4perms, nwg int) {
	r := hx.NewRand(hx.SeedFromEnv() ^ 0x9E09)
	val := func() string { return fmt.Sprintf("%02x%02x", r.Intn(256), r.Intn(256)) }
	// --- holder family (exhaustive over the three pools)
	opens := []string{"openw 1 d/f", "openr 1 d/f"}
	touches := []string{"write d/g 0101", "mkdirall d/k", "openw 2 d/g ; close 2", "readdir d", "remove d/g",
		"copy d/g d/h", "exist d/f", "mkdirall e/x"}
	others := []string{"openw 1 d/f ; hwrite 1 0202 ; close 1", "write d/f 0303", "read d/f", "openr 1 d/f ; hread 1 ; close 1",
		"copy d e", "copy d/f d/c", "removeall d", "remove d/f", "readdir d", "write d/g 0404", "mkdirall d/k"}
	i := 0
	for _, o := range opens {
		for _, t := range touches {
			for _, y := range others {
				if i >= n {
					break
				}
				fmt.Fprintf(out, "scenario h%d 0 0 0\n", i)
				fmt.Fprintf(out, "thread 0 %s ; %s ; close 1\n", o, t)
				fmt.Fprintf(out, "thread 1 %s\n", y)
				fmt.Fprintf(out, "thread 2 write d/f 0909 ; write d/g 0808\n")
				sched := []int{2, 2, 2, 2, 2, 2, 2, 0, 0}
				for k := 0; k < 5; k++ {
					sched = append(sched, 1, 1, 1, 0, 0, 0)
				}
				for _, s := range sched {
					fmt.Fprintf(out, "step %d\n", s)
				}
				fmt.Fprintln(out, "end")
				i++
			}
		}
	}
	// --- random family
	paths := []string{"d", "d/f", "d/g", "e", "e/f", "f"}
	dirs := []string{"d", "e", "d/k", "."}
	for ; i < n; i++ {
		nthr := 2 + r.Intn(2)
		fmt.Fprintf(out, "scenario r%d 0 0 0\n", i)
		total := 0
		for t := 0; t < nthr; t++ {
			ops := []string{}
			for k := 1 + r.Intn(3); k > 0; k-- {
				switch r.Intn(12) {
				case 0, 1:
					ops = append(ops, "mkdirall "+r.Pick([]string{"d", "d/k", "e", "d/f"}))
				case 2, 3, 4:
					ops = append(ops, "write "+r.Pick(paths[1:])+" "+val())
				case 5:
					ops = append(ops, "read "+r.Pick(paths))
				case 6:
					ops = append(ops, "readdir "+r.Pick(dirs))
				case 7:
					ops = append(ops, r.Pick([]string{"remove ", "removeall "})+r.Pick(paths))
				case 8:
					ops = append(ops, "copy "+r.Pick(paths)+" "+r.Pick([]string{"e", "d/h", "c", "e/f"}))
				case 9:
					h := 1 + r.Intn(2)
					ops = append(ops, fmt.Sprintf("openw %d %s ; hwrite %d %s ; close %d", h, r.Pick(paths[1:]), h, val(), h))
				case 10:
					h := 1 + r.Intn(2)
					ops = append(ops, fmt.Sprintf("openr %d %s ; hread %d ; close %d", h, r.Pick(paths[1:]), h, h))
				default:
					ops = append(ops, r.Pick([]string{"exist ", "isfile ", "isdir "})+r.Pick(paths))
				}
			}
			prog := strings.Join(ops, " ; ")
			total += len(strings.Split(prog, " ; "))
			fmt.Fprintf(out, "thread %d %s\n", t, prog)
		}
		for k := 0; k < 4*total+4; k++ {
			fmt.Fprintf(out, "step %d\n", r.Intn(nthr))
		}
		fmt.Fprintln(out, "end")
	}
	// --- the two enumerated families (their own PRNG streams: the draws do not depend on n)
	rsa := hx.NewRand(hx.SeedFromEnv() ^ 0x5A09)
	emitFamily(out, rsa, sharedAncestorFamily(rsa, n4assign, n4perms), nsa)
	rsib := hx.NewRand(hx.SeedFromEnv() ^ 0x51B9)
	emitFamily(out, rsib, siblingFamily(), nsib)
	rwg := hx.NewRand(hx.SeedFromEnv() ^ 0x3A69)
	emitFamily(out, rwg, writeGapFamily(), nwg)
}
