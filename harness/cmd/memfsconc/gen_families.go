package main

import (
	"bufio"
	"fmt"
	"sort"
	"strings"

	"gcverif/internal/hx"
)

// Two generated scenario families for the gated replays (in addition to the holder and the random
// family of gen.go).  Every scenario carries a line
//
//	# expect <tid>=<result>,… tree <item> <item> …
//
// which both drivers skip: what the PROPERTY says about the scenario whatever the schedule is (the
// result of each racing thread's single operation, `_` for spaces, and the final tree).  checks/c09.py
// evaluates it on the implementation's and on the model's output, independently of their comparison.
//
// sa_<i>   SHARED-ANCESTOR CREATION RACE.  n = 2..4 threads, one operation each below a MISSING common
//          ancestor chain P of depth 1..3 (a, a/b, a/b/c):
//              M  mkdirall P/m<t>          W  write P/w<t>/f <v>
//              F  write P/f<t> <v>         S  mkdirall P/same   (the same path for every S thread)
//          Every thread is first stepped into `memfs.mkdir.gap` for the first missing ancestor (all park in
//          the gap for the same name); then
//              ord  the threads are released to completion in every order (all n! for n <= 3, n4perms drawn
//                   by the seed for n = 4);
//              rr   round-robin from every starting thread (all threads in the gap of the same level, level
//                   after level: the maximal race);
//              st   staircase: thread t gets k more steps (creates k levels) before thread t+1 moves at all,
//                   k = 1..depth+1, then all finish in order.
//          Expected: nobody fails, the chain exists once, every leaf exists.
//          Enumeration: exhaustive over depth x kinds^n x schedules for n <= 3; for n = 4 n4assign of the 256
//          kind assignments per depth are drawn by the seed (256 / 24 = everything);
//          `limit` scenarios are then drawn by the seed (the index in the name is the position in the full
//          enumeration, so a name identifies a scenario independently of the seed).
//
// sib_<i>  SIBLING PATHS AT EVERY YIELD POINT.  Thread 2 builds the fixture and runs to completion; threads
//          0 and 1 run one operation each on the siblings d/x and d/y:
//              M mkdirall   Wn write (new)   We write (existing file: memfs.write.setdata)   Rm remove (file)
//              Ra removeall (directory with a child)   Cf copy s/f   Cd copy s/k (two files: two
//              memfs.copy.file parks)   Rf read   Rd readdir
//          For every ordered pair of kinds, both starting threads a, every k in 1..steps(a) and l in
//          0..steps(b): a^k b^l a^* b^*  (k = steps(a) is the sequential run).  steps(op) = number of `step`s
//          the operation needs alone = its yield points + 1, known by construction; where a is parked in
//          `memfs.write.gap` (holding the directory's outer lock) and b is a write, b blocks on its first
//          step and gets only one.  Expected: both succeed with their sequential results; the final tree is
//          the fixture with both effects.

type famScenario struct {
	lines []string
}

func (s *famScenario) add(format string, a ...interface{}) {
	s.lines = append(s.lines, fmt.Sprintf(format, a...))
}

func (s *famScenario) steps(t, n int) {
	for i := 0; i < n; i++ {
		s.add("step %d", t)
	}
}

func treeLine(items map[string]bool) string {
	l := []string{}
	for k := range items {
		l = append(l, k)
	}
	sort.Strings(l)
	return strings.Join(l, " ")
}

// dirs of a path's proper ancestors
func addAncestors(items map[string]bool, p string) {
	segs := strings.Split(p, "/")
	for i := 1; i < len(segs); i++ {
		items[strings.Join(segs[:i], "/")+"/"] = true
	}
}

func permutations(n int) [][]int {
	if n == 1 {
		return [][]int{{0}}
	}
	res := [][]int{}
	for _, p := range permutations(n - 1) {
		for pos := 0; pos <= len(p); pos++ {
			q := append(append(append([]int{}, p[:pos]...), n-1), p[pos:]...)
			res = append(res, q)
		}
	}
	sort.Slice(res, func(i, j int) bool {
		for k := range res[i] {
			if res[i][k] != res[j][k] {
				return res[i][k] < res[j][k]
			}
		}
		return false
	})
	return res
}

// draw `limit` of n indices by the seed, in increasing order
func draw(r *hx.Rand, n, limit int) []int {
	idx := make([]int, n)
	for i := range idx {
		idx[i] = i
	}
	if limit < 0 || limit >= n {
		return idx
	}
	for i := 0; i < limit; i++ {
		j := i + r.Intn(n-i)
		idx[i], idx[j] = idx[j], idx[i]
	}
	idx = idx[:limit]
	sort.Ints(idx)
	return idx
}

func sharedAncestorFamily(r *hx.Rand, n4assign, n4perms int) []*famScenario {
	chains := []string{"a", "a/b", "a/b/c"}
	kinds := []string{"M", "W", "F", "S"}
	all := []*famScenario{}
	for n := 2; n <= 4; n++ { // n outermost: the seed-dependent part (n = 4) comes last in the enumeration
		for depth := 1; depth <= 3; depth++ {
			P := chains[depth-1]
			// kind assignments
			nAssign := 1
			for i := 0; i < n; i++ {
				nAssign *= len(kinds)
			}
			assigns := draw(r, nAssign, map[int]int{2: -1, 3: -1, 4: n4assign}[n])
			for _, code := range assigns {
				ks := make([]string, n)
				c := code
				nS := 0
				for t := 0; t < n; t++ {
					ks[t] = kinds[c%len(kinds)]
					c /= len(kinds)
					if ks[t] == "S" {
						nS++
					}
				}
				if nS == 1 {
					continue // a single S thread is an M thread
				}
				ops := make([]string, n)
				maxSteps := make([]int, n) // steps to `done` when the thread creates everything itself
				expect := []string{}
				tree := map[string]bool{}
				for t := 0; t < n; t++ {
					var p string
					switch ks[t] {
					case "M":
						p = fmt.Sprintf("%s/m%d", P, t)
						ops[t] = "mkdirall " + p
						maxSteps[t] = depth + 2
						tree[p+"/"] = true
					case "S":
						p = P + "/same"
						ops[t] = "mkdirall " + p
						maxSteps[t] = depth + 2
						tree[p+"/"] = true
					case "W":
						p = fmt.Sprintf("%s/w%d/f", P, t)
						ops[t] = fmt.Sprintf("write %s 1%d", p, t)
						maxSteps[t] = depth + 3
						tree[fmt.Sprintf("%s=1%d", p, t)] = true
					case "F":
						p = fmt.Sprintf("%s/f%d", P, t)
						ops[t] = fmt.Sprintf("write %s 2%d", p, t)
						maxSteps[t] = depth + 2
						tree[fmt.Sprintf("%s=2%d", p, t)] = true
					}
					addAncestors(tree, p)
					expect = append(expect, fmt.Sprintf("%d=ok", t))
				}
				head := func(tag string) *famScenario {
					s := &famScenario{}
					s.add("scenario sa_%d 0 0 0", len(all))
					s.add("# family sa depth=%d kinds=%s schedule=%s", depth, strings.Join(ks, ""), tag)
					s.add("# expect %s tree %s", strings.Join(expect, ","), treeLine(tree))
					for t := 0; t < n; t++ {
						s.add("thread %d %s", t, ops[t])
					}
					// every thread into the gap in front of the first missing ancestor
					for t := 0; t < n; t++ {
						s.add("step %d", t)
					}
					return s
				}
				// ord: release to completion in every order
				perms := permutations(n)
				for _, pi := range draw(r, len(perms), map[int]int{2: -1, 3: -1, 4: n4perms}[n]) {
					s := head(fmt.Sprintf("ord%v", perms[pi]))
					for _, t := range perms[pi] {
						s.steps(t, maxSteps[t]) // one step is used: the last one answers `finished`
					}
					s.add("end")
					all = append(all, s)
				}
				// rr: round-robin from every starting thread
				for start := 0; start < n; start++ {
					if n == 4 && start > 1 && n4perms < 24 {
						break
					}
					s := head(fmt.Sprintf("rr%d", start))
					for round := 0; round < depth+3; round++ {
						for i := 0; i < n; i++ {
							s.add("step %d", (start+i)%n)
						}
					}
					s.add("end")
					all = append(all, s)
				}
				// st: staircase
				for k := 1; k <= depth+1; k++ {
					s := head(fmt.Sprintf("st%d", k))
					used := make([]int, n)
					for t := 0; t < n; t++ {
						give := k
						if give > maxSteps[t]-1 {
							give = maxSteps[t] - 1
						}
						s.steps(t, give)
						used[t] = give
					}
					for t := 0; t < n; t++ {
						s.steps(t, maxSteps[t]-used[t])
					}
					// an F thread that was blocked on the outer lock of P and released by a later thread's
					// unlock sits in memfs.write.gap: `done`, `finished`
					for t := 0; t < n; t++ {
						if ks[t] == "F" {
							s.steps(t, 2)
						}
					}
					s.add("end")
					all = append(all, s)
				}
			}
		}
	}
	return all
}

type sibKind struct {
	name  string
	steps int                     // `step`s the operation needs when it runs alone (yield points + 1)
	op    func(x string) string   // the racing operation on d/<x>
	setup func(x string) string   // what the fixture thread does for it ("" = nothing)
	nset  int                     // steps of that fixture operation
	res   string                  // expected result
	post  func(x string) []string // tree items below d/<x> afterwards
	write bool                    // takes the outer lock of d
}

func siblingFamily() []*famScenario {
	none := func(string) string { return "" }
	file := func(x string) string { return "write d/" + x + " 0a" }
	dirc := func(x string) string { return "write d/" + x + "/c 0b" }
	kinds := []sibKind{
		{"M", 2, func(x string) string { return "mkdirall d/" + x }, none, 0, "ok",
			func(x string) []string { return []string{"d/" + x + "/"} }, false},
		{"Wn", 2, func(x string) string { return "write d/" + x + " 5" + val1(x) }, none, 0, "ok",
			func(x string) []string { return []string{"d/" + x + "=5" + val1(x)} }, true},
		{"We", 2, func(x string) string { return "write d/" + x + " 6" + val1(x) }, file, 2, "ok",
			func(x string) []string { return []string{"d/" + x + "=6" + val1(x)} }, true},
		{"Rm", 1, func(x string) string { return "remove d/" + x }, file, 2, "ok",
			func(x string) []string { return nil }, false},
		{"Ra", 1, func(x string) string { return "removeall d/" + x }, dirc, 3, "ok",
			func(x string) []string { return nil }, false},
		{"Cf", 2, func(x string) string { return "copy s/f d/" + x }, none, 0, "ok",
			func(x string) []string { return []string{"d/" + x + "=07"} }, false},
		{"Cd", 3, func(x string) string { return "copy s/k d/" + x }, none, 0, "ok",
			func(x string) []string { return []string{"d/" + x + "/", "d/" + x + "/p=08", "d/" + x + "/q=09"} }, false},
		{"Rf", 1, func(x string) string { return "read d/" + x }, file, 2, "data_0a",
			func(x string) []string { return []string{"d/" + x + "=0a"} }, false},
		{"Rd", 1, func(x string) string { return "readdir d/" + x }, dirc, 3, "list_c:f",
			func(x string) []string { return []string{"d/" + x + "/", "d/" + x + "/c=0b"} }, false},
	}
	all := []*famScenario{}
	names := []string{"x", "y"}
	for _, k0 := range kinds {
		for _, k1 := range kinds {
			ks := []sibKind{k0, k1}
			// fixture: mkdirall d (2 steps) ; write s/f (3) ; write s/k/p (3) ; write s/k/q (2)
			fix := []string{"mkdirall d", "write s/f 07", "write s/k/p 08", "write s/k/q 09"}
			nfix := 2 + 3 + 3 + 2
			tree := map[string]bool{"d/": true, "s/": true, "s/f=07": true, "s/k/": true, "s/k/p=08": true, "s/k/q=09": true}
			for t := 0; t < 2; t++ {
				if su := ks[t].setup(names[t]); su != "" {
					fix = append(fix, su)
					nfix += ks[t].nset
				}
				for _, it := range ks[t].post(names[t]) {
					tree[it] = true
				}
			}
			expect := fmt.Sprintf("0=%s,1=%s", k0.res, k1.res)
			for first := 0; first < 2; first++ {
				a, b := first, 1-first
				for k := 1; k <= ks[a].steps; k++ {
					maxL := ks[b].steps
					if k == ks[a].steps {
						maxL = 0 // a is done: the sequential run
					}
					// a parked in memfs.write.gap holds the outer lock of d: a write of b blocks at once
					bBlocks := ks[a].name == "Wn" && k == 1 && ks[b].write
					if bBlocks && maxL > 1 {
						maxL = 1
					}
					for l := 0; l <= maxL; l++ {
						s := &famScenario{}
						s.add("scenario sib_%d 0 0 0", len(all))
						s.add("# family sib kinds=%s,%s schedule=%d^%d,%d^%d", k0.name, k1.name, a, k, b, l)
						s.add("# expect %s tree %s", expect, treeLine(tree))
						s.add("thread 0 %s", k0.op("x"))
						s.add("thread 1 %s", k1.op("y"))
						s.add("thread 2 %s", strings.Join(fix, " ; "))
						s.steps(2, nfix+1)
						s.steps(a, k)
						s.steps(b, l)
						s.steps(a, ks[a].steps+1-k)
						left := ks[b].steps + 1 - l
						if bBlocks && l == 1 {
							// b was released by a's unlock (`auto`) and ran to its own yield point
							left = ks[b].steps
						}
						s.steps(b, left)
						s.add("end")
						all = append(all, s)
					}
				}
			}
		}
	}
	return all
}

func val1(x string) string {
	if x == "x" {
		return "1"
	}
	return "2"
}

func emitFamily(out *bufio.Writer, r *hx.Rand, all []*famScenario, limit int) {
	if limit == 0 {
		return
	}
	for _, i := range draw(r, len(all), limit) {
		for _, l := range all[i].lines {
			fmt.Fprintln(out, l)
		}
	}
}
