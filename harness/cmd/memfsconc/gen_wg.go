package main

import (
	"fmt"
	"strings"
)

// wg_<i>   CREATION RACE ON ONE NAME THROUGH THE WRITE GAP, FOLLOWED BY USE OF THE DIRECTORY.
//
// Thread 2 builds the fixture (directory d with a file d/o, sources s/f and s/k/{p,q}) and runs to
// completion.  Thread 0 runs the writing operation A on a NOT YET EXISTING file P; thread 1 runs an
// operation B that creates the same node WITHOUT taking the directory's writer lock:
//
//	A   Ww  write P <v>                        (WriteFile)
//	    Wo  openw 1 P ; close 1                (Writer, Close)
//	    Wh  openw 1 P ; hwrite 1 <v> ; close 1 (Writer, Write, Close)
//	B   Cf  copy s/f P      CF  copyfile s/f P          (Copy / CopyFile of a file onto P)
//	    Cd  copy s/k P      CD  copydir s/k P           (Copy / CopyDirectory of a directory onto P)
//	    M   mkdirall P      Mz  mkdirall P/z            (MkdirAll of P / of a path through P)
//	    Pa  copydir s/k <parent of P>                   (the source has a child named like P's leaf)
//	P   d/p (the parent exists: A's first yield point is memfs.write.gap, reached while A HOLDS the writer
//	    lock of d) or d/n/p (d/n is missing: A first parks in memfs.mkdir.gap for n, then in memfs.write.gap)
//
// Schedules (every park position of A up to and including the write gap x every park position of B):
//
//	hold  A^k B^l A^* B^*   k = 1..gap(A), l = 0..steps(B): A is held at its k-th yield point, B gets l steps
//	                        (l = steps(B): B runs to completion inside A's gap), A is released and finishes,
//	                        B finishes;
//	bfst  B^l A^* B^*       l = 1..steps(B): B is held at its l-th yield point while A runs as a whole.
//
// steps(B) is the number of steps B needs alone on the fixture (its yield points + 1); a thread that is
// done earlier answers `finished` to the surplus steps on both sides.
//
// After both have finished, thread 3 runs a FOLLOW-UP batch: operations on OTHER names of the same
// directory (write, Writer+Write+Close, remove, readdir, mkdirall) and on P itself, one of four batches.
//
// What the property says about such a scenario, whatever the schedule (evaluated by checks/c09.py on the
// implementation's output and on the model's, with the sequential model of C01 as the specification):
// every operation returns - in particular no follow-up operation blocks once A and B have finished - and
// the final tree and the answers of the follow-up batch are those of the sequential model after the
// fixture, one of the serial orders A;B / B;A (or the racing operations that reported success, an
// operation that reports an error having no effect), and the follow-up batch.
func writeGapFamily() []*famScenario {
	type aKind struct {
		name string
		op   func(P string) string
	}
	type bKind struct {
		name  string
		op    func(P, D string) string
		steps int // steps alone when the parent of P exists
	}
	aKinds := []aKind{
		{"Ww", func(P string) string { return "write " + P + " 5a" }},
		{"Wo", func(P string) string { return "openw 1 " + P + " ; close 1" }},
		{"Wh", func(P string) string { return "openw 1 " + P + " ; hwrite 1 5b ; close 1" }},
	}
	bKinds := []bKind{
		{"Cf", func(P, D string) string { return "copy s/f " + P }, 2},
		{"CF", func(P, D string) string { return "copyfile s/f " + P }, 2},
		{"Cd", func(P, D string) string { return "copy s/k " + P }, 3},
		{"CD", func(P, D string) string { return "copydir s/k " + P }, 3},
		{"M", func(P, D string) string { return "mkdirall " + P }, 2},
		{"Mz", func(P, D string) string { return "mkdirall " + P + "/z" }, 3},
		{"Pa", func(P, D string) string { return "copydir s/k " + D }, 3},
	}
	follow := []func(P, D string) string{
		func(P, D string) string {
			return "write " + D + "/q 0d ; openw 1 " + D + "/r ; hwrite 1 0e ; close 1 ; remove " + D + "/o ; readdir " + D + " ; read " + P
		},
		func(P, D string) string {
			return "openw 1 " + D + "/q ; close 1 ; write " + D + "/o 1d ; readdir " + D + " ; write " + P + " 1e ; remove " + D + "/q ; readdir " + D
		},
		func(P, D string) string {
			return "readdir " + D + " ; remove " + D + "/o ; write " + D + "/q 2d ; mkdirall " + D + "/m ; openw 2 " + P + " ; hwrite 2 2e ; close 2 ; readdir " + D
		},
		func(P, D string) string {
			return "write " + P + " 3a ; removeall " + P + " ; write " + D + "/q 3b ; openw 1 " + D + "/o ; close 1 ; readdir " + D
		},
	}
	fix := []string{"mkdirall d", "write d/o 0c", "write s/f 07", "write s/k/p 08", "write s/k/q 09"}
	nfix := 2 + 2 + 3 + 3 + 2
	type place struct {
		P, D string
		gap  int // index of memfs.write.gap among A's yield points
		deep int // missing ancestors of P
	}
	places := []place{{"d/p", "d", 1, 0}, {"d/n/p", "d/n", 2, 1}}
	all := []*famScenario{}
	for _, pl := range places {
		for _, a := range aKinds {
			for _, b := range bKinds {
				nb := b.steps + pl.deep
				if b.name == "Pa" {
					nb = b.steps // the destination's parent (d) always exists
				}
				for fi, f := range follow {
					fops := f(pl.P, pl.D)
					nf := 2*len(strings.Split(fops, " ; ")) + 3
					head := func(tag string) *famScenario {
						s := &famScenario{}
						s.add("scenario wg_%d 0 0 0", len(all))
						s.add("# family wg place=%s A=%s B=%s follow=%d schedule=%s", pl.P, a.name, b.name, fi, tag)
						s.add("thread 0 %s", a.op(pl.P))
						s.add("thread 1 %s", b.op(pl.P, pl.D))
						s.add("thread 2 %s", strings.Join(fix, " ; "))
						s.add("thread 3 %s", fops)
						s.steps(2, nfix+2)
						return s
					}
					tail := func(s *famScenario) {
						s.steps(0, pl.gap+5)
						s.steps(1, nb+2)
						s.steps(0, 1)
						s.steps(3, nf)
						s.add("end")
						all = append(all, s)
					}
					for k := 1; k <= pl.gap; k++ {
						for l := 0; l <= nb; l++ {
							s := head(fmt.Sprintf("hold:0^%d,1^%d", k, l))
							s.steps(0, k)
							s.steps(1, l)
							tail(s)
						}
					}
					for l := 1; l <= nb; l++ {
						s := head(fmt.Sprintf("bfst:1^%d", l))
						s.steps(1, l)
						tail(s)
					}
				}
			}
		}
	}
	return all
}
