package main

import (
	"fmt"
	"time"

	"github.com/goatcms/goatcore/filesystem/filespace/memfs"
)

func main() {
	fs, _ := memfs.NewFilespace()
	fs.WriteFile("d/f", []byte("x"), 0644)
	w, _ := fs.Writer("d/f")
	done2 := make(chan struct{})
	go func() { fs.Copy("d", "e"); close(done2) }()
	time.Sleep(200 * time.Millisecond)
	done1 := make(chan struct{})
	go func() { fs.WriteFile("d/g", []byte("z"), 0644); w.Close(); close(done1) }()
	select {
	case <-done1:
		<-done2
		fmt.Println("no deadlock")
	case <-time.After(3 * time.Second):
		fmt.Println("DEADLOCK: holder of handle d/f blocked in WriteFile(d/g) against Copy(d,e)")
	}
	// variant: Remove with unlocked len
}
