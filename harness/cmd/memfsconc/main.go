// Command memfsconc is the implementation side of property C09 (memfs under concurrent use).
//
//	memfsconc replay <scenarios> <expect>   gated replays of the real memfs through the verifhook yield
//	                                         points; <expect> is the model's output for the same file
//	                                         (used only to choose how long to wait for each event)
//	memfsconc gen <n> [<nsa> <nsib> [<n4assign> <n4perms> [<nwg>]]]
//	                                         seeded generator of replay scenarios: n of the holder + random
//	                                         families, nsa / nsib of the shared-ancestor / sibling families
//	                                         (negative = the whole enumeration; n4assign / n4perms = how much of
//	                                         the 4-thread part of the shared-ancestor family is enumerated;
//	                                         nwg of the write-gap family, gen_wg.go)
//	memfsconc stress <rounds> [chaos]        ungated stress, prints one history per round for the monitor
//	memfsconc facts <repo>                   go/ast facts about the lock brackets in memfs
//	memfsconc leanfacts <repo>               the synchronisation skeleton of every memfs function as Lean data
//	                                         (lean/Goat/Tie/ExtractedC09.lean, see skeleton.go)
//	memfsconc kfrace <n>                     witness of KF-C09-1 for the -race build: Remove(dir) against a creation in dir
package main

import (
	"bufio"
	"fmt"
	"os"
	"strconv"
)

func main() {
	if len(os.Args) < 2 {
		fmt.Fprintln(os.Stderr, "usage: memfsconc replay|gen|stress|facts …")
		os.Exit(2)
	}
	out := bufio.NewWriterSize(os.Stdout, 1<<16)
	defer out.Flush()
	switch os.Args[1] {
	case "replay":
		if len(os.Args) < 4 {
			fmt.Fprintln(os.Stderr, "usage: memfsconc replay <scenarios> <expect>")
			os.Exit(2)
		}
		replayMain(out, os.Args[2], os.Args[3])
	case "gen":
		n := 100
		if len(os.Args) > 2 {
			n, _ = strconv.Atoi(os.Args[2])
		}
		nsa, nsib := 0, 0
		if len(os.Args) > 3 {
			nsa, _ = strconv.Atoi(os.Args[3])
		}
		if len(os.Args) > 4 {
			nsib, _ = strconv.Atoi(os.Args[4])
		}
		n4assign, n4perms := 40, 3
		if len(os.Args) > 6 {
			n4assign, _ = strconv.Atoi(os.Args[5])
			n4perms, _ = strconv.Atoi(os.Args[6])
		}
		nwg := 0
		if len(os.Args) > 7 {
			nwg, _ = strconv.Atoi(os.Args[7])
		}
		genMain(out, n, nsa, nsib, n4assign, n4perms, nwg)
	case "stress":
		n := 10
		if len(os.Args) > 2 {
			n, _ = strconv.Atoi(os.Args[2])
		}
		stressMain(out, n)
	case "kfrace":
		n := 2000
		if len(os.Args) > 2 {
			n, _ = strconv.Atoi(os.Args[2])
		}
		kfraceMain(out, n)
	case "facts":
		repo := "/repo"
		if len(os.Args) > 2 {
			repo = os.Args[2]
		}
		factsMain(out, repo)
	case "leanfacts":
		repo := "/repo"
		if len(os.Args) > 2 {
			repo = os.Args[2]
		}
		leanfactsMain(out, repo)
	default:
		fmt.Fprintln(os.Stderr, "unknown mode", os.Args[1])
		os.Exit(2)
	}
}
