// Command memfsconc is the implementation side of property C09 (memfs under concurrent use).
//
//	memfsconc replay <scenarios> <expect>   gated replays of the real memfs through the verifhook yield
//	                                         points; <expect> is the model's output for the same file
//	                                         (used only to choose how long to wait for each event)
//	memfsconc gen <n>                        seeded generator of replay scenarios
//	memfsconc stress <rounds> [chaos]        ungated stress, prints one history per round for the monitor
//	memfsconc facts <repo>                   go/ast facts about the lock brackets in memfs
//	memfsconc kfrace <n>                     witness of KF-C09-1 for the -race build: Remove(dir) against a creation in dir
package main

import (
	"bufio"
	"fmt"
	"os"
	"strconv"
)

func main() {
	if len(os.Args) < 2 {
		fmt.Fprintln(os.Stderr, "usage: memfsconc replay|gen|stress|facts …")
		os.Exit(2)
	}
	out := bufio.NewWriterSize(os.Stdout, 1<<16)
	defer out.Flush()
	switch os.Args[1] {
	case "replay":
		if len(os.Args) < 4 {
			fmt.Fprintln(os.Stderr, "usage: memfsconc replay <scenarios> <expect>")
			os.Exit(2)
		}
		replayMain(out, os.Args[2], os.Args[3])
	case "gen":
		n := 100
		if len(os.Args) > 2 {
			n, _ = strconv.Atoi(os.Args[2])
		}
		genMain(out, n)
	case "stress":
		n := 10
		if len(os.Args) > 2 {
			n, _ = strconv.Atoi(os.Args[2])
		}
		stressMain(out, n)
	case "kfrace":
		n := 2000
		if len(os.Args) > 2 {
			n, _ = strconv.Atoi(os.Args[2])
		}
		kfraceMain(out, n)
	case "facts":
		repo := "/repo"
		if len(os.Args) > 2 {
			repo = os.Args[2]
		}
		factsMain(out, repo)
	default:
		fmt.Fprintln(os.Stderr, "unknown mode", os.Args[1])
		os.Exit(2)
	}
}
