package main

import (
	"bufio"
	"fmt"
	"go/ast"
	"go/parser"
	"go/token"
	"os"
	"path/filepath"
	"sort"
	"strings"
)

// leanfactsMain writes lean/Goat/Tie/ExtractedC09.lean: the SYNCHRONISATION SKELETON of every function
// of package memfs (non-test files), as Lean data, for the `tie_*` theorems of lean/Goat/Tie/C09.lean.
//
// The skeleton of a function is the ordered list (source = evaluation order: right-hand sides before
// left-hand sides, arguments before the call, `if` init and condition before the branches) of
//
//	Lock(x) RLock(x) Unlock(x) RUnlock(x)   x = last selector the method is called on (`d.mu.Lock()` ->
//	                                        Lock(mu), `f.dataMU.RLock()` -> RLock(dataMU)); `dir.Lock()`
//	                                        (the embedded RWMutex) -> Lock(); `defer:` prefix when deferred
//	<kind>:<field>                          accesses to the guarded fields nodes, index, data, time
//	                                        (field name only, receiver / variable names dropped):
//	    len:f     len(x.f)
//	    read:f    contents read: x.f[k], range x.f, x.f as source of copy(), x.f (or a slice of it)
//	              inside append()
//	    value:f   the field's value itself is taken (x.f on a right-hand side, as an argument, returned):
//	              for a slice this is an ALIAS of the guarded storage
//	    slice:f   x.f[a:b] taken as a value outside append()/copy()
//	    write:f   x.f = …, x.f[k] = …, x.f as destination of copy(), x.f++
//	    delete:f  delete(x.f, k)
//	    init:f    the key f of a composite literal (construction of a fresh object)
//	call:<name>                             calls of functions/methods DECLARED IN PACKAGE memfs (matched by
//	                                        name and number of arguments; package-qualified calls excluded)
//	                                        whose own skeleton is not empty (so Name(), IsDir(), Mode() … do
//	                                        not appear)
//	hook:<point>                            verifhook.Yield("<point>")
//	if{ }else{ } for{ switch{ case: func{ return break continue
//	                                        control markers, emitted ONLY while a lock is held (the control
//	                                        flow inside a critical section is part of the atomic action the
//	                                        model mirrors; outside, only the order matters)
//
// Every item is prefixed `held(<lock>.<W|R>[+…]):` when it sits in a region where the function itself
// holds a lock: between Lock(x) and Unlock(x), or from Lock(x) to the end when the unlock is deferred or
// absent.  The embedded lock is called `outer` there.  Lock operations carry the prefix of the OTHER locks
// held.  The region is computed per control path (an `Unlock(); return` inside a branch does not end the
// region of the code after the branch); `held(?)` marks a join of paths that disagree.
//
// Per function F (Go name `Dir.getNode` -> Lean name `Dir_getNode`):
//
//	def F : List String            the skeleton
//	def F_order : List String      (functions that call lock-reaching functions, and only where it differs
//	                               from F) the projection on lock operations, hooks and calls of functions
//	                               that reach a lock operation or a hook, prefixes kept: the lock ORDER of
//	                               a composite
//
// and for the package
//
//	def lockTakers      functions containing a lock operation themselves
//	def lockReachers    functions from which a lock operation or a hook is reachable (by name)
//	def nestedLocks     `F:item` for every lock operation / lock-reaching call / hook made while F holds a
//	                    lock: the edges of the lock graph
//	def unheldAccesses  `F:item` for every access to a guarded field outside a region in which F itself
//	                    holds a lock
//
// Everything is syntactic (go/ast, no type information); renaming receivers or locals, comments and
// formatting do not change the output.
type heldLock struct{ name, mode string }

type lockState struct {
	held    []heldLock
	unknown bool
}

func (s lockState) clone() lockState {
	return lockState{held: append([]heldLock{}, s.held...), unknown: s.unknown}
}

func (s lockState) equal(o lockState) bool {
	if s.unknown != o.unknown || len(s.held) != len(o.held) {
		return false
	}
	for i := range s.held {
		if s.held[i] != o.held[i] {
			return false
		}
	}
	return true
}

func (s lockState) prefix(except string) string {
	if s.unknown {
		return "held(?):"
	}
	parts := []string{}
	for _, h := range s.held {
		if h.name != except {
			parts = append(parts, h.name+"."+h.mode)
		}
	}
	if len(parts) == 0 {
		return ""
	}
	return "held(" + strings.Join(parts, "+") + "):"
}

type skItem struct {
	prefix string
	kind   string // lock access call hook ctl
	text   string
	callee string
}

type skFunc struct {
	name  string
	keys  []string
	items []skItem
}

var guardedFields = map[string]bool{"nodes": true, "index": true, "data": true, "time": true}
var lockMethods = map[string]bool{"Lock": true, "Unlock": true, "RLock": true, "RUnlock": true}

type skWalker struct {
	st      lockState
	items   []skItem
	declard map[string]bool // name/arity of the functions declared in the package (callKey)
	imports map[string]bool // import names of the file (package-qualified calls are not memfs calls)
}

func (w *skWalker) emit(kind, text, callee string) {
	w.items = append(w.items, skItem{w.st.prefix(""), kind, text, callee})
}

func (w *skWalker) ctlAt(st lockState, text string) {
	if p := st.prefix(""); p != "" {
		w.items = append(w.items, skItem{p, "ctl", text, ""})
	}
}

func (w *skWalker) ctl(text string) { w.ctlAt(w.st, text) }

func guardedSel(e ast.Expr) (string, ast.Expr, bool) {
	for {
		p, ok := e.(*ast.ParenExpr)
		if !ok {
			break
		}
		e = p.X
	}
	if s, ok := e.(*ast.SelectorExpr); ok && guardedFields[s.Sel.Name] {
		return s.Sel.Name, s.X, true
	}
	return "", nil, false
}

// contents of a guarded field (the field, an element or a slice of it) used as a source: read:f
func (w *skWalker) readSource(e ast.Expr) {
	if f, x, ok := guardedSel(e); ok {
		w.expr(x)
		w.emit("access", "read:"+f, "")
		return
	}
	if s, ok := e.(*ast.SliceExpr); ok {
		if f, x, ok := guardedSel(s.X); ok {
			w.expr(x)
			w.expr(s.Low)
			w.expr(s.High)
			w.expr(s.Max)
			w.emit("access", "read:"+f, "")
			return
		}
	}
	w.expr(e)
}

func (w *skWalker) lockOp(method, on string, deferred bool) {
	key := on
	if key == "" {
		key = "outer"
	}
	text := method + "(" + on + ")"
	if deferred {
		w.items = append(w.items, skItem{w.st.prefix(key), "lock", "defer:" + text, ""})
		return
	}
	switch method {
	case "Lock", "RLock":
		w.items = append(w.items, skItem{w.st.prefix(key), "lock", text, ""})
		mode := "W"
		if method == "RLock" {
			mode = "R"
		}
		w.st.held = append(w.st.held, heldLock{key, mode})
	default:
		for i := len(w.st.held) - 1; i >= 0; i-- {
			if w.st.held[i].name == key {
				w.st.held = append(w.st.held[:i:i], w.st.held[i+1:]...)
				break
			}
		}
		w.items = append(w.items, skItem{w.st.prefix(key), "lock", text, ""})
	}
}

func (w *skWalker) call(c *ast.CallExpr, deferred bool) {
	pre := ""
	if deferred {
		pre = "defer:"
	}
	switch fun := c.Fun.(type) {
	case *ast.Ident:
		switch fun.Name {
		case "len", "cap":
			if len(c.Args) == 1 {
				if f, x, ok := guardedSel(c.Args[0]); ok {
					w.expr(x)
					w.emit("access", "len:"+f, "")
					return
				}
			}
		case "delete":
			if len(c.Args) == 2 {
				if f, x, ok := guardedSel(c.Args[0]); ok {
					w.expr(x)
					w.expr(c.Args[1])
					w.emit("access", "delete:"+f, "")
					return
				}
			}
		case "copy":
			if len(c.Args) == 2 {
				w.readSource(c.Args[1])
				dst := c.Args[0]
				if s, ok := dst.(*ast.SliceExpr); ok {
					if _, _, g := guardedSel(s.X); g {
						w.expr(s.Low)
						w.expr(s.High)
						dst = s.X
					}
				}
				if f, x, ok := guardedSel(dst); ok {
					w.expr(x)
					w.emit("access", "write:"+f, "")
				} else {
					w.expr(dst)
				}
				return
			}
		case "append":
			for _, a := range c.Args {
				w.readSource(a)
			}
			return
		}
		for _, a := range c.Args {
			w.expr(a)
		}
		if k := callKey(fun.Name, len(c.Args)); w.declard[k] {
			w.emit("call", pre+"call:"+fun.Name, k)
		}
	case *ast.SelectorExpr:
		for _, a := range c.Args {
			w.expr(a)
		}
		m := fun.Sel.Name
		if lockMethods[m] {
			on := ""
			if sel, ok := fun.X.(*ast.SelectorExpr); ok {
				on = sel.Sel.Name
				w.expr(sel.X)
			}
			w.lockOp(m, on, deferred)
			return
		}
		if id, ok := fun.X.(*ast.Ident); ok && w.imports[id.Name] {
			if id.Name == "verifhook" && m == "Yield" && len(c.Args) == 1 {
				if bl, ok := c.Args[0].(*ast.BasicLit); ok {
					w.emit("hook", "hook:"+strings.Trim(bl.Value, "\""), "")
				} else {
					w.emit("hook", "hook:?", "")
				}
			}
			return
		}
		w.expr(fun.X)
		if k := callKey(m, len(c.Args)); w.declard[k] {
			w.emit("call", pre+"call:"+m, k)
		}
	default:
		for _, a := range c.Args {
			w.expr(a)
		}
		w.expr(c.Fun)
	}
}

func (w *skWalker) expr(e ast.Expr) {
	switch v := e.(type) {
	case nil:
	case *ast.CallExpr:
		w.call(v, false)
	case *ast.SelectorExpr:
		w.expr(v.X)
		if guardedFields[v.Sel.Name] {
			w.emit("access", "value:"+v.Sel.Name, "")
		}
	case *ast.IndexExpr:
		if f, x, ok := guardedSel(v.X); ok {
			w.expr(x)
			w.expr(v.Index)
			w.emit("access", "read:"+f, "")
			return
		}
		w.expr(v.X)
		w.expr(v.Index)
	case *ast.SliceExpr:
		if f, x, ok := guardedSel(v.X); ok {
			w.expr(x)
			w.expr(v.Low)
			w.expr(v.High)
			w.expr(v.Max)
			w.emit("access", "slice:"+f, "")
			return
		}
		w.expr(v.X)
		w.expr(v.Low)
		w.expr(v.High)
		w.expr(v.Max)
	case *ast.ParenExpr:
		w.expr(v.X)
	case *ast.StarExpr:
		w.expr(v.X)
	case *ast.UnaryExpr:
		w.expr(v.X)
	case *ast.BinaryExpr:
		w.expr(v.X)
		w.expr(v.Y)
	case *ast.TypeAssertExpr:
		w.expr(v.X)
	case *ast.KeyValueExpr:
		w.expr(v.Value)
	case *ast.CompositeLit:
		for _, el := range v.Elts {
			if kv, ok := el.(*ast.KeyValueExpr); ok {
				w.expr(kv.Value)
				if id, ok := kv.Key.(*ast.Ident); ok && guardedFields[id.Name] {
					w.emit("access", "init:"+id.Name, "")
				}
			} else {
				w.expr(el)
			}
		}
	case *ast.FuncLit:
		save := w.st.clone()
		w.ctl("func{")
		w.block(v.Body.List)
		w.st = save
		w.ctl("}")
	}
}

// assignment target
func (w *skWalker) target(e ast.Expr) {
	if f, x, ok := guardedSel(e); ok {
		w.expr(x)
		w.emit("access", "write:"+f, "")
		return
	}
	if ix, ok := e.(*ast.IndexExpr); ok {
		if f, x, ok := guardedSel(ix.X); ok {
			w.expr(x)
			w.expr(ix.Index)
			w.emit("access", "write:"+f, "")
			return
		}
	}
	w.expr(e)
}

// merge the lock states of the alternatives that fall through
func (w *skWalker) join(alts []lockState) {
	if len(alts) == 0 {
		return
	}
	w.st = alts[0]
	for _, a := range alts[1:] {
		if !a.equal(w.st) {
			w.st = lockState{unknown: true}
			return
		}
	}
}

func (w *skWalker) block(stmts []ast.Stmt) (terminated bool) {
	for _, s := range stmts {
		terminated = w.stmt(s)
	}
	return terminated
}

func (w *skWalker) stmt(s ast.Stmt) (terminated bool) {
	switch v := s.(type) {
	case nil:
	case *ast.BlockStmt:
		return w.block(v.List)
	case *ast.ExprStmt:
		w.expr(v.X)
		if c, ok := v.X.(*ast.CallExpr); ok {
			if id, ok := c.Fun.(*ast.Ident); ok && id.Name == "panic" {
				return true
			}
		}
	case *ast.AssignStmt:
		if v.Tok != token.ASSIGN && v.Tok != token.DEFINE {
			for _, l := range v.Lhs {
				w.expr(l)
			}
		}
		for _, r := range v.Rhs {
			w.expr(r)
		}
		for _, l := range v.Lhs {
			w.target(l)
		}
	case *ast.IncDecStmt:
		w.expr(v.X)
		w.target(v.X)
	case *ast.DeclStmt:
		if gd, ok := v.Decl.(*ast.GenDecl); ok {
			for _, sp := range gd.Specs {
				if vs, ok := sp.(*ast.ValueSpec); ok {
					for _, x := range vs.Values {
						w.expr(x)
					}
				}
			}
		}
	case *ast.SendStmt:
		w.expr(v.Value)
		w.expr(v.Chan)
	case *ast.ReturnStmt:
		for _, r := range v.Results {
			w.expr(r)
		}
		w.ctl("return")
		return true
	case *ast.BranchStmt:
		w.ctl(v.Tok.String())
		return true
	case *ast.LabeledStmt:
		return w.stmt(v.Stmt)
	case *ast.DeferStmt:
		if fl, ok := v.Call.Fun.(*ast.FuncLit); ok {
			save := w.st.clone()
			w.ctl("defer:func{")
			w.block(fl.Body.List)
			w.st = save
			w.ctl("}")
		} else {
			w.call(v.Call, true)
		}
	case *ast.GoStmt:
		w.ctl("go")
		w.call(v.Call, false)
	case *ast.IfStmt:
		w.stmt(v.Init)
		w.expr(v.Cond)
		base := w.st.clone()
		w.ctlAt(base, "if{")
		alts := []lockState{}
		if !w.block(v.Body.List) {
			alts = append(alts, w.st)
		}
		w.st = base.clone()
		if v.Else != nil {
			w.ctlAt(base, "}else{")
			if !w.stmt(v.Else) {
				alts = append(alts, w.st)
			}
		} else {
			alts = append(alts, base.clone())
		}
		w.ctlAt(base, "}")
		if len(alts) == 0 {
			w.st = base
			return true
		}
		w.join(alts)
	case *ast.ForStmt:
		w.stmt(v.Init)
		base := w.st.clone()
		w.ctlAt(base, "for{")
		w.expr(v.Cond)
		term := w.block(v.Body.List)
		w.stmt(v.Post)
		if !term && !w.st.equal(base) {
			base = lockState{unknown: true}
		}
		w.ctlAt(base, "}")
		w.st = base
	case *ast.RangeStmt:
		w.readSource(v.X)
		base := w.st.clone()
		w.ctlAt(base, "for{")
		term := w.block(v.Body.List)
		if !term && !w.st.equal(base) {
			base = lockState{unknown: true}
		}
		w.ctlAt(base, "}")
		w.st = base
	case *ast.SwitchStmt:
		w.stmt(v.Init)
		w.expr(v.Tag)
		return w.clauses(v.Body)
	case *ast.TypeSwitchStmt:
		w.stmt(v.Init)
		w.stmt(v.Assign)
		return w.clauses(v.Body)
	case *ast.SelectStmt:
		return w.clauses(v.Body)
	}
	return false
}

func (w *skWalker) clauses(body *ast.BlockStmt) (terminated bool) {
	base := w.st.clone()
	w.ctlAt(base, "switch{")
	alts := []lockState{}
	hasDefault := false
	for _, c := range body.List {
		w.st = base.clone()
		w.ctlAt(base, "case:")
		var list []ast.Stmt
		switch cc := c.(type) {
		case *ast.CaseClause:
			if cc.List == nil {
				hasDefault = true
			}
			for _, e := range cc.List {
				w.expr(e)
			}
			list = cc.Body
		case *ast.CommClause:
			if cc.Comm == nil {
				hasDefault = true
			}
			w.stmt(cc.Comm)
			list = cc.Body
		}
		if !w.block(list) {
			alts = append(alts, w.st)
		}
	}
	if !hasDefault {
		alts = append(alts, base.clone())
	}
	w.ctlAt(base, "}")
	if len(alts) == 0 {
		w.st = base
		return true
	}
	w.join(alts)
	return false
}

// calls are matched with the declarations of the package by name and number of arguments (no type
// information): `node.IsDir()` is not a call of `Filespace.IsDir(path)`
func callKey(name string, nargs int) string { return fmt.Sprintf("%s/%d", name, nargs) }

func declKeys(fd *ast.FuncDecl) []string {
	n, variadic := 0, false
	for _, p := range fd.Type.Params.List {
		k := len(p.Names)
		if k == 0 {
			k = 1
		}
		n += k
		if _, ok := p.Type.(*ast.Ellipsis); ok {
			variadic = true
		}
	}
	if !variadic {
		return []string{callKey(fd.Name.Name, n)}
	}
	keys := []string{}
	for k := n - 1; k < n+8; k++ {
		keys = append(keys, callKey(fd.Name.Name, k))
	}
	return keys
}

func leanStr(s string) string {
	return "\"" + strings.ReplaceAll(strings.ReplaceAll(s, "\\", "\\\\"), "\"", "\\\"") + "\""
}

func leanList(xs []string) string {
	q := make([]string, len(xs))
	for i, x := range xs {
		q[i] = leanStr(x)
	}
	return "[" + strings.Join(q, ", ") + "]"
}

func leanfactsMain(out *bufio.Writer, repo string) {
	dir := filepath.Join(repo, "filesystem/filespace/memfs")
	fset := token.NewFileSet()
	files, _ := filepath.Glob(filepath.Join(dir, "*.go"))
	sort.Strings(files)
	var asts []*ast.File
	declared := map[string]bool{}
	for _, fn := range files {
		if strings.HasSuffix(fn, "_test.go") {
			continue
		}
		f, err := parser.ParseFile(fset, fn, nil, 0)
		if err != nil {
			fmt.Fprintln(os.Stderr, err)
			os.Exit(2)
		}
		asts = append(asts, f)
		for _, d := range f.Decls {
			if fd, ok := d.(*ast.FuncDecl); ok {
				for _, k := range declKeys(fd) {
					declared[k] = true
				}
			}
		}
	}
	if len(asts) == 0 {
		fmt.Fprintln(os.Stderr, "no Go files in "+dir)
		os.Exit(2)
	}
	var funcs []*skFunc
	for _, f := range asts {
		imports := map[string]bool{}
		for _, im := range f.Imports {
			p := strings.Trim(im.Path.Value, "\"")
			n := p[strings.LastIndex(p, "/")+1:]
			if im.Name != nil {
				n = im.Name.Name
			}
			imports[n] = true
		}
		for _, d := range f.Decls {
			fd, ok := d.(*ast.FuncDecl)
			if !ok || fd.Body == nil {
				continue
			}
			name := fd.Name.Name
			if fd.Recv != nil && len(fd.Recv.List) == 1 {
				t := fd.Recv.List[0].Type
				if st, ok := t.(*ast.StarExpr); ok {
					t = st.X
				}
				if id, ok := t.(*ast.Ident); ok {
					name = id.Name + "." + name
				}
			}
			w := &skWalker{declard: declared, imports: imports}
			w.block(fd.Body.List)
			funcs = append(funcs, &skFunc{name: name, keys: declKeys(fd), items: w.items})
		}
	}
	sort.Slice(funcs, func(i, j int) bool { return funcs[i].name < funcs[j].name })
	// fixpoints over the by-name call graph
	nonEmpty, reach := map[string]bool{}, map[string]bool{}
	for changed := true; changed; {
		changed = false
		for _, f := range funcs {
			ne, re := false, false
			for _, it := range f.items {
				switch it.kind {
				case "lock", "hook":
					ne, re = true, true
				case "access":
					ne = true
				case "call":
					ne = ne || nonEmpty[it.callee]
					re = re || reach[it.callee]
				}
			}
			for _, p := range f.keys {
				if ne && !nonEmpty[p] {
					nonEmpty[p], changed = true, true
				}
				if re && !reach[p] {
					reach[p], changed = true, true
				}
			}
		}
	}
	var lockTakers, lockReachers, nested, unheld []string
	fmt.Fprintln(out, "/- GENERATED by `harness/cmd/memfsconc leanfacts` from filesystem/filespace/memfs/*.go (non-test) — do not edit -/")
	fmt.Fprintln(out, "namespace Goat.Tie.ExtractedC09")
	for _, f := range funcs {
		var full, order []string
		takes, reaches, composite := false, false, false
		for _, it := range f.items {
			if it.kind == "call" && !nonEmpty[it.callee] {
				continue
			}
			full = append(full, it.prefix+it.text)
			sync := it.kind == "lock" || it.kind == "hook" || (it.kind == "call" && reach[it.callee])
			if it.kind == "lock" {
				takes = true
			}
			if sync {
				reaches = true
				order = append(order, it.prefix+it.text)
				if it.kind == "call" {
					composite = true
				}
				if it.prefix != "" {
					nested = append(nested, f.name+":"+it.prefix+it.text)
				}
			}
			if it.kind == "access" && it.prefix == "" {
				unheld = append(unheld, f.name+":"+it.text)
			}
		}
		// control markers alone do not make a skeleton
		real := false
		for _, it := range f.items {
			if it.kind != "ctl" && !(it.kind == "call" && !nonEmpty[it.callee]) {
				real = true
			}
		}
		if !real {
			continue
		}
		if takes {
			lockTakers = append(lockTakers, f.name)
		}
		if reaches {
			lockReachers = append(lockReachers, f.name)
		}
		id := strings.ReplaceAll(f.name, ".", "_")
		fmt.Fprintf(out, "def %s : List String := %s\n", id, leanList(full))
		if composite && strings.Join(order, " ") != strings.Join(full, " ") {
			fmt.Fprintf(out, "def %s_order : List String := %s\n", id, leanList(order))
		}
	}
	fmt.Fprintf(out, "def lockTakers : List String := %s\n", leanList(lockTakers))
	fmt.Fprintf(out, "def lockReachers : List String := %s\n", leanList(lockReachers))
	fmt.Fprintf(out, "def nestedLocks : List String := %s\n", leanList(nested))
	fmt.Fprintf(out, "def unheldAccesses : List String := %s\n", leanList(unheld))
	fmt.Fprintln(out, "end Goat.Tie.ExtractedC09")
}
