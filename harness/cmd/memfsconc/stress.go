package main

import (
	"bufio"
	"encoding/binary"
	"fmt"
	"io/ioutil"
	"os"
	"runtime"
	"sort"
	"strings"
	"sync"
	"sync/atomic"
	"time"

	"gcverif/internal/hx"

	"github.com/goatcms/goatcore/filesystem"
	"github.com/goatcms/goatcore/filesystem/filespace/memfs"
)

// Values written by the stress are self-describing: an 8-byte block (goroutine, counter, marker)
// repeated to the chosen length.  A value read back is printed as the token v<g>.<ctr>.<len> when it
// is exactly such a repetition and as torn:… otherwise, so a torn or mixed value cannot be mistaken
// for a written one.
func mkValue(g, ctr, n int) []byte {
	var blk [8]byte
	binary.BigEndian.PutUint16(blk[0:], uint16(g))
	binary.BigEndian.PutUint32(blk[2:], uint32(ctr))
	blk[6], blk[7] = 0xA5, 0x5A
	b := make([]byte, n)
	for i := range b {
		b[i] = blk[i%8]
	}
	return b
}

func valToken(g, ctr, n int) string { return fmt.Sprintf("v%d.%d.%d", g, ctr, n) }

func describe(b []byte) string {
	if len(b) == 0 {
		return "-"
	}
	if len(b) < 8 {
		return "torn:" + hx.Enc(b)
	}
	for i := range b {
		if b[i] != b[i%8] {
			k := 16
			if len(b) < k {
				k = len(b)
			}
			return fmt.Sprintf("torn:%d:%s", len(b), hx.Enc(b[:k]))
		}
	}
	if b[6] != 0xA5 || b[7] != 0x5A {
		return fmt.Sprintf("torn:%d:%s", len(b), hx.Enc(b[:8]))
	}
	return valToken(int(binary.BigEndian.Uint16(b[0:])), int(binary.BigEndian.Uint32(b[2:])), len(b))
}

type sop struct {
	kind  string // write read sread stream mkdirall readdir exist remove removeall copy stat
	p     string
	src   string
	n     int   // value length for write/stream
	inner []sop // operations performed while the stream handle is open
}

var lens = []int{8, 8, 40, 400, 4000, 4000, 40000}

type gen struct {
	r     *hx.Rand
	g     int // goroutine
	n     int // goroutines in the round
	fresh int
	chaos bool
	stat  bool
}

func (q *gen) sharedDir() string { return q.r.Pick([]string{"s0", "s1", "s0/sub"}) }
func (q *gen) owned(g int) string {
	return fmt.Sprintf("%s/g%d_%d", []string{"s0", "s1", "s0/sub"}[q.r.Intn(3)], g, q.r.Intn(4))
}
func (q *gen) sharedFile() string { return fmt.Sprintf("sh/f%d", q.r.Intn(3)) }
func (q *gen) freshName() string {
	q.fresh++
	return fmt.Sprintf("%s/n%d_%d", q.sharedDir(), q.g, q.fresh)
}

// inner operations never wait for a file's data lock (the discipline of no_deadlock)
func (q *gen) innerOp() sop {
	switch q.r.Intn(4) {
	case 0:
		return sop{kind: "mkdirall", p: fmt.Sprintf("%s/m%d_%d/a", q.sharedDir(), q.g, q.r.Intn(3))}
	case 1:
		return sop{kind: "write", p: q.freshName(), n: 8}
	case 2:
		return sop{kind: "readdir", p: q.sharedDir()}
	default:
		return sop{kind: "exist", p: q.owned(q.r.Intn(q.n))}
	}
}

func (q *gen) op() sop {
	r := q.r
	k := r.Intn(100)
	switch {
	case k < 14:
		return sop{kind: "write", p: q.owned(q.g), n: lens[r.Intn(len(lens))]}
	case k < 24:
		return sop{kind: "read", p: q.owned(q.g)}
	case k < 30:
		return sop{kind: "read", p: q.owned(r.Intn(q.n))}
	case k < 35:
		return sop{kind: "mkdirall", p: fmt.Sprintf("%s/m%d_%d/a", q.sharedDir(), q.g, r.Intn(3))}
	case k < 42:
		return sop{kind: "readdir", p: q.sharedDir()}
	case k < 50:
		return sop{kind: "write", p: q.sharedFile(), n: lens[r.Intn(len(lens))]}
	case k < 56:
		return sop{kind: "read", p: q.sharedFile()}
	case k < 60:
		return sop{kind: "sread", p: q.sharedFile()}
	case k < 66:
		s := sop{kind: "stream", p: q.sharedFile(), n: lens[r.Intn(len(lens))]}
		if r.Chance(1, 2) {
			s.p = q.owned(q.g)
		}
		for i := r.Intn(3); i > 0; i-- {
			s.inner = append(s.inner, q.innerOp())
		}
		return s
	case k < 70:
		return sop{kind: "remove", p: q.owned(q.g)}
	case k < 74:
		return sop{kind: "copy", src: q.owned(r.Intn(q.n)), p: fmt.Sprintf("s1/c%d_%d", q.g, r.Intn(3))}
	case k < 76:
		return sop{kind: "copy", src: q.sharedFile(), p: fmt.Sprintf("s0/c%d_%d", q.g, r.Intn(3))}
	case k < 78:
		return sop{kind: "copy", src: fmt.Sprintf("s0/m%d_%d", q.g, r.Intn(3)), p: fmt.Sprintf("s1/cm%d_%d", q.g, r.Intn(3))}
	case k < 82:
		return sop{kind: "mkdirall", p: fmt.Sprintf("race/d%d/e", r.Intn(4))}
	case k < 86:
		return sop{kind: "write", p: fmt.Sprintf("race/w%d", r.Intn(4)), n: 40}
	case k < 89:
		return sop{kind: "copy", src: q.sharedFile(), p: fmt.Sprintf("race/c%d", r.Intn(4))}
	case k < 91:
		return sop{kind: "readdir", p: "race"}
	case k < 93 && q.stat:
		return sop{kind: "stat", p: r.Pick([]string{q.sharedFile(), q.sharedDir(), q.owned(q.g)})}
	}
	if !q.chaos {
		return sop{kind: "exist", p: q.owned(r.Intn(q.n))}
	}
	d := fmt.Sprintf("x/d%d", r.Intn(3))
	switch r.Intn(9) {
	case 0:
		return sop{kind: "mkdirall", p: d + "/e"}
	case 1, 2:
		return sop{kind: "write", p: d + "/f", n: lens[r.Intn(len(lens))]}
	case 3:
		return sop{kind: "removeall", p: d}
	case 4:
		return sop{kind: "remove", p: r.Pick([]string{d, d + "/f", d + "/e"})}
	case 5:
		return sop{kind: "copy", src: d, p: fmt.Sprintf("x/c%d", r.Intn(3))}
	case 6:
		return sop{kind: "readdir", p: r.Pick([]string{"x", d})}
	case 7:
		return sop{kind: "read", p: r.Pick([]string{d + "/f", fmt.Sprintf("x/c%d/f", r.Intn(3))})}
	default:
		return sop{kind: "removeall", p: fmt.Sprintf("x/c%d", r.Intn(3))}
	}
}

type runner struct {
	fs     filesystem.Filespace
	g      int
	ctr    int
	yield  int // a Gosched with probability 1/yield around operations (0 = never)
	r      *hx.Rand
	lines  []string
	cur    string // the operation in flight (for the watchdog report)
	curMu  sync.Mutex
	failed bool
}

func (w *runner) maybeYield() {
	if w.yield > 0 && w.r.Intn(w.yield) == 0 {
		runtime.Gosched()
	}
}

func listNames(nodes []os.FileInfo) string { return showList(nodes) }

func (w *runner) setCur(s string) {
	w.curMu.Lock()
	w.cur = s
	w.curMu.Unlock()
}

func (w *runner) do(o sop) {
	fs := w.fs
	head := fmt.Sprintf("g %d %s %s", w.g, o.kind, o.p)
	var val []byte
	switch o.kind {
	case "write", "stream":
		w.ctr++
		val = mkValue(w.g, w.ctr, o.n)
		head = fmt.Sprintf("g %d %s %s %s", w.g, o.kind, o.p, valToken(w.g, w.ctr, o.n))
	case "copy":
		head = fmt.Sprintf("g %d copy %s %s", w.g, o.src, o.p)
	}
	w.setCur(head)
	res := "panic"
	var innerLater []sop
	hx.Guard(func() {
		w.maybeYield()
		switch o.kind {
		case "write":
			res = okErr(fs.WriteFile(o.p, val, filesystem.DefaultUnixFileMode))
		case "read":
			d, err := fs.ReadFile(o.p)
			if err != nil {
				res = "err"
			} else {
				res = "data " + describe(d)
			}
		case "sread":
			rd, err := fs.Reader(o.p)
			if err != nil {
				res = "err"
				return
			}
			w.maybeYield()
			d, err := ioutil.ReadAll(rd)
			w.maybeYield()
			rd.Close()
			if err != nil {
				res = "err"
			} else {
				res = "data " + describe(d)
			}
		case "stream":
			wr, err := fs.Writer(o.p)
			if err != nil {
				res = "err"
				return
			}
			chunks := 1 + len(o.inner)
			sz := (len(val) + chunks - 1) / chunks
			for i := 0; i < chunks; i++ {
				lo, hi := i*sz, (i+1)*sz
				if lo > len(val) {
					lo = len(val)
				}
				if hi > len(val) {
					hi = len(val)
				}
				wr.Write(val[lo:hi])
				runtime.Gosched()
				if i < len(o.inner) {
					innerLater = append(innerLater, o.inner[i])
					w.do(o.inner[i])
					w.setCur(head)
				}
			}
			res = okErr(wr.Close())
		case "mkdirall":
			res = okErr(fs.MkdirAll(o.p, filesystem.DefaultUnixDirMode))
		case "readdir":
			nodes, err := fs.ReadDir(o.p)
			if err != nil {
				res = "err"
			} else {
				res = listNames(nodes)
			}
		case "exist":
			res = tf(fs.IsExist(o.p))
		case "remove":
			res = okErr(fs.Remove(o.p))
		case "removeall":
			res = okErr(fs.RemoveAll(o.p))
		case "copy":
			res = okErr(fs.Copy(o.src, o.p))
		case "stat":
			if info, err := fs.Lstat(o.p); err == nil {
				_ = info.Size()
				_ = info.ModTime()
			}
			res = "ok"
		}
		w.maybeYield()
	})
	if o.kind == "sread" {
		head = fmt.Sprintf("g %d sread %s", w.g, o.p)
	}
	w.curMu.Lock()
	w.lines = append(w.lines, head+" -> "+res)
	w.cur = ""
	w.curMu.Unlock()
}

func finalTree(fs filesystem.Filespace) string { return finalTreeAt(fs, nil) }

func finalTreeAt(fs filesystem.Filespace, cur *atomic.Value) string {
	items := []string{}
	var walk func(dir string)
	walk = func(dir string) {
		nodes, err := fs.ReadDir(dir)
		if err != nil {
			items = append(items, dir+"!err")
			return
		}
		for _, n := range nodes {
			p := n.Name()
			if dir != "." {
				p = dir + "/" + n.Name()
			}
			if n.IsDir() {
				items = append(items, p+"/")
				walk(p)
			} else {
				if cur != nil {
					cur.Store(p)
				}
				d, err := fs.ReadFile(p)
				if err != nil {
					items = append(items, p+"=!err")
				} else {
					items = append(items, p+"="+describe(d))
				}
			}
		}
	}
	if panicked, _ := hx.Guard(func() { walk(".") }); panicked {
		items = append(items, "!panic")
	}
	sort.Strings(items)
	return "tree " + strings.Join(items, " ")
}

func stressMain(out *bufio.Writer, rounds int) {
	rnd := hx.NewRand(hx.SeedFromEnv() ^ 0xC09C09)
	chaos := len(os.Args) > 3 && os.Args[3] == "chaos"
	stat := os.Getenv("MEMFSCONC_STAT") == "1"
	goroutineChoices := []int{2, 2, 3, 4, 8, 16, 32}
	procChoices := []int{1, 2, 4, 8, 16}
	yieldChoices := []int{0, 2, 8}
	for round := 0; round < rounds; round++ {
		n := goroutineChoices[rnd.Intn(len(goroutineChoices))]
		procs := procChoices[rnd.Intn(len(procChoices))]
		yield := yieldChoices[rnd.Intn(len(yieldChoices))]
		nops := 10 + rnd.Intn(60)
		runtime.GOMAXPROCS(procs)
		fs, _ := memfs.NewFilespace()
		runners := make([]*runner, n)
		progs := make([][]sop, n)
		for g := 0; g < n; g++ {
			q := &gen{r: hx.NewRand(rnd.U64()), g: g, n: n, chaos: chaos, stat: stat}
			for i := 0; i < nops; i++ {
				progs[g] = append(progs[g], q.op())
			}
			runners[g] = &runner{fs: fs, g: g, yield: yield, r: hx.NewRand(rnd.U64())}
		}
		var wg sync.WaitGroup
		startGate := make(chan struct{})
		for g := 0; g < n; g++ {
			wg.Add(1)
			go func(g int) {
				defer wg.Done()
				<-startGate
				for _, o := range progs[g] {
					runners[g].do(o)
				}
			}(g)
		}
		done := make(chan struct{})
		go func() { wg.Wait(); close(done) }()
		close(startGate)
		fmt.Fprintf(out, "history r%d_g%d_p%d_y%d\n", round, n, procs, yield)
		hung := false
		select {
		case <-done:
		case <-time.After(longWait):
			hung = true
		}
		for _, w := range runners {
			w.curMu.Lock()
			lines := append([]string{}, w.lines...)
			cur := w.cur
			w.curMu.Unlock()
			for _, l := range lines {
				fmt.Fprintln(out, l)
			}
			if hung && cur != "" {
				fmt.Fprintln(out, cur+" -> hang")
			}
		}
		if hung {
			fmt.Fprintln(out, "tree")
			fmt.Fprintln(out, "endhistory")
			fmt.Fprintln(out, "aborted after a hang")
			out.Flush()
			os.Exit(0)
		}
		// the final walk reads every file through the public interface: a file that was born or left locked
		// blocks it for ever - that is an answer (`hang`, R0 of the monitor), not a reason to sit here
		tree, stuck := finalTreeWatched(fs)
		if stuck != "" {
			fmt.Fprintf(out, "g %d read %s -> hang\n", n, stuck)
			fmt.Fprintln(out, "tree")
			fmt.Fprintln(out, "endhistory")
			fmt.Fprintln(out, "aborted after a hang")
			out.Flush()
			os.Exit(0)
		}
		fmt.Fprintln(out, tree)
		fmt.Fprintln(out, "endhistory")
		out.Flush()
	}
}

// finalTreeWatched is finalTree under a watchdog: when the walk has not returned after longWait the path it is
// reading is returned (the goroutine's state - parked on a sync lock or not - goes to stderr for the record; all
// goroutines of the round have finished by then, so nobody will release anything).
func finalTreeWatched(fs filesystem.Filespace) (tree string, stuck string) {
	var cur atomic.Value
	cur.Store(".")
	done := make(chan string, 1)
	gid := make(chan int64, 1)
	go func() {
		gid <- hx.GoID()
		done <- finalTreeAt(fs, &cur)
	}()
	id := <-gid
	select {
	case t := <-done:
		return t, ""
	case <-time.After(longWait):
	}
	st, _ := hx.GoroutineStatus(id)
	fmt.Fprintf(os.Stderr, "final walk stuck at %s, goroutine state %q\n", cur.Load().(string), st)
	select {
	case t := <-done:
		return t, ""
	default:
	}
	return "", cur.Load().(string)
}

// kfraceMain is the witness of the recorded finding KF-C09-1: Remove of a directory reads
// len(dir.nodes) without the directory's mu while another goroutine adds a node to that directory.
// Functionally nothing observable goes wrong; the race detector reports the unsynchronised read.
func kfraceMain(out *bufio.Writer, n int) {
	fs, _ := memfs.NewFilespace()
	fs.MkdirAll("d", filesystem.DefaultUnixDirMode)
	var wg sync.WaitGroup
	wg.Add(2)
	go func() {
		defer wg.Done()
		for i := 0; i < n; i++ {
			fs.MkdirAll("d/e", filesystem.DefaultUnixDirMode)
			fs.Remove("d/e")
		}
	}()
	go func() {
		defer wg.Done()
		for i := 0; i < n; i++ {
			fs.WriteFile("d/e/x", []byte("x"), filesystem.DefaultUnixFileMode)
			fs.Remove("d/e/x")
		}
	}()
	wg.Wait()
	fmt.Fprintln(out, "kfrace done", n)
}
