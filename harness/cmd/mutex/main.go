// Command mutex is the implementation-side harness of property C15 (named resource locks).
//
//	mutex drive [tracefile]   run the real commservices/mutex.SharedMutex (and pipc.Run's lock-list
//	                          parsing) on the op lines of stdin; one result line per op on stdout;
//	                          recorded critical-section intervals (`ivs …` lines, input of the Lean
//	                          interval monitor) go to tracefile, one line per concurrency op
//	mutex gen <n>             seeded generator of op lines (VERIF_SEED)
//	mutex oracle <n>          the property's clauses evaluated on the implementation alone
//	mutex facts <repo>        go/ast synchronisation skeleton of Lock/Unlock/runGo/waitForTasks as Lean data
//	mutex gentasks <n>        task cases (tasks.go): the adversarial families, then n random ones (every fourth a
//	                          `ptasks` case: tasks created through the real `pip:run --rlock=… --wlock=…` command line)
//	mutex tasksoracle <n>     task cases evaluated on the implementation alone
//
// Ops: locks, sched, stress, overlap, rounds, parties (holders inside, waiters observed parked in Lock, then holders
// compatible with everybody must get inside), tasks, ptasks.
// Line protocol: see /verif/lean/Driver/Mutex.lean.  Every concurrency case runs against a fresh
// SharedMutex; holders are goroutines; the build tag `verif` turns
// verifhook.Yield("mutex.acquire") (called by SharedMutex.Lock before every per-name acquisition)
// into a gate at which the harness parks the calling holder.  Timing is only ever used as "wait
// generously (20 s) for something that must happen"; whether a holder is blocked inside the RW lock
// is read from the runtime's goroutine wait reasons, not inferred from elapsed time.
package main

import (
	"bufio"
	"bytes"
	"fmt"
	"go/ast"
	"go/parser"
	"go/token"
	"go/types"
	"os"
	"runtime"
	"sort"
	"strconv"
	"strings"
	"sync"
	"sync/atomic"
	"time"

	"gcverif/internal/hx"

	"github.com/goatcms/goatcore/app"
	"github.com/goatcms/goatcore/app/gio"
	"github.com/goatcms/goatcore/app/goatapp"
	"github.com/goatcms/goatcore/app/injector"
	"github.com/goatcms/goatcore/app/modules/commonm/commservices"
	"github.com/goatcms/goatcore/app/modules/commonm/commservices/mutex"
	"github.com/goatcms/goatcore/app/modules/pipelinem/pipcommands/pipc"
	"github.com/goatcms/goatcore/app/modules/pipelinem/pipservices"
	"github.com/goatcms/goatcore/app/modules/pipelinem/pipservices/namespaces"
	"github.com/goatcms/goatcore/app/scope"
	"github.com/goatcms/goatcore/app/scope/datascope"
	"github.com/goatcms/goatcore/verifhook"
)

const watchdog = 20 * time.Second

// after this many watchdog expiries a driver stops executing cases (the rest is reported `skipped`)
const maxHangs = 2

// ---------------------------------------------------------------------------------------------
// goroutine introspection

func goid() int64 {
	var buf [64]byte
	n := runtime.Stack(buf[:], false)
	// "goroutine 123 [running]:"
	s := buf[:n]
	s = s[len("goroutine "):]
	i := bytes.IndexByte(s, ' ')
	id, _ := strconv.ParseInt(string(s[:i]), 10, 64)
	return id
}

type gstate struct {
	status string
	inGet  bool // inside SharedMutex.get (the table lock, not a resource lock)
}

var stackBuf = make([]byte, 1<<20)

// goroutineStates takes one consistent (stop-the-world) snapshot of all goroutines.
func goroutineStates() map[int64]gstate {
	for {
		n := runtime.Stack(stackBuf, true)
		if n < len(stackBuf) {
			res := map[int64]gstate{}
			for _, blk := range bytes.Split(stackBuf[:n], []byte("\n\n")) {
				if !bytes.HasPrefix(blk, []byte("goroutine ")) {
					continue
				}
				head := blk
				if i := bytes.IndexByte(blk, '\n'); i >= 0 {
					head = blk[:i]
				}
				rest := head[len("goroutine "):]
				sp := bytes.IndexByte(rest, ' ')
				if sp < 0 {
					continue
				}
				id, err := strconv.ParseInt(string(rest[:sp]), 10, 64)
				if err != nil {
					continue
				}
				st := string(rest[sp+1:])
				st = strings.TrimPrefix(st, "[")
				if i := strings.IndexAny(st, ",]"); i >= 0 {
					st = st[:i]
				}
				res[id] = gstate{status: st, inGet: bytes.Contains(blk, []byte("SharedMutex).get("))}
			}
			return res
		}
		stackBuf = make([]byte, 2*len(stackBuf))
	}
}

// blockedKind maps a wait reason to the model's tag: w = waiting for the RWMutex's internal writer
// mutex, a = writer announced and waiting for readers, r = reader parked behind a writer.
func blockedKind(st gstate) string {
	if st.inGet {
		return ""
	}
	switch st.status {
	case "sync.Mutex.Lock":
		return "w"
	case "sync.RWMutex.Lock":
		return "a"
	case "sync.RWMutex.RLock":
		return "r"
	case "semacquire":
		return "s"
	}
	return ""
}

// ---------------------------------------------------------------------------------------------
// holders and lock maps

type row struct {
	name  string
	write bool
}

func parseHolders(t string) ([][]row, error) {
	var res [][]row
	for _, m := range strings.Split(strings.TrimSpace(t), ";") {
		var rows []row
		if m != "-" && m != "" {
			for _, r := range strings.Split(m, ",") {
				p := strings.Split(r, ":")
				if len(p) != 2 || (p[1] != "r" && p[1] != "w") {
					return nil, fmt.Errorf("bad row %q", r)
				}
				rows = append(rows, row{p[0], p[1] == "w"})
			}
		}
		res = append(res, rows)
	}
	return res, nil
}

func lockMapOf(rows []row) commservices.LockMap {
	lm := commservices.LockMap{}
	for _, r := range rows {
		if r.write {
			lm[r.name] = commservices.LockRW
		} else {
			lm[r.name] = commservices.LockR
		}
	}
	return lm
}

func rowsText(rows []row) string {
	if len(rows) == 0 {
		return "-"
	}
	parts := make([]string, len(rows))
	for i, r := range rows {
		m := "r"
		if r.write {
			m = "w"
		}
		parts[i] = r.name + "." + m
	}
	return strings.Join(parts, ",")
}

type interval struct {
	holder      int
	enter, exit int64
}

type arrival struct {
	holder int
	point  string
}

type holderRT struct {
	idx   int
	rows  []row
	lm    commservices.LockMap
	gate  chan struct{}
	goid  int64
	rng   uint64
	yield int
	// guarded by caseRT.mu
	parked   bool
	running  bool
	finished bool
}

type caseRT struct {
	mu       sync.Mutex
	sm       *mutex.SharedMutex
	holders  []*holderRT
	byGoid   sync.Map
	seq      int64
	freeRun  bool
	arrivals []arrival
	ivs      []interval
	occ      map[string]*int32 // in-process occupancy oracle
	exclBad  atomic.Value      // first name on which the occupancy oracle saw a conflict
	noise    bool              // random Gosched at yield points (stress)
	noAcq    bool              // the per-name acquisition yield point never parks (parties)
	wg       sync.WaitGroup
}

var current atomic.Value // *caseRT

func installHook() {
	verifhook.Set(func(point string) {
		if point != "mutex.acquire" {
			return
		}
		if tc, _ := currentT.Load().(*tcase); tc != nil {
			tc.hook()
			return
		}
		c, _ := current.Load().(*caseRT)
		if c == nil {
			return
		}
		v, ok := c.byGoid.Load(goid())
		if !ok {
			return
		}
		h := v.(*holderRT)
		if c.noAcq {
			return
		}
		k := h.yield
		h.yield++
		if c.noise {
			h.rng = h.rng*6364136223846793005 + 1442695040888963407
			if (h.rng>>33)%3 == 0 {
				runtime.Gosched()
			}
		}
		c.arrive(h, strconv.Itoa(k), true)
	})
}

func newCase(maps [][]row) *caseRT {
	c := &caseRT{sm: mutex.NewSharedMutex(), occ: map[string]*int32{}}
	for i, rows := range maps {
		c.holders = append(c.holders, &holderRT{idx: i, rows: rows, lm: lockMapOf(rows), gate: make(chan struct{}, 1),
			rng: uint64(i)*0x9e3779b97f4a7c15 + 12345})
		for _, r := range rows {
			if c.occ[r.name] == nil {
				c.occ[r.name] = new(int32)
			}
		}
	}
	currentT.Store((*tcase)(nil))
	current.Store(c)
	return c
}

// arrive records that h reached a gate; it parks there unless the case is in free-run mode.
func (c *caseRT) arrive(h *holderRT, point string, park bool) {
	c.mu.Lock()
	c.arrivals = append(c.arrivals, arrival{h.idx, point})
	parked := park && !c.freeRun
	if parked {
		h.parked = true
		h.running = false
	}
	if point == "out" {
		h.finished = true
		h.running = false
	}
	c.mu.Unlock()
	if parked {
		<-h.gate
	}
}

// occupancy oracle: evaluated inside the critical section, independent of the Lean monitor
func (c *caseRT) occEnter(h *holderRT) {
	for _, r := range h.rows {
		p := c.occ[r.name]
		if r.write {
			if !atomic.CompareAndSwapInt32(p, 0, -1) {
				c.exclBad.CompareAndSwap(nil, r.name)
			}
		} else if atomic.AddInt32(p, 1) <= 0 {
			c.exclBad.CompareAndSwap(nil, r.name)
		}
	}
}

func (c *caseRT) occExit(h *holderRT) {
	for _, r := range h.rows {
		p := c.occ[r.name]
		if r.write {
			atomic.StoreInt32(p, 0)
		} else {
			atomic.AddInt32(p, -1)
		}
	}
}

// body of one holder: Lock; critical section (gate `in`, optional barrier); Unlock — iters times
func (c *caseRT) holderMain(h *holderRT, iters int, inside func()) {
	defer c.wg.Done()
	g := goid()
	c.mu.Lock()
	h.goid = g
	c.mu.Unlock()
	c.byGoid.Store(g, h)
	for it := 0; it < iters; it++ {
		h.yield = 0
		uh := c.sm.Lock(h.lm)
		enter := atomic.AddInt64(&c.seq, 1)
		c.occEnter(h)
		c.arrive(h, "in", true)
		if inside != nil {
			inside()
		}
		c.occExit(h)
		exit := atomic.AddInt64(&c.seq, 1)
		uh.Unlock()
		c.mu.Lock()
		c.ivs = append(c.ivs, interval{h.idx, enter, exit})
		c.mu.Unlock()
	}
	c.arrive(h, "out", false)
}

func (c *caseRT) start(iters int, inside func(h *holderRT) func()) {
	c.mu.Lock()
	for _, h := range c.holders {
		h.running = true
	}
	c.mu.Unlock()
	for _, h := range c.holders {
		c.wg.Add(1)
		var in func()
		if inside != nil {
			in = inside(h)
		}
		go c.holderMain(h, iters, in)
	}
}

// startSome starts the holders lo..hi-1 (one Lock/Unlock each)
func (c *caseRT) startSome(lo, hi int) {
	c.mu.Lock()
	for _, h := range c.holders[lo:hi] {
		h.running = true
	}
	c.mu.Unlock()
	for _, h := range c.holders[lo:hi] {
		c.wg.Add(1)
		go c.holderMain(h, 1, nil)
	}
}

// release opens the gate holder i is parked at; false if it is not parked
func (c *caseRT) release(i int) bool {
	c.mu.Lock()
	defer c.mu.Unlock()
	if i < 0 || i >= len(c.holders) {
		return false
	}
	h := c.holders[i]
	if !h.parked {
		return false
	}
	h.parked = false
	h.running = true
	h.gate <- struct{}{}
	return true
}

// settle waits until every running holder is parked again, finished, or blocked inside a resource
// lock (all in one stop-the-world snapshot, confirmed by a second one); returns the observation
// string and false on watchdog expiry.
func (c *caseRT) settle() (string, bool) {
	deadline := time.Now().Add(watchdog)
	confirm := 0
	var lastBlk string
	for spin := 0; ; spin++ {
		c.mu.Lock()
		var running []*holderRT
		var goids []int64
		for _, h := range c.holders {
			if h.running && !h.finished && !h.parked {
				running = append(running, h)
				goids = append(goids, h.goid)
			}
		}
		c.mu.Unlock()
		ok := true
		var blk []string
		if len(running) > 0 {
			st := goroutineStates()
			for i, h := range running {
				k := ""
				if goids[i] != 0 {
					k = blockedKind(st[goids[i]])
				}
				if k == "" {
					ok = false
					break
				}
				blk = append(blk, fmt.Sprintf("%d~%s", h.idx, k))
			}
		}
		if ok {
			cur := strings.Join(blk, ",")
			if len(running) == 0 {
				return c.obs(nil), true
			}
			if confirm > 0 && cur == lastBlk {
				// re-read: nobody may have arrived in between
				c.mu.Lock()
				same := true
				for _, h := range running {
					if !(h.running && !h.finished && !h.parked) {
						same = false
					}
				}
				c.mu.Unlock()
				if same {
					return c.obs(blk), true
				}
				confirm = 0
				continue
			}
			confirm++
			lastBlk = cur
			time.Sleep(100 * time.Microsecond)
			continue
		}
		confirm = 0
		if time.Now().After(deadline) {
			return c.obs(blk) + "!timeout", false
		}
		if spin < 50 {
			runtime.Gosched()
		} else {
			time.Sleep(50 * time.Microsecond)
		}
	}
}

// obs drains the arrivals since the last call and renders them with the blocked holders
func (c *caseRT) obs(blk []string) string {
	c.mu.Lock()
	arr := c.arrivals
	c.arrivals = nil
	c.mu.Unlock()
	sort.SliceStable(arr, func(i, j int) bool {
		if arr[i].holder != arr[j].holder {
			return arr[i].holder < arr[j].holder
		}
		return arr[i].point < arr[j].point
	})
	var parts []string
	for _, a := range arr {
		parts = append(parts, fmt.Sprintf("%d@%s", a.holder, a.point))
	}
	parts = append(parts, blk...)
	if len(parts) == 0 {
		return "-"
	}
	return strings.Join(parts, ",")
}

// finish switches to free run, opens every gate and waits (generously) for all holders
func (c *caseRT) finish() string {
	c.mu.Lock()
	c.freeRun = true
	for _, h := range c.holders {
		if h.parked {
			h.parked = false
			h.running = true
			h.gate <- struct{}{}
		}
	}
	c.mu.Unlock()
	done := make(chan struct{})
	go func() { c.wg.Wait(); close(done) }()
	res := "fin"
	select {
	case <-done:
	case <-time.After(watchdog):
		res = "hang"
	}
	if v := c.exclBad.Load(); v != nil {
		res += " excl:" + v.(string)
	}
	return res
}

func (c *caseRT) traceLine() string {
	c.mu.Lock()
	defer c.mu.Unlock()
	var b strings.Builder
	b.WriteString("ivs")
	for _, iv := range c.ivs {
		fmt.Fprintf(&b, " %d:%d:%d:%s", iv.holder, iv.enter, iv.exit, rowsText(c.holders[iv.holder].rows))
	}
	return b.String()
}

// ---------------------------------------------------------------------------------------------
// the concurrency ops

func opSched(maps [][]row, acts []int) (string, string) {
	c := newCase(maps)
	c.start(1, nil)
	var out []string
	o, ok := c.settle()
	out = append(out, "start:"+o)
	if ok {
		for _, a := range acts {
			if !c.release(a) {
				out = append(out, fmt.Sprintf("%d:noop", a))
				continue
			}
			o, ok = c.settle()
			out = append(out, fmt.Sprintf("%d:%s", a, o))
			if !ok {
				break
			}
		}
	}
	out = append(out, c.finish())
	return strings.Join(out, " "), c.traceLine()
}

func opStress(maps [][]row, iters int) (string, string) {
	c := newCase(maps)
	c.freeRun = true
	c.noise = true
	c.start(iters, func(h *holderRT) func() {
		return func() {
			h.rng = h.rng*6364136223846793005 + 1442695040888963407
			switch (h.rng >> 33) % 4 {
			case 0:
				runtime.Gosched()
			case 1:
				for i := 0; i < int((h.rng>>40)%200); i++ {
					_ = i
				}
			}
		}
	})
	return c.finish(), c.traceLine()
}

// opOverlap: the first k holders wait inside their critical sections until all k are inside
func opOverlap(maps [][]row, k int) (string, string) {
	c := newCase(maps)
	c.freeRun = true
	var mu sync.Mutex
	inside := 0
	all := make(chan struct{})
	c.start(1, func(h *holderRT) func() {
		if h.idx >= k {
			return nil
		}
		return func() {
			mu.Lock()
			inside++
			if inside == k {
				close(all)
			}
			mu.Unlock()
			<-all
		}
	})
	return c.finish(), c.traceLine()
}

// opRounds: lockstep rounds, model-free: in round r every parked holder is released once, in index
// order, each time waiting until the system is quiescent again
func opRounds(maps [][]row) (string, string) {
	c := newCase(maps)
	c.start(1, nil)
	maxRows := 0
	for _, m := range maps {
		if len(m) > maxRows {
			maxRows = len(m)
		}
	}
	_, ok := c.settle()
	for r := 0; ok && r <= maxRows; r++ {
		for i := range maps {
			if c.release(i) {
				if _, ok = c.settle(); !ok {
					break
				}
			}
		}
	}
	return c.finish(), c.traceLine()
}

// after the first failed `parties` case of a process later ones wait only this long for the acquisition
const shortPartyWait = 3 * time.Second

var partyFails int32

// opParties: the clause "holders of disjoint or read-only-overlapping maps are not serialised against each
// other by the lock" with more than two parties.  The first nA holders (pairwise compatible) are started and
// stay inside their critical sections.  Then the next nB holders are started: each conflicts with a holder that
// is inside, so each ends up parked inside SharedMutex.Lock - which is OBSERVED in one stop-the-world snapshot
// of the runtime's wait reasons (`settle`), never inferred from elapsed time.  Then the remaining holders are
// started: each is compatible with EVERY other holder of the case (disjoint names, or names that everybody only
// reads), so each must get inside its critical section while the first nA still hold and the nB waiters are
// still parked.  The harness waits generously (20 s; 3 s after the first failure of the process) for that; a
// holder that does not get inside is the result `serialised:<holder>~<wait reason>`.  Afterwards everything is
// released and everybody must finish.
func opParties(maps [][]row, nA, nB int) (string, string) {
	c := newCase(maps)
	c.noAcq = true
	var out []string
	done := func() (string, string) {
		out = append(out, c.finish())
		return strings.Join(out, " "), c.traceLine()
	}
	inside := func(lo, hi int) bool {
		c.mu.Lock()
		defer c.mu.Unlock()
		for _, h := range c.holders[lo:hi] {
			if !h.parked {
				return false
			}
		}
		return true
	}
	// 1. the holders
	c.startSome(0, nA)
	if _, ok := c.settle(); !ok || !inside(0, nA) {
		out = append(out, "first-holders-not-inside")
		return done()
	}
	// 2. the waiters: all parked inside Lock (none of them inside its critical section)
	c.startSome(nA, nA+nB)
	if _, ok := c.settle(); !ok {
		out = append(out, "waiters!timeout")
		return done()
	}
	c.mu.Lock()
	for _, h := range c.holders[nA : nA+nB] {
		if h.parked || h.finished {
			out = append(out, fmt.Sprintf("waiter-not-blocked:%d", h.idx))
		}
	}
	c.mu.Unlock()
	if len(out) > 0 {
		return done()
	}
	// 3. the compatible late-comers must get inside now
	c.startSome(nA+nB, len(maps))
	wd := watchdog
	if atomic.LoadInt32(&partyFails) > 0 {
		wd = shortPartyWait
	}
	deadline := time.Now().Add(wd)
	for spin := 0; !inside(nA+nB, len(maps)) && time.Now().Before(deadline); spin++ {
		if spin < 50 {
			runtime.Gosched()
		} else {
			time.Sleep(50 * time.Microsecond)
		}
	}
	st := goroutineStates()
	c.mu.Lock()
	for _, h := range c.holders[nA+nB:] {
		if !h.parked {
			k := blockedKind(st[h.goid])
			if k == "" {
				k = "?"
			}
			out = append(out, fmt.Sprintf("serialised:%d~%s", h.idx, k))
		}
	}
	// the situation is still the one the clause is about: the first holders inside, the waiters parked in Lock
	for _, h := range c.holders[:nA] {
		if !h.parked {
			out = append(out, fmt.Sprintf("holder-left:%d", h.idx))
		}
	}
	for _, h := range c.holders[nA : nA+nB] {
		if h.parked || h.finished || blockedKind(st[h.goid]) == "" {
			out = append(out, fmt.Sprintf("waiter-moved:%d", h.idx))
		}
	}
	c.mu.Unlock()
	if len(out) > 0 {
		atomic.AddInt32(&partyFails, 1)
	}
	return done()
}

// ---------------------------------------------------------------------------------------------
// pipc.Run's lock-list parsing, reached through the exported command callback

type captureRunner struct {
	mu   sync.Mutex
	last *pipservices.Pip
}

func (r *captureRunner) Run(pip pipservices.Pip) error {
	r.mu.Lock()
	r.last = &pip
	r.mu.Unlock()
	return nil
}

type locksEnv struct {
	mapp   *goatapp.MockupApp
	runner *captureRunner
	unit   pipservices.NamespacesUnit
}

var lenv *locksEnv

func getLocksEnv() (*locksEnv, error) {
	if lenv != nil {
		return lenv, nil
	}
	mapp, err := goatapp.NewMockupApp(goatapp.Params{})
	if err != nil {
		return nil, err
	}
	e := &locksEnv{mapp: mapp, runner: &captureRunner{}, unit: namespaces.NewUnit()}
	dp := mapp.DependencyProvider()
	if err = dp.SetDefault(pipservices.RunnerService, pipservices.Runner(e.runner)); err != nil {
		return nil, err
	}
	if err = dp.AddDefaultFactory(pipservices.NamespacesUnitService, namespaces.UnitFactory); err != nil {
		return nil, err
	}
	lenv = e
	return e, nil
}

func opLocks(ns, rlock, wlock []byte) string {
	e, err := getLocksEnv()
	if err != nil {
		return "harness-error " + err.Error()
	}
	res := "err"
	panicked, _ := hx.Guard(func() {
		args := datascope.New(make(map[interface{}]interface{}))
		args.SetValue("name", "t")
		args.SetValue("body", "x")
		if len(rlock) > 0 {
			args.SetValue("rlock", string(rlock))
		}
		if len(wlock) > 0 {
			args.SetValue("wlock", string(wlock))
		}
		parent := e.mapp.Scopes().App()
		child := scope.NewChild(parent, scope.ChildParams{
			DataScope:  datascope.New(make(map[interface{}]interface{})),
			EventScope: parent.BaseEventScope(),
			Injector: injector.NewMultiInjector([]app.Injector{
				e.mapp,
				datascope.NewInjector("command", args),
			}),
			Name: "command:pip:run",
		})
		if err := e.unit.Define(child, namespaces.NewNamespaces(pipservices.NamasepacesParams{Task: "t", Lock: string(ns)})); err != nil {
			res = "harness-error " + err.Error()
			return
		}
		ctx := gio.NewIOContext(child, e.mapp.IOContext().IO())
		e.runner.last = nil
		if err := pipc.Run(e.mapp, ctx); err != nil {
			res = "err"
			return
		}
		if e.runner.last == nil {
			res = "norun"
			return
		}
		var items []string
		for k, v := range e.runner.last.Lock {
			m := "r"
			if v == commservices.LockRW {
				m = "w"
			}
			items = append(items, hx.Enc([]byte(k))+"="+m)
		}
		sort.Strings(items)
		if len(items) == 0 {
			res = "map -"
		} else {
			res = "map " + strings.Join(items, ",")
		}
	})
	if panicked {
		return "panic"
	}
	return res
}

// ---------------------------------------------------------------------------------------------
// drive

func runOp(line string) (res string, trace string) {
	parts := strings.Split(line, " | ")
	head := strings.Fields(parts[0])
	if len(head) == 0 {
		return "bad-op", ""
	}
	switch head[0] {
	case "locks":
		if len(head) != 4 {
			return "bad-op", ""
		}
		return opLocks(hx.MustDec(head[1]), hx.MustDec(head[2]), hx.MustDec(head[3])), ""
	case "tasks", "ptasks":
		if len(head) != 2 || len(parts) != 2 {
			return "bad-op", ""
		}
		specs, err := parseTaskSpecs(head[1])
		if head[0] == "ptasks" {
			specs, err = parsePTaskSpecs(head[1])
		}
		if err != nil {
			return "bad-op", ""
		}
		ctl := strings.Fields(parts[1])
		switch {
		case len(ctl) == 1 && ctl[0] == "adv":
			return opTasks(specs, "adv", 0)
		case len(ctl) == 2 && ctl[0] == "rnd":
			seed, err := strconv.ParseUint(ctl[1], 10, 64)
			if err != nil {
				return "bad-op", ""
			}
			return opTasks(specs, "rnd", seed)
		}
		return "bad-op", ""
	case "sched", "stress", "overlap", "rounds", "parties":
		if len(head) != 2 {
			return "bad-op", ""
		}
		maps, err := parseHolders(head[1])
		if err != nil {
			return "bad-op", ""
		}
		arg := ""
		if len(parts) > 1 {
			arg = strings.TrimSpace(parts[1])
		}
		switch head[0] {
		case "sched":
			var acts []int
			for _, t := range strings.Fields(arg) {
				n, err := strconv.Atoi(t)
				if err != nil {
					return "bad-op", ""
				}
				acts = append(acts, n)
			}
			return opSched(maps, acts)
		case "stress":
			n, err := strconv.Atoi(arg)
			if err != nil {
				return "bad-op", ""
			}
			return opStress(maps, n)
		case "overlap":
			n, err := strconv.Atoi(arg)
			if err != nil || n > len(maps) {
				return "bad-op", ""
			}
			return opOverlap(maps, n)
		case "parties":
			f := strings.Fields(arg)
			if len(f) != 2 {
				return "bad-op", ""
			}
			nA, e1 := strconv.Atoi(f[0])
			nB, e2 := strconv.Atoi(f[1])
			if e1 != nil || e2 != nil || nA < 1 || nB < 0 || nA+nB > len(maps) {
				return "bad-op", ""
			}
			return opParties(maps, nA, nB)
		default:
			return opRounds(maps)
		}
	}
	return "bad-op", ""
}

func drive(tracePath string) {
	installHook()
	var tw *bufio.Writer
	if tracePath != "" {
		f, err := os.Create(tracePath)
		if err != nil {
			fmt.Fprintln(os.Stderr, err)
			os.Exit(3)
		}
		defer f.Close()
		tw = bufio.NewWriter(f)
		defer tw.Flush()
	}
	in := bufio.NewScanner(os.Stdin)
	in.Buffer(make([]byte, 1<<20), 1<<26)
	out := bufio.NewWriter(os.Stdout)
	defer out.Flush()
	hangs := 0
	for in.Scan() {
		line := in.Text()
		if line == "" || strings.HasPrefix(line, "#") {
			continue
		}
		if hangs >= maxHangs {
			// every hang costs a full watchdog period: after a few of them the verdict is settled
			fmt.Fprintln(out, "skipped")
			continue
		}
		res, trace := runOp(line)
		if strings.Contains(res, "hang") || strings.Contains(res, "!timeout") || strings.Contains(res, "serialised:") {
			hangs++
		}
		fmt.Fprintln(out, res)
		out.Flush()
		if tw != nil && trace != "" {
			fmt.Fprintln(tw, trace)
			tw.Flush()
		}
	}
}

// ---------------------------------------------------------------------------------------------
// generators

var pool = []string{"a", "b", "c", "d", "e", "f"}

func genMap(r *hx.Rand, names []string, maxRows int, writePct int) []row {
	n := r.Intn(maxRows + 1)
	if n > len(names) {
		n = len(names)
	}
	perm := append([]string(nil), names...)
	for i := len(perm) - 1; i > 0; i-- { // the iteration order of a Go map is arbitrary: shuffle
		j := r.Intn(i + 1)
		perm[i], perm[j] = perm[j], perm[i]
	}
	var rows []row
	for _, nm := range perm[:n] {
		rows = append(rows, row{nm, r.Intn(100) < writePct})
	}
	return rows
}

func holdersText(maps [][]row) string {
	parts := make([]string, len(maps))
	for i, m := range maps {
		if len(m) == 0 {
			parts[i] = "-"
			continue
		}
		rs := make([]string, len(m))
		for j, r := range m {
			md := "r"
			if r.write {
				md = "w"
			}
			rs[j] = r.name + ":" + md
		}
		parts[i] = strings.Join(rs, ",")
	}
	return strings.Join(parts, ";")
}

func genHolders(r *hx.Rand, minH, maxH, maxPool int) [][]row {
	nh := minH + r.Intn(maxH-minH+1)
	np := 1 + r.Intn(maxPool)
	names := pool[:np]
	writePct := []int{20, 50, 50, 80, 100}[r.Intn(5)]
	maps := make([][]row, nh)
	for i := range maps {
		maps[i] = genMap(r, names, np, writePct)
		if len(maps[i]) == 0 && r.Intn(4) != 0 { // empty maps are legal but rare
			maps[i] = genMap(r, names, np, writePct)
		}
	}
	return maps
}

func genSched(r *hx.Rand) string {
	maps := genHolders(r, 2, 6, 3)
	rows := 0
	for _, m := range maps {
		rows += len(m)
	}
	n := 2*(rows+2*len(maps)) + r.Intn(6)
	acts := make([]string, n)
	for i := range acts {
		acts[i] = strconv.Itoa(r.Intn(len(maps)))
	}
	return "sched " + holdersText(maps) + " | " + strings.Join(acts, " ")
}

func genStress(r *hx.Rand) string {
	maps := genHolders(r, 2, 16, 6)
	return fmt.Sprintf("stress %s | %d", holdersText(maps), 1+r.Intn(30))
}

func genRounds(r *hx.Rand) string {
	return "rounds " + holdersText(genHolders(r, 2, 8, 4))
}

// genOverlap: k holders that are compatible with everybody (shared names only read, private names
// written), plus bystanders on other names that may also read the shared names
func genOverlap(r *hx.Rand) string {
	k := 2 + r.Intn(4)
	shared := pool[:1+r.Intn(2)]
	var maps [][]row
	for i := 0; i < k; i++ {
		var rows []row
		for _, s := range shared {
			if r.Intn(3) != 0 {
				rows = append(rows, row{s, false})
			}
		}
		if r.Intn(2) == 0 {
			rows = append(rows, row{fmt.Sprintf("p%d", i), true})
		}
		for j := len(rows) - 1; j > 0; j-- {
			x := r.Intn(j + 1)
			rows[j], rows[x] = rows[x], rows[j]
		}
		maps = append(maps, rows)
	}
	nb := r.Intn(5)
	for i := 0; i < nb; i++ {
		var rows []row
		for _, s := range shared {
			if r.Intn(3) == 0 {
				rows = append(rows, row{s, false})
			}
		}
		for _, nm := range []string{"x", "y"} {
			if r.Intn(2) == 0 {
				rows = append(rows, row{nm, r.Intn(2) == 0})
			}
		}
		maps = append(maps, rows)
	}
	return fmt.Sprintf("overlap %s | %d", holdersText(maps), k)
}

// genParties: nA holders that stay inside, nB waiters that each conflict with one of them (and sometimes with
// each other), then late-comers that are compatible with everybody: their names are private, or shared names
// that every party only reads.  Most maps have two or more rows; private names sort before, between and after
// the contended ones, so a waiter is parked on its first, a middle or its last row and holds what came before.
func genParties(r *hx.Rand) string {
	nA, nB, nC := 1+r.Intn(3), 1+r.Intn(4), 1+r.Intn(3)
	shared := []string{"m0", "m1"}[:r.Intn(3)]
	priv := 0
	private := func(rows []row, max int) []row {
		for k := r.Intn(max + 1); k > 0; k-- {
			rows = append(rows, row{fmt.Sprintf("%s%d", []string{"a", "n", "z"}[r.Intn(3)], priv), r.Intn(3) != 0})
			priv++
		}
		return rows
	}
	reads := func(rows []row) []row {
		for _, s := range shared {
			if r.Intn(2) == 0 {
				rows = append(rows, row{s, false})
			}
		}
		return rows
	}
	shuffle := func(rows []row) []row {
		for j := len(rows) - 1; j > 0; j-- {
			x := r.Intn(j + 1)
			rows[j], rows[x] = rows[x], rows[j]
		}
		return rows
	}
	var maps [][]row
	xw := make([]bool, nA)
	for i := 0; i < nA; i++ {
		xw[i] = r.Intn(3) != 0
		maps = append(maps, private(reads([]row{{fmt.Sprintf("x%d", i), xw[i]}}), 2))
	}
	for i := 0; i < nA; i++ { // a contended name that is only read may be read by the other first holders too
		if !xw[i] {
			for j := 0; j < nA; j++ {
				if j != i && r.Intn(4) == 0 {
					maps[j] = append(maps[j], row{fmt.Sprintf("x%d", i), false})
				}
			}
		}
	}
	for j := 0; j < nB; j++ {
		i := r.Intn(nA)
		rows := []row{{fmt.Sprintf("x%d", i), !xw[i] || r.Intn(2) == 0}}
		if r.Intn(3) == 0 {
			rows = append(rows, row{fmt.Sprintf("y%d", r.Intn(2)), r.Intn(2) == 0})
		}
		rows = private(reads(rows), 2)
		if len(rows) == 1 && r.Intn(6) != 0 {
			rows = private(rows, 0)
			rows = append(rows, row{fmt.Sprintf("z%d", priv), true})
			priv++
		}
		maps = append(maps, rows)
	}
	for l := 0; l < nC; l++ {
		rows := private(reads(nil), 3)
		if len(rows) < 2 && r.Intn(6) != 0 {
			rows = append(rows, row{fmt.Sprintf("a%d", priv), true}, row{fmt.Sprintf("z%d", priv+1), r.Intn(2) == 0})
			priv += 2
		}
		maps = append(maps, rows)
	}
	for i := range maps {
		maps[i] = shuffle(maps[i])
	}
	return fmt.Sprintf("parties %s | %d %d", holdersText(maps), nA, nB)
}

// partiesFamily: the deterministic three-(and more)-party cases the oracle always runs
var partiesFamily = []string{
	"parties x:w;x:w,y:w;p:w,q:w | 1 1",         // holder of x, a waiter for {x,y}, a late-comer on {p,q}
	"parties x:w;y:w,x:w;y2:w,w:w | 1 1",        // the late-comer's names sort around the waiter's
	"parties x:w;a:w,x:w;x:r,z:w;p:w,q:w | 1 2", // two waiters, the first holds a, the second reads x
	"parties m:r,x:w;m:r,x:w,z:w;m:r,q:w | 1 1", // everybody reads m: read-only overlap with holder and waiter
	"parties x:r;x:w,z:w;p:w,q:r | 1 1",         // the waiter is a writer that has announced itself behind a reader
	"parties x:r;x:w,z:w;p:w,q:r;c:w,d:w | 1 1", // … and two late-comers
	"parties m:r,x0:w;x1:r;b:w,x0:r;x1:w,y:w;x0:w,y:w;m:r,p:w;q:w,r:w | 2 3",
	"parties x:w;x:w,y:w;p:w | 1 1", // single-entry late-comer
	"parties x:w;x:w;p:w,q:w | 1 1", // single-entry waiter
	"parties x:w;a1:w,x:w;a2:w,x:w;a3:w,x:w;a4:w,x:w;p:w,q:w;r:w,s:r;t:r,u:r | 1 4",
	"parties k:w,x:w;j:w,k:w,l:w,x:w;i:r,j2:r,m:r | 1 1",
}

var lockAtoms = []string{"a", "b", "res1", "_x", "A9", "@a", "@g_1", "@", "1a", "a-b", "", " ", "a b", "é", "@@a", "a@", "é", "\xff"}
var lockPads = []string{"", "", "", "", " ", "\t", "\n", "  ", " \n\t"}

// not in pipc's cutset: a list padded with one of these must be refused
var lockBadPads = []string{"\r", "\v", "\f", "\u00a0", "\u0085 "}

func genLockList(r *hx.Rand) string {
	if r.Intn(6) == 0 {
		return ""
	}
	n := 1 + r.Intn(4)
	parts := make([]string, n)
	for i := range parts {
		var atom string
		switch r.Intn(10) {
		case 0, 1:
			atom = lockAtoms[r.Intn(len(lockAtoms))]
		default:
			atom = lockAtoms[r.Intn(7)] // valid ones
		}
		parts[i] = lockPads[r.Intn(len(lockPads))] + atom + lockPads[r.Intn(len(lockPads))]
		if r.Intn(30) == 0 {
			parts[i] = lockBadPads[r.Intn(len(lockBadPads))] + parts[i]
		} else if r.Intn(30) == 0 {
			parts[i] += lockBadPads[r.Intn(len(lockBadPads))]
		}
	}
	s := strings.Join(parts, ",")
	if r.Intn(25) == 0 {
		s += ","
	}
	return s
}

func genLocks(r *hx.Rand) string {
	ns := []string{"", "", "ns:", "a", "x:y:", "@"}[r.Intn(6)]
	return fmt.Sprintf("locks %s %s %s", hx.Enc([]byte(ns)), hx.Enc([]byte(genLockList(r))), hx.Enc([]byte(genLockList(r))))
}

func genOne(r *hx.Rand) string {
	switch x := r.Intn(100); {
	case x < 6:
		return genParties(r)
	case x < 40:
		return genSched(r)
	case x < 60:
		return genStress(r)
	case x < 70:
		return genOverlap(r)
	case x < 80:
		return genRounds(r)
	default:
		return genLocks(r)
	}
}

func gen(n int) {
	r := hx.NewRand(hx.SeedFromEnv())
	out := bufio.NewWriter(os.Stdout)
	defer out.Flush()
	for i := 0; i < n; i++ {
		fmt.Fprintln(out, genOne(r))
	}
}

// oracle: the property's clauses on the implementation alone — every concurrency case must end with
// all holders finished (deadlock freedom), the in-process occupancy oracle must see no conflict
// (exclusion), compatible holders must get inside together (overlap gates).
func oracle(n int) {
	installHook()
	r := hx.NewRand(hx.SeedFromEnv()*7919 + 104729)
	out := bufio.NewWriter(os.Stdout)
	defer out.Flush()
	counts := map[string]int{}
	fails := 0
	// large lock maps: a holder may name any number of resources ("any size").  One holder of 700 names must
	// get through alone; two holders of 400 names each, all different, must be inside AT THE SAME TIME (the
	// overlap op only finishes when both are) - whatever table the named locks are kept in.
	big := func(from, n int, w bool) []row {
		rows := make([]row, n)
		for i := range rows {
			rows[i] = row{name: fmt.Sprintf("res%04d", from+i), write: w || i%3 == 0}
		}
		return rows
	}
	for _, op := range []string{
		"stress " + holdersText([][]row{big(0, 700, true)}) + " | 2",
		"overlap " + holdersText([][]row{big(0, 400, false), big(400, 400, false)}) + " | 2",
		"overlap " + holdersText([][]row{big(0, 64, true), big(64, 64, true), big(128, 64, true)}) + " | 3",
	} {
		res, _ := runOp(op)
		counts["bigmaps"]++
		if res != "fin" {
			fails++
			fmt.Fprintf(out, "FAIL %s => %s\n", op, res)
			out.Flush()
		}
	}
	for _, op := range partiesFamily {
		if fails >= maxHangs {
			break
		}
		res, _ := runOp(op)
		counts["parties"]++
		counts["parties_family"]++
		if res != "fin" {
			fails++
			fmt.Fprintf(out, "FAIL %s => %s\n", op, res)
			out.Flush()
		}
	}
	for i := 0; i < n; i++ {
		var op string
		switch x := r.Intn(10); {
		case x < 2:
			op = genParties(r)
		case x < 5:
			op = genStress(r)
		case x < 7:
			op = genOverlap(r)
		default:
			op = genRounds(r)
		}
		res, _ := runOp(op)
		counts[strings.Fields(op)[0]]++
		if res != "fin" {
			fails++
			fmt.Fprintf(out, "FAIL %s => %s\n", op, res)
			out.Flush()
			if fails >= maxHangs {
				n = i + 1
				break
			}
		}
	}
	fmt.Fprintf(out, "oracle cases=%d fails=%d stress=%d overlap=%d rounds=%d parties=%d parties_family=%d bigmaps=%d\n",
		n+counts["bigmaps"]+counts["parties_family"], fails, counts["stress"], counts["overlap"], counts["rounds"], counts["parties"], counts["parties_family"], counts["bigmaps"])
}

// ---------------------------------------------------------------------------------------------
// structural facts (go/ast): the synchronisation skeleton of the three functions the model mirrors,
// emitted as Lean data and compared with the model's assumptions by `decide` (Goat/Tie/C15.lean)

var factCalls = map[string]bool{"Lock": true, "RLock": true, "Unlock": true, "RUnlock": true, "SliceStable": true,
	"Slice": true, "Stable": true, "Sort": true, "Strings": true, "get": true, "Yield": true, "Run": true,
	"waitForTasks": true, "Wait": true, "Close": true, "Get": true, "Errors": true}

type skel struct{ out []string }

func (k *skel) calls(n ast.Node) {
	if n == nil {
		return
	}
	ast.Inspect(n, func(x ast.Node) bool {
		if _, ok := x.(*ast.FuncLit); ok {
			return false
		}
		c, ok := x.(*ast.CallExpr)
		if !ok {
			return true
		}
		name := ""
		switch f := c.Fun.(type) {
		case *ast.SelectorExpr:
			name = f.Sel.Name
		case *ast.Ident:
			name = f.Name
		}
		if !factCalls[name] {
			return true
		}
		// arguments first (evaluation order), then the call itself
		for _, a := range c.Args {
			k.calls(a)
		}
		t := "call " + types.ExprString(c.Fun)
		if name == "SliceStable" || name == "Slice" {
			if len(c.Args) == 2 {
				t += "(" + types.ExprString(c.Args[0]) + ")"
				if fl, ok := c.Args[1].(*ast.FuncLit); ok && len(fl.Body.List) == 1 {
					if r, ok := fl.Body.List[0].(*ast.ReturnStmt); ok && len(r.Results) == 1 {
						t += " by " + types.ExprString(r.Results[0])
					}
				}
			}
		} else if len(c.Args) > 0 {
			as := make([]string, len(c.Args))
			for i, a := range c.Args {
				as[i] = types.ExprString(a)
			}
			t += "(" + strings.Join(as, ", ") + ")"
		}
		k.out = append(k.out, t)
		return false
	})
}

func (k *skel) block(list []ast.Stmt) {
	for _, st := range list {
		k.stmt(st)
	}
}

func (k *skel) stmt(st ast.Stmt) {
	switch s := st.(type) {
	case *ast.BlockStmt:
		k.block(s.List)
	case *ast.RangeStmt:
		k.out = append(k.out, "for range "+types.ExprString(s.X))
		k.block(s.Body.List)
		k.out = append(k.out, "end")
	case *ast.ForStmt:
		k.out = append(k.out, "for")
		k.block(s.Body.List)
		k.out = append(k.out, "end")
	case *ast.IfStmt:
		if s.Init != nil {
			k.stmt(s.Init)
		}
		k.calls(s.Cond)
		k.out = append(k.out, "if "+types.ExprString(s.Cond))
		k.block(s.Body.List)
		if s.Else != nil {
			k.out = append(k.out, "else")
			k.stmt(s.Else)
		}
		k.out = append(k.out, "end")
	case *ast.DeferStmt:
		k.out = append(k.out, "defer "+types.ExprString(s.Call.Fun))
	case *ast.GoStmt:
		k.out = append(k.out, "go "+types.ExprString(s.Call.Fun))
	case *ast.ReturnStmt:
		for _, r := range s.Results {
			k.calls(r)
		}
		k.out = append(k.out, "return")
	default:
		k.calls(st)
	}
}

func skeletonOf(path, recv, name string) ([]string, error) {
	fset := token.NewFileSet()
	f, err := parser.ParseFile(fset, path, nil, 0)
	if err != nil {
		return nil, err
	}
	for _, d := range f.Decls {
		fd, ok := d.(*ast.FuncDecl)
		if !ok || fd.Name.Name != name || fd.Body == nil {
			continue
		}
		r := ""
		if fd.Recv != nil && len(fd.Recv.List) == 1 {
			r = types.ExprString(fd.Recv.List[0].Type)
		}
		if r != recv {
			continue
		}
		k := &skel{}
		k.block(fd.Body.List)
		return k.out, nil
	}
	return []string{"missing " + recv + "." + name}, nil
}

func leanList(name string, xs []string) string {
	var b strings.Builder
	fmt.Fprintf(&b, "def %s : List String := [", name)
	for i, x := range xs {
		if i > 0 {
			b.WriteString(",")
		}
		b.WriteString("\n  " + strconv.Quote(x))
	}
	b.WriteString("]\n")
	return b.String()
}

func facts(repo string) {
	base := repo + "/app/modules/"
	items := []struct{ lean, file, recv, fn string }{
		{"sharedMutexLock", base + "commonm/commservices/mutex/mutex.go", "*SharedMutex", "Lock"},
		{"unlockHandlerUnlock", base + "commonm/commservices/mutex/mutex_hander.go", "*unlockHandler", "Unlock"},
		{"runnerRunGo", base + "pipelinem/pipservices/runner/runner.go", "*Runner", "runGo"},
		{"runnerWaitForTasks", base + "pipelinem/pipservices/runner/runner.go", "*Runner", "waitForTasks"},
	}
	fmt.Println("/- GENERATED by `mutex facts` from the Go sources of the repository under test: the ordered")
	fmt.Println("synchronisation-relevant statements of the functions the C15 model mirrors.  Do not edit. -/")
	fmt.Println("namespace Goat.Tie.ExtractedC15")
	for _, it := range items {
		sk, err := skeletonOf(it.file, it.recv, it.fn)
		if err != nil {
			sk = []string{"parse error"}
		}
		fmt.Println()
		fmt.Print(leanList(it.lean, sk))
	}
	fmt.Println("\nend Goat.Tie.ExtractedC15")
}

func main() {
	if len(os.Args) < 2 {
		fmt.Fprintln(os.Stderr, "usage: mutex drive [tracefile] | gen <n> | oracle <n> | facts <repo> | gentasks <n> | tasksoracle <n>")
		os.Exit(3)
	}
	switch os.Args[1] {
	case "drive":
		p := ""
		if len(os.Args) > 2 {
			p = os.Args[2]
		}
		drive(p)
	case "gen":
		n, _ := strconv.Atoi(os.Args[2])
		gen(n)
	case "oracle":
		n, _ := strconv.Atoi(os.Args[2])
		oracle(n)
	case "facts":
		facts(os.Args[2])
	case "gentasks":
		// the adversarial family, then n random task cases
		n, _ := strconv.Atoi(os.Args[2])
		r := hx.NewRand(hx.SeedFromEnv()*2654435761 + 97)
		out := bufio.NewWriter(os.Stdout)
		for k := 0; k < advVariants; k++ {
			fmt.Fprintln(out, genTasksAdv(k))
		}
		for k := 0; k < len(ptasksFamily); k++ {
			fmt.Fprintln(out, genPTasksAdv(k))
		}
		for i := 0; i < n; i++ {
			if i%4 == 3 {
				fmt.Fprintln(out, genPTasksRnd(r))
			} else {
				fmt.Fprintln(out, genTasksRnd(r))
			}
		}
		out.Flush()
	case "tasksoracle":
		n, _ := strconv.Atoi(os.Args[2])
		tasksOracle(n)
	default:
		os.Exit(3)
	}
}
