package main

// tasks.go — property C15 through the real pipeline Runner: the holders of the shared mutex are tasks.
//
//	tasks <task>;<task>;… | adv            deterministic controller
//	tasks <task>;<task>;… | rnd <seed>     random controller (PRNG seeded with <seed>)
//	    <task> = <waits>/<map>[/<flags>], <waits> = `-` or `,`-separated indices of earlier tasks, <map> as for
//	    `sched`; flags: `n` the body does not run the probe itself but submits a nested task (pip:run) that
//	    does; `f` the body FAILS (the probe records enter/leave and then returns an error); digits = scope
//	    group (default 0): every group is submitted on a root scope of its own (a failure marks the whole
//	    context of its root scope as done, so only tasks of other groups are "everyone else"); wait lists
//	    stay inside a group (a task manager belongs to one root scope)
//
// Per case a fresh application is assembled exactly like /repo/app/modules/pipelinem/main_test.go
// (terminalm, commonm, ocm, pipelinem on a MockupApp; the SharedMutex, Runner, TasksUnit are the ones
// the modules register), a probe command `probe:cs` is registered on its terminal, and the tasks are
// submitted through the real pipservices.Runner with BOTH their wait list and their lock map; the body
// of task i is the script `probe:cs --t=i`.  The probe draws `enter` from the case's counter, parks at
// its body gate until the controller opens it (so tasks really hold their resources while others are
// submitted, wait and acquire), draws `leave` and returns.  With the random controller
// verifhook.Yield("mutex.acquire") — called by SharedMutex.Lock before every per-name acquisition — parks
// its caller as well, and the controller chooses at random among: submit the next task, open a parked
// acquisition, open a body gate.  Between its actions the controller waits until the code under test
// is quiescent: one stop-the-world goroutine snapshot in which every goroutine that has a goatcore frame
// on its stack is blocked on a channel / mutex / wait group.  Quiescence only steers the schedule (it makes
// "D reaches its Lock while B is still parked behind A" happen on purpose); no verdict depends on it.
//
// Verdicts: `fin` = every task ended (Task.Wait returned), every task of a group without a failing task —
// and a failing task that is the only one of its group — entered and left its body, no task ran its body
// although a task of its wait list failed, and TasksManager.Wait of every group returned; `hang …` = some
// task did not end although nothing happened for the whole watchdog period after the last gate was opened
// (the "all get their turn" clause: e.g. a failed task that keeps its resources); `excl:<name>` = the
// in-process occupancy oracle saw two bodies inside with conflicting access.  The recorded bodies go to the trace file as a `tivs` line for the Lean interval
// monitor (exclusion) and order monitor (a body starts only after the bodies of its wait list ended).

import (
	"bufio"
	"bytes"
	"errors"
	"fmt"
	"os"
	"runtime"
	"sort"
	"strconv"
	"strings"
	"sync"
	"sync/atomic"
	"time"

	"gcverif/internal/hx"

	"github.com/goatcms/goatcore/app"
	"github.com/goatcms/goatcore/app/bootstrap"
	"github.com/goatcms/goatcore/app/gio"
	"github.com/goatcms/goatcore/app/goatapp"
	"github.com/goatcms/goatcore/app/modules/commonm"
	"github.com/goatcms/goatcore/app/modules/ocm"
	"github.com/goatcms/goatcore/app/modules/pipelinem"
	"github.com/goatcms/goatcore/app/modules/pipelinem/pipservices"
	"github.com/goatcms/goatcore/app/modules/pipelinem/pipservices/namespaces"
	"github.com/goatcms/goatcore/app/modules/terminalm"
	"github.com/goatcms/goatcore/app/scope"
	"github.com/goatcms/goatcore/app/terminal"
	"github.com/goatcms/goatcore/app/terminal/termexec"
)

// after the first hang of a process later task cases wait only this long without progress
const shortWatchdog = 3 * time.Second

// how long the controller waits for quiescence before it acts anyway (steering only)
const settleMax = 500 * time.Millisecond

var taskHangs int32

type taskSpec struct {
	waits  []int
	rows   []row
	nested bool // the body does not run the probe itself: it submits a nested task (pip:run) that does
	fails  bool // the body ends with an error
	group  int  // root scope the task is submitted on
	// `ptasks`: the task is submitted by running the real command `pip:run --rlock=<rlist> --wlock=<wlist>`;
	// rows is then what the property demands of these two lists (a name of the wlock list is held for writing,
	// whether or not the rlock list names it too; every other name of the rlock list for reading)
	cmd          bool
	rlist, wlist string
	// `ptasks`, nested submission: a parent task named `parent` is submitted through Runner.Run (empty lock map,
	// Pip.Namespaces = {Task: "", Lock: lockNS}) and its body is the `pip:run` command line of this task; the
	// nested task is then `<parent>:t<i>` and - what the unchanged code does - its resources are named in the
	// LOCK namespace it inherits unchanged from the parent (NewSubNamespaces), whatever the task names are
	parent, lockNS string
}

func parseTaskSpecs(t string) ([]taskSpec, error) {
	var res []taskSpec
	for i, part := range strings.Split(strings.TrimSpace(t), ";") {
		wm := strings.Split(part, "/")
		if len(wm) != 2 && len(wm) != 3 {
			return nil, fmt.Errorf("bad task %q", part)
		}
		var sp taskSpec
		if len(wm) == 3 {
			for _, c := range wm[2] {
				switch {
				case c == 'n':
					sp.nested = true
				case c == 'f':
					sp.fails = true
				case c >= '0' && c <= '9':
					sp.group = sp.group*10 + int(c-'0')
				default:
					return nil, fmt.Errorf("bad flags %q", wm[2])
				}
			}
		}
		if wm[0] != "-" && wm[0] != "" {
			for _, w := range strings.Split(wm[0], ",") {
				n, err := strconv.Atoi(w)
				if err != nil || n < 0 || n >= i {
					return nil, fmt.Errorf("bad wait %q", w)
				}
				sp.waits = append(sp.waits, n)
			}
		}
		maps, err := parseHolders(wm[1])
		if err != nil || len(maps) != 1 {
			return nil, fmt.Errorf("bad map %q", wm[1])
		}
		sp.rows = maps[0]
		for _, w := range sp.waits {
			if res[w].group != sp.group {
				return nil, fmt.Errorf("wait list of task %d leaves its scope group", i)
			}
		}
		res = append(res, sp)
	}
	return res, nil
}

// specRows: the lock map the two lists of a pip:run command stand for — the SPEC side: every name of the wlock
// list read-write (a name that is in both lists was asked for write access), the other names of the rlock
// list read-only.  Names in order of first occurrence (rlock list first).
// effName: the name a resource of a list is locked under: `@…` names are global, every other name is prefixed with
// the lock namespace (plain concatenation: pipc.Run's `lockNamespace + row`)
func effName(lockNS, n string) string {
	if strings.HasPrefix(n, "@") {
		return n
	}
	return lockNS + n
}

func specRows(lockNS, rlist, wlist string) []row {
	var rows []row
	at := map[string]int{}
	add := func(list string, write bool) {
		if list == "" {
			return
		}
		for _, n := range strings.Split(list, ",") {
			n = effName(lockNS, n)
			if k, ok := at[n]; ok {
				rows[k].write = rows[k].write || write
				continue
			}
			at[n] = len(rows)
			rows = append(rows, row{n, write})
		}
	}
	add(rlist, false)
	add(wlist, true)
	return rows
}

var plainName = func(s string) bool {
	if s == "" {
		return false
	}
	for i, c := range s {
		if !(c == '_' || (c >= 'a' && c <= 'z') || (c >= 'A' && c <= 'Z') || (i > 0 && c >= '0' && c <= '9')) {
			return false
		}
	}
	return true
}

var nsText = func(s string) bool { // a lock namespace in an op line: name characters and ':'
	for _, c := range s {
		if !(c == '_' || c == ':' || (c >= 'a' && c <= 'z') || (c >= 'A' && c <= 'Z') || (c >= '0' && c <= '9')) {
			return false
		}
	}
	return true
}

// parsePTaskSpecs: `<waits>/<rlist>/<wlist>[/<parent>[~<lock namespace>]];…`, a list = `-` or `,`-separated
// names (plain or `@global`); with the fourth field the task is a nested submission (see taskSpec.parent):
// parents are distinct, nested tasks have no wait list and nobody waits for them (wait names are resolved in
// the task namespace of the scope that runs pip:run)
func parsePTaskSpecs(t string) ([]taskSpec, error) {
	var res []taskSpec
	parents := map[string]bool{}
	for i, part := range strings.Split(strings.TrimSpace(t), ";") {
		f := strings.Split(part, "/")
		if len(f) != 3 && len(f) != 4 {
			return nil, fmt.Errorf("bad task %q", part)
		}
		sp := taskSpec{cmd: true}
		if len(f) == 4 {
			pn := strings.SplitN(f[3], "~", 2)
			sp.parent = pn[0]
			if len(pn) == 2 {
				sp.lockNS = pn[1]
			}
			if !plainName(sp.parent) || parents[sp.parent] || !nsText(sp.lockNS) || (f[0] != "-" && f[0] != "") {
				return nil, fmt.Errorf("bad parent %q", f[3])
			}
			parents[sp.parent] = true
			f = f[:3]
		}
		if f[0] != "-" && f[0] != "" {
			for _, w := range strings.Split(f[0], ",") {
				n, err := strconv.Atoi(w)
				if err != nil || n < 0 || n >= i || res[n].parent != "" {
					return nil, fmt.Errorf("bad wait %q", w)
				}
				sp.waits = append(sp.waits, n)
			}
		}
		for k, l := range f[1:] {
			if l == "-" {
				l = ""
			}
			if l != "" {
				for _, n := range strings.Split(l, ",") {
					if !plainName(strings.TrimPrefix(n, "@")) {
						return nil, fmt.Errorf("bad name %q", n)
					}
				}
			}
			if k == 0 {
				sp.rlist = l
			} else {
				sp.wlist = l
			}
		}
		sp.rows = specRows(sp.lockNS, sp.rlist, sp.wlist)
		res = append(res, sp)
	}
	return res, nil
}

// namedInBoth: some task names a resource in both of its lists while another task names that resource too
func namedInBoth(specs []taskSpec) bool {
	for i, sp := range specs {
		if sp.rlist == "" || sp.wlist == "" {
			continue
		}
		for _, n := range strings.Split(sp.wlist, ",") {
			in := false
			for _, m := range strings.Split(sp.rlist, ",") {
				in = in || m == n
			}
			if !in {
				continue
			}
			for j, o := range specs {
				if j != i {
					for _, rw := range o.rows {
						if rw.name == effName(sp.lockNS, n) {
							return true
						}
					}
				}
			}
		}
	}
	return false
}

func listText(l string) string {
	if l == "" {
		return "-"
	}
	return l
}

func ptaskSpecsText(specs []taskSpec) string {
	parts := make([]string, len(specs))
	for i, sp := range specs {
		parts[i] = joinWaits(sp.waits) + "/" + listText(sp.rlist) + "/" + listText(sp.wlist)
		if sp.parent != "" {
			parts[i] += "/" + sp.parent
			if sp.lockNS != "" {
				parts[i] += "~" + sp.lockNS
			}
		}
	}
	return strings.Join(parts, ";")
}

// lockMapText renders a lock map as the implementation built it: rows sorted by name
func lockMapText(lm map[string]bool) string {
	var rows []row
	for k, v := range lm {
		rows = append(rows, row{k, v})
	}
	sort.Slice(rows, func(i, j int) bool { return rows[i].name < rows[j].name })
	return rowsText(rows)
}

func taskSpecsText(specs []taskSpec) string {
	parts := make([]string, len(specs))
	for i, sp := range specs {
		parts[i] = joinWaits(sp.waits) + "/" + holdersText([][]row{sp.rows})
		flags := ""
		if sp.nested {
			flags += "n"
		}
		if sp.fails {
			flags += "f"
		}
		if sp.group > 0 {
			flags += strconv.Itoa(sp.group)
		}
		if flags != "" {
			parts[i] += "/" + flags
		}
	}
	return strings.Join(parts, ";")
}

func joinWaits(ws []int) string {
	if len(ws) == 0 {
		return "-"
	}
	s := make([]string, len(ws))
	for i, w := range ws {
		s[i] = strconv.Itoa(w)
	}
	return strings.Join(s, ",")
}

// tcase is the run-time state of one task case.
type tcase struct {
	mu         sync.Mutex
	specs      []taskSpec
	seq        int64
	enter      []int64 // per task: sequence number drawn inside the body after it started (0 = not yet)
	leave      []int64 // per task: sequence number drawn inside the body before it returns
	ended      []bool  // per task: Task.Wait returned (task.Close has run)
	bodyGate   []chan struct{}
	hookParked []chan struct{}
	free       bool // end of case: nothing parks any more
	hookFree   bool // the acquisition yield point never parks (deterministic controller)
	events     uint64
	occ        map[string]*int32
	exclBad    atomic.Value
}

var currentT atomic.Value // *tcase

func newTcase(specs []taskSpec) *tcase {
	tc := &tcase{specs: specs, enter: make([]int64, len(specs)), leave: make([]int64, len(specs)),
		ended: make([]bool, len(specs)), bodyGate: make([]chan struct{}, len(specs)), occ: map[string]*int32{}}
	for _, sp := range specs {
		for _, r := range sp.rows {
			if tc.occ[r.name] == nil {
				tc.occ[r.name] = new(int32)
			}
		}
	}
	return tc
}

// hook is the handler of verifhook.Yield("mutex.acquire") while a task case is current.
func (tc *tcase) hook() {
	tc.mu.Lock()
	tc.events++
	if tc.free || tc.hookFree {
		tc.mu.Unlock()
		return
	}
	ch := make(chan struct{})
	tc.hookParked = append(tc.hookParked, ch)
	tc.mu.Unlock()
	<-ch
}

func (tc *tcase) occEnter(rows []row) {
	for _, r := range rows {
		p := tc.occ[r.name]
		if r.write {
			if !atomic.CompareAndSwapInt32(p, 0, -1) {
				tc.exclBad.CompareAndSwap(nil, r.name)
			}
		} else if atomic.AddInt32(p, 1) <= 0 {
			tc.exclBad.CompareAndSwap(nil, r.name)
		}
	}
}

func (tc *tcase) occExit(rows []row) {
	for _, r := range rows {
		p := tc.occ[r.name]
		if r.write {
			atomic.CompareAndSwapInt32(p, -1, 0)
		} else {
			atomic.AddInt32(p, -1)
		}
	}
}

// probe is the callback of `probe:cs --t=<i>`: the body of task i.
func (tc *tcase) probe(a app.App, ctx app.IOContext) (err error) {
	var deps struct {
		T string `command:"?t"`
	}
	if err = ctx.Scope().InjectTo(&deps); err != nil {
		return err
	}
	t, cerr := strconv.Atoi(deps.T)
	if cerr != nil || t < 0 || t >= len(tc.specs) {
		return fmt.Errorf("probe:cs: bad task %q", deps.T)
	}
	rows := tc.specs[t].rows
	tc.mu.Lock()
	tc.seq++
	tc.enter[t] = tc.seq
	tc.events++
	var ch chan struct{}
	if !tc.free {
		ch = make(chan struct{})
		tc.bodyGate[t] = ch
	}
	tc.mu.Unlock()
	tc.occEnter(rows)
	if ch != nil {
		<-ch
	}
	tc.occExit(rows)
	tc.mu.Lock()
	tc.seq++
	tc.leave[t] = tc.seq
	tc.events++
	tc.mu.Unlock()
	if tc.specs[t].fails {
		return errBodyFails
	}
	return nil
}

var errBodyFails = errors.New("probe:cs: this body fails")

// groupHasOtherFailure: a task of t's scope group other than t has a failing body
func groupHasOtherFailure(specs []taskSpec, t int) bool {
	for i, sp := range specs {
		if i != t && sp.fails && sp.group == specs[t].group {
			return true
		}
	}
	return false
}

// mustNotRun: a task of t's wait list fails, or had to give up itself (transitively)
func mustNotRun(specs []taskSpec, t int) bool {
	for _, w := range specs[t].waits {
		if specs[w].fails || mustNotRun(specs, w) {
			return true
		}
	}
	return false
}

// ---------------------------------------------------------------------------------------------
// quiescence of the code under test

var blockedStatus = map[string]bool{
	"chan receive": true, "chan send": true, "select": true, "semacquire": true,
	"sync.Mutex.Lock": true, "sync.RWMutex.Lock": true, "sync.RWMutex.RLock": true,
	"sync.WaitGroup.Wait": true, "sync.Cond.Wait": true,
	"select (no cases)": true, "chan receive (nil chan)": true, "chan send (nil chan)": true,
}

var goatFrame = []byte("github.com/goatcms/goatcore/")

// quiescent takes one stop-the-world snapshot: every goroutine other than the caller that has a goatcore
// frame on its stack is blocked on a synchronisation object (the library has no timers and the cases use
// in-memory input, so nothing but an action of the controller can wake them).
func quiescent() bool {
	self := goid()
	var n int
	for {
		n = runtime.Stack(stackBuf, true)
		if n < len(stackBuf) {
			break
		}
		stackBuf = make([]byte, 2*len(stackBuf))
	}
	for _, blk := range bytes.Split(stackBuf[:n], []byte("\n\n")) {
		if !bytes.HasPrefix(blk, []byte("goroutine ")) || !bytes.Contains(blk, goatFrame) {
			continue
		}
		head := blk
		if i := bytes.IndexByte(blk, '\n'); i >= 0 {
			head = blk[:i]
		}
		rest := head[len("goroutine "):]
		sp := bytes.IndexByte(rest, ' ')
		if sp < 0 {
			return false
		}
		if id, err := strconv.ParseInt(string(rest[:sp]), 10, 64); err == nil && id == self {
			continue
		}
		st := strings.TrimPrefix(string(rest[sp+1:]), "[")
		if i := strings.IndexAny(st, ",]"); i >= 0 {
			st = st[:i]
		}
		if !blockedStatus[st] {
			return false
		}
	}
	return true
}

// settle waits (at most settleMax) until the code under test is quiescent and nothing was recorded
// between two looks; false if it gave up.
func (tc *tcase) settle() bool {
	deadline := time.Now().Add(settleMax)
	for spin := 0; ; spin++ {
		tc.mu.Lock()
		ev := tc.events
		tc.mu.Unlock()
		if quiescent() {
			tc.mu.Lock()
			same := tc.events == ev
			tc.mu.Unlock()
			if same {
				return true
			}
			continue
		}
		if time.Now().After(deadline) {
			return false
		}
		if spin < 20 {
			runtime.Gosched()
		} else {
			time.Sleep(50 * time.Microsecond)
		}
	}
}

// ---------------------------------------------------------------------------------------------
// the application

func newPipelineApp() (*goatapp.MockupApp, error) {
	mapp, err := goatapp.NewMockupApp(goatapp.Params{})
	if err != nil {
		return nil, err
	}
	bs := bootstrap.NewBootstrap(mapp)
	for _, m := range []app.Module{terminalm.NewModule(), commonm.NewModule(), ocm.NewModule(), pipelinem.NewModule()} {
		if err = bs.Register(m); err != nil {
			return nil, err
		}
	}
	if err = bs.Init(); err != nil {
		return nil, err
	}
	return mapp, nil
}

func taskName(i int) string { return "t" + strconv.Itoa(i) }

type openKind int

const (
	openSubmit openKind = iota
	openHook
	openBody
)

type choice struct {
	kind openKind
	idx  int
}

// opTasks runs one case; mode "adv" or "rnd".
func opTasks(specs []taskSpec, mode string, seed uint64) (res string, trace string) {
	tc := newTcase(specs)
	tc.hookFree = mode == "adv"
	current.Store((*caseRT)(nil))
	currentT.Store(tc)
	defer tc.releaseAll()

	mapp, err := newPipelineApp()
	if err != nil {
		return "harness-error " + err.Error(), tc.traceLine()
	}
	mapp.Terminal().SetCommand(terminal.NewCommand(terminal.CommandParams{Name: "probe:cs", Callback: tc.probe}))
	var deps struct {
		Runner    pipservices.Runner    `dependency:"PipRunner"`
		TasksUnit pipservices.TasksUnit `dependency:"PipTasksUnit"`
	}
	if err = mapp.DependencyProvider().InjectTo(&deps); err != nil {
		return "harness-error " + err.Error(), tc.traceLine()
	}
	roots := map[int]app.Scope{0: mapp.Scopes().App()}
	lastOfGroup := map[int]int{}
	for i, sp := range specs {
		if roots[sp.group] == nil {
			roots[sp.group] = scope.New(scope.Params{})
		}
		lastOfGroup[sp.group] = i
	}
	cwd := mapp.Filespaces().CWD()
	n := len(specs)
	actual := make([]string, len(specs)) // ptasks: the lock map pip:run built, read back from the task
	watch := func(i int, task pipservices.Task) {
		go func() {
			hx.Guard(func() { task.Wait() })
			tc.mu.Lock()
			tc.ended[i] = true
			tc.events++
			tc.mu.Unlock()
		}()
	}
	// submitCmd: the task is created by the real `pip:run` command, run the way a script line is run
	// (termexec.RunString: command scope, argument injection, pipc.Run, Runner.Run); the command returns only
	// when its task has ended, so it runs on a goroutine of its own and the harness waits (generously) until
	// the task exists in its manager.
	submitCmd := func(i int, wait []string) error {
		line := fmt.Sprintf(`pip:run --name=%s --silent=true --body="probe:cs --t=%d"`, taskName(i), i)
		if specs[i].rlist != "" {
			line += ` --rlock="` + specs[i].rlist + `"`
		}
		if specs[i].wlist != "" {
			line += ` --wlock="` + specs[i].wlist + `"`
		}
		if len(wait) > 0 {
			line += ` --wait="` + strings.Join(wait, ",") + `"`
		}
		root := roots[specs[i].group]
		tm, terr := deps.TasksUnit.FromScope(root)
		if terr != nil {
			return terr
		}
		errc := make(chan error, 1)
		name := taskName(i)
		if specs[i].parent != "" {
			// nested: the command line is the body of a parent task started through Runner.Run (which returns at
			// once: the parents of a case run concurrently); the parent holds nothing itself
			name = specs[i].parent + ":" + name
			var rerr error
			if p, v := hx.Guard(func() {
				rerr = deps.Runner.Run(pipservices.Pip{
					Context: pipservices.PipContext{
						In:    gio.NewInput(strings.NewReader(line)),
						Out:   gio.NewNilOutput(),
						Err:   gio.NewNilOutput(),
						CWD:   cwd,
						Scope: root,
					},
					Name:       specs[i].parent,
					Namespaces: namespaces.NewNamespaces(pipservices.NamasepacesParams{Lock: specs[i].lockNS}),
					Sandbox:    "self",
					Lock:       lockMapOf(nil),
				})
			}); p {
				rerr = fmt.Errorf("panic: %v", v)
			}
			if rerr != nil {
				return rerr
			}
			ptask, ok := tm.Get(specs[i].parent)
			if !ok {
				return fmt.Errorf("accepted parent task %s is not in its manager", specs[i].parent)
			}
			go func() { // the parent ends only after its nested task: reported like a returned command
				hx.Guard(func() { ptask.Wait() })
				errc <- nil
			}()
		} else {
			rctx := termexec.NewRunCtx(termexec.RunCtxParams{
				Application: mapp,
				Ctx:         gio.NewIOContext(root, mapp.IOContext().IO()),
				Commands:    mapp.Terminal(),
			})
			go func() {
				var e error
				if p, v := hx.Guard(func() { e = termexec.RunString(rctx, line) }); p {
					e = fmt.Errorf("panic: %v", v)
				}
				errc <- e
			}()
		}
		deadline := time.Now().Add(watchdog)
		for spin := 0; ; spin++ {
			if task, ok := tm.Get(name); ok {
				actual[i] = lockMapText(task.LockMap())
				tc.mu.Lock()
				tc.events++
				tc.mu.Unlock()
				watch(i, task)
				return nil
			}
			select {
			case e := <-errc:
				if task, ok := tm.Get(name); ok { // created and already over
					actual[i] = lockMapText(task.LockMap())
					watch(i, task)
					return nil
				}
				if e == nil {
					e = fmt.Errorf("pip:run returned without creating task %s", name)
				}
				return e
			default:
			}
			if time.Now().After(deadline) {
				return fmt.Errorf("pip:run did not create task %s", name)
			}
			if spin < 50 {
				runtime.Gosched()
			} else {
				time.Sleep(50 * time.Microsecond)
			}
		}
	}
	submit := func(i int) error {
		wait := make([]string, len(specs[i].waits))
		for k, w := range specs[i].waits {
			wait[k] = taskName(w)
		}
		body := "probe:cs --t=" + strconv.Itoa(i)
		if specs[i].nested {
			// what a body starts belongs to the body: the nested task (empty lock map of its own) runs under
			// the lock map of task i, which is released only after the scope of the body has drained
			body = "pip:run --name=c --silent=true --body=<<EOFX\n" + body + "\nEOFX"
		}
		if specs[i].cmd {
			return submitCmd(i, wait)
		}
		var rerr error
		if p, v := hx.Guard(func() {
			rerr = deps.Runner.Run(pipservices.Pip{
				Context: pipservices.PipContext{
					In:    gio.NewInput(strings.NewReader(body)),
					Out:   gio.NewNilOutput(),
					Err:   gio.NewNilOutput(),
					CWD:   cwd,
					Scope: roots[specs[i].group],
				},
				Name:       taskName(i),
				Namespaces: namespaces.NewNamespaces(pipservices.NamasepacesParams{}),
				Sandbox:    "self",
				Lock:       lockMapOf(specs[i].rows),
				Wait:       wait,
			})
		}); p {
			rerr = fmt.Errorf("panic: %v", v)
		}
		tc.mu.Lock()
		tc.events++
		tc.mu.Unlock()
		if rerr != nil {
			return rerr
		}
		// watch the completion latch of the task
		tm, terr := deps.TasksUnit.FromScope(roots[specs[i].group])
		if terr != nil {
			return terr
		}
		task, ok := tm.Get(taskName(i))
		if !ok {
			return fmt.Errorf("accepted task %s is not in its manager", taskName(i))
		}
		go func() {
			hx.Guard(func() { task.Wait() })
			tc.mu.Lock()
			tc.ended[i] = true
			tc.events++
			tc.mu.Unlock()
		}()
		return nil
	}

	wd := watchdog
	if atomic.LoadInt32(&taskHangs) > 0 {
		wd = shortWatchdog
	}
	rnd := hx.NewRand(seed)
	next := 0
	var lastEv uint64
	lastProgress := time.Now()
	hung := false
	for {
		// adv: always look at a quiescent system; rnd: mostly
		if mode == "adv" || rnd.Intn(4) != 0 {
			tc.settle()
		}
		tc.mu.Lock()
		var cs []choice
		if next < n {
			cs = append(cs, choice{openSubmit, next})
		}
		for k := range tc.hookParked {
			cs = append(cs, choice{openHook, k})
		}
		for t, ch := range tc.bodyGate {
			// a failing body is let go only when its whole scope group has been submitted (afterwards the
			// group's root scope refuses new tasks)
			if ch != nil && !(specs[t].fails && lastOfGroup[specs[t].group] >= next) {
				cs = append(cs, choice{openBody, t})
			}
		}
		left := 0
		for _, e := range tc.ended {
			if e {
				left++
			}
		}
		ev := tc.events
		tc.mu.Unlock()
		if ev != lastEv {
			lastEv = ev
			lastProgress = time.Now()
		}
		if len(cs) == 0 {
			if left == n {
				break
			}
			if time.Since(lastProgress) > wd {
				hung = true
				break
			}
			time.Sleep(2 * time.Millisecond)
			continue
		}
		var c choice
		if mode == "adv" {
			c = cs[0] // submit everything in order first, then open the body gates in task order
		} else if cs[0].kind == openSubmit && rnd.Intn(2) == 0 {
			c = cs[0]
		} else {
			c = cs[rnd.Intn(len(cs))]
		}
		switch c.kind {
		case openSubmit:
			if err = submit(c.idx); err != nil {
				return fmt.Sprintf("rej:%d", c.idx), tc.traceLine()
			}
			next++
		case openHook:
			tc.mu.Lock()
			ch := tc.hookParked[c.idx]
			tc.hookParked = append(tc.hookParked[:c.idx], tc.hookParked[c.idx+1:]...)
			tc.events++
			tc.mu.Unlock()
			close(ch)
		case openBody:
			tc.mu.Lock()
			ch := tc.bodyGate[c.idx]
			tc.bodyGate[c.idx] = nil
			tc.events++
			tc.mu.Unlock()
			close(ch)
		}
		lastProgress = time.Now()
	}
	res = "fin"
	if hung {
		atomic.AddInt32(&taskHangs, 1)
		tc.mu.Lock()
		var un []string
		for t, e := range tc.ended {
			if !e {
				un = append(un, strconv.Itoa(t))
			}
		}
		tc.mu.Unlock()
		res = "hang unfinished=" + strings.Join(un, ",")
	} else {
		// every task has ended: the Wait of every group's manager must return
		waited := make(chan struct{})
		go func() {
			for _, root := range roots {
				if tm, terr := deps.TasksUnit.FromScope(root); terr == nil {
					hx.Guard(func() { tm.Wait() })
				}
			}
			close(waited)
		}()
		timer := time.NewTimer(wd)
		select {
		case <-waited:
		case <-timer.C:
			atomic.AddInt32(&taskHangs, 1)
			res = "hang mwait"
		}
		timer.Stop()
		// who had to run its body, who must not have
		tc.mu.Lock()
		var skipped, ran []string
		for t := range specs {
			if mustNotRun(specs, t) {
				if tc.enter[t] != 0 {
					ran = append(ran, strconv.Itoa(t))
				}
			} else if !groupHasOtherFailure(specs, t) && tc.leave[t] == 0 {
				skipped = append(skipped, strconv.Itoa(t))
			}
		}
		tc.mu.Unlock()
		if len(skipped) > 0 {
			res += " no-body=" + strings.Join(skipped, ",")
		}
		if len(ran) > 0 {
			res += " ran-after-failed=" + strings.Join(ran, ",")
		}
	}
	if v := tc.exclBad.Load(); v != nil {
		res += " excl:" + v.(string)
	}
	if len(specs) > 0 && specs[0].cmd {
		res += " lm=" + strings.Join(actual, ";")
	}
	return res, tc.traceLine()
}

// releaseAll ends the case: whatever is parked, or parks later, passes at once.
func (tc *tcase) releaseAll() {
	tc.mu.Lock()
	tc.free = true
	for _, ch := range tc.hookParked {
		close(ch)
	}
	tc.hookParked = nil
	for t, ch := range tc.bodyGate {
		if ch != nil {
			close(ch)
			tc.bodyGate[t] = nil
		}
	}
	tc.mu.Unlock()
}

// traceLine renders the recorded bodies: `tivs <waits>[f];… | <task>:<enter>:<exit>:<rows> …` (`f` after the
// wait list of a task whose body fails); a body that
// was entered and never left still holds its rows: its exit is past every recorded number.
func (tc *tcase) traceLine() string {
	tc.mu.Lock()
	defer tc.mu.Unlock()
	ws := make([]string, len(tc.specs))
	for i, sp := range tc.specs {
		ws[i] = joinWaits(sp.waits)
		if sp.fails {
			ws[i] += "f"
		}
	}
	var b strings.Builder
	b.WriteString("tivs " + strings.Join(ws, ";") + " |")
	type iv struct {
		t           int
		enter, exit int64
	}
	var ivs []iv
	for t := range tc.specs {
		if tc.enter[t] == 0 {
			continue
		}
		e := tc.leave[t]
		if e == 0 {
			e = tc.seq + 1
		}
		ivs = append(ivs, iv{t, tc.enter[t], e})
	}
	sort.Slice(ivs, func(i, j int) bool { return ivs[i].enter < ivs[j].enter })
	if len(ivs) == 0 {
		b.WriteString(" -") // no body was entered
	}
	for _, x := range ivs {
		fmt.Fprintf(&b, " %d:%d:%d:%s", x.t, x.enter, x.exit, rowsText(tc.specs[x.t].rows))
	}
	return b.String()
}

// ---------------------------------------------------------------------------------------------
// generators

// advFamily: task D waits for B, D and B share a resource with a writer, and B cannot take it yet because
// a third task A holds a lexicographically smaller resource of B's map — plus variations (who writes,
// chains of waits, several blockers, bystanders); from 11 on: failing bodies (a failing holder of a
// resource somebody else needs afterwards, a failing prerequisite whose dependant must give up without a
// lock).  Deterministic: index k selects the variation.
func advFamily(k int) []taskSpec {
	w := func(name string) row { return row{name, true} }
	r := func(name string) row { return row{name, false} }
	t := func(waits []int, rows ...row) taskSpec { return taskSpec{waits: waits, rows: rows} }
	n := func(waits []int, rows ...row) taskSpec { return taskSpec{waits: waits, rows: rows, nested: true} }
	f := func(sp taskSpec) taskSpec { sp.fails = true; return sp }
	g := func(grp int, sp taskSpec) taskSpec { sp.group = grp; return sp }
	switch k % advVariants {
	case 0: // the basic triangle
		return []taskSpec{t(nil, w("a")), t(nil, w("m"), w("a")), t([]int{1}, w("m"))}
	case 1: // D only reads the shared resource, B writes it
		return []taskSpec{t(nil, w("a")), t(nil, w("a"), w("m")), t([]int{1}, r("m"))}
	case 2: // B only reads the shared resource, D writes it
		return []taskSpec{t(nil, w("a")), t(nil, r("m"), w("a")), t([]int{1}, w("m"), w("z"))}
	case 3: // chain: D waits for C, C waits for B; D and B share
		return []taskSpec{t(nil, w("a")), t(nil, w("a"), w("m")), t([]int{1}), t([]int{2}, w("m"))}
	case 4: // two blockers in a row (A on a, A2 on b), B needs a, b, m
		return []taskSpec{t(nil, w("a")), t(nil, w("b")), t(nil, w("m"), w("b"), w("a")), t([]int{2}, w("m"))}
	case 5: // A is a reader of a, B writes a; a bystander reads m's neighbour
		return []taskSpec{t(nil, r("a")), t(nil, w("a"), w("m")), t(nil, r("n")), t([]int{1, 2}, w("m"), r("n"))}
	case 6: // two dependants of B, each sharing another resource with it
		return []taskSpec{t(nil, w("a")), t(nil, w("a"), w("m"), w("n")), t([]int{1}, w("m")), t([]int{1}, w("n"))}
	case 7: // D waits for A and B
		return []taskSpec{t(nil, w("a")), t(nil, w("a"), w("m")), t([]int{0, 1}, w("m"), w("a"))}
	case 8: // what a body starts runs under the body's lock map: nested bodies of two writers of m
		return []taskSpec{n(nil, w("m")), n(nil, w("m"))}
	case 9: // nested writer against plain reader and a nested dependant
		return []taskSpec{n(nil, w("m"), r("a")), t(nil, r("m")), n([]int{0}, w("m"))}
	case 10: // the triangle with nested bodies
		return []taskSpec{n(nil, w("a")), n(nil, w("m"), w("a")), n([]int{1}, w("m"))}
	// --- failing bodies: a task that failed has ended and released everything; its dependants give up
	// without a lock; everyone else (the tasks of the other scope groups) gets its turn
	case 11: // a failing writer of m, then a writer of m
		return []taskSpec{g(1, f(t(nil, w("m")))), t(nil, w("m"))}
	case 12: // a failing writer, then a reader
		return []taskSpec{g(1, f(t(nil, w("m")))), t(nil, r("m"))}
	case 13: // a failing reader, then a writer
		return []taskSpec{g(1, f(t(nil, r("m")))), t(nil, w("m"))}
	case 14: // a failing prerequisite: its dependant gives up and must take no lock; others need what both name
		return []taskSpec{g(1, f(t(nil, w("a")))), g(1, t([]int{0}, w("m"))), t(nil, w("m")), t(nil, w("a"))}
	case 15: // the failure happens in a nested task started by the body
		return []taskSpec{g(1, f(n(nil, w("m")))), t(nil, w("m"))}
	case 16: // a failing holder of two resources, followers need one each / both
		return []taskSpec{g(1, f(t(nil, w("m"), w("a")))), t(nil, w("a")), t(nil, w("m"), w("a"))}
	case 17: // the failure hits group 0 (with a sibling), the other group needs the resources of both
		return []taskSpec{f(t(nil, w("m"))), t(nil, w("a")), g(1, t(nil, w("m"))), g(1, t(nil, w("a")))}
	case 18: // chain: a good prerequisite, a failing middle task, a dependant that gives up
		return []taskSpec{g(1, t(nil, w("a"))), g(1, f(t([]int{0}, w("m")))), g(1, t([]int{1}, w("z"))),
			t(nil, w("z"), w("m"))}
	default: // two failing readers in two groups, then a writer
		return []taskSpec{g(1, f(t(nil, r("m")))), g(2, f(t(nil, r("m")))), t(nil, w("m"))}
	}
}

const advVariants = 20

func genTasksAdv(k int) string {
	return "tasks " + taskSpecsText(advFamily(k)) + " | adv"
}

// genTasksRnd: 2–7 tasks over a pool of 1–4 names; in half of the cases the tasks are spread over 2–3 scope
// groups and any subset of them (each with probability 1/4) has a failing body; wait lists over earlier tasks
// of the same group; with probability 1/2 a
// task that waits shares a resource (at least one side writing) with one of its prerequisites; tasks
// without waits often hold a small name so that acquisition orders vary.
func genTasksRnd(r *hx.Rand) string {
	n := 2 + r.Intn(6)
	np := 1 + r.Intn(4)
	names := pool[:np]
	writePct := []int{30, 60, 60, 100}[r.Intn(4)]
	specs := make([]taskSpec, n)
	// half of the cases: 2-3 scope groups and failing bodies (any subset, each task with probability 1/4)
	groups, failPct := 1, 0
	if r.Intn(2) == 0 {
		groups, failPct = 2+r.Intn(2), 25
	}
	for i := range specs {
		specs[i].group = r.Intn(groups)
		specs[i].fails = r.Intn(100) < failPct
		var same []int // earlier tasks of the same group: a task manager belongs to one root scope
		for j := 0; j < i; j++ {
			if specs[j].group == specs[i].group {
				same = append(same, j)
			}
		}
		if len(same) > 0 && r.Intn(5) < 2 {
			k := 1 + r.Intn(2)
			seen := map[int]bool{}
			for j := 0; j < k; j++ {
				w := same[r.Intn(len(same))]
				if !seen[w] {
					seen[w] = true
					specs[i].waits = append(specs[i].waits, w)
				}
			}
		}
		specs[i].rows = genMap(r, names, np, writePct)
		specs[i].nested = r.Intn(6) == 0
		if len(specs[i].waits) > 0 && r.Intn(2) == 0 {
			// share a resource with a prerequisite
			p := specs[specs[i].waits[r.Intn(len(specs[i].waits))]]
			if len(p.rows) > 0 {
				sh := p.rows[r.Intn(len(p.rows))]
				found := false
				for k := range specs[i].rows {
					if specs[i].rows[k].name == sh.name {
						specs[i].rows[k].write = specs[i].rows[k].write || !sh.write
						found = true
					}
				}
				if !found {
					specs[i].rows = append(specs[i].rows, row{sh.name, !sh.write || r.Intn(2) == 0})
				}
			}
		}
	}
	mode := fmt.Sprintf("rnd %d", r.U64()%1000000)
	if r.Intn(6) == 0 {
		mode = "adv"
	}
	return "tasks " + taskSpecsText(specs) + " | " + mode
}

// ptasksFamily: task sets submitted through `pip:run` in which a resource is named in BOTH lists of a task
// (either list order inside the command is fixed by the command line; here: which list names it first, which
// neighbours surround it) while another task holds it.  Under the deterministic controller task 0 is inside its
// body when task 1 is submitted, so a "writer" that only got read access is caught inside with it.
var ptasksFamily = []string{
	"-/r/-;-/o,r/r",             // a reader of r inside; then rlock="o,r" wlock="r"
	"-/r/r;-/r/-",               // rlock="r" wlock="r" inside; then a reader
	"-/r,o/r;-/a,r/r,b",         // two tasks that both name r in both lists
	"-/a,r,z/b,r;-/a,r/-;-/z/-", // names around it; the others read a and r / z
	"-/r/a,r,z;-/r/-;-/-/z",     // r last in rlock, in the middle of wlock
	"-/r,r/r;-/r/-",             // named twice in rlock
	"-/a/-;-/r/-;0/a,r/r;-/r/-", // with a wait list: task 2 waits for task 0, task 1 reads r meanwhile
	"-/a,b/-;-/b,a/a;-/b,a/b",   // both lists share two names, each task writes one of them
	"-/-/r;-/r/r;-/r/-",         // plain writer, both-lists writer, reader
	"-/r/-;-/r/-;-/r,o/o;-/o/o", // control: o in both lists, r only read: the readers share
	// nested submissions: the pip:run lines are the bodies of parent tasks that run concurrently; the nested tasks
	// are `first:t0`, `second:t1` - different TASK namespaces - and their resources are named in the LOCK
	// namespace, which both inherit unchanged
	"-/-/res/first;-/-/res/second",                // two nested writers of res
	"-/res/-/first;-/-/res/second",                // nested reader, nested writer
	"-/-/res/first;-/res/-",                       // nested writer, top-level reader
	"-/-/res;-/o,res/res/second",                  // top-level writer, nested writer naming res in both lists
	"-/-/res/first~ns;-/-/res/second~ns",          // both parents in lock namespace `ns`: both lock `nsres`
	"-/-/res/first~ns;-/-/nsres/second;-/nsres/-", // plain concatenation: `ns`+`res` is the top-level name `nsres`
	"-/-/@g/first~ns;-/@g/-/second;-/-/@g",        // a global name is the same resource in every namespace
	"-/-/res/first~a;-/-/res/second~b;-/-/res",    // control: three different lock namespaces share nothing
	"-/-/b,a/first~x:;-/a/b/second~x:;-/a/-",      // namespace with a separator; the top-level `a` is another resource
}

func genPTasksAdv(k int) string {
	return "ptasks " + ptasksFamily[k%len(ptasksFamily)] + " | adv"
}

// genPTasksRnd: 2-6 tasks over 1-3 names; every name a task writes is in its wlock list and, with probability
// 1/2, in its rlock list as well (before, between or after the names it only reads); 1/3 of the tasks wait for an
// earlier one; under the deterministic or the random controller.
func genPTasksRnd(r *hx.Rand) string {
	n := 2 + r.Intn(5)
	np := 1 + r.Intn(3)
	names := pool[:np]
	writePct := []int{30, 50, 70}[r.Intn(3)]
	specs := make([]taskSpec, n)
	shuffle := func(l []string) string {
		for j := len(l) - 1; j > 0; j-- {
			x := r.Intn(j + 1)
			l[j], l[x] = l[x], l[j]
		}
		return strings.Join(l, ",")
	}
	// half of the sets: nested submissions (each under a parent of its own) in one of two lock namespaces, and a
	// global name in the pool
	nestPct, nss := 0, []string{""}
	if r.Intn(2) == 0 {
		nestPct = []int{40, 70, 100}[r.Intn(3)]
		nss = [][]string{{""}, {"", "ns"}, {"ns", "ns"}, {"", "a"}, {"x:", "x:"}}[r.Intn(5)]
		names = append(append([]string(nil), names...), "@g")
		if nss[len(nss)-1] == "a" {
			names = append(names, "ab", "b") // `a`+`b` = `ab`
		}
	}
	for i := range specs {
		specs[i].cmd = true
		if r.Intn(100) < nestPct {
			specs[i].parent = fmt.Sprintf("q%d", i)
			specs[i].lockNS = nss[r.Intn(len(nss))]
		} else if i > 0 && r.Intn(3) == 0 {
			if w := r.Intn(i); specs[w].parent == "" {
				specs[i].waits = []int{w}
			}
		}
		var rl, wl []string
		for _, row := range genMap(r, names, len(names), writePct) {
			if row.write {
				wl = append(wl, row.name)
				if r.Intn(2) == 0 {
					rl = append(rl, row.name)
				}
			} else {
				rl = append(rl, row.name)
			}
		}
		if r.Intn(3) == 0 { // a private name in one of the lists
			if r.Intn(2) == 0 {
				rl = append(rl, fmt.Sprintf("p%d", i))
			} else {
				wl = append(wl, fmt.Sprintf("p%d", i))
			}
		}
		specs[i].rlist, specs[i].wlist = shuffle(rl), shuffle(wl)
	}
	mode := fmt.Sprintf("rnd %d", r.U64()%1000000)
	if r.Intn(3) == 0 {
		mode = "adv"
	}
	return "ptasks " + ptaskSpecsText(specs) + " | " + mode
}

// ptasksExpected: what a `ptasks` op must answer: every task ended with its body run, and the lock map each
// task was created with is the one its two lists stand for (specRows)
func ptasksExpected(op string) string {
	specs, err := parsePTaskSpecs(strings.Fields(op)[1])
	if err != nil {
		return "bad-op"
	}
	maps := make([]string, len(specs))
	for i, sp := range specs {
		rows := append([]row(nil), sp.rows...)
		sort.Slice(rows, func(a, b int) bool { return rows[a].name < rows[b].name })
		maps[i] = rowsText(rows)
	}
	return "fin lm=" + strings.Join(maps, ";")
}

// tasksOracle: the adversarial family first (every variation), then n random cases; prints FAIL lines and
// a summary like `oracle`.
func tasksOracle(n int) {
	installHook()
	r := hx.NewRand(hx.SeedFromEnv()*15485863 + 32452843)
	out := bufio.NewWriter(os.Stdout)
	defer out.Flush()
	fails, cases, adv, ptasks, both := 0, 0, 0, 0, 0
	run := func(op string) bool {
		res, _ := runOp(op)
		cases++
		if strings.HasSuffix(op, "| adv") {
			adv++
		}
		want := "fin"
		if strings.HasPrefix(op, "ptasks ") {
			ptasks++
			want = ptasksExpected(op)
			if sp, err := parsePTaskSpecs(strings.Fields(op)[1]); err == nil && namedInBoth(sp) {
				both++
			}
		}
		if res != want {
			fails++
			fmt.Fprintf(out, "FAIL %s => %s\n", op, res)
			out.Flush()
		}
		return fails < maxHangs
	}
	ok := true
	for k := 0; ok && k < advVariants; k++ {
		ok = run(genTasksAdv(k))
	}
	for k := 0; ok && k < len(ptasksFamily); k++ {
		ok = run(genPTasksAdv(k))
	}
	for i := 0; ok && i < n; i++ {
		if i%4 == 3 {
			ok = run(genPTasksRnd(r))
		} else {
			ok = run(genTasksRnd(r))
		}
	}
	fmt.Fprintf(out, "oracle cases=%d fails=%d tasks=%d tasks_adv=%d ptasks=%d ptasks_name_in_both_lists=%d\n", cases, fails, cases-ptasks, adv, ptasks, both)
}
