package main

// Canonical printing of Go function bodies (go/ast only, no type information) — the normal forms of the
// pipeline family's structural tie.  The printer is the one of harness/cmd/fsfacts (same line grammar) with
// this family's noise list, a FILTER mode that keeps the control structure, and literal projections.
//
// A function body is flattened, in source order, to a list of short lines.  Edits that cannot change what the
// function does leave the form unchanged:
//
//   * identifiers declared by the function are replaced per DECLARATION (as resolved by the parser's scope
//     analysis, not per name): receiver -> recv, parameters -> p1, p2, ... (by position), variables of type
//     `error` (named results first, then `var x error` declarations, in source order) -> err, err2, err3 ...,
//     other named results -> r1, r2 ..., parameters of a function literal -> a1, a2 ... (b1 ... one level
//     deeper), every other local (:=, var, range, local types) -> v1, v2 ... numbered in the order in which
//     they first appear in the EMITTED lines; package-level names, field names and the universe (nil, len,
//     delete, ...) are printed as they are;
//   * comments never reach the AST; `:=` and `=` are both printed `=`; `var x T` without a value is dropped;
//   * NOISE statements are dropped: verifhook.Yield(...) (add-only instrumentation), calls of a method named
//     SetStatus (status texts), Printf / Println / Print expression statements (progress output), empty
//     statements, local type and constant declarations; an `if` (or loop) all of whose branches contain only
//     dropped statements and whose header calls nothing is dropped with them;
//   * message texts are dropped: goaterr.Errorf(...), fmt.Errorf(...), errors.New(...), goaterr.NewError(...)
//     are all printed `error`; fmt.Sprintf(...) / fmt.Sprint(...) are printed `fmt.Sprintf(…)`;
//   * the fields of a keyed composite literal and the operands of a chain a | b | c are printed in
//     alphabetical order; a fact may PROJECT the literals of a named type onto the fields it is about
//     (e.g. pipservices.Pip onto Name / Wait / Lock): the other fields are not printed.
//
// Control flow is kept: `if h` ... [`else` ...] `end`, `for h` ... `end`, `range k, v = x` ... `end`,
// `switch`/`select`/`case`/`end`; an `if` without else whose body is one return statement is printed on one
// line, `if h => return ...`.  The body of a function literal follows the line of the statement it occurs in,
// between `func [key](params)` and `end func`.
//
// FILTER mode (a fact about a long function, e.g. TaskManager.Create or pipc.Try): a simple statement is printed
// only when it mentions one of the fact's NAMES OF INTEREST (a selected field / method name, a called function,
// the key of a keyed literal); a compound statement is printed — with its whole header — when its header
// mentions one or when something inside it is printed; return / break / continue statements are printed inside
// a compound statement that is printed for another reason, and at the top level of the body.  Statements
// about other things (argument parsing, output plumbing) can be added, removed and reordered freely.
//
// What is deliberately NOT normalised: the order of two emitted statements, and equivalent control-flow shapes
// (`if c { return a }; return b` against `if c { return a } else { return b }`).  Such an edit moves the
// skeleton: the tie theorem fails by name and the check reports `no-failing-input-found` unless its search
// finds a failing input.

import (
	"go/ast"
	"go/token"
	"sort"
	"strconv"
	"strings"
)

// Identifiers are resolved by the parser's scope analysis (ast.Ident.Obj): two variables of the same name
// in different scopes are different objects, a renamed variable is the same object.
type env struct {
	fd    *ast.FuncDecl
	fixed map[*ast.Object]string // receiver, parameters, named results, variables declared `error`, parameters of literals
	vnum  map[*ast.Object]string
	next  int
}

func isErrorType(t ast.Expr) bool {
	id, ok := t.(*ast.Ident)
	return ok && id.Name == "error"
}

func newEnv(fd *ast.FuncDecl) *env {
	e := &env{fd: fd, fixed: map[*ast.Object]string{}, vnum: map[*ast.Object]string{}}
	fix := func(id *ast.Ident, c string) {
		if id != nil && id.Name != "_" && id.Obj != nil {
			if _, done := e.fixed[id.Obj]; !done {
				e.fixed[id.Obj] = c
			}
		}
	}
	nerr := 0
	errName := func() string {
		nerr++
		if nerr == 1 {
			return "err"
		}
		return "err" + strconv.Itoa(nerr)
	}
	if fd.Recv != nil {
		for _, f := range fd.Recv.List {
			for _, n := range f.Names {
				fix(n, "recv")
			}
		}
	}
	i := 0
	for _, f := range fd.Type.Params.List {
		if len(f.Names) == 0 {
			i++
		}
		for _, n := range f.Names {
			i++
			fix(n, "p"+strconv.Itoa(i))
		}
	}
	if fd.Type.Results != nil {
		i = 0
		for _, f := range fd.Type.Results.List {
			if len(f.Names) == 0 {
				i++
			}
			for _, n := range f.Names {
				i++
				if isErrorType(f.Type) {
					if n.Name != "_" {
						fix(n, errName())
					}
				} else {
					fix(n, "r"+strconv.Itoa(i))
				}
			}
		}
	}
	if fd.Body == nil {
		return e
	}
	depth := 0
	var visit func(n ast.Node) bool
	visit = func(n ast.Node) bool {
		switch x := n.(type) {
		case *ast.ValueSpec:
			if x.Type != nil && isErrorType(x.Type) {
				for _, id := range x.Names {
					if id.Name != "_" && id.Obj != nil {
						fix(id, errName())
					}
				}
			}
		case *ast.FuncLit:
			// parameters of a function literal: a1 a2 ... by position (b1 ... one level deeper)
			depth++
			pre := string(rune('a' + (depth-1)%26))
			k := 0
			for _, f := range x.Type.Params.List {
				if len(f.Names) == 0 {
					k++
				}
				for _, id := range f.Names {
					k++
					fix(id, pre+strconv.Itoa(k))
				}
			}
			if x.Type.Results != nil {
				for _, f := range x.Type.Results.List {
					for _, id := range f.Names {
						if isErrorType(f.Type) && id.Name != "_" && id.Obj != nil {
							fix(id, errName())
						}
					}
				}
			}
			ast.Inspect(x.Body, visit)
			depth--
			return false
		}
		return true
	}
	ast.Inspect(fd.Body, visit)
	return e
}

func (e *env) ident(id *ast.Ident) string {
	o := id.Obj
	if o == nil || id.Name == "_" {
		return id.Name
	}
	if c, ok := e.fixed[o]; ok {
		return c
	}
	if (o.Kind == ast.Var || o.Kind == ast.Typ || o.Kind == ast.Con) && o.Pos() >= e.fd.Pos() && o.Pos() < e.fd.End() {
		if c, ok := e.vnum[o]; ok {
			return c
		}
		e.next++
		c := "v" + strconv.Itoa(e.next)
		e.vnum[o] = c
		return c
	}
	return id.Name
}

// is the object a local of the function that the printer numbers (v1, v2 ...)?
func (e *env) isLocal(o *ast.Object) bool {
	if o == nil {
		return false
	}
	if _, ok := e.fixed[o]; ok {
		return false
	}
	return o.Kind == ast.Var && o.Pos() >= e.fd.Pos() && o.Pos() < e.fd.End()
}

type printer struct {
	e               *env
	out             []string
	lits            []pendingLit                 // function literals met while printing the current statement
	want            func(ast.Node) bool          // nil = whole body; else FILTER mode: the names of interest
	fields          func(typ, field string) bool // nil = every field; else the projection of keyed literals
	verbatimFormats bool                         // print fmt.Sprintf calls with their arguments
	subst           int                          // number of substantive lines emitted so far (filter mode)
	order           []*ast.Object                // locals in the order in which they were numbered
}

type pendingLit struct {
	key string
	lit *ast.FuncLit
}

func isErrorCtor(fun string) bool {
	switch fun {
	case "goaterr.Errorf", "fmt.Errorf", "errors.New", "goaterr.NewError":
		return true
	}
	return false
}

func (p *printer) exprs(xs []ast.Expr) string {
	s := make([]string, len(xs))
	for i, x := range xs {
		s[i] = p.expr(x)
	}
	return strings.Join(s, ", ")
}

func (p *printer) ident(id *ast.Ident) string {
	before := p.e.next
	c := p.e.ident(id)
	if p.e.next != before {
		p.order = append(p.order, id.Obj)
	}
	return c
}

func (p *printer) expr(x ast.Expr) string {
	switch v := x.(type) {
	case nil:
		return ""
	case *ast.Ident:
		return p.ident(v)
	case *ast.BasicLit:
		return v.Value
	case *ast.SelectorExpr:
		return p.expr(v.X) + "." + v.Sel.Name
	case *ast.CallExpr:
		fun := p.expr(v.Fun)
		if isErrorCtor(fun) {
			return "error"
		}
		if (fun == "fmt.Sprintf" || fun == "fmt.Sprint") && !p.verbatimFormats {
			return "fmt.Sprintf(…)"
		}
		args := make([]string, len(v.Args))
		for i, a := range v.Args {
			args[i] = p.expr(a)
		}
		s := fun + "(" + strings.Join(args, ", ")
		if v.Ellipsis.IsValid() {
			s += "..."
		}
		return s + ")"
	case *ast.BinaryExpr:
		if v.Op == token.OR {
			var ops []string
			var flat func(x ast.Expr)
			flat = func(x ast.Expr) {
				if b, ok := x.(*ast.BinaryExpr); ok && b.Op == token.OR {
					flat(b.X)
					flat(b.Y)
				} else {
					ops = append(ops, p.expr(x))
				}
			}
			flat(v)
			sort.Strings(ops)
			return strings.Join(ops, " | ")
		}
		return p.expr(v.X) + " " + v.Op.String() + " " + p.expr(v.Y)
	case *ast.UnaryExpr:
		return v.Op.String() + p.expr(v.X)
	case *ast.StarExpr:
		return "*" + p.expr(v.X)
	case *ast.ParenExpr:
		return "(" + p.expr(v.X) + ")"
	case *ast.IndexExpr:
		return p.expr(v.X) + "[" + p.expr(v.Index) + "]"
	case *ast.SliceExpr:
		s := p.expr(v.X) + "[" + p.expr(v.Low) + ":" + p.expr(v.High)
		if v.Slice3 {
			s += ":" + p.expr(v.Max)
		}
		return s + "]"
	case *ast.TypeAssertExpr:
		if v.Type == nil {
			return p.expr(v.X) + ".(type)"
		}
		return p.expr(v.X) + ".(" + p.expr(v.Type) + ")"
	case *ast.CompositeLit:
		typ := p.expr(v.Type)
		var elts []string
		keyed := len(v.Elts) > 0
		for _, el := range v.Elts {
			if kv, ok := el.(*ast.KeyValueExpr); ok {
				k := ""
				if id, ok := kv.Key.(*ast.Ident); ok {
					k = id.Name // a field name (or a constant key): never renamed
					if p.fields != nil && !p.fields(typ, k) {
						continue
					}
				} else {
					k = p.expr(kv.Key)
					keyed = false
				}
				if fl, ok := kv.Value.(*ast.FuncLit); ok {
					p.lits = append(p.lits, pendingLit{k, fl})
					elts = append(elts, k+": func")
				} else {
					elts = append(elts, k+": "+p.expr(kv.Value))
				}
			} else {
				keyed = false
				elts = append(elts, p.expr(el))
			}
		}
		if keyed {
			sort.Strings(elts)
		}
		return typ + "{" + strings.Join(elts, ", ") + "}"
	case *ast.KeyValueExpr:
		return p.expr(v.Key) + ": " + p.expr(v.Value)
	case *ast.ArrayType:
		return "[" + p.expr(v.Len) + "]" + p.expr(v.Elt)
	case *ast.MapType:
		return "map[" + p.expr(v.Key) + "]" + p.expr(v.Value)
	case *ast.InterfaceType:
		return "interface{}"
	case *ast.StructType:
		return "struct{}"
	case *ast.FuncType:
		return "func()"
	case *ast.ChanType:
		return "chan " + p.expr(v.Value)
	case *ast.Ellipsis:
		return "..." + p.expr(v.Elt)
	case *ast.FuncLit:
		p.lits = append(p.lits, pendingLit{"", v})
		return "func"
	}
	return "?"
}

// simple statement as one string (assignments, expressions, ++/--, declarations with values, sends)
func (p *printer) simple(s ast.Stmt) string {
	switch v := s.(type) {
	case nil:
		return ""
	case *ast.AssignStmt:
		op := v.Tok.String()
		if v.Tok == token.DEFINE {
			op = "="
		}
		// right-hand sides first: Go evaluates them first, and the numbering of a local that is
		// defined here should not depend on whether it is mentioned on the right
		r := p.exprs(v.Rhs)
		return p.exprs(v.Lhs) + " " + op + " " + r
	case *ast.ExprStmt:
		return p.expr(v.X)
	case *ast.IncDecStmt:
		return p.expr(v.X) + v.Tok.String()
	case *ast.DeclStmt:
		gd, ok := v.Decl.(*ast.GenDecl)
		if !ok || gd.Tok != token.VAR {
			return ""
		}
		var parts []string
		for _, sp := range gd.Specs {
			vs := sp.(*ast.ValueSpec)
			if len(vs.Values) == 0 {
				continue
			}
			r := p.exprs(vs.Values)
			names := make([]string, len(vs.Names))
			for i, n := range vs.Names {
				names[i] = p.ident(n)
			}
			parts = append(parts, strings.Join(names, ", ")+" = "+r)
		}
		return strings.Join(parts, "; ")
	case *ast.SendStmt:
		return p.expr(v.Chan) + " <- " + p.expr(v.Value)
	}
	return "?stmt"
}

func callName(c *ast.CallExpr) (pkg, name string) {
	switch f := c.Fun.(type) {
	case *ast.SelectorExpr:
		if id, ok := f.X.(*ast.Ident); ok {
			pkg = id.Name
		}
		return pkg, f.Sel.Name
	case *ast.Ident:
		return "", f.Name
	}
	return "", ""
}

var noiseMethods = map[string]bool{"SetStatus": true, "Printf": true, "Println": true, "Print": true}

// statements that are not part of any fact of this family
func dropped(s ast.Stmt) bool {
	switch v := s.(type) {
	case *ast.ExprStmt:
		if c, ok := v.X.(*ast.CallExpr); ok {
			pkg, name := callName(c)
			if pkg == "verifhook" && name == "Yield" {
				return true
			}
			if _, sel := c.Fun.(*ast.SelectorExpr); sel && noiseMethods[name] {
				return true
			}
		}
	case *ast.DeclStmt:
		gd, ok := v.Decl.(*ast.GenDecl)
		if !ok {
			return true
		}
		if gd.Tok != token.VAR {
			return true // local types and constants
		}
		for _, sp := range gd.Specs {
			if len(sp.(*ast.ValueSpec).Values) > 0 {
				return false
			}
		}
		return true
	case *ast.EmptyStmt:
		return true
	}
	return false
}

func hasCall(n ast.Node) bool {
	if n == nil {
		return false
	}
	found := false
	ast.Inspect(n, func(x ast.Node) bool {
		switch x.(type) {
		case *ast.CallExpr:
			found = true
		case *ast.UnaryExpr:
			if x.(*ast.UnaryExpr).Op == token.ARROW {
				found = true
			}
		}
		return !found
	})
	return found
}

func isNilNode(n ast.Node) bool {
	switch v := n.(type) {
	case nil:
		return true
	case ast.Stmt:
		return v == nil
	case ast.Expr:
		return v == nil
	}
	return false
}

// filter mode: does any of the nodes mention a name of interest?
func (p *printer) wanted(ns ...ast.Node) bool {
	if p.want == nil {
		return true
	}
	for _, n := range ns {
		if !isNilNode(n) && p.want(n) {
			return true
		}
	}
	return false
}

// a line that makes the enclosing compound statement worth printing
func (p *printer) emit(line string) {
	p.out = append(p.out, line)
	p.subst++
	p.flushLits()
}

// a line that is printed only in the company of others (return / break / continue, `else`, `end`)
func (p *printer) emitWeak(line string) {
	p.out = append(p.out, line)
	p.flushLits()
}

func (p *printer) flushLits() {
	lits := p.lits
	p.lits = nil
	for _, pl := range lits {
		var ps []string
		for _, f := range pl.lit.Type.Params.List {
			for _, n := range f.Names {
				ps = append(ps, p.ident(n))
			}
		}
		head := "func"
		if pl.key != "" {
			head += " " + pl.key
		}
		p.out = append(p.out, head+"("+strings.Join(ps, ", ")+")")
		p.block(pl.lit.Body.List)
		p.out = append(p.out, "end func")
	}
}

func (p *printer) block(list []ast.Stmt) {
	for _, s := range list {
		p.stmt(s)
	}
}

func (p *printer) header(init ast.Stmt, cond ast.Expr) string {
	h := ""
	if init != nil {
		h = p.simple(init) + "; "
	}
	return h + p.expr(cond)
}

func (p *printer) ret(v *ast.ReturnStmt) string {
	if len(v.Results) == 0 {
		return "return"
	}
	return "return " + p.exprs(v.Results)
}

type mark struct {
	nout, subst, next, norder int
}

func (p *printer) mark() mark { return mark{len(p.out), p.subst, p.e.next, len(p.order)} }

// forget everything printed since the mark (lines and the numbers handed to locals)
func (p *printer) rollback(m mark) {
	p.out = p.out[:m.nout]
	p.subst = m.subst
	for _, o := range p.order[m.norder:] {
		delete(p.e.vnum, o)
	}
	p.order = p.order[:m.norder]
	p.e.next = m.next
	p.lits = nil
}

// a compound statement: `open` prints its header line, `body` its inside.  It is dropped when nothing
// substantive was printed inside and its header neither is wanted (filter mode) nor calls anything.
func (p *printer) compound(hdr []ast.Node, open func(), body func()) {
	m := p.mark()
	open()
	inner := p.subst
	body()
	if p.subst != inner {
		return
	}
	keepHeader := false
	if p.want != nil {
		keepHeader = p.wanted(hdr...)
	} else {
		for _, h := range hdr {
			if !isNilNode(h) && hasCall(h) {
				keepHeader = true
			}
		}
		// a body that printed weak lines only (a bare return, break, continue) is a branch of the control flow
		if len(p.out) > m.nout+2 {
			keepHeader = true
		}
	}
	if !keepHeader {
		p.rollback(m)
		return
	}
	p.subst++
}

func (p *printer) stmt(s ast.Stmt) {
	if dropped(s) {
		return
	}
	switch v := s.(type) {
	case *ast.BlockStmt:
		p.block(v.List)
	case *ast.IfStmt:
		if v.Else == nil && len(v.Body.List) == 1 {
			if r, ok := v.Body.List[0].(*ast.ReturnStmt); ok {
				if p.want != nil && !p.wanted(v.Init, v.Cond, r) {
					return
				}
				h := p.header(v.Init, v.Cond)
				p.emit("if " + h + " => " + p.ret(r))
				return
			}
		}
		p.compound([]ast.Node{v.Init, v.Cond},
			func() { p.emitWeak("if " + p.header(v.Init, v.Cond)) },
			func() {
				p.block(v.Body.List)
				if v.Else != nil {
					m := p.mark()
					p.emitWeak("else")
					p.stmt(v.Else)
					if len(p.out) == m.nout+1 {
						p.rollback(m) // an else branch with nothing in it
					}
				}
				p.emitWeak("end")
			})
	case *ast.ForStmt:
		p.compound([]ast.Node{v.Init, v.Cond, v.Post},
			func() {
				if v.Init == nil && v.Cond == nil && v.Post == nil {
					p.emitWeak("for")
				} else {
					p.emitWeak("for " + p.simple(v.Init) + "; " + p.expr(v.Cond) + "; " + p.simple(v.Post))
				}
			},
			func() { p.block(v.Body.List); p.emitWeak("end") })
	case *ast.RangeStmt:
		p.compound([]ast.Node{v.X},
			func() {
				x := p.expr(v.X)
				k, val := "_", "_"
				if v.Key != nil {
					k = p.expr(v.Key)
				}
				if v.Value != nil {
					val = p.expr(v.Value)
				}
				p.emitWeak("range " + k + ", " + val + " = " + x)
			},
			func() { p.block(v.Body.List); p.emitWeak("end") })
	case *ast.SwitchStmt:
		p.compound([]ast.Node{v.Init, v.Tag},
			func() { p.emitWeak("switch " + p.header(v.Init, v.Tag)) },
			func() { p.block(v.Body.List); p.emitWeak("end") })
	case *ast.TypeSwitchStmt:
		p.compound([]ast.Node{v.Assign},
			func() { p.emitWeak("switch " + p.simple(v.Assign)) },
			func() { p.block(v.Body.List); p.emitWeak("end") })
	case *ast.CaseClause:
		if v.List == nil {
			p.emitWeak("default")
		} else {
			p.emitWeak("case " + p.exprs(v.List))
		}
		p.block(v.Body)
	case *ast.SelectStmt:
		p.compound(nil,
			func() { p.emitWeak("select") },
			func() { p.block(v.Body.List); p.emitWeak("end") })
	case *ast.CommClause:
		if v.Comm == nil {
			p.emitWeak("default")
		} else if p.want == nil || p.wanted(v.Comm) {
			p.emit("case " + p.simple(v.Comm))
		} else {
			p.emitWeak("case " + p.simple(v.Comm))
		}
		p.block(v.Body)
	case *ast.LabeledStmt:
		p.stmt(v.Stmt)
	case *ast.ReturnStmt:
		p.emitWeak(p.ret(v))
	case *ast.DeferStmt:
		if !p.wanted(v.Call) {
			return
		}
		p.emit("defer " + p.expr(v.Call))
	case *ast.GoStmt:
		if !p.wanted(v.Call) {
			return
		}
		p.emit("go " + p.expr(v.Call))
	case *ast.BranchStmt:
		l := v.Tok.String()
		if v.Label != nil {
			l += " " + v.Label.Name
		}
		p.emitWeak(l)
	case *ast.DeclStmt:
		// one line per `name = value` of a var block
		gd := v.Decl.(*ast.GenDecl)
		for _, sp := range gd.Specs {
			if len(sp.(*ast.ValueSpec).Values) == 0 {
				continue
			}
			if !p.wanted(sp) {
				continue
			}
			one := &ast.DeclStmt{Decl: &ast.GenDecl{Tok: token.VAR, Specs: []ast.Spec{sp}}}
			p.emit(p.simple(one))
		}
	default:
		if !p.wanted(s) {
			return
		}
		p.emit(p.simple(s))
	}
}

// whole canonical body (noise dropped)
func canonBody(fd *ast.FuncDecl) []string {
	p := &printer{e: newEnv(fd)}
	p.block(fd.Body.List)
	return p.out
}

// the names of interest of a filter: selected field / method names, called functions, keys of keyed literals
func interest(names ...string) func(ast.Node) bool {
	set := map[string]bool{}
	for _, n := range names {
		set[n] = true
	}
	return func(n ast.Node) bool {
		found := false
		ast.Inspect(n, func(x ast.Node) bool {
			if found {
				return false
			}
			switch v := x.(type) {
			case *ast.SelectorExpr:
				if set[v.Sel.Name] {
					found = true
				}
				// a dotted suffix, e.g. "Context.Scope"
				if in, ok := v.X.(*ast.SelectorExpr); ok && set[in.Sel.Name+"."+v.Sel.Name] {
					found = true
				}
			case *ast.CallExpr:
				if id, ok := v.Fun.(*ast.Ident); ok && set[id.Name] {
					found = true
				}
			case *ast.KeyValueExpr:
				if id, ok := v.Key.(*ast.Ident); ok && set[id.Name+":"] {
					found = true
				}
			}
			return true
		})
		return found
	}
}

// filtered canonical body
func filterBody(fd *ast.FuncDecl, body []ast.Stmt, want func(ast.Node) bool, fields func(typ, field string) bool) []string {
	p := &printer{e: newEnv(fd), want: want, fields: fields}
	p.block(body)
	return p.out
}
