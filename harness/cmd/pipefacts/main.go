// pipefacts — the structural tie of the pipeline family (properties C14 and C16, DESIGN 1.4).
//
//	pipefacts facts <C14|C16>    print the Lean file Goat/Tie/ExtractedPipe<Cxx>.lean
//
// Reads the Go sources of the repository under test ($VERIF_REPO, default /repo) with go/parser and prints, as
// Lean `List String` data, normal forms of the functions that lean/Goat/Model/Pipeline.lean mirrors step by step:
// Runner.Run / runGo / waitForTasks, TaskManager.Create / validWaitList / doneTask / Wait, Task.Close / Wait,
// termexec.RunLoop / RunCommand, pipc.Run and pipc.Try (canon.go and queries.go define the normal forms).  The
// hand-written expectations and the theorems `tie_* : Extracted... = expected := by decide` are in
// Goat/Tie/PipeC14.lean and Goat/Tie/PipeC16.lean.
//
// Standard library only (go/ast, go/parser, go/token); the goatcore packages are never imported, so the command
// builds and runs whatever state the repository under test is in.  The tie is syntactic and is trusted as such:
// it sees the text of the functions it is pointed at, not what they call.
package main

import (
	"fmt"
	"go/ast"
	"go/parser"
	"go/token"
	"os"
	"path/filepath"
	"sort"
	"strconv"
	"strings"
)

var repo = "/repo"

type pkg struct {
	dir   string
	files []*ast.File
}

var pkgCache = map[string]*pkg{}

// all non-test Go files of a directory of the repository under test
func load(dir string) *pkg {
	if p, ok := pkgCache[dir]; ok {
		return p
	}
	p := &pkg{dir: dir}
	full := filepath.Join(repo, dir)
	ents, err := os.ReadDir(full)
	if err != nil {
		fmt.Fprintln(os.Stderr, "pipefacts:", err)
		os.Exit(3)
	}
	fset := token.NewFileSet()
	var names []string
	for _, e := range ents {
		n := e.Name()
		if e.IsDir() || !strings.HasSuffix(n, ".go") || strings.HasSuffix(n, "_test.go") {
			continue
		}
		names = append(names, n)
	}
	sort.Strings(names)
	for _, n := range names {
		f, err := parser.ParseFile(fset, filepath.Join(full, n), nil, 0)
		if err != nil {
			fmt.Fprintln(os.Stderr, "pipefacts:", err)
			os.Exit(3)
		}
		p.files = append(p.files, f)
	}
	pkgCache[dir] = p
	return p
}

func recvName(fd *ast.FuncDecl) string {
	if fd.Recv == nil || len(fd.Recv.List) != 1 {
		return ""
	}
	t := fd.Recv.List[0].Type
	if s, ok := t.(*ast.StarExpr); ok {
		t = s.X
	}
	if id, ok := t.(*ast.Ident); ok {
		return id.Name
	}
	return "?"
}

func (p *pkg) fn(recv, name string) *ast.FuncDecl {
	for _, f := range p.files {
		for _, d := range f.Decls {
			if fd, ok := d.(*ast.FuncDecl); ok && fd.Body != nil && fd.Name.Name == name && recvName(fd) == recv {
				return fd
			}
		}
	}
	return nil
}

type fact struct {
	lean string
	doc  string
	get  func() []string
}

func missing(recv, name string) []string {
	if recv != "" {
		name = recv + "." + name
	}
	return []string{"missing " + name}
}

// the whole canonical body of a function (noise dropped)
func full(dir, recv, name string) func() []string {
	return func() []string {
		fd := load(dir).fn(recv, name)
		if fd == nil {
			return missing(recv, name)
		}
		return canonBody(fd)
	}
}

// the filtered canonical body of a function
func filtered(dir, recv, name string, fields func(typ, field string) bool, names ...string) func() []string {
	return func() []string {
		fd := load(dir).fn(recv, name)
		if fd == nil {
			return missing(recv, name)
		}
		return filterBody(fd, fd.Body.List, interest(names...), fields)
	}
}

const (
	runnerDir = "app/modules/pipelinem/pipservices/runner"
	tasksDir  = "app/modules/pipelinem/pipservices/tasks"
	pipcDir   = "app/modules/pipelinem/pipcommands/pipc"
	termexec  = "app/terminal/termexec"
	scopeDir  = "app/scope"
)

// projections of keyed literals
func only(spec map[string][]string) func(typ, field string) bool {
	m := map[string]map[string]bool{}
	for t, fs := range spec {
		m[t] = map[string]bool{}
		for _, f := range fs {
			m[t][f] = true
		}
	}
	return func(typ, field string) bool {
		if fs, ok := m[typ]; ok {
			return fs[field]
		}
		return true
	}
}

func without(spec map[string][]string) func(typ, field string) bool {
	m := map[string]map[string]bool{}
	for t, fs := range spec {
		m[t] = map[string]bool{}
		for _, f := range fs {
			m[t][f] = true
		}
	}
	return func(typ, field string) bool { return !m[typ][field] }
}

var (
	// the name of a child scope is a label (it goes into the SID), nothing else
	noScopeName = without(map[string][]string{"scope.ChildParams": {"Name"}, "scope.Params": {"Name"}})

	fRunCommand = fact{"runCommand", "termexec.RunCommand (run.go), filtered: Command, Scope, NewChild, NewIOContext, Callback, Close",
		filtered(termexec, "", "RunCommand", noScopeName, "Command", "Scope", "NewChild", "NewIOContext", "Callback", "Close")}
)

var (
	fScopeWait      = fact{"scopeWait", "scope.Scope.Wait (scope.go), whole body", full(scopeDir, "Scope", "Wait")}
	fScopeAddTasks  = fact{"scopeAddTasks", "scope.Scope.AddTasks, whole body", full(scopeDir, "Scope", "AddTasks")}
	fTaskScopeLabel = fact{"taskScopeLabel", "tasks.TaskManager.Create: the Name of the task scope, verbatim",
		func() []string { return taskScopeLabel(load(tasksDir).fn("TaskManager", "Create")) }}
	fScopeDoneTask = fact{"scopeDoneTask", "scope.Scope.DoneTask, whole body", full(scopeDir, "Scope", "DoneTask")}
)

func factsOf(prop string) []fact {
	switch prop {
	case "C14":
		return []fact{
			{"runnerRun", "runner.Runner.Run (runner.go), whole body", full(runnerDir, "Runner", "Run")},
			{"runGo", "runner.Runner.runGo, whole body (status texts and progress output dropped)", full(runnerDir, "Runner", "runGo")},
			{"waitForTasks", "runner.Runner.waitForTasks, whole body", full(runnerDir, "Runner", "waitForTasks")},
			{"create", "tasks.TaskManager.Create (manager.go), filtered: Context.Scope, AddTasks, DoneTask, tasksMU, tasks, NewChild, Close, NewTask, afterCloseCB, validWaitList, delete, rootScope, wg",
				filtered(tasksDir, "TaskManager", "Create", noScopeName, "Context.Scope", "AddTasks", "DoneTask", "tasksMU", "tasks", "NewChild",
					"Close", "NewTask", "afterCloseCB", "validWaitList", "delete", "rootScope", "wg")},
			{"validWaitList", "tasks.TaskManager.validWaitList, whole body", full(tasksDir, "TaskManager", "validWaitList")},
			{"managerDoneTask", "tasks.TaskManager.doneTask, whole body", full(tasksDir, "TaskManager", "doneTask")},
			{"managerWait", "tasks.TaskManager.Wait, whole body", full(tasksDir, "TaskManager", "Wait")},
			{"managerGet", "tasks.TaskManager.Get, whole body", full(tasksDir, "TaskManager", "Get")},
			{"taskClose", "tasks.Task.Close (task.go), whole body (progress output dropped)", full(tasksDir, "Task", "Close")},
			{"taskWait", "tasks.Task.Wait, whole body", full(tasksDir, "Task", "Wait")},
			{"taskErrors", "tasks.Task.Errors, whole body", full(tasksDir, "Task", "Errors")},
			{"latchCalls", "every call on a field named wg in package tasks, by function", func() []string { return fieldCalls(load(tasksDir).files, "wg") }},
			{"closeCallbacks", "every mention of the fields closeCB / afterCloseCB in package tasks, by function",
				func() []string { return fieldMentions(load(tasksDir).files, "closeCB", "afterCloseCB") }},
			{"runLoop", "termexec.RunLoop (run.go), whole body (prompt output dropped)", full(termexec, "", "RunLoop")},
			fRunCommand,
			fScopeWait, fScopeAddTasks, fScopeDoneTask, fTaskScopeLabel,
			{"scopeNewChild", "scope.NewChild (child.go), filtered: AddTasks, ContextScope, BaseContextScope, parent (the Scope literals projected onto ContextScope, parent)",
				filtered(scopeDir, "", "NewChild", only(map[string][]string{"Scope": {"ContextScope", "parent"}}),
					"AddTasks", "ContextScope", "BaseContextScope", "parent:")},
			{"pipRun", "pipc.Run (run.go): the submission (Scope, Name, Wait, Lock, In of the Pip) and where its locals come from",
				func() []string { return submission(load(pipcDir).fn("", "Run")) }},
		}
	case "C16":
		return []fact{
			{"tryBodyScope", "pipc.Try (try.go): the scope of every submission made before the goroutine is started, and where it comes from",
				func() []string { return tryScopes(load(pipcDir).fn("", "Try"), false) }},
			{"tryHandlerScopes", "pipc.Try: the scope of every submission made by the goroutine, and where it comes from",
				func() []string { return tryScopes(load(pipcDir).fn("", "Try"), true) }},
			{"tryParentSignOn", "pipc.Try, filtered: AddTasks, DoneTask (Pip literals projected onto Name)",
				filtered(pipcDir, "", "Try", only(map[string][]string{"pipservices.Pip": {"Name"}}), "AddTasks", "DoneTask")},
			{"tryAfterBodyWait", "pipc.Try: the scope of the body, then the calls of Wait and Run in the goroutine in source order",
				func() []string { return tryWaitThenRuns(load(pipcDir).fn("", "Try")) }},
			{"tryHandlers", "pipc.Try, the goroutine, filtered: Run, AppendError, BaseContextScope (Pip literals projected onto Context.In, Name, Lock, Wait)",
				func() []string { return tryHandlers(load(pipcDir).fn("", "Try")) }},
			{"tryNamespaces", "pipc.Try: the namespaces of every submission, and where they come from",
				func() []string { return tryNamespaces(load(pipcDir).fn("", "Try")) }},
			fRunCommand,
			fScopeWait, fScopeAddTasks, fScopeDoneTask, fTaskScopeLabel,
			{"scopeNew", "scope.New (scope.go), filtered: ContextScope (the Scope literal projected onto ContextScope)",
				filtered(scopeDir, "", "New", only(map[string][]string{"Scope": {"ContextScope"}}), "ContextScope")},
		}
	}
	return nil
}

// Lean string literal (ASCII only; everything else escaped)
func leanString(s string) string {
	return strconv.QuoteToASCII(s)
}

func main() {
	if len(os.Args) != 3 || os.Args[1] != "facts" {
		fmt.Fprintln(os.Stderr, "usage: pipefacts facts <C14|C16>")
		os.Exit(3)
	}
	if r := os.Getenv("VERIF_REPO"); r != "" {
		repo = r
	}
	prop := os.Args[2]
	fs := factsOf(prop)
	if fs == nil {
		fmt.Fprintln(os.Stderr, "pipefacts: no facts for", prop)
		os.Exit(3)
	}
	var b strings.Builder
	fmt.Fprintf(&b, "/- GENERATED by `harness/cmd/pipefacts facts %s` (go/ast) from the Go sources of the repository under\n", prop)
	b.WriteString("test: normal forms of the functions lean/Goat/Model/Pipeline.lean mirrors (harness/cmd/pipefacts/canon.go and\n")
	b.WriteString("queries.go define them).  Compared with the model's assumptions in Goat/Tie/Pipe" + prop + ".lean.  Do not edit. -/\n")
	fmt.Fprintf(&b, "namespace Goat.Tie.ExtractedPipe%s\n", prop)
	for _, f := range fs {
		lines := f.get()
		fmt.Fprintf(&b, "\n/-- %s -/\ndef %s : List String := [", f.doc, f.lean)
		for i, l := range lines {
			if i > 0 {
				b.WriteString(",")
			}
			b.WriteString("\n  " + leanString(l))
		}
		b.WriteString("]\n")
	}
	fmt.Fprintf(&b, "\nend Goat.Tie.ExtractedPipe%s\n", prop)
	os.Stdout.WriteString(b.String())
}
