package main

// The queries built on the canonical printer (canon.go).
//
//   field calls      "Func: call" for every call on a field of a given name (wg) in a package: who arms, releases
//                    and waits for the completion latches, and how often.
//   field mentions   "Func: line" for every statement of a package that mentions given fields (filter mode per
//                    function): who stores and who calls the close callbacks.
//   submissions      a SUBMISSION is a call `x.Run(pipservices.Pip{...})`.  Facts about submissions print, per
//                    submission, one line about the fields they are about (`"name" in <Scope>`,
//                    `"name" ns <Namespaces>` — these lines in alphabetical order: which submission comes first is
//                    the subject of other facts — or the projected call) and then the DEFINITION CLOSURE of the
//                    locals those lines mention: every assignment of the function (`:=`, `=`, var with a value, the
//                    assignment of an `if` header, range variables) to one of them, in source order, and
//                    recursively for the locals on their right-hand sides; an assignment to a field (x.f = ...)
//                    belongs to the closure when x.f or x as a whole is mentioned.  So `"body" in v1` is followed
//                    by `v1 = scope.New(...)` and by the definition of whatever that mentions.  Conditions under
//                    which an assignment is executed are not part of the closure.
//   the goroutine    of pipc.Try = the function literal of the `go` statement at the top level of its body.

import (
	"go/ast"
	"go/token"
	"sort"
)

func funcLabel(fd *ast.FuncDecl) string {
	if r := recvName(fd); r != "" {
		return r + "." + fd.Name.Name
	}
	return fd.Name.Name
}

func funcsOf(files []*ast.File) []*ast.FuncDecl {
	var res []*ast.FuncDecl
	for _, f := range files {
		for _, d := range f.Decls {
			if fd, ok := d.(*ast.FuncDecl); ok && fd.Body != nil {
				res = append(res, fd)
			}
		}
	}
	sort.SliceStable(res, func(i, j int) bool { return funcLabel(res[i]) < funcLabel(res[j]) })
	return res
}

// "Func: x.wg.Add(1)" for every call whose receiver is a field of the given name
func fieldCalls(files []*ast.File, field string) []string {
	var res []string
	for _, fd := range funcsOf(files) {
		pr := &printer{e: newEnv(fd)}
		ast.Inspect(fd.Body, func(x ast.Node) bool {
			c, ok := x.(*ast.CallExpr)
			if !ok {
				return true
			}
			if f, ok := c.Fun.(*ast.SelectorExpr); ok {
				if in, ok := f.X.(*ast.SelectorExpr); ok && in.Sel.Name == field {
					res = append(res, funcLabel(fd)+": "+pr.expr(c))
				}
			}
			return true
		})
	}
	if res == nil {
		return []string{"none"}
	}
	return res
}

// "Func: line" for the filtered body of every function of the package that mentions one of the fields
func fieldMentions(files []*ast.File, fields ...string) []string {
	var names []string
	for _, f := range fields {
		names = append(names, f, f+":")
	}
	proj := func(typ, field string) bool {
		if typ != "Task" && typ != "&Task" {
			return true
		}
		for _, f := range fields {
			if f == field {
				return true
			}
		}
		return false
	}
	var res []string
	for _, fd := range funcsOf(files) {
		p := &printer{e: newEnv(fd), want: interest(names...), fields: proj}
		// without the returns at the top level of the body: they are not mentions
		for _, s := range fd.Body.List {
			if _, ok := s.(*ast.ReturnStmt); ok {
				continue
			}
			p.stmt(s)
		}
		for _, l := range p.out {
			res = append(res, funcLabel(fd)+": "+l)
		}
	}
	if res == nil {
		return []string{"none"}
	}
	return res
}

// ------------------------------------------------------------------------------------- submissions

type runCall struct {
	call *ast.CallExpr
	lit  *ast.CompositeLit
}

func isPipLit(x ast.Expr) *ast.CompositeLit {
	cl, ok := x.(*ast.CompositeLit)
	if !ok {
		return nil
	}
	if se, ok := cl.Type.(*ast.SelectorExpr); ok && se.Sel.Name == "Pip" {
		return cl
	}
	if id, ok := cl.Type.(*ast.Ident); ok && id.Name == "Pip" {
		return cl
	}
	return nil
}

// every call `x.Run(Pip{...})` under the node, in source order; function literals are entered unless skip says no
func runCalls(n ast.Node, skip *ast.FuncLit) []runCall {
	var res []runCall
	ast.Inspect(n, func(x ast.Node) bool {
		if fl, ok := x.(*ast.FuncLit); ok && fl == skip {
			return false
		}
		c, ok := x.(*ast.CallExpr)
		if !ok || len(c.Args) != 1 {
			return true
		}
		if f, ok := c.Fun.(*ast.SelectorExpr); ok && f.Sel.Name == "Run" {
			if cl := isPipLit(c.Args[0]); cl != nil {
				res = append(res, runCall{c, cl})
			}
		}
		return true
	})
	return res
}

// the value of a field of a keyed literal, following a path of nested literals
func litField(cl *ast.CompositeLit, path ...string) ast.Expr {
	for i, name := range path {
		var val ast.Expr
		for _, el := range cl.Elts {
			if kv, ok := el.(*ast.KeyValueExpr); ok {
				if id, ok := kv.Key.(*ast.Ident); ok && id.Name == name {
					val = kv.Value
				}
			}
		}
		if val == nil {
			return nil
		}
		if i == len(path)-1 {
			return val
		}
		next, ok := val.(*ast.CompositeLit)
		if !ok {
			return nil
		}
		cl = next
	}
	return nil
}

func (p *printer) exprOr(x ast.Expr, absent string) string {
	if x == nil {
		return absent
	}
	return p.expr(x)
}

// the function literal of the `go` statement at the top level of the body; more = there is another one
func goLit(fd *ast.FuncDecl) (lit *ast.FuncLit, more bool) {
	for _, s := range fd.Body.List {
		if g, ok := s.(*ast.GoStmt); ok {
			if fl, ok := g.Call.Fun.(*ast.FuncLit); ok {
				if lit == nil {
					lit = fl
				} else {
					more = true
				}
			}
		}
	}
	return
}

// what an expression says about a local: the local as a whole, or one of its fields (x.f)
type tracked map[*ast.Object]map[string]bool

func (t tracked) add(o *ast.Object, field string) bool {
	if t[o] == nil {
		t[o] = map[string]bool{}
	}
	if t[o][field] {
		return false
	}
	t[o][field] = true
	return true
}

// the root variable of an assignable expression and the first field selected from it ("" = the variable
// itself, or an element of it)
func rootField(x ast.Expr) (root *ast.Ident, field string) {
	for {
		switch v := x.(type) {
		case *ast.Ident:
			return v, field
		case *ast.SelectorExpr:
			field = v.Sel.Name
			x = v.X
		case *ast.IndexExpr:
			field = ""
			x = v.X
		case *ast.StarExpr:
			x = v.X
		case *ast.ParenExpr:
			x = v.X
		default:
			return nil, ""
		}
	}
}

func mentionsIn(e *env, n ast.Node, into tracked) {
	ast.Inspect(n, func(x ast.Node) bool {
		switch v := x.(type) {
		case *ast.SelectorExpr:
			// x.f mentions the field f of the local x (a method call x.m() counts as such a mention)
			if id, ok := v.X.(*ast.Ident); ok {
				if e.isLocal(id.Obj) {
					into.add(id.Obj, v.Sel.Name)
				}
				return false
			}
			mentionsIn(e, v.X, into)
			return false
		case *ast.KeyValueExpr:
			if _, ok := v.Key.(*ast.Ident); ok {
				mentionsIn(e, v.Value, into)
				return false
			}
		case *ast.Ident:
			if e.isLocal(v.Obj) {
				into.add(v.Obj, "")
			}
		}
		return true
	})
}

// the definition closure of the locals mentioned in the seed expressions, printed in source order: every
// assignment to a mentioned local; an assignment to a FIELD of a local (x.f = ...) belongs to it when that field
// or the local as a whole is mentioned
func (p *printer) defClosure(fd *ast.FuncDecl, seeds []ast.Expr) []string {
	set := tracked{}
	for _, s := range seeds {
		if s != nil {
			mentionsIn(p.e, s, set)
		}
	}
	type def struct {
		node ast.Node
		lhs  []ast.Expr
		rhs  []ast.Expr
	}
	var defs []def
	ast.Inspect(fd.Body, func(x ast.Node) bool {
		switch v := x.(type) {
		case *ast.AssignStmt:
			defs = append(defs, def{node: v, lhs: v.Lhs, rhs: v.Rhs})
		case *ast.ValueSpec:
			if len(v.Values) > 0 {
				d := def{node: v, rhs: v.Values}
				for _, n := range v.Names {
					d.lhs = append(d.lhs, n)
				}
				defs = append(defs, d)
			}
		case *ast.RangeStmt:
			d := def{node: v, rhs: []ast.Expr{v.X}}
			for _, l := range []ast.Expr{v.Key, v.Value} {
				if l != nil {
					d.lhs = append(d.lhs, l)
				}
			}
			defs = append(defs, d)
		}
		return true
	})
	hits := func(l ast.Expr) bool {
		root, field := rootField(l)
		if root == nil || root.Obj == nil || set[root.Obj] == nil {
			return false
		}
		if _, bare := l.(*ast.Ident); bare {
			return true
		}
		return set[root.Obj][""] || (field != "" && set[root.Obj][field])
	}
	used := make([]bool, len(defs))
	for changed := true; changed; {
		changed = false
		for i, d := range defs {
			if used[i] {
				continue
			}
			for _, l := range d.lhs {
				if hits(l) {
					used[i] = true
					changed = true
					for _, r := range d.rhs {
						mentionsIn(p.e, r, set)
					}
					break
				}
			}
		}
	}
	var res []string
	for i, d := range defs {
		if !used[i] {
			continue
		}
		switch v := d.node.(type) {
		case *ast.AssignStmt:
			res = append(res, p.simple(v))
		case *ast.ValueSpec:
			res = append(res, p.simple(&ast.DeclStmt{Decl: &ast.GenDecl{Tok: token.VAR, Specs: []ast.Spec{v}}}))
		case *ast.RangeStmt:
			k, val := "_", "_"
			x := p.expr(v.X)
			if v.Key != nil {
				k = p.expr(v.Key)
			}
			if v.Value != nil {
				val = p.expr(v.Value)
			}
			res = append(res, "range "+k+", "+val+" = "+x)
		}
	}
	return res
}

// pipc.Run: the one submission, projected, and the definition closure of its locals
func submission(fd *ast.FuncDecl) []string {
	if fd == nil {
		return missing("", "Run")
	}
	p := &printer{e: newEnv(fd), fields: only(map[string][]string{
		"pipservices.Pip":        {"Context", "Name", "Wait", "Lock"},
		"pipservices.PipContext": {"In", "Scope"},
	})}
	var res []string
	var seeds []ast.Expr
	for _, rc := range runCalls(fd.Body, nil) {
		res = append(res, "submit "+p.expr(rc.call))
		seeds = append(seeds, rc.call.Fun, litField(rc.lit, "Context", "In"), litField(rc.lit, "Context", "Scope"),
			litField(rc.lit, "Name"), litField(rc.lit, "Wait"), litField(rc.lit, "Lock"))
	}
	if res == nil {
		return []string{"no submission"}
	}
	return append(res, p.defClosure(fd, seeds)...)
}

func tryRegions(fd *ast.FuncDecl) (before, inside []runCall, lit *ast.FuncLit, note []string) {
	lit, more := goLit(fd)
	if lit == nil {
		return runCalls(fd.Body, nil), nil, nil, []string{"missing go func"}
	}
	if more {
		note = []string{"another go statement"}
	}
	return runCalls(fd.Body, lit), runCalls(lit.Body, nil), lit, note
}

// `"name" in <Scope>` for every submission of the chosen region of pipc.Try, then the definition closure
func tryScopes(fd *ast.FuncDecl, inGoroutine bool) []string {
	if fd == nil {
		return missing("", "Try")
	}
	before, inside, _, note := tryRegions(fd)
	calls := before
	if inGoroutine {
		calls = inside
	}
	p := &printer{e: newEnv(fd)}
	var lines []string
	var seeds []ast.Expr
	for _, rc := range calls {
		sc := litField(rc.lit, "Context", "Scope")
		lines = append(lines, p.exprOr(litField(rc.lit, "Name"), "?")+" in "+p.exprOr(sc, "?"))
		seeds = append(seeds, sc)
	}
	if len(calls) == 0 {
		lines = append(lines, "no submission")
	}
	sort.Strings(lines) // which submission comes first is the subject of other facts
	return append(append(note, lines...), p.defClosure(fd, seeds)...)
}

// `"name" ns <Namespaces>` for every submission of pipc.Try, then the definition closure
func tryNamespaces(fd *ast.FuncDecl) []string {
	if fd == nil {
		return missing("", "Try")
	}
	before, inside, _, note := tryRegions(fd)
	p := &printer{e: newEnv(fd), fields: without(map[string][]string{})}
	var lines []string
	var seeds []ast.Expr
	for _, rc := range append(before, inside...) {
		ns := litField(rc.lit, "Namespaces")
		lines = append(lines, p.exprOr(litField(rc.lit, "Name"), "?")+" ns "+p.exprOr(ns, "?"))
		seeds = append(seeds, ns)
	}
	sort.Strings(lines) // which submission comes first is the subject of other facts
	return append(append(note, lines...), p.defClosure(fd, seeds)...)
}

// the scope of the body, then the calls of Wait and Run made by the goroutine, in source order
func tryWaitThenRuns(fd *ast.FuncDecl) []string {
	if fd == nil {
		return missing("", "Try")
	}
	before, _, lit, note := tryRegions(fd)
	p := &printer{e: newEnv(fd), fields: only(map[string][]string{"pipservices.Pip": {}})}
	res := note
	for _, rc := range before {
		res = append(res, p.exprOr(litField(rc.lit, "Name"), "?")+" in "+p.exprOr(litField(rc.lit, "Context", "Scope"), "?"))
	}
	if lit == nil {
		return res
	}
	isWaitOrRun := func(x ast.Expr) bool {
		c, ok := x.(*ast.CallExpr)
		if !ok {
			return false
		}
		f, ok := c.Fun.(*ast.SelectorExpr)
		return ok && (f.Sel.Name == "Wait" || f.Sel.Name == "Run")
	}
	ast.Inspect(lit.Body, func(x ast.Node) bool {
		// `x = s.Wait()` is printed with its left-hand side: what the result is called afterwards
		if as, ok := x.(*ast.AssignStmt); ok && len(as.Rhs) == 1 && isWaitOrRun(as.Rhs[0]) {
			res = append(res, "go: "+p.simple(as))
			return false
		}
		if c, ok := x.(*ast.CallExpr); ok {
			if f, ok := c.Fun.(*ast.SelectorExpr); ok && (f.Sel.Name == "Wait" || f.Sel.Name == "Run") {
				res = append(res, "go: "+p.expr(c))
				return false
			}
		}
		return true
	})
	return res
}

// the goroutine of pipc.Try, filtered to the submissions and what follows a refused one
func tryHandlers(fd *ast.FuncDecl) []string {
	if fd == nil {
		return missing("", "Try")
	}
	_, _, lit, note := tryRegions(fd)
	if lit == nil {
		return note
	}
	proj := only(map[string][]string{
		"pipservices.Pip":        {"Context", "Name", "Lock", "Wait"},
		"pipservices.PipContext": {"In"},
	})
	return append(note, filterBody(fd, lit.Body.List, interest("Run", "AppendError", "BaseContextScope"), proj)...)
}

// the Name given to the task scope in TaskManager.Create, verbatim (with its format string): the label goes
// into the scope's SID, from which the harness of the pipeline checks reads which task a scope belongs to
func taskScopeLabel(fd *ast.FuncDecl) []string {
	if fd == nil {
		return missing("TaskManager", "Create")
	}
	p := &printer{e: newEnv(fd), verbatimFormats: true}
	var res []string
	ast.Inspect(fd.Body, func(x ast.Node) bool {
		cl, ok := x.(*ast.CompositeLit)
		if !ok {
			return true
		}
		if se, ok := cl.Type.(*ast.SelectorExpr); !ok || se.Sel.Name != "ChildParams" {
			return true
		}
		res = append(res, "Name: "+p.exprOr(litField(cl, "Name"), "absent"))
		return true
	})
	if res == nil {
		return []string{"no child scope"}
	}
	return res
}
