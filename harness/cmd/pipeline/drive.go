package main

// Execution of one case against the real pipeline code of /repo.
//
// Per case a fresh MockupApp is assembled (terminalm, commonm, ocm, pipelinem), the probe
// commands are registered on its terminal, the top-level tasks are submitted through the real
// Runner and everything observable is recorded as an event line:
//
//	sub t | acc t | rej t       main thread: before Runner.Run / after it returned nil / an error
//	cmd t i                     callback of command i of task t's body entered
//	ret t i ok|err              the same callback is about to return nil / an error
//	done t ok|fail              the runner's child context scope of task t closed with a
//	                            commit / rollback (seen by listeners on the root scope)
//	mwait ok|err|hang           TasksManager.Wait returned nil / an error / not at all (every task manager the
//	                            runner used in this case, see run.managers: one on the unchanged tree unless a body ran
//	                            pip:clear; plus, for scripts run directly in the session, the session's own error)
//	fin t ok|fail|hang          after mwait, per task of TasksManager.Names(): Task.Wait()
//	                            returned and Task.Errors() is empty / not empty / Wait hung
//	root ok|err                 Err() of the session scope (scope= of the graph line; the application scope
//	                            when absent) and of the application scope at the very end
//	hacc h | hrej h             the try goroutine's Runner.Run for handler task h returned nil / an error
//	                            (seen by a recording wrapper around the PipRunner service)
//	stall h                     the steering controller (steerCtl) held a handler of a try block at its
//	                            first command and waited generously for the fate of handler h (its first
//	                            command, its close, a refused handler submission of that try): nothing happened
//	panic                       a panic was caught (callback, listener or main thread)
//
// Sequence numbers are the order in which the events acquired the recorder's mutex.

import (
	"errors"
	"fmt"
	"io"
	"os"
	"regexp"
	"runtime"
	"sort"
	"strconv"
	"sync"
	"sync/atomic"
	"time"

	"gcverif/internal/hx"

	"github.com/goatcms/goatcore/app"
	"github.com/goatcms/goatcore/app/bootstrap"
	"github.com/goatcms/goatcore/app/gio"
	"github.com/goatcms/goatcore/app/goatapp"
	"github.com/goatcms/goatcore/app/modules/commonm"
	"github.com/goatcms/goatcore/app/modules/commonm/commservices"
	"github.com/goatcms/goatcore/app/modules/ocm"
	"github.com/goatcms/goatcore/app/modules/pipelinem"
	"github.com/goatcms/goatcore/app/modules/pipelinem/pipcommands/pipc"
	"github.com/goatcms/goatcore/app/modules/pipelinem/pipservices"
	"github.com/goatcms/goatcore/app/modules/pipelinem/pipservices/namespaces"
	"github.com/goatcms/goatcore/app/modules/pipelinem/pipservices/runner"
	"github.com/goatcms/goatcore/app/modules/terminalm"
	"github.com/goatcms/goatcore/app/modules/terminalm/termservices"
	"github.com/goatcms/goatcore/app/scope"
	"github.com/goatcms/goatcore/app/scope/contextscope"
	"github.com/goatcms/goatcore/app/terminal"
	"github.com/goatcms/goatcore/filesystem"
)

// Watchdogs.  They only bound how long the harness waits for something that must happen; no
// verdict depends on something NOT having happened within a time.
const (
	gateWatchdog   = 20 * time.Second       // a gated probe gives up waiting for the controller (controller bug / dead case)
	mwaitWatchdog  = 20 * time.Second       // TasksManager.Wait must return once every gate was released
	finWatchdog    = 2 * time.Second        // Task.Wait of a task of a manager whose Wait already returned
	stallWatchdog  = 10 * time.Second       // the steering controller waits this long for the fate of the awaited handler
	stallShort     = 3 * time.Second        // … after the first stall seen by this worker process (see stallWait)
	settleWatchdog = 300 * time.Millisecond // end of a case: wait for its goroutines to end (see settle)
)

// recorder is the event list of one case.
type recorder struct {
	mu     sync.Mutex
	seq    int
	out    io.Writer // events are written through immediately (survives a crash of the process)
	closed bool      // set at the end of the case: events of stragglers are dropped
}

func (r *recorder) emit(format string, args ...interface{}) {
	r.mu.Lock()
	if !r.closed {
		r.seq++
		fmt.Fprintf(r.out, "%d %s\n", r.seq, fmt.Sprintf(format, args...))
	}
	r.mu.Unlock()
}

func (r *recorder) close() {
	r.mu.Lock()
	r.closed = true
	r.mu.Unlock()
}

// ---- gate controller -----------------------------------------------------------------------

type gate struct {
	t, i int
	ch   chan struct{}
}

// gateCtl decides when a gated probe (`g`) may continue.  It owns the only source of
// scheduling randomness of a case (PRNG seeded from the case), releases one blocked gate at a
// time after a short random pause, and with hold=1 releases nothing before the main thread has
// submitted every top-level task.
type gateCtl struct {
	mu      sync.Mutex
	blocked []gate        // probes currently waiting, in order of arrival
	open    bool          // end of case: every gate passes immediately
	wake    chan struct{} // cap 1: "blocked became non-empty"
	hold    chan struct{} // closed when releasing may begin
	stop    chan struct{} // closed at the end of the case
	rnd     *hx.Rand
}

func newGateCtl(seed uint64, hold bool) *gateCtl {
	g := &gateCtl{
		wake: make(chan struct{}, 1),
		hold: make(chan struct{}),
		stop: make(chan struct{}),
		rnd:  hx.NewRand(seed),
	}
	if !hold {
		close(g.hold)
	}
	return g
}

// pass blocks the calling probe until the controller releases it.
func (g *gateCtl) pass(t, i int) {
	g.mu.Lock()
	if g.open {
		g.mu.Unlock()
		return
	}
	ch := make(chan struct{})
	g.blocked = append(g.blocked, gate{t, i, ch})
	g.mu.Unlock()
	select {
	case g.wake <- struct{}{}:
	default:
	}
	timer := time.NewTimer(gateWatchdog)
	defer timer.Stop()
	select {
	case <-ch:
	case <-timer.C:
	}
}

// releaseHold lets the controller start (no-op when hold=0).
func (g *gateCtl) releaseHold() {
	select {
	case <-g.hold:
	default:
		close(g.hold)
	}
}

// releaseAll ends the controller: whatever is or later becomes blocked passes at once.
func (g *gateCtl) releaseAll() {
	g.mu.Lock()
	if !g.open {
		g.open = true
		close(g.stop)
	}
	for _, b := range g.blocked {
		close(b.ch)
	}
	g.blocked = nil
	g.mu.Unlock()
}

func (g *gateCtl) loop() {
	select {
	case <-g.hold:
	case <-g.stop:
		return
	}
	for {
		select {
		case <-g.wake:
		case <-g.stop:
			return
		}
		for {
			// let more probes arrive so that the choice below is a real one
			d := time.Duration(g.rnd.Intn(300)) * time.Microsecond
			if g.rnd.Chance(1, 16) {
				d = time.Duration(g.rnd.Intn(2000)) * time.Microsecond
			}
			time.Sleep(d)
			g.mu.Lock()
			n := len(g.blocked)
			if n == 0 || g.open {
				g.mu.Unlock()
				break
			}
			k := g.rnd.Intn(n)
			close(g.blocked[k].ch)
			g.blocked = append(g.blocked[:k], g.blocked[k+1:]...)
			g.mu.Unlock()
		}
	}
}

// ---- steering controller -------------------------------------------------------------------

// steerCtl holds one handler of a steered try block at its FIRST command (after the `cmd h 0`
// event has been recorded, before the command returns) until it has seen the fate of the other
// handler: the event `cmd w 0` (modes s, f), `done w` or a refused handler submission `hrej` of
// the same try.  The model says that this must happen without the held handler moving
// (Props/C16.stall_free), so the controller waits generously; if nothing happens it records
// `stall w` and lets the held handler go.  Nothing is ever concluded from "did not happen within
// t" except through that explicit event.
type steerCtl struct {
	mu      sync.Mutex
	c       *Case
	rec     *recorder
	started map[int]bool   // cmd t 0 recorded
	closed  map[int]bool   // done t recorded
	body    map[int]string // task id of a try body -> ok | fail, once its close was recorded
	rejTry  map[int]bool   // try k: a handler submission was refused
	changed chan struct{}  // closed and replaced whenever something above changes
	open    bool           // end of case: nothing is held any more
}

func newSteerCtl(c *Case, rec *recorder) *steerCtl {
	return &steerCtl{c: c, rec: rec, started: map[int]bool{}, closed: map[int]bool{}, body: map[int]string{},
		rejTry: map[int]bool{}, changed: make(chan struct{})}
}

func (s *steerCtl) bump() {
	close(s.changed)
	s.changed = make(chan struct{})
}

// note is called right AFTER the corresponding event has been recorded.
func (s *steerCtl) noteStart(t int) {
	s.mu.Lock()
	s.started[t] = true
	s.bump()
	s.mu.Unlock()
}

func (s *steerCtl) noteDone(t int, res string) {
	if t < 0 || t >= len(s.c.Tasks) {
		return
	}
	s.mu.Lock()
	s.closed[t] = true
	if s.c.Tasks[t].Role == RoleTBody {
		s.body[t] = res
	}
	s.bump()
	s.mu.Unlock()
}

func (s *steerCtl) noteRej(h int) {
	if h < 0 || h >= len(s.c.Tasks) {
		return
	}
	s.mu.Lock()
	s.rejTry[s.c.Tasks[h].K] = true
	s.bump()
	s.mu.Unlock()
}

func (s *steerCtl) releaseAll() {
	s.mu.Lock()
	s.open = true
	s.bump()
	s.mu.Unlock()
}

// stallsSeen counts the stalls recorded by this worker process.  The first one is waited for
// generously; once a worker has seen a stall (the property is already violated on that case)
// later waits are short, and after maxStalls stalls the worker stops holding handlers altogether
// (it has reported enough), so that a tree on which every steered case stalls is reported in
// bounded time.  On a tree that never stalls nothing changes.
var stallsSeen int32

const maxStalls = 3

func stallWait() time.Duration {
	if atomic.LoadInt32(&stallsSeen) > 0 {
		return stallShort
	}
	return stallWatchdog
}

// hold is called by the first command of task h (any probe kind) after its `cmd` event.
func (s *steerCtl) hold(h int) {
	if len(s.c.Steer) == 0 || h < 0 || h >= len(s.c.Tasks) || atomic.LoadInt32(&stallsSeen) >= maxStalls {
		return
	}
	t := s.c.Tasks[h]
	if t.Role != RoleHSucc && t.Role != RoleHFail && t.Role != RoleHFin {
		return
	}
	mode, ok := s.c.Steer[t.K]
	if !ok {
		return
	}
	y := s.c.Tries[t.K]
	untilDone := mode == 'S' || mode == 'F'
	deadline := time.NewTimer(stallWait())
	defer deadline.Stop()
	for {
		s.mu.Lock()
		target := NoTask
		switch {
		case t.Role == RoleHFin && (mode == 'f' || mode == 'F'):
			// the handler selected by the recorded close of the body
			switch s.body[y.Body] {
			case "ok":
				target = y.Succ
			case "fail":
				target = y.Fail
			}
		case t.Role != RoleHFin && (mode == 's' || mode == 'S'):
			target = y.Fin
		}
		seen := target == NoTask || s.open || s.closed[target] || s.rejTry[t.K] || (!untilDone && s.started[target])
		ch := s.changed
		s.mu.Unlock()
		if seen {
			return
		}
		select {
		case <-ch:
		case <-deadline.C:
			atomic.AddInt32(&stallsSeen, 1)
			s.rec.emit("stall %d", target)
			return
		}
	}
}

// ---- recording wrapper around the PipRunner service ----------------------------------------

// recRunner records the outcome of the handler submissions of pip:try (Name finally / fail /
// success): `hacc h` when Runner.Run returned nil, `hrej h` when it returned an error.  Every
// other submission passes through unrecorded (pip:run and the try body are bracketed by the
// probe commands, top-level tasks by the main thread).
type recRunner struct {
	inner pipservices.Runner
	r     *run
}

func (w *recRunner) Run(pip pipservices.Pip) error {
	err := w.inner.Run(pip)
	if err == nil && pip.Context.Scope != nil {
		// the task manager the runner has just put the task into (Runner.Run looked it up in the same scope)
		hx.Guard(func() {
			if tm, terr := w.r.tasksUnit.FromScope(pip.Context.Scope); terr == nil {
				w.r.noteManager(tm)
			}
		})
	}
	if (pip.Name == "finally" || pip.Name == "fail" || pip.Name == "success") && pip.Namespaces != nil {
		full := namespaces.NewSubNamespaces(pip.Namespaces, pipservices.NamasepacesParams{Task: pip.Name}).Task()
		h := w.r.c.taskOfName(full)
		if err != nil {
			w.r.rec.emit("hrej %d", h)
			w.r.steer.noteRej(h)
		} else {
			w.r.rec.emit("hacc %d", h)
		}
	}
	return err
}

// ---- one case ------------------------------------------------------------------------------

type run struct {
	c     *Case
	rec   *recorder
	gates *gateCtl
	steer *steerCtl

	tasksUnit pipservices.TasksUnit
	mgrMu     sync.Mutex
	managers  []pipservices.TasksManager // every manager a submission of this case went into, in order of first use
}

// noteManager remembers a task manager the runner used.  On the unchanged tree a case has ONE (the manager of the
// session scope, inherited by every task below) unless a body ran pip:clear (the next pipeline command of that body
// then creates its own) or the scripts run directly in a session (the first pipeline command creates it).
func (r *run) noteManager(tm pipservices.TasksManager) {
	r.mgrMu.Lock()
	defer r.mgrMu.Unlock()
	for _, m := range r.managers {
		if m == tm {
			return
		}
	}
	r.managers = append(r.managers, tm)
}

func (r *run) managerAt(i int) pipservices.TasksManager {
	r.mgrMu.Lock()
	defer r.mgrMu.Unlock()
	if i < len(r.managers) {
		return r.managers[i]
	}
	return nil
}

// taskSID recognises the scope the runner executes a task in: an unnamed child of the task
// scope `…(task:<full name>)`.  Command scopes end with `(command:…)`, the task scope itself
// with `(task:…)`; neither matches.
var taskSID = regexp.MustCompile(`\(task:([^()]*)\)-[^-()]+$`)

// onClose is the root listener for CommitEvent (res=ok) / RollbackEvent (res=fail).  It runs
// inside Scope.Close of the closing scope: it only records, never blocks, never fails.
func (r *run) onClose(res string) app.EventCallback {
	return func(data interface{}) error {
		if p, _ := hx.Guard(func() {
			scp, ok := data.(app.Scope)
			if !ok || scp == nil {
				return
			}
			if m := taskSID.FindStringSubmatch(scp.SID()); m != nil {
				id := r.c.taskOfName(m[1])
				r.rec.emit("done %d %s", id, res)
				r.steer.noteDone(id, res)
			}
		}); p {
			r.rec.emit("panic")
		}
		return nil
	}
}

var errProbe = errors.New("probe failed")

// probe builds the callback of one probe command.  kind: p plain, g gated, f failing,
// s = pip:run bracketed by events, y = pip:try bracketed by events, t = stops the scope it runs
// in (Scope.Stop: done without an error), c = pip:clear bracketed by events, m = marker in front of an unknown / truncated command:
// it records `cmd` and `ret … err` for the position at which RunLoop is about to fail and returns nil.
func (r *run) probe(kind byte) func(a app.App, ctx app.IOContext) error {
	return func(a app.App, ctx app.IOContext) (err error) {
		var deps struct {
			T string `command:"?t"`
			I string `command:"?i"`
		}
		if err = ctx.Scope().InjectTo(&deps); err != nil {
			r.rec.emit("panic") // cannot happen: our own scripts always carry --t and --i
			return err
		}
		t, _ := strconv.Atoi(deps.T)
		i, _ := strconv.Atoi(deps.I)
		r.rec.emit("cmd %d %d", t, i)
		if i == 0 {
			r.steer.noteStart(t)
			r.steer.hold(t)
		}
		switch kind {
		case 'g':
			r.gates.pass(t, i)
		case 'f':
			err = errProbe
		case 't':
			if p, _ := hx.Guard(func() { ctx.Scope().Stop() }); p {
				r.rec.emit("panic")
			}
		case 'm':
			r.rec.emit("ret %d %d err", t, i)
			return nil
		case 's', 'y', 'c':
			if p, _ := hx.Guard(func() {
				switch kind {
				case 's':
					err = pipc.Run(a, ctx)
				case 'y':
					err = pipc.Try(a, ctx)
				default:
					err = pipc.Clear(a, ctx)
				}
			}); p {
				r.rec.emit("panic")
				err = errProbe
			}
		}
		if err != nil {
			r.rec.emit("ret %d %d err", t, i)
		} else {
			r.rec.emit("ret %d %d ok", t, i)
		}
		return err
	}
}

// newApp assembles the application exactly like /repo/app/modules/pipelinem/main_test.go.
func newApp(r *run) (*goatapp.MockupApp, error) {
	mapp, err := goatapp.NewMockupApp(goatapp.Params{})
	if err != nil {
		return nil, err
	}
	// a (non-default) factory registered first wins over the module's default factory: the real
	// runner, wrapped by the recorder of handler submissions
	if err = mapp.DependencyProvider().AddFactory(pipservices.RunnerService, func(dp app.DependencyProvider) (interface{}, error) {
		inner, ferr := runner.Factory(dp)
		if ferr != nil {
			return nil, ferr
		}
		return pipservices.Runner(&recRunner{inner: inner.(pipservices.Runner), r: r}), nil
	}); err != nil {
		return nil, err
	}
	bs := bootstrap.NewBootstrap(mapp)
	for _, m := range []app.Module{terminalm.NewModule(), commonm.NewModule(), ocm.NewModule(), pipelinem.NewModule()} {
		if err = bs.Register(m); err != nil {
			return nil, err
		}
	}
	if err = bs.Init(); err != nil {
		return nil, err
	}
	return mapp, nil
}

// execute runs the case; every event goes to r.rec.
func (r *run) execute() {
	mapp, err := newApp(r)
	if err != nil {
		r.rec.emit("panic")
		return
	}
	for _, reg := range []struct {
		name string
		kind byte
	}{{"probe:begin", 'p'}, {"probe:end", 'p'}, {"probe:gate", 'g'}, {"probe:fail", 'f'}, {"probe:run", 's'}, {"probe:try", 'y'},
		{"probe:stop", 't'}, {"probe:mark", 'm'}, {"probe:clear", 'c'}} {
		mapp.Terminal().SetCommand(terminal.NewCommand(terminal.CommandParams{Name: reg.name, Callback: r.probe(reg.kind)}))
	}
	var deps struct {
		Runner    pipservices.Runner    `dependency:"PipRunner"`
		TasksUnit pipservices.TasksUnit `dependency:"PipTasksUnit"`
		Terminal  termservices.Terminal `dependency:"TerminalService"`
	}
	if err = mapp.DependencyProvider().InjectTo(&deps); err != nil {
		r.rec.emit("panic")
		return
	}
	r.tasksUnit = deps.TasksUnit
	appScope := mapp.Scopes().App()
	root := r.newSession(appScope)
	if root != appScope && r.c.sessionKind() == "term" {
		// ends the watcher goroutine of the isolated context (contextscope.NewIsolated)
		defer hx.Guard(func() { root.Stop() })
	}
	cwd := mapp.Filespaces().CWD()
	// every descendant scope hands its events to the listeners of all its ancestors
	root.On(app.CommitEvent, r.onClose("ok"))
	root.On(app.RollbackEvent, r.onClose("fail"))

	go r.gates.loop()
	defer r.gates.releaseAll()
	defer r.steer.releaseAll()

	// pauses of the main thread between submissions come from their own stream so that the
	// controller (another goroutine) keeps a deterministic one
	pause := hx.NewRand(r.c.Seed ^ 0x9e3779b97f4a7c15)
	if r.c.direct() {
		// nothing holds a gate for the main thread's sake: the scripts run on it
		r.gates.releaseHold()
	}
	for _, t := range r.c.Top {
		r.rec.emit("sub %d", t)
		if r.c.direct() {
			r.runDirect(deps.Terminal, root, cwd, t)
			continue
		}
		err = deps.Runner.Run(pipservices.Pip{
			Context: pipservices.PipContext{
				In:    newScriptInput(r.rec, t, r.c.scriptLines(t)),
				Out:   gio.NewNilOutput(),
				Err:   gio.NewNilOutput(),
				CWD:   cwd,
				Scope: root,
			},
			Name:       taskName(t),
			Namespaces: namespaces.NewNamespaces(pipservices.NamasepacesParams{}),
			Sandbox:    "self",
			Lock:       commservices.LockMap{},
			Wait:       waitNames(r.c.Tasks[t].Wait),
		})
		if err != nil {
			r.rec.emit("rej %d", t)
		} else {
			r.rec.emit("acc %d", t)
		}
		if !r.c.Hold && pause.Chance(1, 4) {
			time.Sleep(time.Duration(pause.Intn(200)) * time.Microsecond)
		}
	}
	r.gates.releaseHold()

	if !r.c.direct() {
		// the manager of the session scope comes first (it exists even when every submission was refused)
		tm, terr := deps.TasksUnit.FromScope(root)
		if terr != nil {
			r.rec.emit("panic")
			return
		}
		r.mgrMu.Lock()
		rest := []pipservices.TasksManager{tm}
		for _, m := range r.managers {
			if m != tm {
				rest = append(rest, m)
			}
		}
		r.managers = rest
		r.mgrMu.Unlock()
	}
	// Wait of every manager, the session's first: when it has returned, everything nested below its tasks has
	// closed (a task scope waits for what was started in it), so the list is complete by the time it is walked.
	failed := false
	for i := 0; ; i++ {
		tm := r.managerAt(i)
		if tm == nil {
			break
		}
		waited := make(chan error, 1)
		go func() {
			var werr error
			if p, _ := hx.Guard(func() { werr = tm.Wait() }); p {
				r.rec.emit("panic")
			}
			waited <- werr
		}()
		timer := time.NewTimer(mwaitTimeout())
		select {
		case werr := <-waited:
			timer.Stop()
			failed = failed || werr != nil
		case <-timer.C:
			atomic.AddInt32(&hangsSeen, 1)
			r.rec.emit("mwait hang")
			return // the deferred releaseAll frees whatever still sits at a gate
		}
	}
	if r.c.direct() && root.Err() != nil {
		// the scripts that ran directly in the session belong to no manager: the session's context is theirs
		failed = true
	}
	if failed {
		r.rec.emit("mwait err")
	} else {
		r.rec.emit("mwait ok")
	}

	if r.c.direct() {
		for _, t := range r.c.Top {
			if root.Err() != nil {
				r.rec.emit("fin %d fail", t)
			} else {
				r.rec.emit("fin %d ok", t)
			}
		}
	}
	for i := 0; ; i++ {
		tm := r.managerAt(i)
		if tm == nil {
			break
		}
		r.reportTable(tm)
	}
	if root.Err() != nil || appScope.Err() != nil {
		r.rec.emit("root err")
	} else {
		r.rec.emit("root ok")
	}
}

// reportTable prints the `fin` line of every task of one manager.
func (r *run) reportTable(tm pipservices.TasksManager) {
	names := tm.Names()
	sort.Strings(names)
	for _, name := range names {
		id := r.c.taskOfName(name)
		task, ok := tm.Get(name)
		if !ok {
			r.rec.emit("fin %d hang", id)
			continue
		}
		finished := make(chan struct{})
		go func() {
			hx.Guard(func() { task.Wait() })
			close(finished)
		}()
		ft := time.NewTimer(finWatchdog)
		select {
		case <-finished:
			if len(task.Errors()) != 0 {
				r.rec.emit("fin %d fail", id)
			} else {
				r.rec.emit("fin %d ok", id)
			}
		case <-ft.C:
			r.rec.emit("fin %d hang", id)
		}
		ft.Stop()
	}
}

// newSession creates the scope the scripts of the case run in (scope= of the graph line).
func (r *run) newSession(appScope app.Scope) app.Scope {
	switch r.c.sessionKind() {
	case "new":
		// a session with a scope of its own (a request scope, the scope handed to Terminal.RunString by a caller
		// that is not the application's terminal): nothing is shared with the application scope
		return scope.New(scope.Params{Name: "session"})
	case "child":
		// scope.NewChild defaults: context shared with the parent, data and events are children of the parent's
		return scope.NewChild(appScope, scope.ChildParams{Name: "session"})
	case "term":
		// as /repo/app/modules/terminalm/termcommands/termc/terminal.go runLoop: isolated context, the DATA of
		// the application scope itself, events not shared upwards… (child event scope)
		return scope.NewChild(appScope, scope.ChildParams{
			ContextScope: contextscope.NewIsolated(appScope),
			DataScope:    appScope.BaseDataScope(),
		})
	}
	return appScope
}

// runDirect runs the script of top-level task t in the session the way a terminal session does: Terminal.RunLoop on
// a context whose scope SHARES the session's data (so whatever the commands leave there — the task manager created
// by the first pipeline command — is what the next script finds), one script after the other.  The envelope is the
// one of Runner.runGo: RunLoop, the error it returns is appended, Wait, Close; the scope is labelled like a task's
// (`…(task:tN)-<id>`) so that its Commit / Rollback is recorded as `done t`.
func (r *run) runDirect(term termservices.Terminal, session app.Scope, cwd filesystem.Filespace, t int) {
	label := scope.NewChild(session, scope.ChildParams{Name: "task:" + taskName(t), DataScope: session.BaseDataScope()})
	runScope := scope.NewChild(label, scope.ChildParams{DataScope: session.BaseDataScope()})
	ctx := gio.NewIOContext(runScope, gio.NewIO(gio.IOParams{
		In:  newScriptInput(r.rec, t, r.c.scriptLines(t)),
		Out: gio.NewNilOutput(),
		Err: gio.NewNilOutput(),
		CWD: cwd,
	}))
	r.rec.emit("acc %d", t)
	if p, _ := hx.Guard(func() {
		if err := term.RunLoop(ctx, ""); err != nil {
			runScope.AppendError(err)
		}
		runScope.Wait()
		runScope.Close()
		label.Close()
	}); p {
		r.rec.emit("panic")
	}
}

// hangsSeen counts the cases of this worker process whose TasksManager.Wait did not return.  The first
// one is waited for generously; once a worker has seen a hang (the property is already violated on that
// case) later cases get a short watchdog, so that a tree on which many cases hang is reported in bounded
// time.  On a tree where Wait always returns nothing changes.
var hangsSeen int32

func mwaitTimeout() time.Duration {
	if atomic.LoadInt32(&hangsSeen) > 0 {
		return 3 * time.Second
	}
	return mwaitWatchdog
}

// driveCase prints the header (unless the caller does that itself), the events and `end` of
// one case.
func driveCase(c *Case, w io.Writer, header bool) {
	if header {
		c.writeHeader(w)
	}
	rec := &recorder{out: w}
	r := &run{c: c, rec: rec, gates: newGateCtl(c.Seed, c.Hold), steer: newSteerCtl(c, rec)}
	base := runtime.NumGoroutine()
	if p, _ := hx.Guard(r.execute); p {
		r.gates.releaseAll()
		r.steer.releaseAll()
		r.rec.emit("panic")
	}
	settle(base)
	r.rec.close()
	fmt.Fprintln(w, "end")
}

// settle waits until the goroutines started by the case have ended (the count is back at what it
// was before the case), generously but not for ever.  A goroutine of the code under test that
// outlives `TasksManager.Wait` (a task that runs detached from its owner) and then panics would
// otherwise kill the worker in the middle of a LATER case and be blamed on that one.  Nothing is
// concluded from the wait itself.
func settle(base int) {
	if os.Getenv("PIPELINE_DEBUG_SETTLE") != "" {
		defer func(t0 time.Time) {
			fmt.Fprintf(os.Stderr, "settle base=%d now=%d waited=%v\n", base, runtime.NumGoroutine(), time.Since(t0))
		}(time.Now())
	}
	deadline := time.Now().Add(settleWatchdog)
	for runtime.NumGoroutine() > base && time.Now().Before(deadline) {
		time.Sleep(50 * time.Microsecond)
	}
}
