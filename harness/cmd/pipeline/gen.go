package main

// Generators of the case families (c14, c16, c16s steered, c16x scope kinds / pip:clear).  All randomness comes from ONE PRNG seeded from
// VERIF_SEED; the per-case `seed=` field (used by `drive` for its scheduling policy) is drawn
// from it as well.

import (
	"fmt"
	"io"
	"sort"
	"strings"

	"gcverif/internal/hx"
)

const (
	maxDepth    = 3  // deepest nesting of a submission (top = 0)
	maxTasks    = 16 // per case, the deep chain excepted
	chainLength = 103
)

// stats is the distribution printed as `genstats` on stderr.
type stats map[string]int

func (s stats) print(w io.Writer, family string, n int) {
	keys := make([]string, 0, len(s))
	for k := range s {
		keys = append(keys, k)
	}
	sort.Strings(keys)
	parts := []string{fmt.Sprintf("family=%s cases=%d", family, n)}
	for _, k := range keys {
		parts = append(parts, fmt.Sprintf("%s=%d", k, s[k]))
	}
	fmt.Fprintf(w, "genstats %s\n", strings.Join(parts, " "))
}

// builder grows one case.
type builder struct {
	r      *hx.Rand
	c      *Case
	budget int  // pip:run / top-level tasks that may still be created
	pFail  int  // per cent: probability that a pip:run / top-level task gets an `f`
	pTry   int  // per cent: probability of a `y` in a middle position (c14)
	noBad  bool // no deliberately bad wait entries
	st     stats
	caseSt map[string]bool // per case flags folded into st at the end
}

func (b *builder) flag(name string) { b.caseSt[name] = true }

func (b *builder) room() int { return maxTasks - len(b.c.Tasks) }

func (b *builder) newTask(role Role, depth, ctx int) *Task {
	t := &Task{ID: len(b.c.Tasks), Role: role, Depth: depth, Ctx: ctx}
	b.c.Tasks = append(b.c.Tasks, t)
	return t
}

// child creates the task submitted by command i of p through pip:run.
func (b *builder) child(p *Task, i int) *Task {
	t := b.newTask(RoleChild, p.Depth+1, p.Ctx)
	t.P, t.I = p.ID, i
	b.flag("with_nested")
	return t
}

// simpleBody is a handler-style body: n commands of p/g, one `f` at a random place if failing.
func (b *builder) simpleBody(n int, failing bool) []Cmd {
	body := make([]Cmd, n)
	for i := range body {
		body[i] = Cmd{Kind: 'p'}
		if b.r.Chance(2, 5) {
			body[i].Kind = 'g'
		}
	}
	if failing {
		// the failing position: a command that returns an error, now and then an unknown command name or
		// (last position only) a command whose text is cut off
		switch x := b.r.Intn(100); {
		case x < 70:
			body[b.r.Intn(n)] = Cmd{Kind: 'f'}
		case x < 85:
			body[b.r.Intn(n)] = Cmd{Kind: 'x'}
			b.st["cmd_unknown"]++
		default:
			body[n-1] = Cmd{Kind: 'q'}
			b.st["cmd_truncated"]++
		}
	}
	return body
}

// maybeStop turns one command of a simple try body (no nested submission: the context is the body's
// own) into a command that stops its scope.
func (b *builder) maybeStop(body []Cmd, num, den int) {
	if len(body) != 0 && b.r.Chance(num, den) {
		k := b.r.Intn(len(body))
		if body[k].Kind == 'p' || body[k].Kind == 'g' {
			body[k] = Cmd{Kind: 't'}
			b.st["cmd_stop"]++
		}
	}
}

// refail replaces the failing command `f` of a simple body by an unknown command (x) or moves the
// failure to a truncated last command (q).
func refail(body []Cmd, kind byte) {
	for k := range body {
		if body[k].Kind == 'f' || body[k].Kind == 'x' || body[k].Kind == 'q' {
			if kind == 'x' {
				body[k] = Cmd{Kind: 'x'}
			} else {
				body[k] = Cmd{Kind: 'p'}
				body[len(body)-1] = Cmd{Kind: 'q'}
			}
			return
		}
	}
}

// newTry creates try k owned by command i of p: the body task and the handlers chosen by hs
// (succ, fail, fin: 0 absent, 1 present, 2 present and failing) with simple bodies.  The body
// task is returned with an empty body for the caller to fill.
func (b *builder) newTry(p *Task, i int, hs [3]int) (*Try, *Task) {
	y := &Try{K: len(b.c.Tries), OwnerP: p.ID, OwnerI: i, Succ: NoTask, Fail: NoTask, Fin: NoTask}
	b.c.Tries = append(b.c.Tries, y)
	body := b.newTask(RoleTBody, p.Depth+1, y.K+1)
	body.K = y.K
	y.Body = body.ID
	roles := [3]Role{RoleHSucc, RoleHFail, RoleHFin}
	slots := [3]*int{&y.Succ, &y.Fail, &y.Fin}
	subset := ""
	for j, h := range hs {
		if h == 0 {
			subset += "-"
			continue
		}
		subset += string("sfn"[j])
		t := b.newTask(roles[j], p.Depth+1, p.Ctx)
		t.K = y.K
		t.Body = b.simpleBody(1+b.r.Intn(3), h == 2)
		*slots[j] = t.ID
		if h == 2 {
			b.st["handler_failing_"+string("sfn"[j])]++
		}
	}
	b.st["try_handlers_"+subset]++
	b.st["tries"]++
	b.flag("with_try")
	return y, body
}

func (b *builder) randHandlers() [3]int {
	var hs [3]int
	for j := range hs {
		if b.r.Chance(1, 2) {
			hs[j] = 1
			if b.r.Chance(1, 5) {
				hs[j] = 2
			}
		}
	}
	return hs
}

// ---- c14 -----------------------------------------------------------------------------------

// fillGroup gives wait lists and bodies to a list of siblings (same submitter, in submission
// order).  Wait lists name earlier siblings; a bad entry is a name that never exists, a later
// sibling or the task itself.
func (b *builder) fillGroup(sibs []*Task) {
	for idx, t := range sibs {
		n := []int{0, 0, 1, 1, 2, 3}[b.r.Intn(6)]
		if n > idx {
			n = idx
		}
		pool := make([]int, idx)
		for j := range pool {
			pool[j] = sibs[j].ID
		}
		for j := 0; j < n; j++ { // partial Fisher-Yates: random subset in random order
			k := j + b.r.Intn(len(pool)-j)
			pool[j], pool[k] = pool[k], pool[j]
		}
		t.Wait = append([]int{}, pool[:n]...)
		if !b.noBad && b.r.Chance(8, 100) {
			bad := FirstGhost + b.r.Intn(5)
			kind := "ghost"
			switch b.r.Intn(3) {
			case 1:
				if idx+1 < len(sibs) {
					bad, kind = sibs[idx+1+b.r.Intn(len(sibs)-idx-1)].ID, "later"
				}
			case 2:
				bad, kind = t.ID, "self"
			}
			at := b.r.Intn(len(t.Wait) + 1)
			t.Wait = append(t.Wait[:at], append([]int{bad}, t.Wait[at:]...)...)
			b.st["badwait_"+kind]++
			b.flag("with_bad_wait")
		}
		if len(t.Wait) != 0 {
			b.st["tasks_with_wait"]++
		}
	}
	for _, t := range sibs {
		b.fillBody(t)
	}
}

// fillBody: 2-5 commands, first and last `p`, the middle from g / p / f / s<c> / y<k>.
func (b *builder) fillBody(t *Task) {
	mid := b.r.Intn(4)
	failing := b.r.Intn(100) < b.pFail
	if failing && mid == 0 {
		mid = 1
	}
	body := []Cmd{{Kind: 'p'}}
	var children []*Task
	failAt := -1
	if failing {
		failAt = b.r.Intn(mid)
		b.flag("with_failing_task")
		b.st["failing_tasks"]++
		b.st[fmt.Sprintf("fail_index_%d", failAt+1)]++
	}
	hasGate := false
	for m := 0; m < mid; m++ {
		i := len(body)
		x := b.r.Intn(100)
		switch {
		case m == failAt:
			if b.r.Chance(1, 5) {
				body = append(body, Cmd{Kind: 'x'})
				b.st["cmd_unknown"]++
			} else {
				body = append(body, Cmd{Kind: 'f'})
			}
		case x < b.pTry && t.Depth < maxDepth && b.room() >= 4:
			y, tb := b.newTry(t, i, b.randHandlers())
			tb.Body = b.simpleBody(1+b.r.Intn(3), b.r.Chance(2, 5))
			b.maybeStop(tb.Body, 1, 6)
			body = append(body, Cmd{Kind: 'y', Arg: y.K})
		case x < b.pTry+30 && t.Depth < maxDepth && b.budget > 0 && b.room() > 0:
			b.budget--
			ch := b.child(t, i)
			children = append(children, ch)
			body = append(body, Cmd{Kind: 's', Arg: ch.ID})
		case x < b.pTry+45:
			body = append(body, Cmd{Kind: 'p'})
		default:
			body = append(body, Cmd{Kind: 'g'})
			hasGate = true
		}
	}
	if !hasGate && b.r.Chance(7, 10) && len(body) < 4 {
		// most bodies hold at least one gate so that tasks truly overlap
		body = append(body, Cmd{Kind: 'g'})
	}
	if b.pFail > 0 && b.r.Chance(1, 25) {
		// the text of the body is cut off inside its last command
		t.Body = append(body, Cmd{Kind: 'q'})
		b.st["cmd_truncated"]++
		b.flag("with_failing_task")
	} else {
		t.Body = append(body, Cmd{Kind: 'p'})
	}
	if len(children) != 0 {
		b.fillGroup(children)
	}
}

func genC14(r *hx.Rand, c *Case, st stats) map[string]bool {
	b := &builder{r: r, c: c, st: st, caseSt: map[string]bool{}, pTry: 10}
	if r.Chance(1, 2) {
		b.pFail = 25
	} else {
		b.flag("no_failing_probe")
	}
	total := 1 + r.Intn(12)
	nTop := 1 + r.Intn(total)
	if nTop > 6 {
		nTop = 1 + r.Intn(6)
	}
	b.budget = total - nTop
	tops := make([]*Task, nTop)
	for i := range tops {
		tops[i] = b.newTask(RoleTop, 0, 0)
		c.Top = append(c.Top, tops[i].ID)
	}
	b.fillGroup(tops)
	return b.caseSt
}

// genChain: 103 top-level tasks, task j waits for j-1: the wait chain of the last ones is
// deeper than validWaitList allows (100).
func genChain(c *Case) {
	for j := 0; j < chainLength; j++ {
		t := &Task{ID: j, Role: RoleTop, Body: []Cmd{{Kind: 'p'}}}
		if j > 0 {
			t.Wait = []int{j - 1}
		}
		c.Tasks = append(c.Tasks, t)
		c.Top = append(c.Top, j)
	}
}

// genFanOut ("fan-out after failure"): one top-level task F that fails behind a gate (directly
// at a random index, or through a nested child) and 4-10 top-level dependents that wait for F
// (some also for earlier dependents) with bodies of 3-5 plain probes, hold=1.  A runner that
// ignores a failed prerequisite only shows when a dependent's RunLoop wins the race against
// the closed Done() channel of the shared context; many ungated dependents per case raise the
// chance of seeing it.
func genFanOut(r *hx.Rand, c *Case, st stats) map[string]bool {
	b := &builder{r: r, c: c, st: st, caseSt: map[string]bool{}}
	c.Hold = true
	f := b.newTask(RoleTop, 0, 0)
	c.Top = append(c.Top, f.ID)
	b.flag("with_failing_task")
	switch r.Intn(4) {
	case 0: // the failure happens inside a nested child
		ch := b.child(f, 2)
		ch.Body = []Cmd{{Kind: 'p'}, {Kind: 'f'}, {Kind: 'p'}}
		if r.Chance(1, 2) {
			ch.Body = []Cmd{{Kind: 'p'}, {Kind: 'g'}, {Kind: 'f'}}
		}
		f.Body = []Cmd{{Kind: 'p'}, {Kind: 'g'}, {Kind: 's', Arg: ch.ID}, {Kind: 'p'}}
		st["fanout_fail_nested"]++
	case 1: // fails at a random index >= 1, always behind a gate so that every dependent is submitted first
		n := 3 + r.Intn(3)
		at := 1 + r.Intn(n-1)
		f.Body = make([]Cmd, n)
		for i := range f.Body {
			f.Body[i] = Cmd{Kind: 'p'}
		}
		f.Body[r.Intn(at)] = Cmd{Kind: 'g'}
		f.Body[at] = Cmd{Kind: 'f'}
		st[fmt.Sprintf("fanout_fail_index_%d", at)]++
	default:
		f.Body = []Cmd{{Kind: 'p'}, {Kind: 'g'}, {Kind: 'f'}, {Kind: 'p'}}
		st["fanout_fail_index_2"]++
	}
	nDep := 4 + r.Intn(7)
	var deps []int
	for j := 0; j < nDep; j++ {
		t := b.newTask(RoleTop, 0, 0)
		c.Top = append(c.Top, t.ID)
		t.Wait = []int{f.ID}
		if len(deps) != 0 && r.Chance(1, 3) {
			other := deps[r.Intn(len(deps))]
			if r.Chance(1, 2) {
				t.Wait = []int{other, f.ID}
			} else {
				t.Wait = []int{f.ID, other}
			}
		}
		for n := 3 + r.Intn(3); n > 0; n-- {
			t.Body = append(t.Body, Cmd{Kind: 'p'})
		}
		deps = append(deps, t.ID)
	}
	st["fanout_dependents"] += nDep
	b.flag("fanout")
	return b.caseSt
}

// ---- c16 -----------------------------------------------------------------------------------

// Shapes of a try body.
const (
	shapeOK         = iota // p/g commands only
	shapeFail0             // three commands, `f` at index 0
	shapeFail1             // … at index 1
	shapeFail2             // … at index 2
	shapeNestedOK          // p, s<c>, p with a succeeding child
	shapeNestedFail        // p, s<c>, p with a failing child
	shapeNestedTry         // p, y<k'>, p with a random inner try
	nShapes
)

var shapeNames = [nShapes]string{"ok", "fail0", "fail1", "fail2", "nested_ok", "nested_fail", "nested_try"}

const nCombos = 27 * nShapes // (absent | ok | failing)^3 handlers x body shapes

// fillTryBody gives the body task of a try the requested shape.
func (b *builder) fillTryBody(tb *Task, shape int) {
	switch shape {
	case shapeOK:
		tb.Body = b.simpleBody(1+b.r.Intn(3), false)
		b.maybeStop(tb.Body, 1, 6)
	case shapeFail0, shapeFail1, shapeFail2:
		tb.Body = b.simpleBody(3, false)
		tb.Body[shape-shapeFail0] = Cmd{Kind: 'f'}
		if b.r.Chance(1, 5) {
			tb.Body[shape-shapeFail0] = Cmd{Kind: 'x'}
			b.st["cmd_unknown"]++
		} else if shape == shapeFail2 && b.r.Chance(1, 3) {
			tb.Body[2] = Cmd{Kind: 'q'}
			b.st["cmd_truncated"]++
		}
	case shapeNestedOK, shapeNestedFail:
		ch := b.child(tb, 1)
		ch.Body = []Cmd{{Kind: 'p'}, {Kind: 'g'}, {Kind: 'p'}}
		if shape == shapeNestedFail {
			ch.Body[1+b.r.Intn(2)] = Cmd{Kind: 'f'}
		}
		tb.Body = []Cmd{{Kind: 'p'}, {Kind: 's', Arg: ch.ID}, {Kind: 'p'}}
	case shapeNestedTry:
		y, inner := b.newTry(tb, 1, b.randHandlers())
		b.fillTryBody(inner, b.r.Intn(shapeNestedOK)) // ok or fails at j
		tb.Body = []Cmd{{Kind: 'p'}, {Kind: 'y', Arg: y.K}, {Kind: 'p'}}
	}
	b.st["try_body_"+shapeNames[shape]]++
}

func decodeCombo(n int) (hs [3]int, shape int) {
	shape = n % nShapes
	n /= nShapes
	for j := range hs {
		hs[j] = n % 3
		n /= 3
	}
	return
}

func genC16(r *hx.Rand, c *Case, st stats, combo int) map[string]bool {
	b := &builder{r: r, c: c, st: st, caseSt: map[string]bool{}}
	nTop := 1 + r.Intn(3)
	owner := r.Intn(nTop)
	sibFails := nTop > 1 && r.Chance(2, 5)
	failSib := -1
	if sibFails {
		failSib = (owner + 1 + r.Intn(nTop-1)) % nTop
		b.flag("with_failing_sibling")
	}
	tops := make([]*Task, nTop)
	for i := range tops {
		tops[i] = b.newTask(RoleTop, 0, 0)
		c.Top = append(c.Top, tops[i].ID)
	}
	for i, t := range tops {
		switch i {
		case owner:
			// p [g] y p [y p]: the commands after a try show whether the owner continues
			t.Body = []Cmd{{Kind: 'p'}}
			if r.Chance(1, 4) {
				t.Body = append(t.Body, Cmd{Kind: 'g'})
			}
			hs, shape := decodeCombo(combo)
			y, tb := b.newTry(t, len(t.Body), hs)
			b.fillTryBody(tb, shape)
			t.Body = append(t.Body, Cmd{Kind: 'y', Arg: y.K}, Cmd{Kind: 'p'})
			if r.Chance(1, 4) && b.room() >= 7 {
				hs2, shape2 := decodeCombo(r.Intn(nCombos))
				if shape2 == shapeNestedTry {
					shape2 = shapeOK
				}
				y2, tb2 := b.newTry(t, len(t.Body), hs2)
				b.fillTryBody(tb2, shape2)
				t.Body = append(t.Body, Cmd{Kind: 'y', Arg: y2.K}, Cmd{Kind: 'p'})
				b.flag("with_two_tries")
			}
		case failSib:
			t.Body = []Cmd{{Kind: 'p'}, {Kind: 'g'}, {Kind: 'f'}, {Kind: 'p'}}
			if r.Chance(1, 3) {
				t.Body = []Cmd{{Kind: 'f'}, {Kind: 'p'}}
			}
		default:
			t.Body = []Cmd{{Kind: 'p'}, {Kind: 'g'}, {Kind: 'p'}}
			if i > 0 && r.Chance(1, 3) {
				t.Wait = []int{tops[i-1].ID}
			}
		}
	}
	return b.caseSt
}

// genTryRegression is the regression family of fix 5b521a4 (pip:try must record a rejected
// handler submission instead of panicking): a top-level owner `p,g,y<k>,p` whose try body
// holds gates and at least one handler, and a sibling top-level task `p,g,f` that fails while
// the try body is still running, so that the handler submission meets a finished root context.
func genTryRegression(r *hx.Rand, c *Case, st stats, hold bool) map[string]bool {
	b := &builder{r: r, c: c, st: st, caseSt: map[string]bool{}}
	c.Hold = hold
	owner := b.newTask(RoleTop, 0, 0)
	sib := b.newTask(RoleTop, 0, 0)
	c.Top = []int{owner.ID, sib.ID}
	if r.Chance(1, 2) {
		c.Top = []int{sib.ID, owner.ID}
	}
	hs := b.randHandlers()
	if hs == [3]int{} {
		hs[r.Intn(3)] = 1
	}
	owner.Body = []Cmd{{Kind: 'p'}, {Kind: 'g'}}
	y, tb := b.newTry(owner, 2, hs)
	owner.Body = append(owner.Body, Cmd{Kind: 'y', Arg: y.K}, Cmd{Kind: 'p'})
	// 3-5 commands, gates at index 1 and n-2 at least, optionally failing at the end (fail handler path)
	n := 3 + r.Intn(3)
	tb.Body = make([]Cmd, n)
	for i := range tb.Body {
		tb.Body[i] = Cmd{Kind: 'g'}
		if i != 1 && i != n-2 && r.Chance(1, 2) {
			tb.Body[i] = Cmd{Kind: 'p'}
		}
	}
	if r.Chance(1, 3) {
		tb.Body[n-1] = Cmd{Kind: 'f'}
		st["try_regression_body_fails"]++
	}
	sib.Body = []Cmd{{Kind: 'p'}, {Kind: 'g'}, {Kind: 'f'}}
	b.flag("with_failing_sibling")
	b.flag("try_regression")
	if hold {
		st["try_regression_hold1"]++
	} else {
		st["try_regression_hold0"]++
	}
	return b.caseSt
}

// ---- c16s: steered try blocks --------------------------------------------------------------

// The steered family is a deterministic enumeration (the PRNG only varies lengths, gate positions
// and the place of a failing command):
//
//	nesting (flat | the steered try inside the body of an outer try | inside the finally handler of an outer try)
//	x body of the steered try (ok | failing)
//	x finally handler (present | failing) x selected handler (present | failing) x the other handler (absent | present | failing)
//	x which handler is held and for how long (s, S, f, F — see wire.go)
//
// = 3 * 2 * 12 * 4 = 288 combinations; only combinations in which a handler is actually held are
// enumerated (finally and the selected handler both defined).  One top-level task, no failing
// sibling: before the handlers run there is no cause of failure in the owner's context, so a `stall`
// in these cases has no excuse.
const nSteerCombos = 3 * 2 * 12 * 4

var steerModes = [4]byte{'s', 'S', 'f', 'F'}

func genC16Steered(r *hx.Rand, c *Case, st stats, combo, variant int) map[string]bool {
	b := &builder{r: r, c: c, st: st, caseSt: map[string]bool{}}
	mode := steerModes[combo%4]
	combo /= 4
	fin := 1 + combo%2 // 1 present, 2 failing
	combo /= 2
	sel := 1 + combo%2
	combo /= 2
	other := combo % 3
	combo /= 3
	bodyFails := combo%2 == 1
	combo /= 2
	nest := combo % 3

	c.Hold = false
	c.Steer = map[int]byte{}
	owner := b.newTask(RoleTop, 0, 0)
	c.Top = []int{owner.ID}

	// the steered try with the enumerated handlers, owned by command idx of p
	steered := func(p *Task, idx int) *Try {
		var hs [3]int // succ, fail, fin
		hs[2] = fin
		if bodyFails {
			hs[1], hs[0] = sel, other
		} else {
			hs[0], hs[1] = sel, other
		}
		y, tb := b.newTry(p, idx, hs)
		if bodyFails {
			b.fillTryBody(tb, shapeFail0+b.r.Intn(3))
		} else {
			b.fillTryBody(tb, shapeOK)
		}
		// variants 1 and 2 (deterministic, by round): HOW the body ends and HOW a failing handler fails
		//   1: a failing body ends with a truncated command, an ok body is `p, t, p` (stops its scope),
		//      failing handlers fail by an unknown command
		//   2: a failing body fails by an unknown command, failing handlers end with a truncated command
		switch variant {
		case 1:
			if bodyFails {
				tb.Body = []Cmd{{Kind: 'p'}, {Kind: 'g'}, {Kind: 'q'}}
			} else {
				tb.Body = []Cmd{{Kind: 'p'}, {Kind: 't'}, {Kind: 'p'}}
			}
		case 2:
			if bodyFails {
				tb.Body = []Cmd{{Kind: 'p'}, {Kind: 'x'}, {Kind: 'p'}}
			}
		}
		if variant != 0 {
			for _, h := range []int{y.Succ, y.Fail, y.Fin} {
				if h != NoTask {
					refail(c.Tasks[h].Body, "-xq"[variant])
				}
			}
			st[fmt.Sprintf("steer_variant_%d", variant)]++
		}
		c.Steer[y.K] = mode
		return y
	}
	switch nest {
	case 0:
		y := steered(owner, 1)
		owner.Body = []Cmd{{Kind: 'p'}, {Kind: 'y', Arg: y.K}, {Kind: 'p'}}
		b.flag("steer_flat")
	case 1:
		// outer try with all three handlers (succeeding); the steered try sits in its body
		outer, ob := b.newTry(owner, 1, [3]int{1, 1, 1})
		c.Steer[outer.K] = mode
		y := steered(ob, 1)
		ob.Body = []Cmd{{Kind: 'p'}, {Kind: 'y', Arg: y.K}, {Kind: 'p'}}
		owner.Body = []Cmd{{Kind: 'p'}, {Kind: 'y', Arg: outer.K}, {Kind: 'p'}}
		b.flag("steer_in_body")
	default:
		// outer try whose FINALLY handler contains the steered try
		outer, ob := b.newTry(owner, 1, [3]int{1, 1, 1})
		c.Steer[outer.K] = mode
		if b.r.Chance(1, 2) {
			b.fillTryBody(ob, shapeOK)
		} else {
			b.fillTryBody(ob, shapeFail0+b.r.Intn(3))
		}
		of := c.Tasks[outer.Fin]
		y := steered(of, 1)
		of.Body = []Cmd{{Kind: 'p'}, {Kind: 'y', Arg: y.K}, {Kind: 'p'}}
		owner.Body = []Cmd{{Kind: 'p'}, {Kind: 'y', Arg: outer.K}, {Kind: 'p'}}
		b.flag("steer_in_finally")
	}
	st["steer_mode_"+string(mode)]++
	if bodyFails {
		st["steer_body_fails"]++
	} else {
		st["steer_body_ok"]++
	}
	st[fmt.Sprintf("steer_fin%d_sel%d_other%d", fin, sel, other)]++
	b.flag("steered")
	return b.caseSt
}

// ---- c16x: the scope the scripts run in, pip:clear ---------------------------------------------

// The family varies WHERE a case runs, everything else is drawn as in c16 / c16s:
//
//	scope kind   round robin over scopeKinds (wire.go): app | new | child | term and the direct variants dapp | dnew |
//	             dchild | dterm (scripts run one after another by Terminal.RunLoop in the session, sharing its data:
//	             the first pipeline command of the first script finds no task manager there, the later scripts find
//	             the one the earlier commands left behind)
//	graph        (a) a c16 graph (handler subsets x body shapes), (b) 1-3 scripts EACH with a try block (direct kinds:
//	             a later try in the same session after an earlier one), (c) a steered c16s graph
//	pip:clear    in half of the cases plain probes `p` of bodies that contain a pipeline command (pip:run / pip:try)
//	             become `c` — in front of the first pipeline command in 3 of 4, anywhere otherwise —, and now and then
//	             a probe of a body without one
//
// Scripts run directly have no wait lists (there is no manager to ask).
func genC16X(r *hx.Rand, c *Case, st stats, i int) map[string]bool {
	c.Scope = scopeKinds[i%len(scopeKinds)]
	var flags map[string]bool
	switch x := (i / len(scopeKinds)) % 4; {
	case x == 3:
		c.Hold = false
		flags = genC16Steered(r, c, st, r.Intn(nSteerCombos), r.Intn(3))
	case x == 2:
		flags = genTrySeries(r, c, st)
	default:
		flags = genC16(r, c, st, r.Intn(nCombos))
	}
	if c.direct() {
		for _, id := range c.Top {
			c.Tasks[id].Wait = nil
		}
	}
	if r.Chance(1, 2) {
		nclear := 0
		for _, t := range c.Tasks {
			first := -1
			for k, cmd := range t.Body {
				if cmd.Kind == 's' || cmd.Kind == 'y' {
					first = k
					break
				}
			}
			var cand []int
			for k, cmd := range t.Body {
				if cmd.Kind == 'p' {
					cand = append(cand, k)
				}
			}
			if len(cand) == 0 {
				continue
			}
			switch {
			case first < 0:
				if r.Chance(1, 8) {
					t.Body[cand[r.Intn(len(cand))]] = Cmd{Kind: 'c'}
					st["clear_in_plain_body"]++
					nclear++
				}
			case r.Chance(3, 4):
				var before []int
				for _, k := range cand {
					if k < first {
						before = append(before, k)
					}
				}
				if len(before) != 0 {
					t.Body[before[r.Intn(len(before))]] = Cmd{Kind: 'c'}
					st["clear_before_first_pipeline_cmd"]++
					nclear++
				}
			default:
				t.Body[cand[r.Intn(len(cand))]] = Cmd{Kind: 'c'}
				st["clear_anywhere"]++
				nclear++
			}
		}
		if nclear != 0 {
			flags["with_clear"] = true
		}
	}
	flags["scope_"+c.sessionKind()] = true
	if c.direct() {
		flags["direct"] = true
		if len(c.Top) > 1 {
			flags["direct_several_scripts"] = true
		}
	}
	return flags
}

// genTrySeries: 1-3 top-level scripts, each `p [g] y<k> p` with its own try block (random handler subset, simple
// body shape); the scripts have no wait lists.
func genTrySeries(r *hx.Rand, c *Case, st stats) map[string]bool {
	b := &builder{r: r, c: c, st: st, caseSt: map[string]bool{}}
	nTop := 1 + r.Intn(3)
	tops := make([]*Task, nTop)
	for i := range tops {
		tops[i] = b.newTask(RoleTop, 0, 0)
		c.Top = append(c.Top, tops[i].ID)
	}
	for _, t := range tops {
		t.Body = []Cmd{{Kind: 'p'}}
		if r.Chance(1, 4) {
			t.Body = append(t.Body, Cmd{Kind: 'g'})
		}
		hs, shape := decodeCombo(r.Intn(nCombos))
		if shape >= shapeNestedOK {
			shape = r.Intn(shapeNestedOK)
		}
		for j := range hs {
			// mostly succeeding handlers: a failing one ends the session for the scripts after it
			if hs[j] == 2 && r.Chance(3, 4) {
				hs[j] = 1
			}
		}
		y, tb := b.newTry(t, len(t.Body), hs)
		b.fillTryBody(tb, shape)
		t.Body = append(t.Body, Cmd{Kind: 'y', Arg: y.K}, Cmd{Kind: 'p'})
	}
	b.flag("try_series")
	return b.caseSt
}

// ---- driver of the generators --------------------------------------------------------------

func gen(w io.Writer, family string, n int) error {
	if family != "c14" && family != "c16" && family != "c16s" && family != "c16x" {
		return fmt.Errorf("unknown family %q", family)
	}
	seed := hx.SeedFromEnv()
	r := hx.NewRand(seed)
	st := stats{}
	comboStart := r.Intn(nCombos)
	enumerated, regressions := 0, 0
	for i := 0; i < n; i++ {
		c := &Case{ID: fmt.Sprintf("%s-%d-%d", family, seed, i), Seed: r.U64(), Hold: r.Chance(1, 2)}
		var flags map[string]bool
		switch {
		case family == "c16x":
			flags = genC16X(r, c, st, i)
		case family == "c16s":
			// every combination once per round, rounds differ in the random details
			c.Hold = false
			flags = genC16Steered(r, c, st, (comboStart+i)%nSteerCombos, (i/nSteerCombos)%3)
		case family == "c14" && i%50 == 49:
			genChain(c)
			flags = map[string]bool{"deep_chain": true}
		case family == "c14" && i%6 == 5:
			flags = genFanOut(r, c, st)
		case family == "c14":
			flags = genC14(r, c, st)
		case i%8 == 7:
			flags = genTryRegression(r, c, st, regressions%2 == 1)
			regressions++
		default:
			// enumerate every combination once (starting anywhere), then sample
			combo := (comboStart + enumerated) % nCombos
			if enumerated >= nCombos {
				combo = r.Intn(nCombos)
			}
			enumerated++
			flags = genC16(r, c, st, combo)
		}
		for k := range flags {
			st["cases_"+k]++
		}
		if c.Hold {
			st["cases_hold"]++
		}
		if len(c.Tasks) <= maxTasks {
			st[fmt.Sprintf("tasks_%02d", len(c.Tasks))]++
		}
		c.writeHeader(w)
		fmt.Fprintln(w, "end")
	}
	st.print(stderr, family, n)
	return nil
}
