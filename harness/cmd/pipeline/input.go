package main

// scriptInput is the app.Input the harness hands to a TOP-LEVEL task (PipContext.In is supplied
// by the caller of Runner.Run; pip:run builds its own for nested tasks, so those are not
// observable here).  It is an unbuffered reader over the task's script that records the event
//
//	fetch <t> <k>
//
// at the moment RunLoop's reader goroutine reads the first byte of command k.  RunLoop asks
// for the next command only after the previous one returned nil and its command scope closed,
// and for the first one only after waitForTasks has passed, so `fetch` obeys the same clause
// of the monitor as `cmd` — but it is visible even when the closed Done() channel of an already
// failed context wins the race against the command itself.  (gio.NewInput would read the whole
// script into its 4 KiB buffer at once; the argument reader itself reads one byte at a time.)

import (
	"io"
	"strings"
	"sync"
)

type scriptInput struct {
	mu     sync.Mutex
	rec    *recorder
	task   int
	data   []byte
	off    int
	starts []int // byte offset of the first byte of every command
	next   int   // next command to announce
}

func newScriptInput(rec *recorder, task int, lines []string) *scriptInput {
	in := &scriptInput{rec: rec, task: task, data: []byte(strings.Join(lines, "\n"))}
	off := 0
	for _, l := range lines {
		in.starts = append(in.starts, off)
		off += len(l) + 1
	}
	return in
}

// Read hands out one byte per call.
func (in *scriptInput) Read(p []byte) (int, error) {
	in.mu.Lock()
	defer in.mu.Unlock()
	if len(p) == 0 {
		return 0, nil
	}
	if in.off >= len(in.data) {
		return 0, io.EOF
	}
	for in.next < len(in.starts) && in.off >= in.starts[in.next] {
		in.rec.emit("fetch %d %d", in.task, in.next)
		in.next++
	}
	p[0] = in.data[in.off]
	in.off++
	return 1, nil
}

// ReadWord and ReadLine complete the app.Input interface (RunLoop does not use them).
func (in *scriptInput) ReadWord() (string, error) { return in.readUntil(" \t\n") }

func (in *scriptInput) ReadLine() (string, error) { return in.readUntil("\n") }

func (in *scriptInput) readUntil(stop string) (string, error) {
	var sb strings.Builder
	b := make([]byte, 1)
	for {
		if _, err := in.Read(b); err != nil {
			if sb.Len() > 0 {
				return sb.String(), nil
			}
			return "", err
		}
		if strings.IndexByte(stop, b[0]) >= 0 {
			return sb.String(), nil
		}
		sb.WriteByte(b[0])
	}
}
