// Command pipeline is the implementation-side driver and the case generator of the
// `pipeline` line protocol (properties C14: pipeline runner / wait lists, C16: pip:try).
// It runs the real Runner, TasksManager, pip:run and pip:try of /repo on generated submission
// graphs and records what happened; the Lean monitor m_pipeline judges the traces.
//
//	pipeline gen <c14|c16|c16s|c16x> <n>   n generated cases on stdout, `genstats …` on stderr (c16s: steered try blocks, c16x: scope kinds and pip:clear)
//	pipeline drive               cases on stdin -> per case header, event lines, `end`
//	pipeline drive -inproc       the same without the supervising parent process
//	pipeline script              cases on stdin -> the terminal scripts of the top-level tasks (debugging)
//
// `drive` runs the cases in a child process (`pipeline worker`): a panic in a goroutine of the
// code under test (the runner's goroutines are not ours to guard) kills only the worker; the
// supervisor then closes the interrupted case with a `panic` event and starts a new worker
// for the remaining cases.  The supervisor prints the header of every case itself, the worker
// only event lines and `end`, so the output is well-formed wherever the worker dies.  File layout: wire.go (format), script.go (bodies as terminal
// scripts), gen.go (generators), drive.go (execution of one case).
package main

import (
	"bufio"
	"bytes"
	"fmt"
	"io"
	"os"
	"os/exec"
	"strconv"
	"strings"
	"time"
)

var stderr io.Writer = os.Stderr

// caseWatchdog bounds one case in the supervisor.  The worker's own watchdogs (gate 20 s,
// mwait 20 s, fin 2 s per task) report hangs as events long before; this one only protects
// the batch against a worker that is stuck somewhere unforeseen.
const caseWatchdog = 5 * time.Minute

func newScanner(r io.Reader) *bufio.Scanner {
	sc := bufio.NewScanner(r)
	sc.Buffer(make([]byte, 1<<16), 1<<24)
	return sc
}

func die(code int, format string, args ...interface{}) {
	fmt.Fprintf(os.Stderr, "pipeline: "+format+"\n", args...)
	os.Exit(code)
}

// readCases reads every case of the input.
func readCases(r io.Reader) []*Case {
	sc := newScanner(r)
	var cases []*Case
	for {
		c, err := readCase(sc)
		if err != nil {
			die(3, "bad input: %v", err)
		}
		if c == nil {
			return cases
		}
		cases = append(cases, c)
	}
}

// driveInProcess runs the cases in this process.  direct=true (worker): only the event lines
// and `end` are printed (the supervisor prints the header itself, so a crash can never leave a
// truncated header behind) and they go to stdout unbuffered the moment they happen so that
// they survive a crash.
func driveInProcess(in io.Reader, direct bool) {
	sc := newScanner(in)
	w := bufio.NewWriterSize(os.Stdout, 1<<16)
	for {
		c, err := readCase(sc)
		if err != nil {
			w.Flush()
			die(3, "bad input: %v", err)
		}
		if c == nil {
			break
		}
		if direct {
			driveCase(c, os.Stdout, false)
		} else {
			driveCase(c, w, true)
			w.Flush()
		}
	}
	w.Flush()
}

// worker is one child process of the supervisor.
type worker struct {
	cmd   *exec.Cmd
	in    io.WriteCloser
	lines chan string // stdout of the child, line by line; closed at EOF
	errb  *bytes.Buffer
}

func startWorker() (*worker, error) {
	cmd := exec.Command(os.Args[0], "worker")
	in, err := cmd.StdinPipe()
	if err != nil {
		return nil, err
	}
	out, err := cmd.StdoutPipe()
	if err != nil {
		return nil, err
	}
	wk := &worker{cmd: cmd, in: in, lines: make(chan string, 1024), errb: &bytes.Buffer{}}
	cmd.Stderr = wk.errb
	if err = cmd.Start(); err != nil {
		return nil, err
	}
	go func() {
		sc := newScanner(out)
		for sc.Scan() {
			wk.lines <- sc.Text()
		}
		close(wk.lines)
	}()
	return wk, nil
}

func (wk *worker) kill() {
	wk.in.Close()
	wk.cmd.Process.Kill()
	for range wk.lines { // drain so that the reader goroutine ends
	}
	wk.cmd.Wait()
}

// crashReport shows the head of what the dead worker wrote to stderr (the Go panic message);
// never the full text: scope errors are huge.
func (wk *worker) crashReport(caseID string) {
	msg := wk.errb.String()
	lines := strings.Split(msg, "\n")
	if len(lines) > 12 {
		lines = lines[:12]
	}
	for i, l := range lines {
		if len(l) > 200 {
			lines[i] = l[:200] + "…"
		}
	}
	fmt.Fprintf(os.Stderr, "pipeline: worker died in case %s:\n%s\n", caseID, strings.Join(lines, "\n"))
}

// supervise runs every case in a worker process, one at a time.
func supervise(cases []*Case) {
	out := bufio.NewWriterSize(os.Stdout, 1<<16)
	defer out.Flush()
	var wk *worker
	defer func() {
		if wk != nil {
			wk.kill()
		}
	}()
	for k, c := range cases {
		if wk == nil {
			var err error
			if wk, err = startWorker(); err != nil {
				out.Flush()
				die(2, "cannot start worker: %v", err)
			}
		}
		var hdr bytes.Buffer
		c.writeHeader(&hdr)
		hdr.WriteString("end\n")
		// the header comes from the supervisor, the worker contributes event lines and `end`
		c.writeHeader(out)
		_, werr := wk.in.Write(hdr.Bytes())
		// relay the worker's lines of this case; remember the last sequence number
		seq, finished := 0, false
		timer := time.NewTimer(caseWatchdog)
		for !finished && werr == nil {
			select {
			case line, ok := <-wk.lines:
				if !ok {
					werr = io.ErrUnexpectedEOF
					break
				}
				if line == "end" {
					finished = true
					fmt.Fprintln(out, line)
				} else if sp := strings.IndexByte(line, ' '); sp > 0 {
					// anything that is not `<seq> <event>` is not relayed
					if n, err := strconv.Atoi(line[:sp]); err == nil {
						seq = n
						fmt.Fprintln(out, line)
					}
				}
			case <-timer.C:
				werr = fmt.Errorf("case watchdog")
			}
		}
		timer.Stop()
		if !finished {
			// the worker crashed (or is stuck): close the case with a `panic` event
			wk.kill()
			wk.crashReport(c.ID)
			wk = nil
			if seq <= 3 && k > 0 {
				// goroutines left over from the previous case run in the same worker
				fmt.Fprintf(os.Stderr, "pipeline: crash may belong to previous case %s\n", cases[k-1].ID)
			}
			fmt.Fprintf(out, "%d panic\nend\n", seq+1)
		}
		out.Flush()
	}
}

func main() {
	if len(os.Args) < 2 {
		die(2, "usage: pipeline gen <c14|c16|c16s|c16x> <n> | drive [-inproc] | script")
	}
	switch os.Args[1] {
	case "gen":
		if len(os.Args) != 4 {
			die(2, "usage: pipeline gen <c14|c16|c16s|c16x> <n>")
		}
		n, err := strconv.Atoi(os.Args[3])
		if err != nil || n < 0 {
			die(2, "bad count %q", os.Args[3])
		}
		w := bufio.NewWriterSize(os.Stdout, 1<<16)
		if err = gen(w, os.Args[2], n); err != nil {
			die(2, "%v", err)
		}
		w.Flush()
	case "drive":
		if len(os.Args) > 2 && os.Args[2] == "-inproc" {
			driveInProcess(os.Stdin, false)
		} else {
			supervise(readCases(os.Stdin))
		}
	case "worker":
		driveInProcess(os.Stdin, true)
	case "script":
		for _, c := range readCases(os.Stdin) {
			for _, t := range c.Top {
				fmt.Printf("### case %s task %s wait=%v\n%s\n", c.ID, taskName(t), waitNames(c.Tasks[t].Wait), c.script(t))
			}
		}
	default:
		die(2, "unknown sub-command %q", os.Args[1])
	}
}
