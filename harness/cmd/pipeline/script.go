package main

// Rendering of task bodies as terminal scripts for the real pipeline code.
//
// A body is one command per line.  Scripts of nested tasks travel as heredoc arguments
// (`--body=<<TAG` newline text newline `TAG`) of the submitting command.  What the real
// argument reader (varutil.ReadArguments) accepts was established by experiment:
//
//   - a heredoc tag may contain only letters and '_' (a digit is a syntax error), so task and
//     try numbers are spelled with the letters a..j;
//   - the heredoc ends at the FIRST occurrence of "\n"+TAG, even when more letters follow, so
//     no tag may be a prefix of another tag that occurs inside its text: every tag ends with
//     'X' and contains no other 'X';
//   - after the closing tag the reader continues with the same command line, therefore one
//     command can carry several heredoc arguments (`… TAG --fail=<<TAGB`), which is how the
//     handler scripts of pip:try are passed; nesting depth is not limited.

import (
	"fmt"
	"strconv"
	"strings"
)

// letters spells a number with a..j (0 -> "a", 12 -> "bc").
func letters(n int) string {
	s := strconv.Itoa(n)
	b := make([]byte, len(s))
	for i := range s {
		b[i] = 'a' + s[i] - '0'
	}
	return string(b)
}

// taskTag is the heredoc tag of the body of task id.
func taskTag(id int) string { return "T" + letters(id) + "X" }

// tryTag is the heredoc tag of one script of try k (part = B body, S success, F fail, N finally).
func tryTag(k int, part byte) string { return "Y" + letters(k) + string(part) + "X" }

// taskName is the pipeline name of a task submitted through pip:run / Runner.Run.
func taskName(id int) string {
	if id >= FirstGhost {
		return "zz" + strconv.Itoa(id)
	}
	return "t" + strconv.Itoa(id)
}

func tryName(k int) string { return "y" + strconv.Itoa(k) }

func waitNames(ids []int) []string {
	names := make([]string, len(ids))
	for i, id := range ids {
		names[i] = taskName(id)
	}
	return names
}

// script renders the body of task id.
func (c *Case) script(id int) string { return strings.Join(c.scriptLines(id), "\n") }

// scriptLines renders the body of task id, one element per command (an element contains
// newlines when the command carries heredoc arguments).
func (c *Case) scriptLines(id int) []string {
	t := c.Tasks[id]
	lines := make([]string, 0, len(t.Body))
	for i, cmd := range t.Body {
		at := fmt.Sprintf("--t=%d --i=%d", id, i)
		switch cmd.Kind {
		case 'p':
			name := "probe:begin"
			if i > 0 && i == len(t.Body)-1 {
				name = "probe:end"
			}
			lines = append(lines, name+" "+at)
		case 'g':
			lines = append(lines, "probe:gate "+at)
		case 'f':
			lines = append(lines, "probe:fail "+at)
		case 't':
			lines = append(lines, "probe:stop "+at)
		case 'c':
			lines = append(lines, "probe:clear "+at)
		case 'x':
			// the marker records `cmd t i` and `ret t i err` (the position at which RunLoop is about to
			// fail) and returns nil; the next line names a command that does not exist
			lines = append(lines, "probe:mark "+at+"\nnosuch:command"+letters(id)+" "+at)
		case 'q':
			// marker as for x; then the text ends inside a quoted argument / an unterminated multi-line value
			tail := "probe:begin " + at + " --note=\"the text ends here"
			if (id+i)%2 == 1 {
				tail = "probe:begin " + at + " --note=<<QEND\nthe text ends here"
			}
			lines = append(lines, "probe:mark "+at+"\n"+tail)
		case 's':
			child := c.Tasks[cmd.Arg]
			wait := ""
			if len(child.Wait) != 0 {
				wait = " --wait=" + strings.Join(waitNames(child.Wait), ",")
			}
			tag := taskTag(child.ID)
			lines = append(lines, fmt.Sprintf("probe:run %s --name=%s%s --silent=true --body=<<%s\n%s\n%s",
				at, taskName(child.ID), wait, tag, c.script(child.ID), tag))
		case 'y':
			y := c.Tries[cmd.Arg]
			var sb strings.Builder
			fmt.Fprintf(&sb, "probe:try %s --name=%s --silent=true", at, tryName(y.K))
			heredoc := func(arg string, part byte, task int) {
				if task == NoTask {
					return
				}
				tag := tryTag(y.K, part)
				fmt.Fprintf(&sb, " --%s=<<%s\n%s\n%s", arg, tag, c.script(task), tag)
			}
			heredoc("success", 'S', y.Succ)
			heredoc("fail", 'F', y.Fail)
			heredoc("finally", 'N', y.Fin)
			heredoc("body", 'B', y.Body)
			lines = append(lines, sb.String())
		}
	}
	return lines
}

// taskOfName maps a full task name of the real task manager (t3, t3:t7, t3:y0:body,
// t3:y0:finally …) to the task id of the case: only the last component (for the scripts of a
// try the last two) matters because ids are unique per case.  Unknown names give UnknownTask.
func (c *Case) taskOfName(full string) int {
	p := strings.Split(full, ":")
	last := p[len(p)-1]
	num := func(s string, prefix byte) (int, bool) {
		if len(s) < 2 || s[0] != prefix {
			return 0, false
		}
		n, err := strconv.Atoi(s[1:])
		if err != nil || n < 0 || strconv.Itoa(n) != s[1:] {
			return 0, false
		}
		return n, true
	}
	if id, ok := num(last, 't'); ok {
		if id < len(c.Tasks) {
			return id
		}
		return UnknownTask
	}
	if len(p) >= 2 {
		if k, ok := num(p[len(p)-2], 'y'); ok && k < len(c.Tries) {
			id := NoTask
			switch last {
			case "body":
				id = c.Tries[k].Body
			case "success":
				id = c.Tries[k].Succ
			case "fail":
				id = c.Tries[k].Fail
			case "finally":
				id = c.Tries[k].Fin
			}
			if id != NoTask {
				return id
			}
		}
	}
	return UnknownTask
}
