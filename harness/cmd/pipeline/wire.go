package main

// Wire format of a case (shared by `gen`, `drive` and the Lean monitor m_pipeline):
//
//	graph <caseid> seed=<u64> hold=<0|1> [steer=<k>:<s|S|f|F>,…] [scope=<kind>]
//	task <id> <role> d=<depth> x=<ctx> w=<ids|-> b=<cmds|->
//	try <k> owner=<p>:<i> body=<b> succ=<id|-> fail=<id|-> fin=<id|->
//	top <ids|->
//	<seq> <event>            (drive output only)
//	end
//
// steer= is the steering policy of the gate controller, per try block k (drive.go, steerCtl):
// s / S hold the first command of the selected (fail / success) handler until the finally handler
// has started / has closed; f / F hold the first command of the finally handler until the selected
// handler has started / has closed.
//
// scope= says in WHICH scope the scripts of the case run (drive.go, newSession; absent = app):
//
//	app    the application scope (MockupApp.Scopes().App())
//	new    a session scope of its own: scope.New (own data, own events, own context) — what a request / session
//	       handed to Terminal.RunString gets; the look-up of the task manager does NOT reach the application's data
//	child  scope.NewChild(app): data scope is a child of the application's, context shared with it
//	term   the scope of the real terminal loop (termc.runLoop): isolated context, data scope SHARED with the application
//	dapp | dnew | dchild | dterm   the same four, but the top-level scripts are run DIRECTLY by Terminal.RunLoop in the
//	       session, one after another (no Runner.Run for them: the first pipeline command of the first script meets a
//	       data scope without a task manager, the later scripts the manager the earlier ones left behind)
//
// The monitor ignores the field: the model's root context (ctx 0) is the context of the session scope.

import (
	"bufio"
	"fmt"
	"io"
	"strconv"
	"strings"
)

// Role of a task inside the submission graph.
type Role int

const (
	RoleTop   Role = iota // submitted by the harness main thread through Runner.Run
	RoleChild             // child:<p>:<i>  submitted by command i of task p (pip:run)
	RoleTBody             // tbody:<k>      body of try k
	RoleHSucc             // hsucc:<k>      success handler of try k
	RoleHFail             // hfail:<k>      fail handler of try k
	RoleHFin              // hfin:<k>       finally handler of try k
)

// NoTask marks an absent handler of a try.
const NoTask = -1

// UnknownTask is the id reported for a task name that maps to no task of the case.
const UnknownTask = 999

// FirstGhost is the first wait id that stands for "a name that never exists".
const FirstGhost = 900

// Cmd is one command of a body: p | g | f | x | q | t | c | s<c> | y<k>.
//
//	c  the real `pip:clear` (bracketed by probe events): TasksUnit.Clear on the scope the command runs in, i.e. a nil
//	   entry in the data of the body's context that shadows the task manager inherited from above; the next pipeline
//	   command of that body creates a manager of its own.  Always returns nil: a `probe` for the monitor.
//	x  an UNKNOWN command name: RunCommand returns "unknown command", RunLoop records the error and returns
//	q  a TRUNCATED last command (the text ends inside a double-quoted argument or an unterminated =<<TAG
//	   value): the reader of RunLoop records the read error and returns; only as the last command of a body
//	t  a probe that stops the scope it runs in (Scope.Stop: done, NO error): RunLoop may skip the rest, the
//	   task closes ok; only in a try body without nested submissions (the context is then the body's own)
//
// For the monitor x and q are failing commands like f (RunLoop reacts identically: AppendError + return);
// their `cmd` / `ret … err` events are recorded by a marker command on the line before (script.go).
type Cmd struct {
	Kind byte // 'p', 'g', 'f', 'x', 'q', 't', 'c', 's', 'y'
	Arg  int  // child task id for 's', try number for 'y'
}

func (c Cmd) String() string {
	if c.Kind == 's' || c.Kind == 'y' {
		return string(c.Kind) + strconv.Itoa(c.Arg)
	}
	return string(c.Kind)
}

// Task is one `task` line.
type Task struct {
	ID    int
	Role  Role
	P, I  int // RoleChild: submitting task and command index
	K     int // try roles: try number
	Depth int
	Ctx   int
	Wait  []int
	Body  []Cmd
}

func (t *Task) roleString() string {
	switch t.Role {
	case RoleTop:
		return "top"
	case RoleChild:
		return fmt.Sprintf("child:%d:%d", t.P, t.I)
	case RoleTBody:
		return fmt.Sprintf("tbody:%d", t.K)
	case RoleHSucc:
		return fmt.Sprintf("hsucc:%d", t.K)
	case RoleHFail:
		return fmt.Sprintf("hfail:%d", t.K)
	default:
		return fmt.Sprintf("hfin:%d", t.K)
	}
}

// Try is one `try` line; Succ/Fail/Fin are NoTask when the handler is not defined.
type Try struct {
	K                     int
	OwnerP, OwnerI        int
	Body, Succ, Fail, Fin int
}

// Case is one submission graph.
type Case struct {
	ID    string
	Seed  uint64
	Hold  bool
	Steer map[int]byte // try number -> 's', 'S', 'f', 'F' (absent = not steered)
	Scope string       // scope kind (see the head of this file); "" = app
	Tasks []*Task      // index = task id
	Tries []*Try       // index = try number
	Top   []int
}

// scopeKinds lists every value of scope= (the first one is the default).
var scopeKinds = []string{"app", "new", "child", "term", "dapp", "dnew", "dchild", "dterm"}

func validScope(k string) bool {
	if k == "" {
		return true
	}
	for _, v := range scopeKinds {
		if v == k {
			return true
		}
	}
	return false
}

// direct: the top-level scripts are run by Terminal.RunLoop in the session, not submitted through Runner.Run.
func (c *Case) direct() bool { return len(c.Scope) > 1 && c.Scope[0] == 'd' }

// sessionKind is the scope kind without the `d` of the direct variants.
func (c *Case) sessionKind() string {
	switch {
	case c.Scope == "":
		return "app"
	case c.direct():
		return c.Scope[1:]
	}
	return c.Scope
}

// steerString renders the steer= field ("" when the case is not steered).
func (c *Case) steerString() string {
	if len(c.Steer) == 0 {
		return ""
	}
	parts := []string{}
	for k := range c.Tries {
		if m, ok := c.Steer[k]; ok {
			parts = append(parts, fmt.Sprintf("%d:%c", k, m))
		}
	}
	return strings.Join(parts, ",")
}

func parseSteer(v string) (map[int]byte, error) {
	if v == "-" || v == "" {
		return nil, nil
	}
	out := map[int]byte{}
	for _, f := range strings.Split(v, ",") {
		km := strings.Split(f, ":")
		if len(km) != 2 || len(km[1]) != 1 || !strings.Contains("sSfF", km[1]) {
			return nil, fmt.Errorf("bad steer entry %q", f)
		}
		k, err := strconv.Atoi(km[0])
		if err != nil || k < 0 {
			return nil, fmt.Errorf("bad steer entry %q", f)
		}
		out[k] = km[1][0]
	}
	return out, nil
}

func joinInts(xs []int) string {
	if len(xs) == 0 {
		return "-"
	}
	s := make([]string, len(xs))
	for i, x := range xs {
		s[i] = strconv.Itoa(x)
	}
	return strings.Join(s, ",")
}

func optID(id int) string {
	if id == NoTask {
		return "-"
	}
	return strconv.Itoa(id)
}

// writeHeader prints the graph/task/try/top lines (everything except events and `end`).
func (c *Case) writeHeader(w io.Writer) {
	hold := 0
	if c.Hold {
		hold = 1
	}
	extra := ""
	if st := c.steerString(); st != "" {
		extra += " steer=" + st
	}
	if c.Scope != "" && c.Scope != "app" {
		extra += " scope=" + c.Scope
	}
	fmt.Fprintf(w, "graph %s seed=%d hold=%d%s\n", c.ID, c.Seed, hold, extra)
	for _, t := range c.Tasks {
		cmds := make([]string, len(t.Body))
		for i, cmd := range t.Body {
			cmds[i] = cmd.String()
		}
		b := strings.Join(cmds, ",")
		if b == "" {
			b = "-"
		}
		fmt.Fprintf(w, "task %d %s d=%d x=%d w=%s b=%s\n", t.ID, t.roleString(), t.Depth, t.Ctx, joinInts(t.Wait), b)
	}
	for _, y := range c.Tries {
		fmt.Fprintf(w, "try %d owner=%d:%d body=%d succ=%s fail=%s fin=%s\n",
			y.K, y.OwnerP, y.OwnerI, y.Body, optID(y.Succ), optID(y.Fail), optID(y.Fin))
	}
	fmt.Fprintf(w, "top %s\n", joinInts(c.Top))
}

// ---- parsing -------------------------------------------------------------------------------

func parseInts(s string) ([]int, error) {
	if s == "-" || s == "" {
		return nil, nil
	}
	var out []int
	for _, f := range strings.Split(s, ",") {
		n, err := strconv.Atoi(f)
		if err != nil {
			return nil, err
		}
		out = append(out, n)
	}
	return out, nil
}

func parseOpt(s string) (int, error) {
	if s == "-" {
		return NoTask, nil
	}
	return strconv.Atoi(s)
}

// field strips `key=` from a `key=value` field.
func field(f, key string) (string, error) {
	if !strings.HasPrefix(f, key+"=") {
		return "", fmt.Errorf("expected %s=… got %q", key, f)
	}
	return f[len(key)+1:], nil
}

func parseRole(t *Task, s string) error {
	p := strings.Split(s, ":")
	num := func(i int) (int, error) {
		if i >= len(p) {
			return 0, fmt.Errorf("bad role %q", s)
		}
		return strconv.Atoi(p[i])
	}
	var err error
	switch p[0] {
	case "top":
		t.Role = RoleTop
	case "child":
		t.Role = RoleChild
		if t.P, err = num(1); err != nil {
			return err
		}
		t.I, err = num(2)
	case "tbody":
		t.Role = RoleTBody
		t.K, err = num(1)
	case "hsucc":
		t.Role = RoleHSucc
		t.K, err = num(1)
	case "hfail":
		t.Role = RoleHFail
		t.K, err = num(1)
	case "hfin":
		t.Role = RoleHFin
		t.K, err = num(1)
	default:
		err = fmt.Errorf("bad role %q", s)
	}
	return err
}

func parseCmds(s string) ([]Cmd, error) {
	if s == "-" || s == "" {
		return nil, nil
	}
	var out []Cmd
	for _, f := range strings.Split(s, ",") {
		if f == "" {
			return nil, fmt.Errorf("empty command")
		}
		c := Cmd{Kind: f[0]}
		switch f[0] {
		case 'p', 'g', 'f', 'x', 'q', 't', 'c':
			if len(f) != 1 {
				return nil, fmt.Errorf("bad command %q", f)
			}
		case 's', 'y':
			n, err := strconv.Atoi(f[1:])
			if err != nil {
				return nil, fmt.Errorf("bad command %q", f)
			}
			c.Arg = n
		default:
			return nil, fmt.Errorf("bad command %q", f)
		}
		out = append(out, c)
	}
	return out, nil
}

// readCase reads the next case from the scanner (nil, nil at end of input).  Event lines
// (first field numeric) are skipped so that the output of `drive` can be fed to `drive` again.
func readCase(sc *bufio.Scanner) (*Case, error) {
	var c *Case
	for sc.Scan() {
		line := strings.TrimSpace(sc.Text())
		if line == "" || strings.HasPrefix(line, "#") {
			continue
		}
		f := strings.Fields(line)
		if c == nil && f[0] != "graph" {
			return nil, fmt.Errorf("expected `graph`, got %q", line)
		}
		var err error
		switch {
		case f[0] == "graph":
			if c != nil || len(f) < 4 || len(f) > 6 {
				return nil, fmt.Errorf("bad graph line %q", line)
			}
			c = &Case{ID: f[1]}
			var s, h string
			if s, err = field(f[2], "seed"); err == nil {
				if c.Seed, err = strconv.ParseUint(s, 10, 64); err == nil {
					if h, err = field(f[3], "hold"); err == nil {
						c.Hold = h == "1"
						for _, kv := range f[4:] {
							switch {
							case err != nil:
							case strings.HasPrefix(kv, "steer="):
								c.Steer, err = parseSteer(kv[6:])
							case strings.HasPrefix(kv, "scope="):
								c.Scope = kv[6:]
							default:
								err = fmt.Errorf("unknown field %q", kv)
							}
						}
					}
				}
			}
		case f[0] == "task":
			if len(f) != 7 {
				return nil, fmt.Errorf("bad task line %q", line)
			}
			t := &Task{}
			var v string
			if t.ID, err = strconv.Atoi(f[1]); err != nil {
				break
			}
			if t.ID != len(c.Tasks) {
				return nil, fmt.Errorf("task ids out of order at %q", line)
			}
			if err = parseRole(t, f[2]); err != nil {
				break
			}
			if v, err = field(f[3], "d"); err != nil {
				break
			}
			if t.Depth, err = strconv.Atoi(v); err != nil {
				break
			}
			if v, err = field(f[4], "x"); err != nil {
				break
			}
			if t.Ctx, err = strconv.Atoi(v); err != nil {
				break
			}
			if v, err = field(f[5], "w"); err != nil {
				break
			}
			if t.Wait, err = parseInts(v); err != nil {
				break
			}
			if v, err = field(f[6], "b"); err != nil {
				break
			}
			if t.Body, err = parseCmds(v); err != nil {
				break
			}
			c.Tasks = append(c.Tasks, t)
		case f[0] == "try":
			if len(f) != 7 {
				return nil, fmt.Errorf("bad try line %q", line)
			}
			y := &Try{}
			var v string
			if y.K, err = strconv.Atoi(f[1]); err != nil {
				break
			}
			if y.K != len(c.Tries) {
				return nil, fmt.Errorf("try numbers out of order at %q", line)
			}
			if v, err = field(f[2], "owner"); err != nil {
				break
			}
			pi := strings.Split(v, ":")
			if len(pi) != 2 {
				return nil, fmt.Errorf("bad owner in %q", line)
			}
			if y.OwnerP, err = strconv.Atoi(pi[0]); err != nil {
				break
			}
			if y.OwnerI, err = strconv.Atoi(pi[1]); err != nil {
				break
			}
			if v, err = field(f[3], "body"); err != nil {
				break
			}
			if y.Body, err = strconv.Atoi(v); err != nil {
				break
			}
			if v, err = field(f[4], "succ"); err != nil {
				break
			}
			if y.Succ, err = parseOpt(v); err != nil {
				break
			}
			if v, err = field(f[5], "fail"); err != nil {
				break
			}
			if y.Fail, err = parseOpt(v); err != nil {
				break
			}
			if v, err = field(f[6], "fin"); err != nil {
				break
			}
			if y.Fin, err = parseOpt(v); err != nil {
				break
			}
			c.Tries = append(c.Tries, y)
		case f[0] == "top":
			if len(f) != 2 {
				return nil, fmt.Errorf("bad top line %q", line)
			}
			c.Top, err = parseInts(f[1])
		case f[0] == "end":
			return c, c.check()
		case f[0][0] >= '0' && f[0][0] <= '9':
			// event line of an earlier drive run: ignored
		default:
			err = fmt.Errorf("unknown line %q", line)
		}
		if err != nil {
			return nil, fmt.Errorf("%v in %q", err, line)
		}
	}
	if c != nil {
		return nil, fmt.Errorf("case %s: missing `end`", c.ID)
	}
	return nil, sc.Err()
}

// check verifies the references the driver dereferences (the monitor checks the rest).
func (c *Case) check() error {
	n := len(c.Tasks)
	okTask := func(id int) bool { return id >= 0 && id < n }
	for _, id := range c.Top {
		if !okTask(id) {
			return fmt.Errorf("case %s: top id %d out of range", c.ID, id)
		}
	}
	for _, t := range c.Tasks {
		for i, cmd := range t.Body {
			if cmd.Kind == 'q' && i != len(t.Body)-1 {
				return fmt.Errorf("case %s: task %d: a truncated command must be the last one", c.ID, t.ID)
			}
		}
		for _, cmd := range t.Body {
			if cmd.Kind == 's' && !okTask(cmd.Arg) {
				return fmt.Errorf("case %s: task %d submits unknown task %d", c.ID, t.ID, cmd.Arg)
			}
			if cmd.Kind == 'y' && (cmd.Arg < 0 || cmd.Arg >= len(c.Tries)) {
				return fmt.Errorf("case %s: task %d runs unknown try %d", c.ID, t.ID, cmd.Arg)
			}
		}
	}
	if !validScope(c.Scope) {
		return fmt.Errorf("case %s: unknown scope kind %q", c.ID, c.Scope)
	}
	if c.direct() {
		for _, id := range c.Top {
			if len(c.Tasks[id].Wait) != 0 {
				return fmt.Errorf("case %s: a script run directly by the terminal has no wait list (task %d)", c.ID, id)
			}
		}
	}
	for k := range c.Steer {
		if k >= len(c.Tries) {
			return fmt.Errorf("case %s: steer names unknown try %d", c.ID, k)
		}
	}
	for _, y := range c.Tries {
		if !okTask(y.Body) {
			return fmt.Errorf("case %s: try %d body out of range", c.ID, y.K)
		}
		for _, h := range []int{y.Succ, y.Fail, y.Fin} {
			if h != NoTask && !okTask(h) {
				return fmt.Errorf("case %s: try %d handler out of range", c.ID, y.K)
			}
		}
	}
	return nil
}
