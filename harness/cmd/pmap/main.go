// Command pmap is the implementation-side driver, generator and oracle of the `pmap` line protocol
// (property C20): it runs the real varutil/plainmap, i18n/i18mem and i18n/fsi18loader of /repo.
//
//	pmap drive            ops on stdin -> one result line per op on stdout (same format as m_pmap)
//	pmap gen <n>          n random op lines (flatten / rebuild / emit / read / load)
//	pmap judge            the property's verdict (ok / fail / known / excluded / skip) for every op line on stdin
//	pmap oracle <n>       the clauses of the property evaluated on the implementation alone, with
//	                      encoding/json (UseNumber) as the independent decoder; prints FAIL / KNOWN lines
//	                      and a summary line `oracle cases=… fails=… <histogram>`
//
// Wire format: byte strings are hex ("-" = empty); a flat map is k=v,k=v ("-" = empty); a nested map is
// the token list L:<k>:<v> / N:<k> / E ("-" = empty).
package main

import (
	"bufio"
	"bytes"
	"encoding/json"
	"fmt"
	"os"
	"path/filepath"
	"reflect"
	"runtime"
	"sort"
	"strconv"
	"strings"
	"sync"
	"time"
	"unicode/utf8"

	"gcverif/internal/hx"

	"github.com/goatcms/goatcore/filesystem"
	"github.com/goatcms/goatcore/filesystem/filespace/diskfs"
	"github.com/goatcms/goatcore/filesystem/filespace/memfs"
	"github.com/goatcms/goatcore/i18n/fsi18loader"
	"github.com/goatcms/goatcore/i18n/i18mem"
	"github.com/goatcms/goatcore/varutil/plainmap"
	"github.com/goatcms/goatcore/workers"
)

// ---------------------------------------------------------------------------------------------
// wire helpers

func enc(s string) string { return hx.Enc([]byte(s)) }

func encFlat(m map[string]string) string {
	if len(m) == 0 {
		return "-"
	}
	keys := make([]string, 0, len(m))
	for k := range m {
		keys = append(keys, k)
	}
	sort.Strings(keys)
	parts := make([]string, len(keys))
	for i, k := range keys {
		parts[i] = enc(k) + "=" + enc(m[k])
	}
	return strings.Join(parts, ",")
}

type kv struct{ k, v string }

func encPairs(l []kv) string {
	if len(l) == 0 {
		return "-"
	}
	parts := make([]string, len(l))
	for i, e := range l {
		parts[i] = enc(e.k) + "=" + enc(e.v)
	}
	return strings.Join(parts, ",")
}

func decPairs(s string) []kv {
	if s == "-" {
		return nil
	}
	var res []kv
	for _, p := range strings.Split(s, ",") {
		i := strings.IndexByte(p, '=')
		if i < 0 {
			fmt.Fprintf(os.Stderr, "bad pair %q\n", p)
			os.Exit(3)
		}
		res = append(res, kv{string(hx.MustDec(p[:i])), string(hx.MustDec(p[i+1:]))})
	}
	return res
}

func pairsToMap(l []kv) map[string]string {
	m := map[string]string{}
	for _, e := range l {
		m[e.k] = e.v
	}
	return m
}

// nested map <-> token list
func encTree(m map[string]interface{}) string {
	toks := treeToks(m)
	if len(toks) == 0 {
		return "-"
	}
	return strings.Join(toks, ",")
}

func treeToks(m map[string]interface{}) []string {
	keys := make([]string, 0, len(m))
	for k := range m {
		keys = append(keys, k)
	}
	sort.Strings(keys)
	var toks []string
	for _, k := range keys {
		switch v := m[k].(type) {
		case map[string]interface{}:
			toks = append(toks, "N:"+enc(k))
			toks = append(toks, treeToks(v)...)
			toks = append(toks, "E")
		case string:
			toks = append(toks, "L:"+enc(k)+":"+enc(v))
		default:
			toks = append(toks, "L:"+enc(k)+":"+enc(fmt.Sprintf("?%T", v)))
		}
	}
	return toks
}

func decTree(s string) map[string]interface{} {
	if s == "-" {
		return map[string]interface{}{}
	}
	toks := strings.Split(s, ",")
	m, rest := decTreeToks(toks)
	if len(rest) != 0 {
		fmt.Fprintf(os.Stderr, "bad tree %q\n", s)
		os.Exit(3)
	}
	return m
}

func decTreeToks(toks []string) (map[string]interface{}, []string) {
	m := map[string]interface{}{}
	for len(toks) > 0 {
		t := toks[0]
		toks = toks[1:]
		if t == "E" {
			return m, toks
		}
		p := strings.Split(t, ":")
		switch {
		case p[0] == "L" && len(p) == 3:
			m[string(hx.MustDec(p[1]))] = string(hx.MustDec(p[2]))
		case p[0] == "N" && len(p) == 2:
			var c map[string]interface{}
			c, toks = decTreeToks(toks)
			m[string(hx.MustDec(p[1]))] = c
		default:
			fmt.Fprintf(os.Stderr, "bad token %q\n", t)
			os.Exit(3)
		}
	}
	return m, nil
}

func dottedPrefix(a, b string) bool { return strings.HasPrefix(b, a+".") }

func prefixFree(keys []string) bool {
	for _, a := range keys {
		for _, b := range keys {
			if dottedPrefix(a, b) {
				return false
			}
		}
	}
	return true
}

// ---------------------------------------------------------------------------------------------
// drive: the real code on op lines

func opFlatten(arg string) string {
	src := decTree(arg)
	var (
		out map[string]interface{}
		err error
	)
	if p, _ := hx.Guard(func() { out, err = plainmap.RecursiveMapToPlainMap(src) }); p {
		return "panic"
	}
	if err != nil {
		return "err"
	}
	sm := map[string]string{}
	for k, v := range out {
		if s, ok := v.(string); ok {
			sm[k] = s
		} else {
			sm[k] = fmt.Sprintf("?%T", v)
		}
	}
	return "map " + encFlat(sm)
}

func opRebuild(arg string) string {
	pairs := decPairs(arg)
	sm := pairsToMap(pairs)
	im := map[string]interface{}{}
	keys := []string{}
	for k, v := range sm {
		im[k] = v
		keys = append(keys, k)
	}
	var (
		a, b   map[string]interface{}
		ea, eb error
	)
	if p, _ := hx.Guard(func() {
		a, ea = plainmap.ToRecursiveMap(im)
		b, eb = plainmap.StringMapToRecursiveMap(sm)
	}); p {
		return "panic"
	}
	if _, ok := sm[""]; ok {
		if ea != nil && eb != nil {
			return "err"
		}
		return "accepted-empty-key"
	}
	if !prefixFree(keys) {
		return "unordered"
	}
	if (ea == nil) != (eb == nil) {
		return "variants-differ"
	}
	if ea != nil {
		return "err"
	}
	if !reflect.DeepEqual(a, b) {
		return "variants-differ"
	}
	return "tree " + encTree(a)
}

func opEmit(arg string) string {
	sm := pairsToMap(decPairs(arg))
	var (
		doc string
		err error
	)
	if p, _ := hx.Guard(func() { doc, err = plainmap.PlainStringMapToJSON(sm) }); p {
		return "panic"
	}
	if err != nil {
		return "err"
	}
	return "doc " + enc(doc)
}

func opRead(arg string) string {
	doc := hx.MustDec(arg)
	var (
		m   map[string]string
		err error
	)
	if p, _ := hx.Guard(func() { m, err = plainmap.JSONToPlainStringMap(doc) }); p {
		return "panic"
	}
	if err != nil {
		return "err"
	}
	return "map " + encFlat(m)
}

type FS = filesystem.Filespace

// runLoad writes the files into a fresh filespace, runs the real loader with `consumers` workers and
// returns the translator (or err / hang / panic)
func runLoad(kind string, consumers int, base string, files []kv) (i18 *i18mem.I18Mem, status string) {
	var (
		fs  FS
		err error
		tmp string
	)
	switch kind {
	case "disk":
		if tmp, err = os.MkdirTemp("/var/tmp", "c20-load-"); err != nil {
			fmt.Fprintln(os.Stderr, "cannot create temp dir:", err)
			os.Exit(3)
		}
		defer os.RemoveAll(tmp)
		fs, err = diskfs.NewFilespace(tmp)
	default:
		fs, err = memfs.NewFilespace()
	}
	if err != nil {
		fmt.Fprintln(os.Stderr, "cannot create filespace:", err)
		os.Exit(3)
	}
	for _, f := range files {
		if dir := filepath.Dir(f.k); dir != "." {
			if err = fs.MkdirAll(dir, 0777); err != nil {
				fmt.Fprintln(os.Stderr, "harness mkdir failed:", f.k, err)
				os.Exit(3)
			}
		}
		if err = fs.WriteFile(f.k, []byte(f.v), 0666); err != nil {
			fmt.Fprintln(os.Stderr, "harness write failed:", f.k, err)
			os.Exit(3)
		}
	}
	if base != "" {
		// the base directory exists even when no file lies below it
		if err = fs.MkdirAll(strings.TrimSuffix(base, "/"), 0777); err != nil {
			fmt.Fprintln(os.Stderr, "harness mkdir failed:", base, err)
			os.Exit(3)
		}
	}
	old := workers.MaxJob
	workers.MaxJob = consumers
	defer func() { workers.MaxJob = old }()
	i18 = i18mem.NewI18Mem()
	type res struct {
		err      error
		panicked bool
	}
	done := make(chan res, 1)
	// Readers are allowed while the loader runs (a server translates while a language pack is loaded): two
	// goroutines keep asking for keys until Load has returned.  What they get is not judged; what is judged
	// afterwards is that every key of every loaded file translates.
	stopReaders := make(chan struct{})
	var readers sync.WaitGroup
	for g := 0; g < 2; g++ {
		readers.Add(1)
		go func(g int) {
			defer readers.Done()
			for i := 0; ; i++ {
				select {
				case <-stopReaders:
					return
				default:
				}
				hx.Guard(func() { i18.Translate(fmt.Sprintf("probe.%d.%d", g, i%7)) })
				if i%64 == 63 {
					runtime.Gosched()
				}
			}
		}(g)
	}
	defer func() { close(stopReaders); readers.Wait() }()
	go func() {
		var r res
		r.panicked, _ = hx.Guard(func() { r.err = fsi18loader.Load(fs, base, i18, nil) })
		done <- r
	}()
	select {
	case r := <-done:
		if r.panicked {
			return nil, "panic"
		}
		if r.err != nil {
			return nil, "err"
		}
		return i18, "ok"
	case <-time.After(120 * time.Second):
		return nil, "hang"
	}
}

func parseCfg(cfg string) (kind string, consumers int) {
	p := strings.Split(cfg, ":")
	kind = p[0]
	consumers = 1
	if len(p) > 1 {
		consumers, _ = strconv.Atoi(p[1])
	}
	return
}

func opLoad(baseHex, filesArg, cfg string) string {
	base := string(hx.MustDec(baseHex))
	files := decPairs(filesArg)
	kind, consumers := parseCfg(cfg)
	i18, status := runLoad(kind, consumers, base, files)
	if status != "ok" {
		return status
	}
	// candidates: what the reachable *.json files say, read with the real reader
	cand := map[string][]string{}
	allKeys := map[string]bool{}
	for _, f := range files {
		m, err := plainmap.JSONToPlainStringMap([]byte(f.v))
		if err != nil {
			continue
		}
		reach := strings.HasPrefix(f.k, strings.TrimPrefix(base, "./")) && strings.HasSuffix(f.k, ".json")
		for k, v := range m {
			allKeys[k] = true
			if reach {
				cand[k] = append(cand[k], v)
			}
		}
	}
	keys := make([]string, 0, len(allKeys))
	for k := range allKeys {
		keys = append(keys, k)
	}
	sort.Strings(keys)
	var parts []string
	for _, k := range keys {
		got, err := i18.Translate(k)
		if err != nil {
			continue // not translatable: not printed (the model prints only what was set)
		}
		cs := cand[k]
		same := len(cs) > 0
		for _, c := range cs {
			if c != cs[0] {
				same = false
			}
		}
		// Translate formats with Sprintf: the stored value is the candidate whose formatting is `got`
		stored, found := "", false
		for _, c := range cs {
			if fmt.Sprintf(c) == got {
				stored, found = c, true
				break
			}
		}
		switch {
		case !found:
			parts = append(parts, enc(k)+"=!"+enc(got))
		case same:
			parts = append(parts, enc(k)+"="+enc(stored))
		default:
			parts = append(parts, enc(k)+"=?")
		}
	}
	if len(parts) == 0 {
		return "map -"
	}
	return "map " + strings.Join(parts, ",")
}

func drive() {
	sc := bufio.NewScanner(os.Stdin)
	sc.Buffer(make([]byte, 1<<20), 1<<28)
	w := bufio.NewWriter(os.Stdout)
	defer w.Flush()
	for sc.Scan() {
		line := sc.Text()
		if line == "" || strings.HasPrefix(line, "#") {
			continue
		}
		f := strings.Split(line, " ")
		res := "bad-op"
		switch {
		case f[0] == "flatten" && len(f) == 2:
			res = opFlatten(f[1])
		case f[0] == "rebuild" && len(f) == 2:
			res = opRebuild(f[1])
		case f[0] == "emit" && len(f) == 2:
			res = opEmit(f[1])
		case f[0] == "read" && len(f) == 2:
			res = opRead(f[1])
		case f[0] == "load" && len(f) == 4:
			res = opLoad(f[1], f[2], f[3])
		}
		fmt.Fprintln(w, res)
		w.Flush()
	}
}

// ---------------------------------------------------------------------------------------------
// generators

var (
	segPool = []string{"a", "b", "c", "ab", "é", "\"", "\\", "/", "\n", "k\x01", "😀", " ", "A", "<", "\u2028", "x y", "0"}
	runes   = []rune{'a', 'b', 'z', ' ', '"', '\\', '/', '\n', '\r', '\t', '\b', '\f', 0, 0x1f, 0x7f, '<', '>', '&', 'é', 'ü',
		'€', '.', 0x2028, 0x2029, 0x1F600, 0xFFFD, '{', '}', '[', ']', ':', ',', '\'', 'u', 'n', 0x10FFFF, 0x7ff, 0x800, 0xffff, 0x10000}
	badUTF8 = []string{"\xff", "\x80", "\xc3", "\xed\xa0\x80", "\xf4\x90\x80\x80", "\xe2\x80", "\xc0\xaf", "\xf0\x9f\x98"}
	numbers = []string{"0", "1", "-1", "1.5e3", "-0.0", "12345678901234567890", "1E+2", "-12.5e-3", "0.1", "3.14159", "1e400", "-0"}
)

type gen struct{ r *hx.Rand }

func (g *gen) text(maxLen int, percent bool) string {
	n := g.r.Intn(maxLen + 1)
	var b strings.Builder
	for i := 0; i < n; i++ {
		if percent && g.r.Chance(1, 4) {
			b.WriteString(g.r.Pick([]string{"%", "%%", "%d", "%s", "%v"}))
			continue
		}
		if g.r.Chance(1, 12) {
			// text that LOOKS like an escape sequence of the concrete syntax when it is written literally
			b.WriteString(g.r.Pick(escapeLookalikes))
			continue
		}
		b.WriteRune(runes[g.r.Intn(len(runes))])
	}
	return b.String()
}

// literal texts (backslash and all) which a writer that post-processes its own escaped output gets wrong
var escapeLookalikes = []string{`\u003c`, `\u003e`, `\u0026`, `\u0022`, `\u005c`, `\u00e9`, `\ud83d`, `\n`, `\t`, `\"`, `\`,
	`\/`, `\u`, `\u00`, `&lt;`, `&amp;`, `</`, `\x41`, `\0`}

// one key segment (never contains a dot unless dots is set)
func (g *gen) seg(dots bool) string {
	if dots && g.r.Chance(1, 3) {
		return g.r.Pick([]string{".", "a.b", ".a", "a.", "..", "a..b"})
	}
	if g.r.Chance(3, 4) {
		return g.r.Pick(segPool)
	}
	if g.r.Chance(1, 6) {
		return ""
	}
	return strings.ReplaceAll(g.text(3, false), ".", "_")
}

// a nested map with unique sibling keys; wf: no empty sub-maps, no dotted keys
func (g *gen) tree(depth int, wf bool) map[string]interface{} {
	m := map[string]interface{}{}
	n := g.r.Intn(4)
	if wf && n == 0 {
		n = 1
	}
	for i := 0; i < n; i++ {
		k := g.seg(!wf && g.r.Chance(1, 3))
		if _, dup := m[k]; dup {
			continue
		}
		if depth > 0 && g.r.Chance(2, 5) {
			c := g.tree(depth-1, wf)
			if wf && len(c) == 0 {
				continue
			}
			m[k] = c
		} else {
			m[k] = g.text(6, false)
		}
	}
	if wf && len(m) == 0 {
		m[g.r.Pick(segPool)] = g.text(6, false)
	}
	return m
}

// the flat keys of a nested map, computed by the generator (not by the code under test)
func flatKeys(m map[string]interface{}, prefix string, top bool, out map[string]int) {
	for k, v := range m {
		fk := k
		if !top {
			fk = prefix + "." + k
		}
		if c, ok := v.(map[string]interface{}); ok {
			flatKeys(c, fk, false, out)
		} else {
			out[fk]++
		}
	}
}

func refFlatten(m map[string]interface{}, prefix string, top bool, out map[string]string) {
	for k, v := range m {
		fk := k
		if !top {
			fk = prefix + "." + k
		}
		switch c := v.(type) {
		case map[string]interface{}:
			refFlatten(c, fk, false, out)
		case string:
			out[fk] = c
		case json.Number:
			out[fk] = string(c)
		}
	}
}

func uniqueFlat(m map[string]interface{}) bool {
	ks := map[string]int{}
	flatKeys(m, "", true, ks)
	for _, n := range ks {
		if n > 1 {
			return false
		}
	}
	return true
}

// flat map with (mostly) prefix-free keys, values from the nasty alphabet
func (g *gen) flat(mode string) map[string]string {
	out := map[string]string{}
	switch mode {
	case "tree": // keys of a well-formed tree: prefix-free by construction
		t := g.tree(3, true)
		refFlatten(t, "", true, out)
		delete(out, "")
	case "emptyseg": // keys with empty segments, none of them first
		for i, n := 0, 1+g.r.Intn(3); i < n; i++ {
			out[g.r.Pick([]string{"a.", "a..b", "b.", "c...d", "a.b.", "é..", "a. "})+g.r.Pick([]string{"", "x"})] = g.text(4, false)
		}
	case "dotfirst": // KF-C20-1 class: some key starts with a dot
		for i, n := 0, 1+g.r.Intn(3); i < n; i++ {
			out[g.r.Pick([]string{".x", ".", "..", ".a.b", "..x", ".é"})] = g.text(4, false)
		}
		if g.r.Chance(1, 2) {
			out["a.b"] = g.text(4, false)
		}
	case "conflict": // not prefix-free
		out["a"] = g.text(3, false)
		out["a.b"] = g.text(3, false)
		if g.r.Chance(1, 2) {
			out["a.b.c"] = g.text(3, false)
		}
	case "emptykey":
		out[""] = g.text(3, false)
		if g.r.Chance(1, 2) {
			out["a"] = g.text(3, false)
		}
	case "badutf8":
		for i, n := 0, 1+g.r.Intn(3); i < n; i++ {
			k := g.seg(false)
			if g.r.Chance(1, 3) {
				k += g.r.Pick(badUTF8)
			}
			out[k] = g.text(2, false) + g.r.Pick(badUTF8) + g.text(2, false)
		}
	default: // free: dotted keys drawn from a small pool so that prefixes are shared
		for i, n := 0, g.r.Intn(6); i < n; i++ {
			segs := 1 + g.r.Intn(3)
			p := make([]string, segs)
			for j := range p {
				p[j] = g.seg(false)
			}
			if p[0] == "" {
				p[0] = "r"
			}
			out[strings.Join(p, ".")] = g.text(6, false)
		}
	}
	return out
}

// ---- JSON documents as concrete syntax, rendered by the generator (independent of encoding/json)

func (g *gen) ws() string {
	if g.r.Chance(2, 3) {
		return ""
	}
	n := 1 + g.r.Intn(2)
	var b strings.Builder
	for i := 0; i < n; i++ {
		b.WriteString(g.r.Pick([]string{" ", "\n", "\t", "\r"}))
	}
	return b.String()
}

func hex4(c rune, upper bool) string {
	s := fmt.Sprintf("%04x", c)
	if upper {
		s = strings.ToUpper(s)
	}
	return s
}

// a JSON string literal for s with randomly chosen (valid) escape spellings
func (g *gen) strLit(s string) string {
	var b strings.Builder
	b.WriteByte('"')
	for _, c := range s {
		short := map[rune]string{'"': `\"`, '\\': `\\`, '/': `\/`, '\b': `\b`, '\f': `\f`, '\n': `\n`, '\r': `\r`, '\t': `\t`}
		mustEsc := c < 0x20 || c == '"' || c == '\\'
		switch {
		case mustEsc || g.r.Chance(1, 4):
			if sh, ok := short[c]; ok && g.r.Chance(2, 3) {
				b.WriteString(sh)
			} else if c >= 0x10000 {
				c -= 0x10000
				b.WriteString(`\u` + hex4(0xD800+(c>>10), g.r.Chance(1, 2)) + `\u` + hex4(0xDC00+(c&0x3ff), g.r.Chance(1, 2)))
			} else {
				b.WriteString(`\u` + hex4(c, g.r.Chance(1, 2)))
			}
		default:
			b.WriteRune(c)
		}
	}
	b.WriteByte('"')
	return b.String()
}

// some JSON value that is neither string, number nor object at its top (skipped by the reader)
func (g *gen) other(depth int) string {
	switch g.r.Intn(5) {
	case 0:
		return "true"
	case 1:
		return "false"
	case 2:
		return "null"
	}
	n := g.r.Intn(4)
	parts := make([]string, n)
	for i := range parts {
		switch g.r.Intn(6) {
		case 0:
			parts[i] = g.strLit(g.r.Pick([]string{"]", "}", "[{", "\"", "\\", "a,b", "]\\\"", ""}))
		case 1:
			parts[i] = g.r.Pick(numbers)
		case 2:
			if depth > 0 {
				parts[i] = g.other(depth - 1)
			} else {
				parts[i] = "[]"
			}
		case 3:
			if depth > 0 {
				d, _ := g.object(depth-1, false, false)
				parts[i] = d
			} else {
				parts[i] = "{}"
			}
		default:
			parts[i] = g.r.Pick([]string{"true", "null", "false", "0"})
		}
		parts[i] = g.ws() + parts[i] + g.ws()
	}
	if n == 0 {
		return "[" + g.ws() + "]"
	}
	return "[" + strings.Join(parts, ",") + "]"
}

// object renders a random JSON object; returns the text and the nested value it denotes
// (string and number leaves only; sub-objects kept even when empty).
// emptyTopKey: allow a sub-object under the key "" (at the top this is the KF-C20-1 class)
func (g *gen) object(depth int, emptyObjKey bool, dots bool) (string, map[string]interface{}) {
	val := map[string]interface{}{}
	n := g.r.Intn(5)
	var parts []string
	used := map[string]bool{}
	for i := 0; i < n; i++ {
		k := g.seg(dots)
		if used[k] {
			continue
		}
		var v string
		switch x := g.r.Intn(10); {
		case x < 4:
			s := g.text(6, false)
			v = g.strLit(s)
			val[k] = s
		case x < 6:
			v = g.r.Pick(numbers)
			val[k] = json.Number(v)
		case x < 8 && depth > 0:
			if k == "" && !emptyObjKey {
				continue
			}
			var c map[string]interface{}
			v, c = g.object(depth-1, true, dots)
			val[k] = c
		default:
			v = g.other(2)
		}
		used[k] = true
		parts = append(parts, g.ws()+g.strLit(k)+g.ws()+":"+g.ws()+v+g.ws())
	}
	if len(parts) == 0 {
		return "{" + g.ws() + "}", val
	}
	return "{" + strings.Join(parts, ",") + "}", val
}

func (g *gen) doc(kind string) (string, map[string]interface{}) {
	switch kind {
	case "kf1": // an object under the empty key at the top
		inner, c := g.object(2, true, false)
		for len(c) == 0 || len(refFlat(c)) == 0 {
			inner, c = g.object(2, true, false)
		}
		return `{"":` + inner + `}`, map[string]interface{}{"": c}
	case "kf3": // lone / ill-paired surrogate escapes
		bad := g.r.Pick([]string{`\ud800`, `\udc00`, `\ud800A`, `\udc00\udc00`, `\ud800A`, `\ud800XXdc00`, `x\udfffy`, `\udbff\ud800`})
		return `{"a":"` + bad + `","b":"ok"}`, nil
	default:
		d, v := g.object(3, false, kind == "dots")
		return g.ws() + d + g.ws(), v
	}
}

func refFlat(m map[string]interface{}) map[string]string {
	out := map[string]string{}
	refFlatten(m, "", true, out)
	return out
}

var mutPool = []byte(`{}[]":,\ u0tn1-d8`)

func (g *gen) mutate(doc string) string {
	b := []byte(doc)
	if len(b) == 0 {
		return "{"
	}
	for i, n := 0, 1+g.r.Intn(2); i < n && len(b) > 0; i++ {
		p := g.r.Intn(len(b))
		switch g.r.Intn(5) {
		case 0:
			b = append(b[:p], b[p+1:]...)
		case 1:
			b = b[:p]
		case 2:
			c := mutPool[g.r.Intn(len(mutPool))]
			b = append(b[:p], append([]byte{c}, b[p:]...)...)
		case 3:
			b[p] = mutPool[g.r.Intn(len(mutPool))]
		default:
			b = append(b, []byte(g.r.Pick([]string{",", "}", "x", " ", "\"", "]"}))...)
		}
	}
	return string(b)
}

// a directory layout of translation files: paths -> documents
type layout struct {
	base      string
	files     []kv
	kind      string
	consumers int
}

var dirPool = []string{"a", "b", "tr", "pl", "x.json", "forms", "d e"}

func (g *gen) layout(mode string) layout {
	l := layout{kind: "mem", consumers: 1 + g.r.Intn(16)}
	if g.r.Chance(1, 3) {
		l.kind = "disk"
	}
	l.base = g.r.Pick([]string{"", "", "tr/", "a/b/", "./"})
	if l.base == "./" && g.r.Chance(1, 2) {
		l.base = ""
	}
	n := g.r.Intn(41)
	if g.r.Chance(1, 2) {
		n = g.r.Intn(8)
	}
	large := mode != "broken" && g.r.Chance(1, 6)
	if large {
		// a large directory tree: more files than any batch / queue size a loader might use, several consumers
		n = 64 + g.r.Intn(337)
		l.consumers = 2 + g.r.Intn(15)
	}
	// a few WIDE files (hundreds of keys each) loaded by several consumers: per-file batches far larger than
	// any threshold an in-memory store might switch its update strategy at
	wide := mode != "broken" && !large && g.r.Chance(1, 8)
	if wide {
		n = 2 + g.r.Intn(6)
		l.consumers = 2 + g.r.Intn(15)
	}
	used := map[string]bool{}
	isDir := map[string]bool{}
	for i := 0; i < n; i++ {
		depth := g.r.Intn(4)
		p := ""
		ok := true
		for d := 0; d < depth; d++ {
			p += g.r.Pick(dirPool) + "/"
			if used[strings.TrimSuffix(p, "/")] {
				ok = false
			}
		}
		if !ok {
			continue
		}
		name := fmt.Sprintf("f%d", i) + g.r.Pick([]string{".json", ".json", ".json", ".json", ".txt", ".JSON", "json", ".json.bak"})
		if g.r.Chance(1, 20) {
			name = ".json"
		}
		inBase := g.r.Chance(4, 5)
		path := p + name
		if inBase {
			path = strings.TrimPrefix(l.base, "./") + path
		} else if l.base == "" || l.base == "./" {
			// everything is below the root
		} else {
			path = "out/" + path
		}
		if used[path] || isDir[path] {
			continue
		}
		// register parents as directories
		conflict := false
		parts := strings.Split(path, "/")
		for j := 1; j < len(parts); j++ {
			d := strings.Join(parts[:j], "/")
			if used[d] {
				conflict = true
			}
		}
		if conflict {
			continue
		}
		for j := 1; j < len(parts); j++ {
			isDir[strings.Join(parts[:j], "/")] = true
		}
		used[path] = true
		// content: own namespace f<i>.…, plus (mode overlap) shared keys
		m := map[string]string{}
		nkeys := g.r.Intn(4)
		if large {
			nkeys = 1 + g.r.Intn(2) // every file contributes keys of its own
		}
		for j := 0; j < nkeys; j++ {
			m[fmt.Sprintf("f%d.%s", i, g.seg(false))] = g.text(5, mode == "percent")
		}
		if wide {
			for j, nk := 0, 100+g.r.Intn(300); j < nk; j++ {
				m[fmt.Sprintf("f%d.w%d", i, j)] = fmt.Sprintf("v%d.%d", i, j)
			}
		}
		switch mode {
		case "agree":
			m["shared.title"] = "same"
		case "conflict":
			if g.r.Chance(1, 2) {
				m["shared.title"] = fmt.Sprintf("v%d", g.r.Intn(3))
			}
		}
		doc, err := json.Marshal(nestForJSON(m))
		if err != nil {
			continue
		}
		if mode == "broken" && g.r.Chance(1, 6) {
			doc = []byte(g.mutate(string(doc)))
		}
		l.files = append(l.files, kv{path, string(doc)})
	}
	return l
}

// nestForJSON rebuilds a nested map independently of the code under test (keys f<i>.<seg> and shared.title only)
func nestForJSON(m map[string]string) map[string]interface{} {
	out := map[string]interface{}{}
	for k, v := range m {
		i := strings.IndexByte(k, '.')
		head, tail := k[:i], k[i+1:]
		sub, _ := out[head].(map[string]interface{})
		if sub == nil {
			sub = map[string]interface{}{}
			out[head] = sub
		}
		sub[tail] = v
	}
	return out
}

func (l layout) op() string {
	return fmt.Sprintf("load %s %s %s:%d", enc(l.base), encPairs(l.files), l.kind, l.consumers)
}

func genOps(n int) {
	g := &gen{hx.NewRand(hx.SeedFromEnv())}
	w := bufio.NewWriter(os.Stdout)
	defer w.Flush()
	for i := 0; i < n; i++ {
		switch x := g.r.Intn(100); {
		case x < 18: // flatten
			wf := g.r.Chance(4, 5)
			t := g.tree(3, wf)
			if !uniqueFlat(t) {
				i--
				continue
			}
			fmt.Fprintln(w, "flatten "+encTree(t))
		case x < 36: // rebuild
			mode := "tree"
			switch y := g.r.Intn(20); {
			case y < 10:
			case y < 13:
				mode = "free"
			case y < 15:
				mode = "emptyseg"
			case y < 17:
				mode = "dotfirst"
			case y < 18:
				mode = "conflict"
			default:
				mode = "emptykey"
			}
			fmt.Fprintln(w, "rebuild "+encFlat(g.flat(mode)))
		case x < 60: // emit
			mode := g.r.Pick([]string{"tree", "tree", "free", "free", "emptyseg", "dotfirst", "conflict", "emptykey", "badutf8"})
			fmt.Fprintln(w, "emit "+encFlat(g.flat(mode)))
		case x < 92: // read
			var doc string
			switch y := g.r.Intn(20); {
			case y < 9:
				doc, _ = g.doc("plain")
			case y < 10:
				doc, _ = g.doc("dots")
			case y < 11:
				doc, _ = g.doc("kf1")
			case y < 12:
				doc, _ = g.doc("kf3")
			case y < 14: // what the emitter writes
				doc, _ = plainmap.PlainStringMapToJSON(g.flat(g.r.Pick([]string{"tree", "free", "emptyseg", "dotfirst", "conflict"})))
			default:
				doc, _ = g.doc("plain")
				doc = g.mutate(doc)
			}
			fmt.Fprintln(w, "read "+enc(doc))
		default: // load
			mode := g.r.Pick([]string{"disjoint", "disjoint", "agree", "conflict", "percent", "broken"})
			fmt.Fprintln(w, g.layout(mode).op())
		}
	}
}

// ---------------------------------------------------------------------------------------------
// oracle: the property's clauses on the implementation alone

// verdict of one clause on one input
type verdict struct {
	status string // ok | fail | known | excluded | skip
	id     string // finding id when status == known (or when the input lies in a known class)
	class  string // input class
	detail string
	ops    []string // replayable op lines
}

func stdDecode(doc string) (map[string]interface{}, error) {
	dec := json.NewDecoder(strings.NewReader(doc))
	dec.UseNumber()
	var v map[string]interface{}
	if err := dec.Decode(&v); err != nil {
		return nil, err
	}
	// nothing but white space may follow
	if _, err := dec.Token(); err == nil {
		return nil, fmt.Errorf("trailing data")
	}
	return v, nil
}

// clause rebuild_flatten on a nested map (string leaves)
func judgeRebuildFlatten(t map[string]interface{}) verdict {
	v := verdict{class: "plain", ops: []string{"flatten " + encTree(t)}}
	kf2 := false
	if x, ok := t[""]; ok {
		if _, isMap := x.(map[string]interface{}); !isMap {
			kf2 = true
			v.class, v.id = "kf2", "KF-C20-2"
		}
	}
	var (
		flat, back map[string]interface{}
		err        error
	)
	if p, _ := hx.Guard(func() {
		if flat, err = plainmap.RecursiveMapToPlainMap(t); err == nil {
			back, err = plainmap.ToRecursiveMap(flat)
		}
	}); p {
		v.status, v.detail = "fail", "panic"
		return v
	}
	if flat != nil {
		sm := map[string]string{}
		for k, x := range flat {
			sm[k], _ = x.(string)
		}
		v.ops = append(v.ops, "rebuild "+encFlat(sm))
	}
	switch {
	case err == nil && reflect.DeepEqual(back, t):
		v.status = "ok"
	case kf2 && err != nil:
		v.status, v.detail = "known", "a top-level leaf under the empty key flattens to the key \"\" which ToRecursiveMap rejects"
	case err != nil:
		v.status, v.detail = "fail", "error: "+err.Error()
	default:
		v.status, v.detail = "fail", "rebuilt "+encTree(back)
	}
	return v
}

// clause flatten_rebuild on a flat map
func judgeFlattenRebuild(f map[string]string) verdict {
	v := verdict{class: "plain", ops: []string{"rebuild " + encFlat(f)}}
	keys := []string{}
	for k := range f {
		keys = append(keys, k)
	}
	if !prefixFree(keys) {
		v.status, v.class = "skip", "not-prefix-free"
		return v
	}
	_, kf2 := f[""]
	if kf2 {
		v.class, v.id = "kf2", "KF-C20-2"
	}
	var (
		t1, t2, back map[string]interface{}
		err          error
	)
	im := map[string]interface{}{}
	for k, x := range f {
		im[k] = x
	}
	if p, _ := hx.Guard(func() {
		if t1, err = plainmap.ToRecursiveMap(im); err != nil {
			return
		}
		if t2, err = plainmap.StringMapToRecursiveMap(f); err != nil {
			return
		}
		back, err = plainmap.RecursiveMapToPlainMap(t1)
	}); p {
		v.status, v.detail = "fail", "panic"
		return v
	}
	switch {
	case kf2 && err != nil:
		v.status, v.detail = "known", "the flat key \"\" is rejected by ToRecursiveMap"
	case err != nil:
		v.status, v.detail = "fail", "error: "+err.Error()
	case !reflect.DeepEqual(t1, t2):
		v.status, v.detail = "fail", "ToRecursiveMap and StringMapToRecursiveMap differ"
	case !reflect.DeepEqual(back, im):
		v.status, v.detail = "fail", "flatten(rebuild f) != f"
	default:
		v.status = "ok"
	}
	return v
}

// clause read_matches_decoder on a document that encoding/json accepts
func judgeRead(doc string) verdict {
	v := verdict{class: "plain", ops: []string{"read " + enc(doc)}}
	if !utf8.ValidString(doc) {
		v.status, v.class, v.detail = "skip", "not-utf8", "the document is not well-formed UTF-8, hence not a JSON text"
		return v
	}
	std, err := stdDecode(doc)
	if err != nil {
		v.status, v.class, v.detail = "skip", "not-json", "encoding/json rejects the document: "+err.Error()
		return v
	}
	if !uniqueFlat(std) {
		v.status, v.class = "skip", "colliding-dotted-keys"
		return v
	}
	want := refFlat(std)
	if sub, isMap := std[""].(map[string]interface{}); isMap && len(refFlat(sub)) > 0 {
		v.class, v.id = "kf1", "KF-C20-1" // an object with leaves under the empty key at the top
	}
	if hasLoneSurrogateEscape(doc) {
		v.class, v.id = "kf3", "KF-C20-3"
	}
	var got map[string]string
	if p, _ := hx.Guard(func() { got, err = plainmap.JSONToPlainStringMap([]byte(doc)) }); p {
		v.status, v.detail = "fail", "panic"
		return v
	}
	switch {
	case err == nil && reflect.DeepEqual(got, want):
		v.status = "ok"
	case v.id != "":
		v.status, v.detail = "known", fmt.Sprintf("want %s got %s err=%v", encFlat(want), encFlat(got), err != nil)
	case err != nil:
		v.status, v.detail = "fail", "error: "+err.Error()
	default:
		v.status, v.detail = "fail", fmt.Sprintf("want %s got %s", encFlat(want), encFlat(got))
	}
	return v
}

// clause write_read on a flat map
func judgeWriteRead(f map[string]string) verdict {
	v := verdict{class: "plain", ops: []string{"emit " + encFlat(f)}}
	valid := true
	for k, x := range f {
		if strings.HasPrefix(k, ".") {
			v.class, v.id = "kf1", "KF-C20-1" // some key begins with a dot (empty first segment)
		}
		if !utf8.ValidString(k) || !utf8.ValidString(x) {
			valid = false
		}
	}
	if !valid {
		v.class, v.id = "badutf8", ""
	}
	var (
		doc string
		got map[string]string
		err error
	)
	if p, _ := hx.Guard(func() {
		if doc, err = plainmap.PlainStringMapToJSON(f); err == nil {
			got, err = plainmap.JSONToPlainStringMap([]byte(doc))
		}
	}); p {
		v.status, v.detail = "fail", "panic"
		return v
	}
	v.ops = append(v.ops, "read "+enc(doc))
	okRes := err == nil && reflect.DeepEqual(got, f)
	if !json.Valid([]byte(doc)) {
		v.status, v.detail = "fail", "the emitted document is not valid JSON"
		return v
	}
	switch {
	case !valid:
		// excluded point of the theorem (hypothesis: keys and values are well-formed UTF-8)
		v.status = "excluded"
		if okRes {
			v.detail = "equal"
		} else {
			v.detail = "differs"
		}
		return v
	case okRes:
		v.status = "ok"
	case v.id != "":
		v.status, v.detail = "known", fmt.Sprintf("wrote %s read back %s", encFlat(f), encFlat(got))
		return v
	default:
		v.status, v.detail = "fail", fmt.Sprintf("wrote %s read back %s err=%v", encFlat(f), encFlat(got), err)
		return v
	}
	// with prefix-free keys (outside the KF-C20-1 class) the document denotes the same map for a standard decoder
	keys := []string{}
	for k := range f {
		keys = append(keys, k)
	}
	if v.id == "" && prefixFree(keys) {
		std, err := stdDecode(doc)
		if err != nil || !reflect.DeepEqual(refFlat(std), f) {
			v.status, v.detail = "fail", "encoding/json reads a different map from the emitted document"
		} else {
			v.detail = "std-decoder-agrees"
		}
	}
	return v
}

// clause load_all_keys on a directory layout
func judgeLoad(l layout) (v verdict, keysChecked, foreignChecked int) {
	v = verdict{class: l.kind, ops: []string{l.op()}}
	i18, status := runLoad(l.kind, l.consumers, l.base, l.files)
	// expectations from the documents, decoded by encoding/json
	want := map[string][]string{}
	foreign := map[string]bool{}
	broken := false
	base := strings.TrimPrefix(l.base, "./")
	for _, f := range l.files {
		reach := strings.HasPrefix(f.k, base) && strings.HasSuffix(f.k, ".json")
		std, err := stdDecode(f.v)
		if err != nil || !utf8.ValidString(f.v) {
			// not a JSON text (a mutated file): nothing is claimed about it
			if reach {
				broken = true
			}
			continue
		}
		for k, x := range refFlat(std) {
			if reach {
				want[k] = append(want[k], x)
			} else {
				foreign[k] = true
			}
		}
	}
	if broken {
		// a translation file that is not JSON: Load must report an error (nothing is claimed about the rest)
		switch status {
		case "err":
			v.status, v.class = "ok", "broken-file"
		case "panic", "hang":
			v.status, v.class, v.detail = "fail", "broken-file", "Load: "+status
		default: // the lenient reader accepted the file
			v.status, v.class, v.detail = "skip", "broken-file", "Load: "+status
		}
		return
	}
	if status != "ok" {
		v.status, v.detail = "fail", "Load: "+status
		return
	}
	for k, vs := range want {
		got, err := i18.Translate(k)
		if err != nil {
			v.status, v.detail = "fail", fmt.Sprintf("key %s of a loaded file is not translatable", enc(k))
			return
		}
		hit := false
		for _, x := range vs {
			if got == fmt.Sprintf(x) {
				hit = true
			}
		}
		if !hit {
			v.status, v.detail = "fail", fmt.Sprintf("key %s translates to %s, no file says so", enc(k), enc(got))
			return
		}
		keysChecked++
	}
	for k := range foreign {
		if _, isWanted := want[k]; isWanted {
			continue
		}
		if _, err := i18.Translate(k); err == nil {
			v.status, v.detail = "fail", fmt.Sprintf("key %s of a file that is not a *.json file below the base is translatable", enc(k))
			return
		}
		foreignChecked++
	}
	v.status = "ok"
	return
}

// hasLoneSurrogateEscape: some \uXXXX escape of a surrogate code unit that is not part of a high/low pair
func hasLoneSurrogateEscape(doc string) bool {
	b := []byte(doc)
	unit := func(i int) (int, bool) { // \uXXXX at i
		if i+6 > len(b) || b[i] != '\\' || b[i+1] != 'u' {
			return 0, false
		}
		n, err := strconv.ParseUint(string(b[i+2:i+6]), 16, 32)
		return int(n), err == nil
	}
	for i := 0; i < len(b); i++ {
		if b[i] != '\\' {
			continue
		}
		if i+1 < len(b) && b[i+1] != 'u' {
			i++ // an escaped character (also an escaped backslash)
			continue
		}
		u, ok := unit(i)
		if !ok {
			continue
		}
		switch {
		case u >= 0xD800 && u <= 0xDBFF:
			lo, ok2 := unit(i + 6)
			if !ok2 || lo < 0xDC00 || lo > 0xDFFF {
				return true
			}
			i += 11
		case u >= 0xDC00 && u <= 0xDFFF:
			return true
		default:
			i += 5
		}
	}
	return false
}

type oracle struct {
	g     *gen
	w     *bufio.Writer
	cases int
	fails int
	hist  map[string]int
}

// account a verdict; returns true when the case counted as a check of the clause
func (o *oracle) take(clause string, v verdict) {
	o.cases++
	o.hist[clause+":"+v.class+":"+v.status]++
	switch v.status {
	case "fail":
		o.fails++
		o.hist["fail:"+clause]++
		fmt.Fprintf(o.w, "FAIL %s %s %s :: %s\n", clause, v.class, strings.Join(v.ops, ";;"), v.detail)
	case "known":
		o.hist["known:"+v.id]++
		if o.hist["known:"+v.id] <= 2 {
			fmt.Fprintf(o.w, "KNOWN %s %s %s :: %s\n", v.id, clause, strings.Join(v.ops, ";;"), v.detail)
		}
	case "ok":
		if v.id != "" {
			o.hist["class-without-defect:"+v.id]++
		}
	case "excluded":
		o.hist["excluded:"+clause+":"+v.detail]++
	}
}

func (o *oracle) readDecoder() {
	kind := "plain"
	switch y := o.g.r.Intn(20); {
	case y < 1:
		kind = "kf1"
	case y < 2:
		kind = "kf3"
	case y < 4:
		kind = "dots"
	}
	doc, byConstruction := o.g.doc(kind)
	std, err := stdDecode(doc)
	if err != nil {
		o.take("read_matches_decoder", verdict{status: "fail", class: "generator", ops: []string{"read " + enc(doc)},
			detail: "the generated document is not valid JSON for encoding/json: " + err.Error()})
		return
	}
	if byConstruction != nil && uniqueFlat(std) && !reflect.DeepEqual(refFlat(byConstruction), refFlat(std)) {
		o.take("read_matches_decoder", verdict{status: "fail", class: "generator", ops: []string{"read " + enc(doc)},
			detail: "encoding/json disagrees with the value the generator built"})
		return
	}
	o.take("read_matches_decoder", judgeRead(doc))
}

func (o *oracle) loadAll() {
	mode := o.g.r.Pick([]string{"disjoint", "disjoint", "agree", "percent", "conflict", "broken"})
	if mode == "broken" && os.Getenv("PMAP_NO_BROKEN") != "" {
		// under the race detector only successful loads are of interest here: after a failed Load the walk's
		// producers are still running (fsloop / jobsync error path, not this property's subject)
		mode = "disjoint"
	}
	l := o.g.layout(mode)
	o.hist["load:mode="+mode]++
	o.hist[fmt.Sprintf("load:consumers=%02d", l.consumers)]++
	if len(l.files) < 50 {
		o.hist[fmt.Sprintf("load:files=%02d-%02d", len(l.files)/10*10, len(l.files)/10*10+9)]++
	} else {
		o.hist[fmt.Sprintf("load:files=%03d-%03d", len(l.files)/100*100, len(l.files)/100*100+99)]++
	}
	v, kc, fc := judgeLoad(l)
	o.hist["load:keys-checked"] += kc
	o.hist["load:foreign-keys-checked"] += fc
	o.take("load_all_keys", v)
}

func runOracle(n int) {
	o := &oracle{g: &gen{hx.NewRand(hx.SeedFromEnv() ^ 0x5eed)}, w: bufio.NewWriter(os.Stdout), hist: map[string]int{}}
	defer o.w.Flush()
	for i := 0; i < n; i++ {
		switch x := o.g.r.Intn(100); {
		case x < 20:
			o.take("rebuild_flatten", judgeRebuildFlatten(o.g.tree(4, true)))
		case x < 38:
			f := o.g.flat(o.g.r.Pick([]string{"tree", "free", "emptyseg", "dotfirst", "emptykey"}))
			o.take("flatten_rebuild", judgeFlattenRebuild(f))
		case x < 65:
			o.readDecoder()
		case x < 92:
			mode := o.g.r.Pick([]string{"tree", "tree", "free", "free", "emptyseg", "conflict", "emptykey", "dotfirst", "badutf8"})
			o.take("write_read", judgeWriteRead(o.g.flat(mode)))
		default:
			o.loadAll()
		}
	}
	keys := make([]string, 0, len(o.hist))
	for k := range o.hist {
		keys = append(keys, k)
	}
	sort.Strings(keys)
	var b bytes.Buffer
	for _, k := range keys {
		fmt.Fprintf(&b, " %s=%d", strings.ReplaceAll(k, " ", "_"), o.hist[k])
	}
	fmt.Fprintf(o.w, "oracle cases=%d fails=%d%s\n", o.cases, o.fails, b.String())
}

// judge: the property's verdict for every op line on stdin (used by --replay)
func judge() {
	sc := bufio.NewScanner(os.Stdin)
	sc.Buffer(make([]byte, 1<<20), 1<<28)
	w := bufio.NewWriter(os.Stdout)
	defer w.Flush()
	for sc.Scan() {
		line := sc.Text()
		if line == "" || strings.HasPrefix(line, "#") {
			continue
		}
		f := strings.Split(line, " ")
		var v verdict
		clause := "?"
		switch {
		case f[0] == "flatten" && len(f) == 2:
			clause, v = "rebuild_flatten", judgeRebuildFlatten(decTree(f[1]))
		case f[0] == "rebuild" && len(f) == 2:
			clause, v = "flatten_rebuild", judgeFlattenRebuild(pairsToMap(decPairs(f[1])))
		case f[0] == "emit" && len(f) == 2:
			clause, v = "write_read", judgeWriteRead(pairsToMap(decPairs(f[1])))
		case f[0] == "read" && len(f) == 2:
			clause, v = "read_matches_decoder", judgeRead(string(hx.MustDec(f[1])))
		case f[0] == "load" && len(f) == 4:
			kind, consumers := parseCfg(f[3])
			clause = "load_all_keys"
			v, _, _ = judgeLoad(layout{base: string(hx.MustDec(f[1])), files: decPairs(f[2]), kind: kind, consumers: consumers})
		default:
			v = verdict{status: "skip", detail: "bad op"}
		}
		fmt.Fprintf(w, "%s %s class=%s id=%s %s\n", v.status, clause, v.class, v.id, v.detail)
		w.Flush()
	}
}

// ---------------------------------------------------------------------------------------------

func main() {
	if len(os.Args) < 2 {
		fmt.Fprintln(os.Stderr, "usage: pmap drive|gen <n>|oracle <n>")
		os.Exit(2)
	}
	switch os.Args[1] {
	case "drive":
		drive()
	case "gen":
		n, _ := strconv.Atoi(os.Args[2])
		genOps(n)
	case "oracle":
		n, _ := strconv.Atoi(os.Args[2])
		runOracle(n)
	case "judge":
		judge()
	default:
		fmt.Fprintln(os.Stderr, "unknown subcommand")
		os.Exit(2)
	}
}
