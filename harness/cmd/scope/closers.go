package main

// The CONCURRENT CLOSERS family (property C11, "closing twice is refused loudly rather than repeating the
// events" — for Close calls that arrive AT THE SAME TIME from different goroutines).
//
// One case is one line; it is a whole scenario, run `rounds` times:
//
//	cc <k> <procs> <depth> <tasks> <kids> <par> <err> <rounds>
//
//	k       goroutines that call Close on the same scope S at the same moment (start barrier)
//	procs   runtime.GOMAXPROCS for the case
//	depth   frames of call stack below every Close call (Close dumps the stack inside its guard)
//	tasks   open tasks of S, completed (DoneTask) while the closers run
//	kids    open shared-context children of S, closed while the closers run
//	par     0: S is a root; 1: S is a shared-context child of P; 2: an isolated-context child of P.
//	        With a parent: P has a second child B, P's own Close is issued BEFORE the closers (it must
//	        wait for S and B), B is closed at the very end
//	err     none | pre (AppendError on S before the closers) | kid (the first child of S appends an error
//	        before it closes; `none` if kids = 0) | l<i> (S's listener of close event i returns an error;
//	        i indexes beforeCommit, commit, afterCommit, beforeRollback, rollback, afterRollback,
//	        beforeClose, afterClose)
//
// P (if any) and S have one listener on each of the eight close events (ids in registration order: P's
// first); the log records (listener, event, scope that fired it) in one global order, plus marks written
// by the harness BEFORE the call that ends a wait.  Everything compared is a count or an order of recorded
// events; nothing depends on how long anything took.  The result line (the same format is printed by the
// model driver m_scope, which runs k `close S` acts on the transition system):
//
//	cc acc=<Close calls that ran the protocol and returned> ref=<calls refused: panic "scope … is closed"> \
//	   oth=<calls that ended any other way> C[<scope>=<1 if its Close returned an error>,…] \
//	   Q[<scope>=<listener>:<event>,…;…]      per firing scope, the listener invocations in order
//
// Scope numbers: with a parent P=0 S=1 B=2 kids 3…; without S=0 kids 1….
//
// Clauses evaluated on the implementation alone (expected values known by construction):
//
//	once_runs     exactly one of the k calls runs the protocol, k-1 are refused, none ends otherwise
//	once_events   S fires beforeClose, the commit triple | the rollback triple, afterClose: each exactly
//	              once, in that order (seen by S's own listeners, and by P's)
//	pick_result   rollback iff S holds an error when its wait ends; the winning call returns an error iff
//	              S holds one at the end
//	waits         S's triple starts after the mark written before the last DoneTask / child Close, and
//	              after every child's afterClose
//	parent_once   the parent's task count is decremented exactly once: P's triple starts after S's
//	              afterClose and after the mark written before B.Close (B is open until then), P's Close
//	              does not panic (negative wait-group counter), fires its own events exactly once and returns
//	              the expected result
//	returns       every call returns or panics within the watchdog (10 s; 300 ms after the first hang)

import (
	"bufio"
	"errors"
	"fmt"
	"os"
	"runtime"
	"sort"
	"strconv"
	"strings"
	"sync"
	"time"

	"gcverif/internal/hx"

	"github.com/goatcms/goatcore/app"
	"github.com/goatcms/goatcore/app/scope"
	"github.com/goatcms/goatcore/app/scope/contextscope"
)

type ccCase struct {
	k, procs, depth, tasks, kids, par int
	err                               string
	rounds                            int
}

func (c ccCase) String() string {
	return fmt.Sprintf("cc %d %d %d %d %d %d %s %d", c.k, c.procs, c.depth, c.tasks, c.kids, c.par, c.err, c.rounds)
}

func parseCC(line string) (c ccCase, ok bool) {
	f := strings.Split(line, " ")
	if len(f) != 9 || f[0] != "cc" {
		return c, false
	}
	var v [8]int
	for i := 1; i < 9; i++ {
		if i == 7 {
			continue
		}
		n, err := strconv.Atoi(f[i])
		if err != nil || n < 0 {
			return c, false
		}
		v[i-1] = n
	}
	c = ccCase{k: v[0], procs: v[1], depth: v[2], tasks: v[3], kids: v[4], par: v[5], err: f[7], rounds: v[7]}
	if c.k < 1 || c.k > 64 || c.procs < 1 || c.procs > 256 || c.depth > 5000 || c.tasks > 16 || c.kids > 16 || c.par > 2 || c.rounds < 1 {
		return c, false
	}
	switch {
	case c.err == "none" || c.err == "pre" || c.err == "kid":
	case len(c.err) == 2 && c.err[0] == 'l' && c.err[1] >= '0' && c.err[1] <= '7':
	default:
		return c, false
	}
	return c, true
}

// errListener: the index (into closeEvNames) of S's failing listener, -1 if none
func (c ccCase) errListener() int {
	if len(c.err) == 2 && c.err[0] == 'l' {
		return int(c.err[1] - '0')
	}
	return -1
}

type ccEntry struct {
	lid  int // -1: a mark of the harness
	ev   string
	src  int
	mark string
}

type ccOutcome struct {
	kind string // returned | refused | other
	err  bool
	note string
}

var ccHangs int

func ccTimeout() time.Duration {
	if ccHangs > 0 {
		return 300 * time.Millisecond
	}
	return baseTimeout
}

//go:noinline
func ccDeep(n int, f func()) int {
	if n <= 0 {
		f()
		return 0
	}
	return ccDeep(n-1, f) + 1
}

// classify one Close call
func ccCall(s app.Scope) (o ccOutcome) {
	var err error
	pan, val := hx.Guard(func() { err = s.Close() })
	if !pan {
		return ccOutcome{kind: "returned", err: err != nil}
	}
	msg := fmt.Sprint(val)
	if e, ok := val.(error); ok {
		msg = e.Error()
	}
	// the refusal of scope.preventDoubleClosed: "scope [<sid>] is closed at: …"
	if strings.HasPrefix(msg, "scope [") && strings.Contains(msg, "] is closed at:") {
		return ccOutcome{kind: "refused"}
	}
	if i := strings.IndexByte(msg, '\n'); i >= 0 {
		msg = msg[:i]
	}
	return ccOutcome{kind: "other", note: msg}
}

type ccRound struct {
	line  string
	fails []string
}

// ccRun executes one round of a case.
func ccRun(c ccCase) ccRound {
	var (
		mu     sync.Mutex
		log    []ccEntry
		ids    = map[app.Scope]int{}
		scopes []app.Scope
		ctxs   []app.ContextScope
		nLis   int
		fails  []string
	)
	fail := func(clause, format string, a ...interface{}) {
		fails = append(fails, clause+" "+fmt.Sprintf(format, a...))
	}
	mark := func(m string) {
		mu.Lock()
		log = append(log, ccEntry{lid: -1, mark: m, src: -1})
		mu.Unlock()
	}
	add := func(s app.Scope) int {
		ids[s] = len(scopes)
		scopes = append(scopes, s)
		ctxs = append(ctxs, s.BaseContextScope())
		return len(scopes) - 1
	}
	listen := func(s app.Scope, failing int) {
		for i, ev := range closeEvNames {
			lid, ev, fails := nLis, ev, i == failing
			nLis++
			s.On(evIDs[3+i], func(data interface{}) error {
				src := -1
				if sc, ok := data.(app.Scope); ok {
					if id, ok := ids[sc]; ok { // the map is complete before any goroutine starts
						src = id
					}
				}
				mu.Lock()
				log = append(log, ccEntry{lid: lid, ev: ev, src: src})
				mu.Unlock()
				if fails {
					return errors.New("listener " + strconv.Itoa(lid))
				}
				return nil
			})
		}
	}
	// ---- the tree
	var P, S, B app.Scope
	pi, si, bi := -1, -1, -1
	if c.par != 0 {
		P = scope.New(scope.Params{})
		pi = add(P)
		params := scope.ChildParams{}
		if c.par == 2 {
			params.ContextScope = contextscope.NewIsolated(P)
		}
		S = scope.NewChild(P, params)
		si = add(S)
		B = scope.NewChild(P, scope.ChildParams{})
		bi = add(B)
		listen(P, -1)
	} else {
		S = scope.New(scope.Params{})
		si = add(S)
	}
	listen(S, c.errListener())
	if c.tasks > 0 {
		if err := S.AddTasks(c.tasks); err != nil {
			fail("setup", "AddTasks on a fresh scope was refused")
		}
	}
	var kids []app.Scope
	for i := 0; i < c.kids; i++ {
		k := scope.NewChild(S, scope.ChildParams{})
		add(k)
		kids = append(kids, k)
	}
	defer func() {
		for i := len(ctxs) - 1; i >= 0; i-- {
			ctxs[i].Stop() // lets the watcher goroutine of an isolated context exit
		}
	}()
	if c.err == "pre" {
		hx.Guard(func() { S.AppendError(errors.New("e")) })
	}
	// ---- the parent's Close first: it must wait for S and B
	outcomes := make([]ccOutcome, len(scopes)) // of the single Close calls (P, B, kids)
	called := make([]bool, len(scopes))
	var pDone chan struct{}
	if P != nil {
		pDone = make(chan struct{})
		called[pi] = true
		go func() {
			outcomes[pi] = ccCall(P)
			close(pDone)
		}()
		began := func() bool {
			mu.Lock()
			defer mu.Unlock()
			for _, e := range log {
				if e.src == pi && e.ev == "beforeClose" {
					return true
				}
			}
			select {
			case <-pDone:
				return true
			default:
				return false
			}
		}
		deadline := time.Now().Add(ccTimeout())
		for !began() {
			if time.Now().After(deadline) {
				ccHangs++
				fail("returns", "the parent's Close neither fired beforeClose nor returned")
				break
			}
			runtime.Gosched()
		}
	}
	// ---- k closers behind a start barrier
	var (
		ready, done sync.WaitGroup
		start       = make(chan struct{})
		res         = make([]ccOutcome, c.k)
	)
	for g := 0; g < c.k; g++ {
		ready.Add(1)
		done.Add(1)
		go func(g int) {
			defer done.Done()
			ccDeep(c.depth, func() {
				ready.Done()
				<-start
				res[g] = ccCall(S)
			})
		}(g)
	}
	ready.Wait()
	close(start)
	// ---- the work S waits for, while the closers run
	work := c.tasks + c.kids
	item := 0
	step := func() {
		item++
		if item == work {
			mark("lastwork")
		}
	}
	for i := 0; i < c.tasks; i++ {
		step()
		hx.Guard(func() { S.DoneTask() })
	}
	for i, k := range kids {
		step()
		if i == 0 && c.err == "kid" {
			hx.Guard(func() { k.AppendError(errors.New("e")) })
		}
		called[ids[k]] = true
		outcomes[ids[k]] = ccCall(k)
	}
	await := func(what string, wait func()) bool {
		ch := make(chan struct{})
		go func() { wait(); close(ch) }()
		select {
		case <-ch:
			return true
		case <-time.After(ccTimeout()):
			ccHangs++
			fail("returns", "%s did not end within the watchdog", what)
			return false
		}
	}
	closersEnded := await("the Close calls of the closers", done.Wait)
	if P != nil {
		mark("bclose")
		called[bi] = true
		outcomes[bi] = ccCall(B)
		if !await("the parent's Close", func() { <-pDone }) {
			called[pi] = false
		}
	}
	// ---- the result line
	mu.Lock()
	entries := append([]ccEntry{}, log...)
	mu.Unlock()
	acc, ref, oth, winErr := 0, 0, 0, false
	var notes []string
	if closersEnded {
		for _, o := range res {
			switch o.kind {
			case "returned":
				acc++
				winErr = winErr || o.err
			case "refused":
				ref++
			default:
				oth++
				notes = append(notes, o.note)
			}
		}
	}
	var cs, qs []string
	for id := range scopes {
		switch {
		case id == si:
			if acc > 0 {
				cs = append(cs, fmt.Sprintf("%d=%d", id, b2i(winErr)))
			}
		case called[id] && outcomes[id].kind == "returned":
			cs = append(cs, fmt.Sprintf("%d=%d", id, b2i(outcomes[id].err)))
		case called[id]:
			cs = append(cs, fmt.Sprintf("%d=%s", id, outcomes[id].kind))
			notes = append(notes, outcomes[id].note)
		}
		var q []string
		for _, e := range entries {
			if e.lid >= 0 && e.src == id {
				q = append(q, fmt.Sprintf("%d:%s", e.lid, e.ev))
			}
		}
		if len(q) > 0 {
			qs = append(qs, fmt.Sprintf("%d=%s", id, strings.Join(q, ",")))
		}
	}
	line := fmt.Sprintf("cc acc=%d ref=%d oth=%d C[%s] Q[%s]", acc, ref, oth, strings.Join(cs, ","), strings.Join(qs, ";"))
	if !closersEnded {
		line += " !hang"
	}
	// ---- the clauses
	if closersEnded && (acc != 1 || ref != c.k-1 || oth != 0) {
		fail("once_runs", "%d concurrent Close calls: %d ran the protocol and returned, %d were refused, %d ended otherwise%s (want 1, %d, 0)",
			c.k, acc, ref, oth, noteTail(notes), c.k-1)
	}
	// S's failing listener also sees the events of S's children (commit path: events 0,1,2,6,7): the child
	// then holds an error, and shares S's context
	el := c.errListener()
	kidFails := el >= 0 && c.kids > 0 && (el <= 2 || el >= 6)
	errAtWait := c.err == "pre" || (c.err == "kid" && c.kids > 0) || el == 6 || kidFails
	want := ccFullSeq(errAtWait)
	errAtEnd := errAtWait
	if l := c.errListener(); l >= 0 {
		for _, ev := range want {
			if ev == closeEvNames[l] {
				errAtEnd = true
			}
		}
	}
	seqOf := func(src, lidLo, lidHi int) (seq []string) {
		for _, e := range entries {
			if e.src == src && e.lid >= lidLo && e.lid < lidHi {
				seq = append(seq, e.ev)
			}
		}
		return
	}
	sLo := 0
	if P != nil {
		sLo = 8
	}
	if got := seqOf(si, sLo, sLo+8); strings.Join(got, ",") != strings.Join(want, ",") {
		fail("once_events", "the scope fired %s (seen by its own listeners), want each of %s exactly once in this order",
			strings.Join(got, ","), strings.Join(want, ","))
	}
	if P != nil {
		if got := seqOf(si, 0, 8); strings.Join(got, ",") != strings.Join(want, ",") {
			fail("once_events", "the parent's listeners saw the scope fire %s, want %s", strings.Join(got, ","), strings.Join(want, ","))
		}
	}
	if acc >= 1 && winErr != errAtEnd {
		fail("pick_result", "Close returned error=%v, the scope holds an error at the end: %v", winErr, errAtEnd)
	}
	first := func(src int, evs ...string) int {
		for i, e := range entries {
			if e.lid >= 0 && e.src == src {
				for _, ev := range evs {
					if e.ev == ev {
						return i
					}
				}
			}
		}
		return -1
	}
	last := func(pred func(e ccEntry) bool) int {
		idx := -1
		for i, e := range entries {
			if pred(e) {
				idx = i
			}
		}
		return idx
	}
	sTriple := first(si, "beforeCommit", "beforeRollback")
	if sTriple >= 0 {
		if m := last(func(e ccEntry) bool { return e.mark == "lastwork" }); work > 0 && m > sTriple {
			fail("waits", "the scope started its triple before the last task / child was even asked to finish")
		}
		for _, k := range kids {
			kid := ids[k]
			if a := last(func(e ccEntry) bool { return e.src == kid && e.ev == "afterClose" }); a < 0 || a > sTriple {
				fail("waits", "the scope started its triple before child %d had fired afterClose", kid)
			}
		}
	}
	if P != nil && called[pi] {
		rbP := c.par == 1 && errAtEnd
		wantP := ccFullSeq(rbP)
		if got := seqOf(pi, 0, 8); strings.Join(got, ",") != strings.Join(wantP, ",") {
			fail("parent_once", "the parent fired %s, want %s", strings.Join(got, ","), strings.Join(wantP, ","))
		}
		if o := outcomes[pi]; o.kind != "returned" {
			fail("parent_once", "the parent's Close ended with a panic%s", noteTail([]string{o.note}))
		} else if o.err != rbP {
			fail("parent_once", "the parent's Close returned error=%v, want %v", o.err, rbP)
		}
		if o := outcomes[bi]; o.kind != "returned" {
			fail("parent_once", "the Close of the parent's other child ended with a panic%s", noteTail([]string{o.note}))
		}
		if pt := first(pi, "beforeCommit", "beforeRollback"); pt >= 0 {
			if m := last(func(e ccEntry) bool { return e.mark == "bclose" }); m > pt {
				fail("parent_once", "the parent started its triple while its other child was open (its task count was decremented more than once by the closing scope)")
			}
			if a := last(func(e ccEntry) bool { return e.src == si && e.ev == "afterClose" }); a > pt {
				fail("parent_once", "the parent started its triple before the scope's (last) afterClose")
			}
		}
	}
	return ccRound{line: line, fails: fails}
}

func noteTail(notes []string) string {
	var ns []string
	for _, n := range notes {
		if n != "" {
			ns = append(ns, n)
		}
	}
	if len(ns) == 0 {
		return ""
	}
	return " (" + strings.Join(ns, "; ") + ")"
}

func b2i(b bool) int {
	if b {
		return 1
	}
	return 0
}

func ccFullSeq(rb bool) []string {
	if rb {
		return []string{"beforeClose", "beforeRollback", "rollback", "afterRollback", "afterClose"}
	}
	return []string{"beforeClose", "beforeCommit", "commit", "afterCommit", "afterClose"}
}

// ccCaseRun runs the rounds of a case: the first round on which a clause fails, else the first round.
// Every round of a correct implementation prints the same line (it is a function of the case line).
func ccCaseRun(c ccCase, mult int) (r ccRound, rounds int) {
	old := runtime.GOMAXPROCS(c.procs)
	defer runtime.GOMAXPROCS(old)
	var firstRound ccRound
	for i := 0; i < c.rounds*mult; i++ {
		x := ccRun(c)
		rounds++
		if i == 0 {
			firstRound = x
		}
		if len(x.fails) > 0 || x.line != firstRound.line {
			return x, rounds
		}
		if ccHangs >= 4 {
			break
		}
	}
	return firstRound, rounds
}

// execCC is the `drive` entry: one case line -> one result line
func execCC(line string) string {
	c, ok := parseCC(line)
	if !ok {
		return "bad-op"
	}
	r, _ := ccCaseRun(c, 1)
	return r.line
}

// ---------------------------------------------------------------- generator

var ccProcs = []int{1, 2, 3, 4, 8, 16}
var ccDepths = []int{0, 8, 40, 120, 300, 600}
var ccErrs = []string{"none", "none", "none", "pre", "kid", "l0", "l1", "l2", "l3", "l4", "l5", "l6", "l7"}

// the deterministic head of shard 0: every k x every parent kind x shallow/deep stack x 2/16 procs
func ccFamily(rounds int) (out []ccCase) {
	for k := 2; k <= 6; k++ {
		for par := 0; par <= 2; par++ {
			for _, depth := range []int{0, 300} {
				for _, procs := range []int{2, 16} {
					out = append(out, ccCase{k: k, procs: procs, depth: depth, tasks: 1, kids: 1, par: par, err: "none", rounds: rounds})
				}
			}
		}
	}
	return
}

func ccGenCase(r *hx.Rand, rounds int) ccCase {
	c := ccCase{k: 2 + r.Intn(5), procs: ccProcs[r.Intn(len(ccProcs))], depth: ccDepths[r.Intn(len(ccDepths))],
		tasks: r.Intn(4), kids: r.Intn(3), par: r.Intn(3), err: r.Pick(ccErrs), rounds: rounds}
	if c.err == "kid" && c.kids == 0 {
		c.kids = 1
	}
	return c
}

func ccGen(n int, r *hx.Rand, shard, rounds int) (out []ccCase) {
	if shard == 0 {
		out = ccFamily(rounds)
		if len(out) > n {
			out = out[:n]
		}
	}
	for len(out) < n {
		out = append(out, ccGenCase(r, rounds))
	}
	return
}

func ccRounds() int {
	if v, err := strconv.Atoi(os.Getenv("SCOPE_CC_ROUNDS")); err == nil && v > 0 {
		return v
	}
	return 6
}

// ---------------------------------------------------------------- oracle / judge

func ccOracle(w *bufio.Writer, cases []ccCase, mult int) {
	counts := map[string]int{}
	fails, rounds, ran := 0, 0, 0
	last := os.Getenv("SCOPE_LAST")
	for _, c := range cases {
		ran++
		if last != "" {
			os.WriteFile(last, []byte(c.String()+"\n"), 0o644)
		}
		r, n := ccCaseRun(c, mult)
		rounds += n
		counts[fmt.Sprintf("k%d", c.k)]++
		counts[fmt.Sprintf("par%d", c.par)]++
		counts[fmt.Sprintf("procs%d", c.procs)]++
		counts["err-"+c.err]++
		if c.depth >= 120 {
			counts["deep-stack"]++
		}
		if c.tasks+c.kids > 0 {
			counts["work-during-close"]++
		}
		if strings.Contains(r.line, "Rollback") {
			counts["rollback"]++
		} else {
			counts["commit"]++
		}
		if len(r.fails) > 0 {
			fails++
			seen := map[string]bool{}
			for _, f := range r.fails {
				cl := strings.SplitN(f, " ", 2)[0]
				counts["fail:"+cl]++
				if !seen[cl] {
					seen[cl] = true
					fmt.Fprintf(w, "FAIL %s | %s\n", f, c.String())
				}
			}
			w.Flush()
		}
		if fails >= 25 || ccHangs >= 4 {
			break
		}
	}
	var cs []string
	for k, v := range counts {
		cs = append(cs, fmt.Sprintf("%s=%d", k, v))
	}
	sort.Strings(cs)
	fmt.Fprintf(w, "coracle cases=%d rounds=%d fails=%d %s\n", ran, rounds, fails, strings.Join(cs, " "))
}

// ccJudge: the clauses on given case lines (stdin), with `mult` times their rounds
func ccJudge(w *bufio.Writer, mult int) {
	sc := bufio.NewScanner(os.Stdin)
	var cases []ccCase
	for sc.Scan() {
		if c, ok := parseCC(strings.TrimSpace(sc.Text())); ok {
			cases = append(cases, c)
		}
	}
	ccOracle(w, cases, mult)
}
