package main

// The engine executes the `scope` line protocol against the REAL app/scope package.
//
// Determinism without timing races.  Close runs in its own goroutine.  After every operation the
// engine waits for everything that must happen (and only for that):
//
//   - an isolated context whose parent context is done must become done (its watcher goroutine
//     stops or kills it): polled for up to `timeout`;
//   - a Close whose wait group must be zero (own accounting `wgm`: successful AddTasks, DoneTask
//     calls, children that signed on and have returned from Close) must return: awaited up to
//     `timeout`; a Close that may not return is *sampled* (non-blocking) at the start and the end of
//     every operation — this can miss an early return, it can never report a false one;
//   - the first half of Close (closed = true, BeforeClose listeners, their error appended) is
//     awaited through the event-scope wrapper every scope is given: the wrapper delegates to the real
//     eventscope.EventScope / ChildEventScope and only observes the calls.
//
// Three places where the real code lets two goroutines run side by side are serialised by waiting
// inside that wrapper (it is called by the scope before any listener can run):
//   - before any event is delivered, pending stop propagation to isolated contexts is awaited
//     (so a watcher woken by a plain Stop reads the parent's errors before a Stop listener fails);
//   - before the commit/rollback events of a scope are delivered, the Close calls of its children
//     (which have signed off and are about to return) are awaited, so a child's return value is read
//     before a listener of the parent can add an error to a shared context;
//   - a watcher goroutine that was just started is awaited until it is parked in its select
//     (observed through runtime.Stack), so that the branch it takes is decided by which channel is
//     closed first and not by the scheduler.

import (
	"errors"
	"fmt"
	"os"
	"regexp"
	"runtime"
	"strconv"
	"strings"
	"sync"
	"time"

	"gcverif/internal/hx"

	"github.com/goatcms/goatcore/app"
	"github.com/goatcms/goatcore/app/scope"
	"github.com/goatcms/goatcore/app/scope/contextscope"
	"github.com/goatcms/goatcore/app/scope/eventscope"
)

var evNames = []string{"kill", "stop", "error", "beforeCommit", "commit", "afterCommit",
	"beforeRollback", "rollback", "afterRollback", "beforeClose", "afterClose"}

var evIDs = []int{app.KillEvent, app.StopEvent, app.ErrorEvent, app.BeforeCommitEvent, app.CommitEvent,
	app.AfterCommitEvent, app.BeforeRollbackEvent, app.RollbackEvent, app.AfterRollbackEvent,
	app.BeforeCloseEvent, app.AfterCloseEvent}

func evIndex(name string) int {
	for i, n := range evNames {
		if n == name {
			return i
		}
	}
	return -1
}

func evNameOf(id interface{}) string {
	if v, ok := id.(int); ok {
		for i, x := range evIDs {
			if x == v {
				return evNames[i]
			}
		}
	}
	return "?"
}

type cnode struct {
	ctx    app.ContextScope
	parent *cnode // isolated: the context it watches
}

type closeRes struct {
	panicked bool
	err      bool
	errs     int // len(Errors()) read by the closing goroutine right after Close returned
}

type node struct {
	id          int
	scp         app.Scope
	parent      *node
	kids        []*node
	iso         bool
	registered  bool
	c           *cnode
	wgm         int // own accounting of the wait group
	outstanding int // tasks added and not done
	// close
	started  bool // a Close call got past the guard (BeforeClose was seen) or returned without panic
	returned bool
	hung     bool
	call     *closeCall // the adopted Close call
	// oracle observations
	seq        []string // close events of this scope seen by the first root probe
	errsAtPick int      // len(Errors()) when BeforeCommit/BeforeRollback reached the probe, -1 = not yet
	waitBad    string   // what was still open when the commit/rollback triple started
	mustFail   bool     // a shared descendant (or itself) failed: Close must roll back and report
	probed     bool     // in the tree of scope 0, whose first listeners are the probes
	kf1        string   // KF-C11-1: children that never signed on and were open when the triple started
}

// closeCall is one Close call in its goroutine; res is valid once ret is closed.
type closeCall struct {
	res closeRes
	ret chan struct{}
}

type entry struct {
	lid int
	ev  string
	src int // -1: data was not a scope
}

type beginSig struct{ want int }

type H struct {
	mu        sync.Mutex
	nodes     []*node
	byScope   map[app.Scope]*node
	isoCtxs   []*cnode
	log       []entry
	nListen   int
	closes    []string // "<id>=<0|1>" in return order
	anomalies []string
	timeouts  int
	noWatcher bool // watcher goroutines cannot be observed through runtime.Stack (fallback: short sleep)
	// oracle
	oracle bool
	probe  map[int]bool // listener ids that are root probes
	fails  []string
	kf1    int // Close calls that returned while a child that never signed on was open (KF-C11-1)
}

func newH() *H { return &H{byScope: map[app.Scope]*node{}, probe: map[int]bool{}} }

// baseTimeout is how long "what must happen" is awaited: 10 s, or SCOPE_TIMEOUT_MS (used by the check
// only while minimising a history that already failed under the generous timeout).
var baseTimeout = func() time.Duration {
	if v, err := strconv.Atoi(os.Getenv("SCOPE_TIMEOUT_MS")); err == nil && v > 0 {
		return time.Duration(v) * time.Millisecond
	}
	return 10 * time.Second
}()

// after the first timeout of a process (already a reportable failure) the later ones are kept short
func (h *H) timeout() time.Duration {
	if h.timeouts > 0 {
		return 300 * time.Millisecond
	}
	return baseTimeout
}

func (h *H) anomaly(s string) {
	h.mu.Lock()
	h.anomalies = append(h.anomalies, s)
	h.mu.Unlock()
}

// waitFor polls cond generously; false = it did not become true.
func (h *H) waitFor(cond func() bool) bool {
	if cond() {
		return true
	}
	deadline := time.Now().Add(h.timeout())
	d := 5 * time.Microsecond
	for {
		runtime.Gosched()
		if cond() {
			return true
		}
		if time.Now().After(deadline) {
			h.timeouts++
			return false
		}
		time.Sleep(d)
		if d < time.Millisecond {
			d *= 2
		}
	}
}

// settleProp waits until every isolated context with a done parent context is done (parents first).
func (h *H) settleProp() {
	h.mu.Lock()
	cs := h.isoCtxs
	h.mu.Unlock()
	for i, c := range cs {
		if c.parent.ctx.IsDone() && !c.ctx.IsDone() {
			if !h.waitFor(c.ctx.IsDone) {
				h.anomaly("noprop:ctx" + strconv.Itoa(i))
			}
		}
	}
}

var watcherRe = regexp.MustCompile(`goroutine \d+ \[select[^\]]*\]:\n[^\n]*contextscope\.NewIsolated\.func1`)

func parkedWatchers() int {
	buf := make([]byte, 1<<16)
	for {
		n := runtime.Stack(buf, true)
		if n < len(buf) {
			buf = buf[:n]
			break
		}
		buf = make([]byte, 2*len(buf))
	}
	return len(watcherRe.FindAllIndex(buf, -1))
}

// waitParked waits until every watcher that has nothing to react to is parked in its select.
func (h *H) waitParked() {
	if h.noWatcher {
		time.Sleep(200 * time.Microsecond)
		return
	}
	want := 0
	for _, c := range h.isoCtxs {
		if !c.ctx.IsDone() && !c.parent.ctx.IsDone() {
			want++
		}
	}
	if !h.waitFor(func() bool { return parkedWatchers() == want }) {
		h.anomaly("watchers-not-parked")
	}
}

// selfTestWatcher finds out whether watcher goroutines are visible to parkedWatchers.
func (h *H) selfTestWatcher() {
	p := contextscope.New()
	c := contextscope.NewIsolated(p)
	deadline := time.Now().Add(10 * time.Second)
	ok := false
	for time.Now().Before(deadline) {
		if parkedWatchers() == 1 {
			ok = true
			break
		}
		time.Sleep(100 * time.Microsecond)
	}
	c.Stop()
	p.Stop()
	h.noWatcher = !ok
}

// ---------------------------------------------------------------- event scope wrapper

type esWrap struct {
	inner        app.EventScope
	h            *H
	n            *node
	begun        chan beginSig
	pendingBegin bool
}

func (w *esWrap) On(id interface{}, cb app.EventCallback) { w.inner.On(id, cb) }

func (w *esWrap) Trigger(id interface{}, data interface{}) error {
	h := w.h
	h.settleProp()
	own := false
	if sc, ok := data.(app.Scope); ok && w.n.scp != nil && sc == w.n.scp {
		own = true
	}
	if own && (id == app.BeforeCommitEvent || id == app.BeforeRollbackEvent) {
		h.awaitKids(w.n)
	}
	err := w.inner.Trigger(id, data)
	if own && id == app.BeforeCloseEvent {
		if err == nil {
			w.signalBegun(0)
		} else {
			w.pendingBegin = true // Scope.appendError follows: append, ErrorEvent, append
		}
	} else if w.pendingBegin && id == app.ErrorEvent {
		w.pendingBegin = false
		want := 0
		if err != nil {
			want = len(w.n.scp.Errors()) + 1
		}
		w.signalBegun(want)
	}
	return err
}

func (w *esWrap) signalBegun(want int) {
	h := w.h
	h.mu.Lock()
	ch := w.begun
	w.begun = nil
	h.mu.Unlock()
	if ch != nil {
		ch <- beginSig{want}
	}
}

// awaitKids: the commit/rollback triple of n starts; its signed-on children have called
// parent.DoneTask() and are returning from Close — wait until they have.
func (h *H) awaitKids(n *node) {
	h.mu.Lock()
	kids := append([]*node{}, n.kids...)
	h.mu.Unlock()
	for _, k := range kids {
		h.mu.Lock()
		call, reg := k.call, k.registered
		h.mu.Unlock()
		if !reg || call == nil {
			continue
		}
		select {
		case <-call.ret:
		case <-time.After(h.timeout()):
			h.timeouts++
			h.anomaly(fmt.Sprintf("child-not-returned:%d<%d", n.id, k.id))
		}
	}
}

// ---------------------------------------------------------------- listeners

func (h *H) listener(lid int, evName string, fails bool) app.EventCallback {
	return func(data interface{}) error {
		src := -1
		var sn *node
		h.mu.Lock()
		if sc, ok := data.(app.Scope); ok {
			if n, ok := h.byScope[sc]; ok {
				src, sn = n.id, n
			}
		}
		h.log = append(h.log, entry{lid, evName, src})
		isProbe := h.oracle && h.probe[lid]
		h.mu.Unlock()
		if isProbe && sn != nil {
			h.probeSees(sn, evName)
		}
		if fails {
			return errors.New("listener " + strconv.Itoa(lid))
		}
		return nil
	}
}

// ---------------------------------------------------------------- operations

func (h *H) get(id int) *node {
	if id < 0 || id >= len(h.nodes) {
		return nil
	}
	return h.nodes[id]
}

func (h *H) addNode(n *node) {
	h.mu.Lock()
	n.id = len(h.nodes)
	n.errsAtPick = -1
	n.probed = (n.parent == nil && n.id == 0) || (n.parent != nil && n.parent.probed)
	h.nodes = append(h.nodes, n)
	h.byScope[n.scp] = n
	if n.parent != nil {
		n.parent.kids = append(n.parent.kids, n)
	}
	h.mu.Unlock()
}

func (h *H) opNew() string {
	n := &node{}
	w := &esWrap{inner: eventscope.New(), h: h, n: n}
	n.scp = scope.New(scope.Params{EventScope: w})
	n.c = &cnode{ctx: n.scp.BaseContextScope()}
	h.addNode(n)
	return "ok"
}

func (h *H) opChild(pid int, iso bool) string {
	p := h.get(pid)
	if p == nil || p.scp.BaseEventScope() == nil {
		return "invalid"
	}
	n := &node{parent: p, iso: iso}
	n.registered = !p.scp.IsDone()
	w := &esWrap{inner: eventscope.NewChild(p.scp.BaseEventScope()), h: h, n: n}
	params := scope.ChildParams{EventScope: w}
	parentDone := p.scp.IsDone()
	if iso {
		params.ContextScope = contextscope.NewIsolated(p.scp)
		n.c = &cnode{ctx: params.ContextScope, parent: p.c}
	} else {
		n.c = p.c
	}
	if pan, _ := hx.Guard(func() { n.scp = scope.NewChild(p.scp, params) }); pan {
		return "panic"
	}
	if n.registered {
		p.wgm++
	}
	h.addNode(n)
	if iso {
		h.mu.Lock()
		h.isoCtxs = append(h.isoCtxs, n.c)
		h.mu.Unlock()
		if !parentDone {
			h.waitParked()
		}
	}
	return "ok"
}

func (h *H) opOn(n *node, ev int, fails bool) string {
	lid := h.nListen
	if pan, _ := hx.Guard(func() { n.scp.On(evIDs[ev], h.listener(lid, evNames[ev], fails)) }); pan {
		return "panic"
	}
	h.nListen++
	return "ok"
}

func (h *H) opClose(n *node) string {
	w := n.scp.BaseEventScope()
	begun := make(chan beginSig, 1)
	if ww, ok := w.(*esWrap); ok {
		h.mu.Lock()
		ww.begun = begun
		h.mu.Unlock()
	}
	call := &closeCall{ret: make(chan struct{})}
	go func() {
		var err error
		call.res.panicked, _ = hx.Guard(func() { err = n.scp.Close() })
		call.res.err = err != nil
		if !call.res.panicked {
			call.res.errs = len(n.scp.Errors())
		}
		close(call.ret)
	}()
	clearBegun := func() {
		if ww, ok := w.(*esWrap); ok {
			h.mu.Lock()
			ww.begun = nil
			h.mu.Unlock()
		}
	}
	adopt := func() {
		h.mu.Lock()
		n.started = true
		n.call = call
		h.mu.Unlock()
	}
	select {
	case sig := <-begun:
		adopt()
		if sig.want > 0 {
			if !h.waitFor(func() bool { return len(n.scp.Errors()) >= sig.want }) {
				h.anomaly("begin-error-not-appended:" + strconv.Itoa(n.id))
			}
		}
		return "begun"
	case <-call.ret:
		clearBegun()
		if call.res.panicked {
			return "panic"
		}
		if n.started { // a second Close returned normally
			h.anomaly("second-close-returned:" + strconv.Itoa(n.id))
			return "closed-again"
		}
		adopt() // returned without BeforeClose having been triggered
		return "begun"
	case <-time.After(h.timeout()):
		h.timeouts++
		clearBegun()
		h.anomaly("close-neither-begins-nor-returns:" + strconv.Itoa(n.id))
		return "hang"
	}
}

// collect records a returned Close.
func (h *H) collect(n *node, early bool) {
	<-n.call.ret
	h.mu.Lock()
	n.returned = true
	r := n.call.res
	h.mu.Unlock()
	if r.panicked {
		h.anomaly("close-panicked:" + strconv.Itoa(n.id))
	}
	b := 0
	if r.err {
		b = 1
	}
	h.closes = append(h.closes, fmt.Sprintf("%d=%d", n.id, b))
	if n.registered && n.parent != nil {
		n.parent.wgm--
	}
	if early {
		h.anomaly("close-returned-early:" + strconv.Itoa(n.id))
	}
	if h.oracle {
		h.oracleClosed(n, r)
	}
}

func (h *H) resultReady(n *node) bool {
	select {
	case <-n.call.ret:
		return true
	default:
		return false
	}
}

// sampleEarly: a Close that must still be waiting has returned?  (can miss, cannot false-alarm)
func (h *H) sampleEarly() {
	for _, n := range h.nodes {
		if n.started && !n.returned && !n.hung && n.wgm > 0 && h.resultReady(n) {
			h.collect(n, true)
		}
	}
}

// settle waits for everything that must happen after an operation.
func (h *H) settle() {
	for {
		h.settleProp()
		progressed := false
		for _, n := range h.nodes {
			if n.started && !n.returned && !n.hung && n.wgm <= 0 {
				select {
				case <-n.call.ret:
					h.collect(n, false)
					progressed = true
				case <-time.After(h.timeout()):
					h.timeouts++
					n.hung = true
					h.anomaly("close-hangs:" + strconv.Itoa(n.id))
				}
			}
		}
		if !progressed {
			break
		}
	}
	h.sampleEarly()
}

func (h *H) cleanupWait() time.Duration {
	if h.timeouts > 0 {
		return 20 * time.Millisecond
	}
	return time.Second
}

// cleanup ends a history: releases blocked Close calls and lets the watchers exit.
func (h *H) cleanup() {
	for i := len(h.nodes) - 1; i >= 0; i-- {
		n := h.nodes[i]
		if n.started && !n.returned && !n.hung {
			for n.wgm > 0 {
				hx.Guard(func() { n.scp.DoneTask() })
				n.wgm--
			}
			select {
			case <-n.call.ret:
				n.returned = true
				if n.registered && n.parent != nil {
					n.parent.wgm--
				}
			case <-time.After(h.cleanupWait()):
			}
		}
	}
	for _, c := range h.isoCtxs {
		c.ctx.Stop()
	}
	for _, n := range h.nodes {
		n.c.ctx.Stop()
	}
}

func (h *H) stateString() string {
	parts := make([]string, len(h.nodes))
	for i, n := range h.nodes {
		d := 0
		if n.scp.IsDone() {
			d = 1
		}
		parts[i] = fmt.Sprintf("%d.%d", d, len(n.scp.Errors()))
	}
	return strings.Join(parts, ",")
}

func showEntries(es []entry) string {
	parts := make([]string, len(es))
	for i, e := range es {
		src := "-"
		if e.src >= 0 {
			src = strconv.Itoa(e.src)
		}
		parts[i] = fmt.Sprintf("%d:%s:%s", e.lid, e.ev, src)
	}
	return strings.Join(parts, ",")
}

// Exec runs one op line and returns the result line.
func (h *H) Exec(line string) string {
	f := strings.Split(line, " ")
	atoi := func(s string) int {
		v, err := strconv.Atoi(s)
		if err != nil || v < 0 {
			return -1
		}
		return v
	}
	h.sampleEarly()
	h.mu.Lock()
	log0, closes0, anom0 := len(h.log), len(h.closes), len(h.anomalies)
	h.mu.Unlock()
	res := "bad-op"
	var target *node
	switch {
	case f[0] == "new" && len(f) == 1:
		res = h.opNew()
	case f[0] == "child" && len(f) == 3 && (f[2] == "shared" || f[2] == "isolated"):
		res = h.opChild(atoi(f[1]), f[2] == "isolated")
	case f[0] == "on" && len(f) == 4 && evIndex(f[2]) >= 0 && (f[3] == "ok" || f[3] == "err"):
		if n := h.get(atoi(f[1])); n == nil {
			res = "invalid"
		} else {
			res = h.opOn(n, evIndex(f[2]), f[3] == "err")
		}
	case f[0] == "addtasks" && len(f) == 3 && atoi(f[2]) >= 0:
		if n := h.get(atoi(f[1])); n == nil {
			res = "invalid"
		} else {
			k := atoi(f[2])
			var err error
			if pan, _ := hx.Guard(func() { err = n.scp.AddTasks(k) }); pan {
				res = "panic"
			} else if err != nil {
				res = "refused"
			} else {
				n.wgm += k
				n.outstanding += k
				res = "ok"
			}
		}
	case f[0] == "donetask" && len(f) == 2:
		if n := h.get(atoi(f[1])); n == nil {
			res = "invalid"
		} else if n.outstanding == 0 {
			res = "undisciplined"
		} else {
			// the books are updated first: DoneTask may release a Close goroutine whose probe reads them
			n.wgm--
			n.outstanding--
			if pan, _ := hx.Guard(func() { n.scp.DoneTask() }); pan {
				res = "panic"
			} else {
				res = "ok"
			}
		}
	case (f[0] == "apperr" || f[0] == "kill" || f[0] == "stop") && len(f) == 2:
		if n := h.get(atoi(f[1])); n == nil {
			res = "invalid"
		} else {
			target = n
			var before []string
			if h.oracle {
				before = h.oracleBefore(n)
			}
			pan, _ := hx.Guard(func() {
				switch f[0] {
				case "apperr":
					n.scp.AppendError(errors.New("e"))
				case "kill":
					n.scp.Kill()
				default:
					n.scp.Stop()
				}
			})
			if pan {
				res = "panic"
			} else {
				res = "ok"
			}
			h.settleProp()
			if h.oracle {
				h.oracleAfterFail(f[0], n, pan, before)
			}
		}
	case f[0] == "close" && len(f) == 2:
		if n := h.get(atoi(f[1])); n == nil {
			res = "invalid"
		} else {
			target = n
			var snap string
			if h.oracle {
				snap = h.stateString()
			}
			wasStarted := n.started
			res = h.opClose(n)
			if h.oracle && wasStarted {
				h.oracleSecondClose(n, res, log0, snap)
			}
		}
	case f[0] == "settle" && len(f) == 1:
		h.settle()
		h.mu.Lock()
		defer h.mu.Unlock()
		return fmt.Sprintf("ok E[%s] C[%s] S[%s]%s", showEntries(h.log), strings.Join(h.closes, ","),
			h.stateString(), anomalyTail(h.anomalies[anom0:]))
	}
	h.settle()
	if res == "begun" {
		if target.returned {
			res = "closed"
		} else {
			res = "blocked"
		}
	}
	h.mu.Lock()
	defer h.mu.Unlock()
	return fmt.Sprintf("%s E[%s] C[%s] S[%s]%s", res, showEntries(h.log[log0:]),
		strings.Join(h.closes[closes0:], ","), h.stateString(), anomalyTail(h.anomalies[anom0:]))
}

func anomalyTail(a []string) string {
	if len(a) == 0 {
		return ""
	}
	return " !" + strings.Join(a, " !")
}

