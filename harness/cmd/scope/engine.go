package main

// The engine executes the `scope` line protocol against the REAL app/scope package.
//
// Determinism without timing races.  Close runs in its own goroutine.  After every operation the
// engine waits for everything that must happen (and only for that):
//
//   - an isolated context whose parent context is done must become done (its watcher goroutine
//     stops or kills it): polled for up to `timeout`;
//   - a Close whose wait group must be zero (own accounting `wgm`: successful AddTasks, DoneTask
//     calls, children that signed on and have returned from Close) must return: awaited up to
//     `timeout`; a Close that may not return is *sampled* (non-blocking) at the start and the end of
//     every operation — this can miss an early return, it can never report a false one;
//   - the first half of Close (closed = true, BeforeClose listeners, their error appended) is
//     awaited through the event-scope wrapper every scope is given: the wrapper delegates to the real
//     eventscope.EventScope / ChildEventScope and only observes the calls.
//
// Three places where the real code lets two goroutines run side by side are serialised by waiting
// inside that wrapper (it is called by the scope before any listener can run):
//   - before any event is delivered, pending stop propagation to isolated contexts is awaited
//     (so a watcher woken by a plain Stop reads the parent's errors before a Stop listener fails);
//   - before the commit/rollback events of a scope are delivered, the Close calls of its children
//     (which have signed off and are about to return) are awaited, so a child's return value is read
//     before a listener of the parent can add an error to a shared context;
//   - a watcher goroutine that was just started is awaited until it is parked in its select
//     (observed through runtime.Stack), so that the branch it takes is decided by which channel is
//     closed first and not by the scheduler.
//
// Gated listeners (`on <s> <event> gate <g> ok|err`): the listener logs its invocation, then blocks
// until the harness gives it its turn (`release <g>`), then returns nil or an error.  While it blocks,
// the closing goroutine is parked inside the real Trigger (holding the read lock of that event
// scope) and the harness goes on issuing operations.  After every operation the harness waits until
// every closing goroutine is quiescent: returned, parked in a gated listener, or sitting in wg.Wait()
// with something outstanding according to the harness's books.  `release <g>` opens the gate for good
// and gives the goroutines parked on it their turn one after the other, lowest scope first, each
// followed by everything it causes (the same order as the model driver).  What must NOT have
// happened yet — a waiting Close has returned, or has fired a commit/rollback event — is only
// SAMPLED (before every operation; before a release that lets a child finish the sample is preceded by
// a 1 ms pause so that an implementation that woke the parent too early has had time to show it): a
// sample can miss, it can never report something that did not happen.

import (
	"errors"
	"fmt"
	"os"
	"regexp"
	"runtime"
	"strconv"
	"strings"
	"sync"
	"time"

	"gcverif/internal/hx"

	"github.com/goatcms/goatcore/app"
	"github.com/goatcms/goatcore/app/scope"
	"github.com/goatcms/goatcore/app/scope/contextscope"
	"github.com/goatcms/goatcore/app/scope/eventscope"
)

var evNames = []string{"kill", "stop", "error", "beforeCommit", "commit", "afterCommit",
	"beforeRollback", "rollback", "afterRollback", "beforeClose", "afterClose"}

var evIDs = []int{app.KillEvent, app.StopEvent, app.ErrorEvent, app.BeforeCommitEvent, app.CommitEvent,
	app.AfterCommitEvent, app.BeforeRollbackEvent, app.RollbackEvent, app.AfterRollbackEvent,
	app.BeforeCloseEvent, app.AfterCloseEvent}

func evIndex(name string) int {
	for i, n := range evNames {
		if n == name {
			return i
		}
	}
	return -1
}

func evNameOf(id interface{}) string {
	if v, ok := id.(int); ok {
		for i, x := range evIDs {
			if x == v {
				return evNames[i]
			}
		}
	}
	return "?"
}

type cnode struct {
	ctx    app.ContextScope
	parent *cnode // isolated: the context it watches
}

type closeRes struct {
	panicked bool
	err      bool
	errs     int // len(Errors()) read by the closing goroutine right after Close returned
}

type node struct {
	id          int
	scp         app.Scope
	parent      *node
	kids        []*node
	iso         bool
	registered  bool
	c           *cnode
	wgm         int // own accounting of the wait group
	outstanding int // tasks added and not done
	// close
	started  bool // a Close call got past the guard (BeforeClose was seen) or returned without panic
	returned bool
	hung     bool
	call     *closeCall // the adopted Close call
	// progress of the closing goroutine (written by it under H.mu)
	parked     *parkInfo // it is inside a gated listener, waiting for its turn
	beforeDone bool      // the BeforeClose trigger has ended (and its error has been handed to appendError)
	beginWant  int       // len(Errors()) that must be reached after a failing BeforeClose trigger
	picked     bool      // its own BeforeCommit/BeforeRollback trigger has been called: Wait() has returned
	nTrig      int       // close events it has fired (own Trigger calls)
	afterDone  bool      // its own AfterClose trigger has ended
	earlyNoted bool      // "fired the triple while something was outstanding" has been reported
	counted    bool      // it signed on before the parent's wait ended: the parent's books count it
	// oracle observations
	seq        []string // close events of this scope seen by the first root probe
	errsAtPick int      // len(Errors()) when BeforeCommit/BeforeRollback reached the probe, -1 = not yet
	waitBad    string   // what was still open when the commit/rollback triple started
	mustFail   bool     // a shared descendant (or itself) failed: Close must roll back and report
	probed     bool     // in the tree of scope 0, whose first listeners are the probes
	kf1        string   // KF-C11-1: children that never signed on and were open when the triple started
}

// closeCall is one Close call in its goroutine; res is valid once ret is closed.
type closeCall struct {
	res closeRes
	ret chan struct{}
}

type entry struct {
	lid int
	ev  string
	src int // -1: data was not a scope
}

// parkInfo: a closing goroutine inside a gated listener
type parkInfo struct {
	lid, gate int
	owner     *node // the scope the listener was registered on (its event scope's read lock is held)
	turn      chan struct{}
}

type gate struct {
	open    bool
	waiters []*node
}

type H struct {
	mu        sync.Mutex
	nodes     []*node
	byScope   map[app.Scope]*node
	isoCtxs   []*cnode
	log       []entry
	nListen   int
	gates     map[int]*gate
	allOpen   bool // end of the history: every gate is open
	closes    []string // "<id>=<0|1>" in return order
	anomalies []string
	timeouts  int
	noWatcher bool // watcher goroutines cannot be observed through runtime.Stack (fallback: short sleep)
	// oracle
	oracle bool
	probe  map[int]bool // listener ids that are root probes
	fails  []string
	kf1    int // Close calls that returned while a child that never signed on was open (KF-C11-1)
}

func newH() *H {
	return &H{byScope: map[app.Scope]*node{}, probe: map[int]bool{}, gates: map[int]*gate{}}
}

// gateOf returns gate g (call with H.mu held).
func (h *H) gateOf(g int) *gate {
	x := h.gates[g]
	if x == nil {
		x = &gate{open: h.allOpen}
		h.gates[g] = x
	}
	return x
}

// baseTimeout is how long "what must happen" is awaited: 10 s, or SCOPE_TIMEOUT_MS (used by the check
// only while minimising a history that already failed under the generous timeout).
var baseTimeout = func() time.Duration {
	if v, err := strconv.Atoi(os.Getenv("SCOPE_TIMEOUT_MS")); err == nil && v > 0 {
		return time.Duration(v) * time.Millisecond
	}
	return 10 * time.Second
}()

// after the first timeout of a process (already a reportable failure) the later ones are kept short
func (h *H) timeout() time.Duration {
	if h.timeouts > 0 {
		return 300 * time.Millisecond
	}
	return baseTimeout
}

func (h *H) anomaly(s string) {
	h.mu.Lock()
	h.anomalies = append(h.anomalies, s)
	h.mu.Unlock()
}

// waitFor polls cond generously; false = it did not become true.
func (h *H) waitFor(cond func() bool) bool {
	if cond() {
		return true
	}
	deadline := time.Now().Add(h.timeout())
	d := 5 * time.Microsecond
	for {
		runtime.Gosched()
		if cond() {
			return true
		}
		if time.Now().After(deadline) {
			h.timeouts++
			return false
		}
		time.Sleep(d)
		if d < time.Millisecond {
			d *= 2
		}
	}
}

// settleProp waits until every isolated context with a done parent context is done (parents first).
func (h *H) settleProp() {
	h.mu.Lock()
	cs := h.isoCtxs
	h.mu.Unlock()
	for i, c := range cs {
		if c.parent.ctx.IsDone() && !c.ctx.IsDone() {
			if !h.waitFor(c.ctx.IsDone) {
				h.anomaly("noprop:ctx" + strconv.Itoa(i))
			}
		}
	}
}

var watcherRe = regexp.MustCompile(`goroutine \d+ \[select[^\]]*\]:\n[^\n]*contextscope\.NewIsolated\.func1`)

func parkedWatchers() int {
	buf := make([]byte, 1<<16)
	for {
		n := runtime.Stack(buf, true)
		if n < len(buf) {
			buf = buf[:n]
			break
		}
		buf = make([]byte, 2*len(buf))
	}
	return len(watcherRe.FindAllIndex(buf, -1))
}

// waitParked waits until every watcher that has nothing to react to is parked in its select.
func (h *H) waitParked() {
	if h.noWatcher {
		time.Sleep(200 * time.Microsecond)
		return
	}
	want := 0
	for _, c := range h.isoCtxs {
		if !c.ctx.IsDone() && !c.parent.ctx.IsDone() {
			want++
		}
	}
	if !h.waitFor(func() bool { return parkedWatchers() == want }) {
		h.anomaly("watchers-not-parked")
	}
}

// selfTestWatcher finds out whether watcher goroutines are visible to parkedWatchers.
func (h *H) selfTestWatcher() {
	p := contextscope.New()
	c := contextscope.NewIsolated(p)
	deadline := time.Now().Add(10 * time.Second)
	ok := false
	for time.Now().Before(deadline) {
		if parkedWatchers() == 1 {
			ok = true
			break
		}
		time.Sleep(100 * time.Microsecond)
	}
	c.Stop()
	p.Stop()
	h.noWatcher = !ok
}

// ---------------------------------------------------------------- event scope wrapper

type esWrap struct {
	inner        app.EventScope
	h            *H
	n            *node
	pendingBegin bool
}

func (w *esWrap) On(id interface{}, cb app.EventCallback) { w.inner.On(id, cb) }

func isCloseEvent(id interface{}) bool {
	v, ok := id.(int)
	if !ok {
		return false
	}
	for i, x := range evIDs {
		if x == v {
			return i >= 3
		}
	}
	return false
}

func (w *esWrap) Trigger(id interface{}, data interface{}) error {
	h := w.h
	h.settleProp()
	own := false
	if sc, ok := data.(app.Scope); ok && w.n.scp != nil && sc == w.n.scp {
		own = true
	}
	if own && isCloseEvent(id) {
		h.mu.Lock()
		w.n.nTrig++
		if id == app.BeforeCommitEvent || id == app.BeforeRollbackEvent {
			w.n.picked = true
		}
		h.mu.Unlock()
	}
	if own && (id == app.BeforeCommitEvent || id == app.BeforeRollbackEvent) {
		h.awaitKids(w.n)
	}
	err := w.inner.Trigger(id, data)
	if own && id == app.BeforeCloseEvent {
		if err == nil {
			w.markBefore(0)
		} else {
			w.pendingBegin = true // Scope.appendError follows: append, ErrorEvent, append
		}
	} else if w.pendingBegin && id == app.ErrorEvent {
		w.pendingBegin = false
		want := 0
		if err != nil {
			want = len(w.n.scp.Errors()) + 1
		}
		w.markBefore(want)
	}
	if own && id == app.AfterCloseEvent {
		h.mu.Lock()
		w.n.afterDone = true
		h.mu.Unlock()
	}
	return err
}

func (w *esWrap) markBefore(want int) {
	w.h.mu.Lock()
	w.n.beginWant = want
	w.n.beforeDone = true
	w.h.mu.Unlock()
}

// awaitKids: the commit/rollback triple of n starts; its signed-on children have called
// parent.DoneTask() and are returning from Close — wait until they have.  A child that is still
// open, or is inside one of its listeners, contradicts the property: reported, not waited for.
func (h *H) awaitKids(n *node) {
	h.mu.Lock()
	kids := append([]*node{}, n.kids...)
	h.mu.Unlock()
	for _, k := range kids {
		h.mu.Lock()
		call, reg := k.call, k.registered && k.counted
		h.mu.Unlock()
		if !reg {
			continue
		}
		if call == nil {
			h.anomaly(fmt.Sprintf("triple-while-child-open:%d<%d", n.id, k.id))
			continue
		}
		parked := false
		ok := h.waitFor(func() bool {
			select {
			case <-call.ret:
				return true
			default:
			}
			h.mu.Lock()
			parked = k.parked != nil
			h.mu.Unlock()
			return parked
		})
		if parked {
			h.anomaly(fmt.Sprintf("triple-while-child-in-listener:%d<%d", n.id, k.id))
		} else if !ok {
			h.anomaly(fmt.Sprintf("child-not-returned:%d<%d", n.id, k.id))
		}
	}
}

// ---------------------------------------------------------------- listeners

func (h *H) listener(lid int, evName string, fails bool, gateID int, owner *node) app.EventCallback {
	return func(data interface{}) error {
		src := -1
		var sn *node
		h.mu.Lock()
		if sc, ok := data.(app.Scope); ok {
			if n, ok := h.byScope[sc]; ok {
				src, sn = n.id, n
			}
		}
		h.log = append(h.log, entry{lid, evName, src})
		isProbe := h.oracle && h.probe[lid]
		h.mu.Unlock()
		if isProbe && sn != nil {
			h.probeSees(sn, evName)
		}
		if gateID >= 0 && sn != nil {
			h.mu.Lock()
			g := h.gateOf(gateID)
			if g.open {
				h.mu.Unlock()
			} else {
				pi := &parkInfo{lid: lid, gate: gateID, owner: owner, turn: make(chan struct{})}
				sn.parked = pi
				g.waiters = append(g.waiters, sn)
				h.mu.Unlock()
				<-pi.turn
			}
		}
		if fails {
			if h.oracle && sn != nil && evIndex(evName) >= 3 {
				h.oracleListenerFailed(sn)
			}
			return errors.New("listener " + strconv.Itoa(lid))
		}
		return nil
	}
}

// ---------------------------------------------------------------- operations

func (h *H) get(id int) *node {
	if id < 0 || id >= len(h.nodes) {
		return nil
	}
	return h.nodes[id]
}

func (h *H) addNode(n *node) {
	h.mu.Lock()
	n.id = len(h.nodes)
	n.errsAtPick = -1
	n.counted = n.registered && n.parent != nil && !n.parent.picked
	n.probed = (n.parent == nil && n.id == 0) || (n.parent != nil && n.parent.probed)
	h.nodes = append(h.nodes, n)
	h.byScope[n.scp] = n
	if n.parent != nil {
		n.parent.kids = append(n.parent.kids, n)
	}
	h.mu.Unlock()
}

func (h *H) opNew() string {
	n := &node{}
	w := &esWrap{inner: eventscope.New(), h: h, n: n}
	n.scp = scope.New(scope.Params{EventScope: w})
	n.c = &cnode{ctx: n.scp.BaseContextScope()}
	h.addNode(n)
	return "ok"
}

func (h *H) opChild(pid int, iso bool) string {
	p := h.get(pid)
	if p == nil || p.scp.BaseEventScope() == nil {
		return "invalid"
	}
	n := &node{parent: p, iso: iso}
	n.registered = !p.scp.IsDone()
	w := &esWrap{inner: eventscope.NewChild(p.scp.BaseEventScope()), h: h, n: n}
	params := scope.ChildParams{EventScope: w}
	parentDone := p.scp.IsDone()
	if iso {
		params.ContextScope = contextscope.NewIsolated(p.scp)
		n.c = &cnode{ctx: params.ContextScope, parent: p.c}
	} else {
		n.c = p.c
	}
	if pan, _ := hx.Guard(func() { n.scp = scope.NewChild(p.scp, params) }); pan {
		return "panic"
	}
	h.mu.Lock()
	late := p.picked // the parent's wait is over: its books are closed
	h.mu.Unlock()
	if n.registered && !late {
		p.wgm++
	}
	h.addNode(n)
	if iso {
		h.mu.Lock()
		h.isoCtxs = append(h.isoCtxs, n.c)
		h.mu.Unlock()
		if !parentDone {
			h.waitParked()
		}
	}
	return "ok"
}

func (h *H) opOn(n *node, ev int, fails bool, gateID int) string {
	// On needs the write lock of the event scope; a running listener of that event scope holds the
	// read lock: the call would wait for the release — it is not made
	h.mu.Lock()
	busy := false
	for _, m := range h.nodes {
		if m.parked != nil && m.parked.owner == n {
			busy = true
		}
	}
	h.mu.Unlock()
	if n.scp.BaseEventScope() != nil && busy {
		return "busy"
	}
	lid := h.nListen
	if pan, _ := hx.Guard(func() { n.scp.On(evIDs[ev], h.listener(lid, evNames[ev], fails, gateID, n)) }); pan {
		return "panic"
	}
	h.nListen++
	return "ok"
}

func (h *H) isParked(n *node) bool {
	h.mu.Lock()
	defer h.mu.Unlock()
	return n.parked != nil
}

func (h *H) opClose(n *node) string {
	h.mu.Lock()
	second := n.started
	h.mu.Unlock()
	call := &closeCall{ret: make(chan struct{})}
	if !second {
		h.mu.Lock()
		n.call = call // before the goroutine starts: the parent's trigger wrapper waits for it
		h.mu.Unlock()
	}
	go func() {
		var err error
		call.res.panicked, _ = hx.Guard(func() { err = n.scp.Close() })
		call.res.err = err != nil
		if !call.res.panicked {
			call.res.errs = len(n.scp.Errors())
		}
		close(call.ret)
	}()
	ready := func() bool {
		select {
		case <-call.ret:
			return true
		default:
			return false
		}
	}
	if second {
		// the first call owns the scope's progress flags: this one must panic at once
		if !h.waitFor(ready) {
			h.anomaly("second-close-neither-panics-nor-returns:" + strconv.Itoa(n.id))
			return "hang"
		}
		if call.res.panicked {
			return "panic"
		}
		h.anomaly("second-close-returned:" + strconv.Itoa(n.id))
		return "closed-again"
	}
	began := func() bool {
		h.mu.Lock()
		defer h.mu.Unlock()
		return n.beforeDone || n.parked != nil
	}
	adopt := func() {
		h.mu.Lock()
		n.started = true
		n.call = call
		h.mu.Unlock()
	}
	if !h.waitFor(func() bool { return ready() || began() }) {
		h.anomaly("close-neither-begins-nor-returns:" + strconv.Itoa(n.id))
		return "hang"
	}
	if ready() && call.res.panicked {
		h.mu.Lock()
		n.call = nil
		h.mu.Unlock()
		return "panic"
	}
	adopt() // begun, parked in a BeforeClose listener, or returned without BeforeClose having been triggered
	return "begun"
}

// collect records a returned Close.
func (h *H) collect(n *node, early bool) {
	<-n.call.ret
	h.mu.Lock()
	n.returned = true
	r := n.call.res
	h.mu.Unlock()
	if r.panicked {
		h.anomaly("close-panicked:" + strconv.Itoa(n.id))
	}
	b := 0
	if r.err {
		b = 1
	}
	h.closes = append(h.closes, fmt.Sprintf("%d=%d", n.id, b))
	if n.counted && n.parent != nil {
		n.parent.wgm--
	}
	if early {
		h.anomaly("close-returned-early:" + strconv.Itoa(n.id))
	}
	if h.oracle {
		h.oracleClosed(n, r)
	}
}

func (h *H) resultReady(n *node) bool {
	select {
	case <-n.call.ret:
		return true
	default:
		return false
	}
}

// sampleEarly: a Close that must still be waiting has returned, or has fired a commit/rollback
// event?  (can miss, cannot false-alarm)
func (h *H) sampleEarly() {
	for _, n := range h.nodes {
		if !n.started || n.returned || n.hung || n.wgm <= 0 {
			continue
		}
		if h.resultReady(n) {
			h.collect(n, true)
			continue
		}
		h.mu.Lock()
		note := n.picked && !n.earlyNoted
		if note {
			n.earlyNoted = true
		}
		h.mu.Unlock()
		if note {
			h.anomaly("triple-fired-early:" + strconv.Itoa(n.id))
		}
	}
}

// blockedInWait: by the harness's books the goroutine sits in wg.Wait() and something is outstanding
func (h *H) blockedInWait(n *node) bool {
	h.mu.Lock()
	ok := n.beforeDone && !n.picked && n.parked == nil && n.wgm > 0
	want := n.beginWant
	h.mu.Unlock()
	return ok && len(n.scp.Errors()) >= want
}

// settle waits for everything that must happen after an operation: every closing goroutine ends up
// returned, parked in a gated listener, or waiting for something outstanding.
func (h *H) settle() {
	for {
		h.settleProp()
		progressed := false
		// deepest first: a child is collected (and taken off its parent's books) before the parent is looked at
		for i := len(h.nodes) - 1; i >= 0; i-- {
			n := h.nodes[i]
			if !n.started || n.returned || n.hung {
				continue
			}
			if h.isParked(n) || h.blockedInWait(n) {
				continue
			}
			ok := h.waitFor(func() bool { return h.resultReady(n) || h.isParked(n) || h.blockedInWait(n) })
			switch {
			case h.resultReady(n):
				h.collect(n, n.wgm > 0)
				progressed = true
			case ok:
				// parked, or waiting again: nothing else is enabled by that
			default:
				n.hung = true
				h.anomaly("close-hangs:" + strconv.Itoa(n.id))
			}
		}
		if !progressed {
			break
		}
	}
	h.sampleEarly()
}

// opRelease opens gate g for good and gives the goroutines parked on it their turn, lowest scope first,
// each followed by everything it causes.
func (h *H) opRelease(g int) string {
	h.mu.Lock()
	gt := h.gateOf(g)
	gt.open = true
	ws := gt.waiters
	gt.waiters = nil
	h.mu.Unlock()
	for i := 0; i < len(ws); i++ { // ascending scope id
		for j := i + 1; j < len(ws); j++ {
			if ws[j].id < ws[i].id {
				ws[i], ws[j] = ws[j], ws[i]
			}
		}
	}
	for _, w := range ws {
		h.mu.Lock()
		pi := w.parked
		w.parked = nil
		h.mu.Unlock()
		if pi != nil {
			close(pi.turn)
		}
		h.settle()
	}
	return "ok"
}

// graceBeforeRelease: the release lets a child go on whose parent is (by the books) still waiting for
// it.  An implementation that woke the parent too early gets a moment to show it before the sample.
func (h *H) graceBeforeRelease(g int) {
	h.mu.Lock()
	adversarial := false
	if gt := h.gates[g]; gt != nil && !gt.open {
		for _, w := range gt.waiters {
			for p := w.parent; p != nil; p = p.parent {
				if p.started && !p.returned && p.wgm > 0 {
					adversarial = true
				}
			}
		}
	}
	h.mu.Unlock()
	if adversarial {
		time.Sleep(time.Millisecond)
	}
}

func (h *H) cleanupWait() time.Duration {
	if h.timeouts > 0 {
		return 20 * time.Millisecond
	}
	return time.Second
}

// cleanup ends a history: releases blocked Close calls and lets the watchers exit.
func (h *H) cleanup() {
	h.mu.Lock()
	h.allOpen = true
	for _, gt := range h.gates {
		gt.open = true
		for _, w := range gt.waiters {
			if w.parked != nil {
				close(w.parked.turn)
				w.parked = nil
			}
		}
		gt.waiters = nil
	}
	h.mu.Unlock()
	for i := len(h.nodes) - 1; i >= 0; i-- {
		n := h.nodes[i]
		if n.started && !n.returned && !n.hung {
			for n.wgm > 0 {
				hx.Guard(func() { n.scp.DoneTask() })
				n.wgm--
			}
			select {
			case <-n.call.ret:
				n.returned = true
				if n.registered && n.parent != nil {
					n.parent.wgm--
				}
			case <-time.After(h.cleanupWait()):
			}
		}
	}
	for _, c := range h.isoCtxs {
		c.ctx.Stop()
	}
	for _, n := range h.nodes {
		n.c.ctx.Stop()
	}
}

func (h *H) stateString() string {
	parts := make([]string, len(h.nodes))
	for i, n := range h.nodes {
		d := 0
		if n.scp.IsDone() {
			d = 1
		}
		parts[i] = fmt.Sprintf("%d.%d", d, len(n.scp.Errors()))
	}
	return strings.Join(parts, ",")
}

// parkedString: the closing goroutines inside a gated listener, <scope>@<listener>
func (h *H) parkedString() string {
	h.mu.Lock()
	defer h.mu.Unlock()
	var parts []string
	for _, n := range h.nodes {
		if n.parked != nil {
			parts = append(parts, fmt.Sprintf("%d@%d", n.id, n.parked.lid))
		}
	}
	return strings.Join(parts, ",")
}

// firedString: per scope the number of close events it has fired
func (h *H) firedString() string {
	h.mu.Lock()
	defer h.mu.Unlock()
	parts := make([]string, len(h.nodes))
	for i, n := range h.nodes {
		parts[i] = strconv.Itoa(n.nTrig)
	}
	return strings.Join(parts, ",")
}

func showEntries(es []entry) string {
	parts := make([]string, len(es))
	for i, e := range es {
		src := "-"
		if e.src >= 0 {
			src = strconv.Itoa(e.src)
		}
		parts[i] = fmt.Sprintf("%d:%s:%s", e.lid, e.ev, src)
	}
	return strings.Join(parts, ",")
}

// Exec runs one op line and returns the result line.
func (h *H) Exec(line string) string {
	f := strings.Split(line, " ")
	atoi := func(s string) int {
		v, err := strconv.Atoi(s)
		if err != nil || v < 0 {
			return -1
		}
		return v
	}
	if f[0] == "release" && len(f) == 2 && atoi(f[1]) >= 0 {
		h.graceBeforeRelease(atoi(f[1]))
	}
	h.sampleEarly()
	h.mu.Lock()
	log0, closes0, anom0 := len(h.log), len(h.closes), len(h.anomalies)
	h.mu.Unlock()
	res := "bad-op"
	var target *node
	switch {
	case f[0] == "new" && len(f) == 1:
		res = h.opNew()
	case f[0] == "child" && len(f) == 3 && (f[2] == "shared" || f[2] == "isolated"):
		res = h.opChild(atoi(f[1]), f[2] == "isolated")
	case f[0] == "on" && len(f) == 4 && evIndex(f[2]) >= 0 && (f[3] == "ok" || f[3] == "err"):
		if n := h.get(atoi(f[1])); n == nil {
			res = "invalid"
		} else {
			res = h.opOn(n, evIndex(f[2]), f[3] == "err", -1)
		}
	case f[0] == "on" && len(f) == 6 && f[3] == "gate" && evIndex(f[2]) >= 0 && atoi(f[4]) >= 0 && (f[5] == "ok" || f[5] == "err"):
		if n := h.get(atoi(f[1])); n == nil || evIndex(f[2]) < 3 {
			res = "invalid"
		} else {
			res = h.opOn(n, evIndex(f[2]), f[5] == "err", atoi(f[4]))
		}
	case f[0] == "release" && len(f) == 2 && atoi(f[1]) >= 0:
		res = h.opRelease(atoi(f[1]))
	case f[0] == "addtasks" && len(f) == 3 && atoi(f[2]) >= 0:
		if n := h.get(atoi(f[1])); n == nil {
			res = "invalid"
		} else {
			k := atoi(f[2])
			var err error
			if pan, _ := hx.Guard(func() { err = n.scp.AddTasks(k) }); pan {
				res = "panic"
			} else if err != nil {
				res = "refused"
			} else {
				h.mu.Lock()
				late := n.picked // the wait is over: the books are closed
				h.mu.Unlock()
				if !late {
					n.wgm += k
				}
				n.outstanding += k
				res = "ok"
			}
		}
	case f[0] == "donetask" && len(f) == 2:
		if n := h.get(atoi(f[1])); n == nil {
			res = "invalid"
		} else if n.outstanding == 0 {
			res = "undisciplined"
		} else {
			// the books are updated first: DoneTask may release a Close goroutine whose probe reads them
			h.mu.Lock()
			late := n.picked
			h.mu.Unlock()
			if !late {
				n.wgm--
			}
			n.outstanding--
			if pan, _ := hx.Guard(func() { n.scp.DoneTask() }); pan {
				res = "panic"
			} else {
				res = "ok"
			}
		}
	case (f[0] == "apperr" || f[0] == "kill" || f[0] == "stop") && len(f) == 2:
		if n := h.get(atoi(f[1])); n == nil {
			res = "invalid"
		} else {
			target = n
			var before []string
			if h.oracle {
				before = h.oracleBefore(n)
			}
			pan, _ := hx.Guard(func() {
				switch f[0] {
				case "apperr":
					n.scp.AppendError(errors.New("e"))
				case "kill":
					n.scp.Kill()
				default:
					n.scp.Stop()
				}
			})
			if pan {
				res = "panic"
			} else {
				res = "ok"
			}
			h.settleProp()
			if h.oracle {
				h.oracleAfterFail(f[0], n, pan, before)
			}
		}
	case f[0] == "close" && len(f) == 2:
		if n := h.get(atoi(f[1])); n == nil {
			res = "invalid"
		} else {
			target = n
			var snap string
			if h.oracle {
				snap = h.stateString()
			}
			wasStarted := n.started
			res = h.opClose(n)
			if h.oracle && wasStarted {
				h.oracleSecondClose(n, res, log0, snap)
			}
		}
	case f[0] == "settle" && len(f) == 1:
		h.settle()
		st, pk, fd := h.stateString(), h.parkedString(), h.firedString()
		h.mu.Lock()
		defer h.mu.Unlock()
		return fmt.Sprintf("ok E[%s] C[%s] S[%s] G[%s] T[%s]%s", showEntries(h.log), strings.Join(h.closes, ","),
			st, pk, fd, anomalyTail(h.anomalies[anom0:]))
	}
	h.settle()
	if res == "begun" {
		if target.returned {
			res = "closed"
		} else {
			res = "blocked"
		}
	}
	st, pk, fd := h.stateString(), h.parkedString(), h.firedString()
	h.mu.Lock()
	defer h.mu.Unlock()
	return fmt.Sprintf("%s E[%s] C[%s] S[%s] G[%s] T[%s]%s", res, showEntries(h.log[log0:]),
		strings.Join(h.closes[closes0:], ","), st, pk, fd, anomalyTail(h.anomalies[anom0:]))
}

func anomalyTail(a []string) string {
	if len(a) == 0 {
		return ""
	}
	return " !" + strings.Join(a, " !")
}

