package main

import (
	"fmt"

	"gcverif/internal/hx"
)

// genHistory produces one history: `reset`, a root, optionally the full probe set on the root,
// then random operations drawn from a small pool of scopes so that they collide (operations on
// closing and closed scopes, second Close, children of stopped parents, listeners that fail on any
// of the eleven events), optionally a drain phase that completes tasks and closes leaf-first, and
// a final `settle`.  Listeners of the eight close events may be GATED (`on <s> <ev> gate <g> ok|err`, gates
// from a pool of four so that several listeners share one): the closing goroutine parks inside them
// until `release <g>`; gated histories close parents BEFORE their children half of the time, release the
// gates in random order, and mostly release everything before the final settle.  The bookkeeping here
// is only a bias towards interesting histories; what an operation does is decided by the drivers.
type gscope struct {
	parent      int
	depth       int
	closed      bool
	outstanding int
	iso         bool
	openKids    int   // children believed to be signed on and not closed
	signed      bool  // believed to have signed on with its parent
	done        *bool // believed state of its context (shared with the scopes of the same context)
}

var closeEvNames = evNames[3:]

func genHistory(r *hx.Rand, forceProbes bool, multiRoot bool) []string {
	var (
		out    = []string{"reset", "new"}
		scopes = []gscope{{parent: -1, done: new(bool)}}
		gated  = r.Chance(1, 2) // this history uses gated listeners
		used   = map[int]bool{} // gates that have a listener and have not been released
	)
	gatedOn := func(s int) {
		if scopes[s].closed { // prefer a scope whose Close has not begun: its own events will reach the listener
			for j := len(scopes) - 1; j >= 0; j-- {
				if !scopes[j].closed && r.Chance(2, 3) {
					s = j
					break
				}
			}
		}
		ev := "afterClose"
		if r.Chance(1, 2) {
			ev = r.Pick(closeEvNames)
		}
		g := r.Intn(4)
		res := "ok"
		if r.Chance(1, 3) {
			res = "err"
		}
		out = append(out, fmt.Sprintf("on %d %s gate %d %s", s, ev, g, res))
		used[g] = true
	}
	release := func() {
		var gs []int
		for g := 0; g < 4; g++ {
			if used[g] {
				gs = append(gs, g)
			}
		}
		if len(gs) == 0 || r.Chance(1, 10) {
			out = append(out, fmt.Sprintf("release %d", r.Intn(5)))
			return
		}
		g := gs[r.Intn(len(gs))]
		out = append(out, fmt.Sprintf("release %d", g))
		delete(used, g)
	}
	// believed to have returned from Close (a child of such a scope is outside the protocol's domain)
	finished := func(i int) bool { return scopes[i].closed && scopes[i].outstanding == 0 && scopes[i].openKids == 0 }
	if forceProbes || r.Chance(1, 3) {
		for _, e := range evNames {
			out = append(out, "on 0 "+e+" ok")
		}
	}
	pick := func() int {
		if r.Chance(3, 4) {
			var open []int
			for i, s := range scopes {
				if !s.closed {
					open = append(open, i)
				}
			}
			if len(open) > 0 {
				return open[r.Intn(len(open))]
			}
		}
		return r.Intn(len(scopes))
	}
	addChild := func(p int) {
		kind := "shared"
		if r.Chance(2, 5) {
			kind = "isolated"
		}
		if finished(p) && !r.Chance(1, 50) {
			return
		}
		out = append(out, fmt.Sprintf("child %d %s", p, kind))
		c := gscope{parent: p, depth: scopes[p].depth + 1, iso: kind == "isolated", done: scopes[p].done}
		if c.iso {
			c.done = new(bool)
			*c.done = *scopes[p].done
		}
		if !*scopes[p].done {
			c.signed = true
			scopes[p].openKids++
		}
		scopes = append(scopes, c)
	}
	markClosed := func(s int) {
		if scopes[s].closed {
			return
		}
		scopes[s].closed = true
		// sign-offs cascade upwards as far as scopes are believed to finish
		for finished(s) && scopes[s].signed && scopes[s].parent >= 0 {
			scopes[s].signed = false
			s = scopes[s].parent
			scopes[s].openKids--
			if !scopes[s].closed {
				break
			}
		}
	}
	// a small tree up front, more children later
	for i, k := 0, r.Intn(4); i < k; i++ {
		p := r.Intn(len(scopes))
		if scopes[p].depth < 4 {
			addChild(p)
		}
	}
	n := 3 + r.Intn(30)
	for i := 0; i < n; i++ {
		s := pick()
		switch x := r.Intn(100); {
		case x < 12:
			if len(scopes) < 8 && scopes[s].depth < 4 {
				addChild(s)
			}
		case x < 28:
			if gated && r.Chance(1, 2) {
				gatedOn(s)
				break
			}
			res := "ok"
			if r.Chance(1, 4) {
				res = "err"
			}
			out = append(out, fmt.Sprintf("on %d %s %s", s, r.Pick(evNames), res))
		case x < 37:
			k := 1 + r.Intn(2)
			out = append(out, fmt.Sprintf("addtasks %d %d", s, k))
			if !*scopes[s].done {
				scopes[s].outstanding += k
			}
		case x < 49:
			// mostly a scope believed to have an outstanding task
			for j := range scopes {
				if scopes[j].outstanding > 0 && r.Chance(2, 3) {
					s = j
					break
				}
			}
			if scopes[s].outstanding == 0 && !r.Chance(1, 8) {
				break
			}
			out = append(out, fmt.Sprintf("donetask %d", s))
			if scopes[s].outstanding > 0 {
				scopes[s].outstanding--
				if scopes[s].closed && finished(s) && scopes[s].signed && scopes[s].parent >= 0 {
					scopes[s].closed = false
					markClosed(s)
				}
			}
		case x < 56:
			out = append(out, fmt.Sprintf("apperr %d", s))
			*scopes[s].done = *scopes[s].done || !scopes[s].closed
		case x < 62:
			out = append(out, fmt.Sprintf("kill %d", s))
			*scopes[s].done = *scopes[s].done || !scopes[s].closed
		case x < 68:
			out = append(out, fmt.Sprintf("stop %d", s))
			*scopes[s].done = *scopes[s].done || !scopes[s].closed
		case x < 97:
			if gated && r.Chance(1, 5) {
				release()
				break
			}
			if gated && r.Chance(1, 3) { // the parent's Close first: it must wait for the child's listeners
				for j := range scopes {
					if !scopes[j].closed {
						s = j
						break
					}
				}
			} else if r.Chance(1, 2) { // prefer the deepest open scope: closes complete more often
				best := -1
				for j := range scopes {
					if !scopes[j].closed && (best < 0 || scopes[j].depth >= scopes[best].depth) {
						best = j
					}
				}
				if best >= 0 {
					s = best
				}
			}
			out = append(out, fmt.Sprintf("close %d", s))
			markClosed(s)
		case x < 98:
			if multiRoot {
				out = append(out, "new")
				scopes = append(scopes, gscope{parent: -1, done: new(bool)})
			}
		default: // malformed stream: unknown scope ids
			bad := len(scopes) + r.Intn(3)
			out = append(out, r.Pick([]string{
				fmt.Sprintf("close %d", bad), fmt.Sprintf("kill %d", bad), fmt.Sprintf("child %d shared", bad),
				fmt.Sprintf("donetask %d", bad), fmt.Sprintf("on %d commit ok", bad), fmt.Sprintf("addtasks %d 1", bad)}))
		}
	}
	if r.Chance(1, 2) { // drain: complete the tasks, close what is open, deepest first
		for j := range scopes {
			for ; scopes[j].outstanding > 0; scopes[j].outstanding-- {
				out = append(out, fmt.Sprintf("donetask %d", j))
			}
		}
		topDown := gated && r.Chance(1, 2)
		for k := 0; k <= 4; k++ {
			d := 4 - k
			if topDown {
				d = k
			}
			for j := len(scopes) - 1; j >= 0; j-- {
				if scopes[j].depth == d && !scopes[j].closed && r.Chance(9, 10) {
					out = append(out, fmt.Sprintf("close %d", j))
					markClosed(j)
				}
			}
		}
		if r.Chance(1, 3) {
			out = append(out, fmt.Sprintf("close %d", r.Intn(len(scopes))))
		}
	}
	if gated && r.Chance(5, 6) { // open the gates in random order (mostly all of them)
		for len(used) > 0 {
			release()
		}
	}
	return append(out, "settle")
}

// genAdversarial is the deterministic family "the parent's Close is pending, the child's Close enters a
// gated listener, the parent is sampled (it must still be blocked and must not have fired a triple event),
// release, both finish": k enumerates the child's event (8), ok/err (2), shared/isolated (2), and whether
// the closing scope is a child or a grandchild (2) = 64 histories.
func genAdversarial(k int, probes bool) []string {
	ev := closeEvNames[k%8]
	res := []string{"ok", "err"}[(k/8)%2]
	kind := []string{"shared", "isolated"}[(k/16)%2]
	deep := (k/32)%2 == 1
	out := []string{"reset", "new"}
	if probes {
		for _, e := range evNames {
			out = append(out, "on 0 "+e+" ok")
		}
	} else {
		out = append(out, "on 0 commit ok", "on 0 rollback ok")
	}
	c := 1
	out = append(out, "child 0 "+kind)
	if deep {
		out = append(out, "child 1 shared")
		c = 2
	}
	out = append(out, fmt.Sprintf("on %d %s gate 0 %s", c, ev, res))
	out = append(out, "close 0")
	if deep {
		out = append(out, "close 1")
	}
	out = append(out, fmt.Sprintf("close %d", c))
	// operations issued while the child's listener runs: each samples the parents first
	out = append(out, "on 0 afterClose ok", "addtasks 0 1", "donetask 0", fmt.Sprintf("kill %d", c))
	out = append(out, "release 0", "settle")
	return out
}

const nAdversarial = 64
