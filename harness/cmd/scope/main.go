// Command scope is the implementation-side driver, generator and oracle of the `scope` line
// protocol (property C11): it runs the real app/scope, eventscope and contextscope packages.
//
//	scope drive                 op lines on stdin -> one result line per op (same format as m_scope)
//	scope gen <n> [<shard>]     n random histories (reset … settle); shard selects an independent stream;
//	                            shard 0 starts with the deterministic gated family (genAdversarial)
//	scope oracle <n> [<shard>]  n random histories executed with root probes; the property's clauses
//	                            are evaluated on the implementation alone (see oracle.go)
//	scope judge                 the same evaluation for one history given on stdin
//	scope cgen|coracle|cjudge   the concurrent-closers family (`cc …` case lines, see closers.go); `drive`
//	                            executes `cc` lines too
package main

import (
	"bufio"
	"fmt"
	"os"
	"sort"
	"strconv"
	"strings"

	"gcverif/internal/hx"
)

func shardRand(args []string, salt uint64) *hx.Rand {
	shard := uint64(0)
	if len(args) > 0 {
		if v, err := strconv.Atoi(args[0]); err == nil {
			shard = uint64(v)
		}
	}
	return hx.NewRand(hx.SeedFromEnv()*1000003 + shard*7919 + salt)
}

func shardOf(args []string) int {
	if len(args) > 0 {
		if v, err := strconv.Atoi(args[0]); err == nil {
			return v
		}
	}
	return 0
}

func drive(w *bufio.Writer) {
	sc := bufio.NewScanner(os.Stdin)
	sc.Buffer(make([]byte, 1<<20), 1<<26)
	h := newH()
	h.selfTestWatcher()
	for sc.Scan() {
		line := sc.Text()
		if line == "" || strings.HasPrefix(line, "#") {
			continue
		}
		if h.timeouts >= 8 {
			// several waits for "what must happen" have timed out: the run is a failure already,
			// do not spend minutes on the rest
			fmt.Fprintln(w, "skipped")
			continue
		}
		if strings.HasPrefix(line, "cc ") {
			// a concurrent-closers case (closers.go): self-contained, does not touch the history state
			fmt.Fprintln(w, execCC(line))
		} else if line == "reset" {
			h.cleanup()
			nh := newH()
			nh.noWatcher, nh.timeouts = h.noWatcher, h.timeouts
			h = nh
			fmt.Fprintln(w, "ok")
		} else {
			fmt.Fprintln(w, h.Exec(line))
		}
		w.Flush()
	}
	h.cleanup()
}

func oracle(w *bufio.Writer, n int, r *hx.Rand, shard int) {
	counts := map[string]int{}
	fails, timeouts, noWatcher := 0, 0, false
	{
		t := newH()
		t.selfTestWatcher()
		noWatcher = t.noWatcher
	}
	last := os.Getenv("SCOPE_LAST") // the history being executed is written here: if a goroutine of the
	// implementation panics the process dies and the check finds the history in this file
	for i := 0; i < n; i++ {
		var hist []string
		if shard == 0 && i < nAdversarial {
			hist = genAdversarial(i, true)
		} else {
			hist = genHistory(r, true, false)
		}
		if last != "" {
			os.WriteFile(last, []byte(strings.Join(hist, "\n")+"\n"), 0o644)
		}
		h := newH()
		h.oracle, h.noWatcher, h.timeouts = true, noWatcher, timeouts
		for l := 0; l < len(evNames); l++ {
			h.probe[l] = true // the first eleven listeners of the root
		}
		for _, line := range hist[1:] {
			h.Exec(line)
		}
		h.oracleFinish()
		for _, nd := range h.nodes {
			counts["scopes"]++
			if nd.iso {
				counts["isolated"]++
			}
			if nd.returned {
				counts["closed"]++
				if strings.Contains(strings.Join(nd.seq, ","), "rollback") {
					counts["rollback"]++
				} else {
					counts["commit"]++
				}
			} else if nd.started {
				counts["blocked"]++
			}
		}
		if len(h.fails) > 0 {
			fails++
			seen := map[string]bool{}
			for _, f := range h.fails {
				cl := strings.SplitN(f, " ", 2)[0]
				counts["fail:"+cl]++
				if !seen[cl] { // one line per clause and history
					seen[cl] = true
					fmt.Fprintf(w, "FAIL %s | %s\n", f, strings.Join(hist, ";"))
				}
			}
		}
		timeouts = h.timeouts
		counts["kf1"] += h.kf1
		h.cleanup()
		if fails >= 25 {
			n = i + 1
			break
		}
	}
	var cs []string
	for k, v := range counts {
		cs = append(cs, fmt.Sprintf("%s=%d", k, v))
	}
	sort.Strings(cs)
	fmt.Fprintf(w, "oracle cases=%d fails=%d %s\n", n, fails, strings.Join(cs, " "))
}

// judge runs ONE history (op lines on stdin) with the probe set inserted after the first `new` and
// evaluates the property's clauses on it: the Spec verdict for a history on which implementation and
// model disagree.  Prints FAIL lines and `judge fails=<n> kf1=<n>`.
func judge(w *bufio.Writer) {
	sc := bufio.NewScanner(os.Stdin)
	var hist []string
	probed := false
	for sc.Scan() {
		line := sc.Text()
		if line == "" || strings.HasPrefix(line, "#") || line == "reset" {
			continue
		}
		hist = append(hist, line)
		if line == "new" && !probed {
			probed = true
			for _, e := range evNames {
				hist = append(hist, "on 0 "+e+" ok")
			}
		}
	}
	h := newH()
	h.selfTestWatcher()
	h.oracle = true
	for l := 0; l < len(evNames); l++ {
		h.probe[l] = true
	}
	for _, line := range hist {
		h.Exec(line)
	}
	h.Exec("settle")
	h.oracleFinish()
	seen := map[string]bool{}
	for _, f := range h.fails {
		if !seen[f] {
			seen[f] = true
			fmt.Fprintf(w, "FAIL %s\n", f)
		}
	}
	fmt.Fprintf(w, "judge fails=%d kf1=%d\n", len(seen), h.kf1)
	h.cleanup()
}

func main() {
	w := bufio.NewWriterSize(os.Stdout, 1<<20)
	defer w.Flush()
	if len(os.Args) < 2 {
		fmt.Fprintln(os.Stderr, "usage: scope drive | gen <n> [<shard>] | oracle <n> [<shard>]")
		os.Exit(2)
	}
	switch os.Args[1] {
	case "drive":
		drive(w)
	case "gen":
		n, _ := strconv.Atoi(os.Args[2])
		r := shardRand(os.Args[3:], 0)
		for i := 0; i < n; i++ {
			hist := genHistory(r, false, true)
			if shardOf(os.Args[3:]) == 0 && i < nAdversarial {
				hist = genAdversarial(i, false) // the deterministic family first (shard 0)
			}
			for _, l := range hist {
				fmt.Fprintln(w, l)
			}
		}
	case "oracle":
		n, _ := strconv.Atoi(os.Args[2])
		oracle(w, n, shardRand(os.Args[3:], 0x5eed), shardOf(os.Args[3:]))
	case "judge":
		judge(w)
	case "cgen": // cgen <n> [<shard>]: concurrent-closers cases (closers.go)
		n, _ := strconv.Atoi(os.Args[2])
		for _, c := range ccGen(n, shardRand(os.Args[3:], 0xcc01), shardOf(os.Args[3:]), ccRounds()) {
			fmt.Fprintln(w, c.String())
		}
	case "coracle": // coracle <n> [<shard>]: the clauses of the concurrent-closers family on the implementation alone
		n, _ := strconv.Atoi(os.Args[2])
		ccOracle(w, ccGen(n, shardRand(os.Args[3:], 0xcc02), shardOf(os.Args[3:]), ccRounds()), 1)
	case "cjudge": // cjudge [<mult>]: the same for the case lines on stdin, mult times their rounds
		mult := 1
		if len(os.Args) > 2 {
			if v, err := strconv.Atoi(os.Args[2]); err == nil && v > 0 {
				mult = v
			}
		}
		ccJudge(w, mult)
	default:
		fmt.Fprintln(os.Stderr, "unknown mode")
		os.Exit(2)
	}
}
