package main

// The property oracle: the clauses of C11 evaluated on the implementation alone.  Expected answers
// are known by construction (the harness built the tree, knows which child is isolated, which tasks
// it added and completed, which listeners fail); no model is consulted.  Every oracle history has
// one root whose first listeners are eleven always-succeeding probes, one per event: a child event
// scope calls its parent first and a trigger stops only at a failing listener, so the probes see
// every event any scope of the tree fires, before anything can fail.
//
// clauses (names appear in FAIL lines and in the summary):
//   order     per closing scope the probe log is beforeClose (still waiting) or
//             beforeClose, three commit events | three rollback events, afterClose — each once
//   pick      commit events iff len(Errors()) == 0 when the triple starts, rollback otherwise
//   waits     when the triple starts every task added is done and every signed-on child has fired
//             afterClose AND its after-close trigger has ended (no listener of the child is still
//             running: a parent never fires beforeCommit/beforeRollback while a signed-on child has a
//             listener running); a Close that must still wait has not returned and has not fired a
//             triple event (sampled); a Close that can finish returns (10 s)
//   result    Close returns an error iff len(Errors()) > 0 right after it returned
//   twice     a second Close panics, the listener log and every scope's state are unchanged
//   closedop  AppendError/Kill/Stop on a closing or closed scope panic and change nothing
//   shared    after AppendError/Kill on an open scope, every scope sharing its context is done and
//             holds an error; when such a scope closes it rolls back and reports the error; the same
//             for every scope sharing the context of a closing scope one of whose close-event
//             listeners returns an error, if its own wait has not ended yet
//   isolated  the same operation (and Stop) changes no scope outside that context and the contexts
//             isolated below it
//   inherit   every scope whose context is isolated below a done context becomes done (10 s)
//   listener  every listener sees, per closing scope, a duplicate-free subsequence of that order
//   events    Close delivers its eight events and nothing else: a kill/stop/error listener is never
//             invoked with a scope as data, a listener of a close event never without one

import (
	"fmt"
	"strconv"
	"strings"
)

func (h *H) fail(clause, detail string) {
	h.mu.Lock()
	h.fails = append(h.fails, clause+" "+detail)
	h.mu.Unlock()
}

func lastIs(seq []string, ev string) bool { return len(seq) > 0 && seq[len(seq)-1] == ev }

// probeSees runs inside a probe listener (in the goroutine that fired the event).
func (h *H) probeSees(sn *node, ev string) {
	if evIndex(ev) < 3 {
		return
	}
	h.mu.Lock()
	sn.seq = append(sn.seq, ev)
	kids := append([]*node{}, sn.kids...)
	h.mu.Unlock()
	if ev == "beforeCommit" || ev == "beforeRollback" {
		sn.errsAtPick = len(sn.scp.Errors())
		var bad []string
		if sn.outstanding != 0 {
			bad = append(bad, fmt.Sprintf("%d tasks outstanding", sn.outstanding))
		}
		var kf []string
		for _, k := range kids {
			h.mu.Lock()
			open := !lastIs(k.seq, "afterClose")
			busy := !open && (!k.afterDone || k.parked != nil)
			reg := k.registered
			h.mu.Unlock()
			if open && reg {
				bad = append(bad, fmt.Sprintf("child %d not closed", k.id))
			} else if busy && reg {
				bad = append(bad, fmt.Sprintf("child %d still running its after-close listeners", k.id))
			} else if open {
				// the child was created when this scope was already done and never signed on
				kf = append(kf, strconv.Itoa(k.id))
			}
		}
		sn.waitBad = strings.Join(bad, ", ")
		sn.kf1 = strings.Join(kf, ",")
	}
}

const (
	seqCommit   = "beforeClose,beforeCommit,commit,afterCommit,afterClose"
	seqRollback = "beforeClose,beforeRollback,rollback,afterRollback,afterClose"
)

// oracleClosed runs when a Close has returned.
func (h *H) oracleClosed(n *node, r closeRes) {
	if !n.probed {
		return
	}
	if n.kf1 != "" {
		h.kf1++
	}
	h.mu.Lock()
	seq := strings.Join(n.seq, ",")
	h.mu.Unlock()
	if seq != seqCommit && seq != seqRollback {
		h.fail("order", fmt.Sprintf("scope %d returned from Close after firing [%s]", n.id, seq))
	}
	if strings.Contains(seq, "beforeCommit") && n.errsAtPick != 0 {
		h.fail("pick", fmt.Sprintf("scope %d committed holding %d errors", n.id, n.errsAtPick))
	}
	if strings.Contains(seq, "beforeRollback") && n.errsAtPick == 0 {
		h.fail("pick", fmt.Sprintf("scope %d rolled back holding no error", n.id))
	}
	if n.waitBad != "" {
		h.fail("waits", fmt.Sprintf("scope %d started its commit/rollback with %s", n.id, n.waitBad))
	}
	if !r.panicked && r.err != (r.errs > 0) {
		h.fail("result", fmt.Sprintf("scope %d: Close error=%v but it holds %d errors", n.id, r.err, r.errs))
	}
	if n.mustFail && (seq != seqRollback || !r.err) {
		h.fail("shared", fmt.Sprintf("scope %d shares a failed context but fired [%s] and returned error=%v", n.id, seq, r.err))
	}
}

// oracleListenerFailed runs inside a listener of a close event of sn that is about to return an error:
// the error goes into sn's context, so every scope sharing it whose wait has not ended must roll back.
func (h *H) oracleListenerFailed(sn *node) {
	h.mu.Lock()
	for _, m := range h.nodes {
		if m.c == sn.c && !m.picked {
			m.mustFail = true
		}
	}
	h.mu.Unlock()
}

func isPrefixOf(seq, full string) bool {
	return seq != "" && len(seq) < len(full) && full[:len(seq)] == seq && full[len(seq)] == ','
}

func (h *H) snapshot() []string {
	res := make([]string, len(h.nodes))
	for i, n := range h.nodes {
		d := 0
		if n.scp.IsDone() {
			d = 1
		}
		res[i] = fmt.Sprintf("%d.%d", d, len(n.scp.Errors()))
	}
	return res
}

func (h *H) oracleBefore(n *node) []string { return h.snapshot() }

// below: is context c the context a or isolated (transitively) below it?
func below(c, a *cnode) bool {
	for ; c != nil; c = c.parent {
		if c == a {
			return true
		}
	}
	return false
}

// oracleAfterFail runs after AppendError / Kill / Stop on n (propagation has been awaited).
func (h *H) oracleAfterFail(op string, n *node, panicked bool, before []string) {
	after := h.snapshot()
	if n.started {
		if !panicked {
			h.fail("closedop", fmt.Sprintf("%s on scope %d whose Close has begun did not panic", op, n.id))
		}
		for i := range before {
			if before[i] != after[i] {
				h.fail("closedop", fmt.Sprintf("refused %s on scope %d changed scope %d: %s -> %s", op, n.id, i, before[i], after[i]))
			}
		}
		return
	}
	if panicked {
		h.fail("closedop", fmt.Sprintf("%s on open scope %d panicked", op, n.id))
		return
	}
	for i, m := range h.nodes {
		switch {
		case m.c == n.c:
			if op != "stop" {
				h.mu.Lock()
				if !m.picked { // a scope whose wait has ended has made its choice already
					m.mustFail = true
				}
				h.mu.Unlock()
				if !m.scp.IsDone() || len(m.scp.Errors()) == 0 {
					h.fail("shared", fmt.Sprintf("%s on scope %d: scope %d shares its context but shows %s", op, n.id, i, after[i]))
				}
			} else if !m.scp.IsDone() {
				h.fail("shared", fmt.Sprintf("stop on scope %d: scope %d shares its context but is not done", n.id, i))
			}
		case below(m.c, n.c):
			if !m.scp.IsDone() {
				h.fail("inherit", fmt.Sprintf("%s on scope %d: scope %d is isolated below it and is not done", op, n.id, i))
			}
		default:
			if before[i] != after[i] {
				h.fail("isolated", fmt.Sprintf("%s on scope %d changed scope %d outside its context: %s -> %s", op, n.id, i, before[i], after[i]))
			}
		}
	}
}

func (h *H) oracleSecondClose(n *node, res string, log0 int, snap string) {
	if res != "panic" {
		h.fail("twice", fmt.Sprintf("second Close of scope %d: %s", n.id, res))
	}
	h.mu.Lock()
	grew := len(h.log) - log0
	h.mu.Unlock()
	if grew != 0 {
		h.fail("twice", fmt.Sprintf("second Close of scope %d delivered %d events", n.id, grew))
	}
	if now := h.stateString(); now != snap {
		h.fail("twice", fmt.Sprintf("second Close of scope %d changed the state %s -> %s", n.id, snap, now))
	}
}

func isSubseq(sub, full []string) bool {
	i := 0
	for _, x := range full {
		if i < len(sub) && sub[i] == x {
			i++
		}
	}
	return i == len(sub)
}

// oracleFinish runs at the end of a history (after the final settle).
func (h *H) oracleFinish() {
	for _, n := range h.nodes {
		if !n.probed {
			continue
		}
		seq := strings.Join(n.seq, ",")
		switch {
		case !n.started:
			if seq != "" {
				h.fail("order", fmt.Sprintf("scope %d was never closed but fired [%s]", n.id, seq))
			}
		case !n.returned:
			h.mu.Lock()
			parked, picked := n.parked != nil, n.picked
			h.mu.Unlock()
			if !isPrefixOf(seq, seqCommit) && !isPrefixOf(seq, seqRollback) && seq != seqCommit && seq != seqRollback {
				h.fail("order", fmt.Sprintf("scope %d is inside Close but fired [%s]", n.id, seq))
			}
			if !parked && !picked && seq != "beforeClose" {
				h.fail("order", fmt.Sprintf("scope %d is waiting in Close but fired [%s]", n.id, seq))
			}
			if !parked && (n.wgm <= 0 || picked) {
				h.fail("waits", fmt.Sprintf("scope %d: Close does not return although nothing is outstanding", n.id))
			}
		}
	}
	// every listener: per closing scope a duplicate-free subsequence of that scope's order
	type key struct{ lid, src int }
	seen := map[key][]string{}
	for _, e := range h.log {
		if e.src >= 0 && evIndex(e.ev) >= 3 {
			k := key{e.lid, e.src}
			seen[k] = append(seen[k], e.ev)
		}
	}
	for k, evs := range seen {
		if !h.nodes[k.src].probed {
			continue
		}
		if !isSubseq(evs, h.nodes[k.src].seq) {
			h.fail("listener", fmt.Sprintf("listener %d saw [%s] of scope %d which fired [%s]", k.lid,
				strings.Join(evs, ","), k.src, strings.Join(h.nodes[k.src].seq, ",")))
		}
	}
	// Close delivers only its own events (and Kill/Stop/AppendError only theirs)
	for _, e := range h.log {
		if (evIndex(e.ev) >= 3) != (e.src >= 0) {
			src := "no scope"
			if e.src >= 0 {
				src = "scope " + strconv.Itoa(e.src)
			}
			h.fail("events", fmt.Sprintf("listener %d registered for %s was invoked with %s as data", e.lid, e.ev, src))
			break
		}
	}
	// every isolated context below a done context is done
	for i, m := range h.nodes {
		if m.c.parent != nil && m.c.parent.ctx.IsDone() && !m.scp.IsDone() {
			h.fail("inherit", fmt.Sprintf("scope %d: its context is isolated below a done context and is not done", i))
		}
	}
	for _, a := range h.anomalies {
		clause := "waits"
		if strings.HasPrefix(a, "noprop") || strings.HasPrefix(a, "watchers") {
			clause = "inherit"
		} else if strings.HasPrefix(a, "second-close") {
			clause = "twice"
		}
		h.fail(clause, "harness: "+a)
	}
}
