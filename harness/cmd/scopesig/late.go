// Late-error oracle of property C12 (`scopesig late <rounds>`), sibling of the publication-order oracle (pub.go).
//
// "Every appended error is retained and reported by the scope's error accessors and by waiting on or closing
// it": a scope that waits for its children and tasks (Wait, or the Wait inside Close) learns of every error they
// produce on their way out.  In the code: a child closed by Close() triggers BeforeClose, then Commit* or
// Rollback*, then AfterClose, appends every listener error (and the error of an ErrorEvent listener answering
// such an append) to the context it shares with its parent, and ONLY THEN signs off with parent.DoneTask(); a
// task appends its error and then calls DoneTask().  wg.Done happens-before the return of wg.Wait, hence:
//
//	wait    the value returned by parent.Wait(), and parent.Errors()/Err() read right after it returned, contain
//	        every error produced by a registered child (or grandchild) during its Close and every error a task
//	        appended before its DoneTask
//	close   the same for parent.Close(), plus the errors of the parent's own close-protocol listeners
//	commit  a scope whose registered descendants / tasks produced an error does not run its Commit listeners
//	child   a child's Close() returns every error produced during the Close of its own subtree
//	foreign nothing is reported that nobody produced; final: at the end the context holds every produced error once
//
// All children are created and all tasks added before anything can fail (no registration is refused), each child
// is closed in its own goroutine while the parent is blocked in Wait()/Close().  The verdict is computed after
// every goroutine has returned, from values stored at the moment of observation: no clause is about timing.
package main

import (
	"bufio"
	"fmt"
	"os"
	"runtime"
	"strings"
	"sync"
	"sync/atomic"
	"time"

	"gcverif/internal/hx"

	"github.com/goatcms/goatcore/app"
	"github.com/goatcms/goatcore/app/scope"
)

var lateEvents = []struct {
	id   interface{}
	name string
}{
	{app.BeforeCloseEvent, "before-close"}, {app.BeforeCommitEvent, "before-commit"}, {app.CommitEvent, "commit"},
	{app.AfterCommitEvent, "after-commit"}, {app.BeforeRollbackEvent, "before-rollback"}, {app.RollbackEvent, "rollback"},
	{app.AfterRollbackEvent, "after-rollback"}, {app.AfterCloseEvent, "after-close"}, {app.ErrorEvent, "error-event"},
}

// flatten lists the leaves of an error returned by Wait/Close (Scope.Err wraps the context's list)
func flatten(e error, out map[error]bool, depth int) {
	if e == nil || depth > 6 {
		return
	}
	out[e] = true
	if w, ok := e.(interface{ UnwrapAll() []error }); ok {
		for _, x := range w.UnwrapAll() {
			flatten(x, out, depth+1)
		}
	}
}

type lateNode struct {
	name     string
	scp      app.Scope
	parent   *lateNode
	children []*lateNode
	commits  int32 // invocations of a Commit-phase listener for this scope
	closeErr error
	closeRes string
}

type lateProduced struct {
	e     *tagErr
	owner *lateNode // nil: a task of the parent
	what  string
}

func (n *lateNode) inSubtree(x *lateNode) bool {
	for ; x != nil; x = x.parent {
		if x == n {
			return true
		}
	}
	return false
}

func late(rounds int) {
	seed := hx.SeedFromEnv()
	master := hx.NewRand(seed ^ 0x1a7e0e44)
	w := bufio.NewWriter(os.Stdout)
	defer w.Flush()
	oldProcs := runtime.GOMAXPROCS(0)
	defer runtime.GOMAXPROCS(oldProcs)
	procs := []int{2, 3, 4, 8, 16}
	kinds := map[string]int64{}
	var nRounds, nProduced, nChildren, nTasks, nFails, nPanics, nWaitObs, nCloseObs, nCommitObs int64
	curProcs := oldProcs
	tagSeq := 0
	for round := 0; round < rounds; round++ {
		if round%32 == 0 {
			curProcs = procs[master.Intn(len(procs))]
			runtime.GOMAXPROCS(curProcs)
		}
		mode := []string{"wait", "close"}[master.Intn(2)]
		nested := master.Chance(1, 3) // the observed parent is itself a child of a root (same context)
		K := 1 + master.Intn(3)
		T := master.Intn(3)
		kinds["mode:"+mode]++
		kinds[fmt.Sprintf("procs:%d", curProcs)]++

		var (
			mu       sync.Mutex
			produced []lateProduced
			fails    []string
		)
		fail := func(clause, detail string) {
			mu.Lock()
			if len(fails) < 6 {
				fails = append(fails, clause+": "+detail)
			}
			mu.Unlock()
		}
		produce := func(owner *lateNode, what string) *tagErr {
			mu.Lock()
			tagSeq++
			e := &tagErr{tagSeq}
			produced = append(produced, lateProduced{e, owner, what})
			mu.Unlock()
			return e
		}

		// --- the tree: [root ->] P -> children -> grandchildren, one shared context
		var root app.Scope
		var P app.Scope
		if nested {
			root = scope.New(scope.Params{})
			P = scope.NewChild(root, scope.ChildParams{})
		} else {
			P = scope.New(scope.Params{})
		}
		ctx := P.BaseContextScope()
		pn := &lateNode{name: "P", scp: P}
		all := []*lateNode{pn}
		for i := 0; i < K; i++ {
			c := &lateNode{name: fmt.Sprintf("C%d", i), parent: pn}
			c.scp = scope.NewChild(P, scope.ChildParams{})
			pn.children = append(pn.children, c)
			all = append(all, c)
			if master.Chance(1, 3) {
				g := &lateNode{name: fmt.Sprintf("C%d.G", i), parent: c}
				g.scp = scope.NewChild(c.scp, scope.ChildParams{})
				c.children = append(c.children, g)
				all = append(all, g)
			}
		}
		byScope := func(data interface{}) *lateNode {
			for _, n := range all {
				if data == interface{}(n.scp) {
					return n
				}
			}
			return nil
		}
		slowness := func() func() {
			switch master.Intn(4) {
			case 0:
				return func() {}
			case 1:
				return func() { runtime.Gosched() }
			case 2:
				return func() {
					for i := 0; i < 8; i++ {
						runtime.Gosched()
					}
				}
			default:
				return func() { time.Sleep(30 * time.Microsecond) }
			}
		}
		// listeners of the scopes' own event scopes (a child's event scope inherits its ancestors' listeners)
		for _, n := range all {
			n := n
			own := n != pn
			// every scope counts the Commit-phase events fired for itself
			for _, ev := range lateEvents[1:4] {
				n.scp.On(ev.id, func(data interface{}) error {
					if t := byScope(data); t != nil {
						atomic.AddInt32(&t.commits, 1)
					}
					return nil
				})
			}
			for _, ev := range lateEvents {
				if !master.Chance(1, 4) {
					continue
				}
				if ev.name == "error-event" && !own {
					continue // an ErrorEvent listener of P could not tell on whose behalf it runs
				}
				ev, slow := ev, slowness()
				kinds["listener:"+ev.name]++
				n.scp.On(ev.id, func(data interface{}) error {
					owner := n
					if ev.name != "error-event" {
						if owner = byScope(data); owner == nil {
							return nil
						}
					}
					slow()
					return produce(owner, ev.name+" listener registered on "+n.name)
				})
			}
		}
		// tasks of P
		tasksOK := 0
		for i := 0; i < T; i++ {
			if err := P.AddTasks(1); err != nil {
				fail("setup", "AddTasks refused on a live scope")
				continue
			}
			tasksOK++
		}

		// --- run: the parent blocks in Wait()/Close(); children close and tasks finish in their own goroutines
		var (
			obsErr   error
			obsErrs  []error
			obsErr2  error
			obsRes   string
			obsDone  = make(chan struct{})
			start    = make(chan struct{})
			workers  sync.WaitGroup
			parentUp = make(chan struct{})
		)
		go func() {
			defer close(obsDone)
			close(parentUp)
			p, _ := hx.Guard(func() {
				if mode == "wait" {
					obsErr = P.Wait()
				} else {
					obsErr = P.Close()
				}
				obsErrs = ctx.Errors()
				obsErr2 = ctx.Err()
			})
			obsRes = "ok"
			if p {
				obsRes = "panic"
			}
		}()
		<-parentUp
		for i := master.Intn(4); i > 0; i-- {
			runtime.Gosched() // let the parent reach its wg.Wait
		}
		closer := func(n *lateNode, pre func()) {
			defer workers.Done()
			<-start
			pre()
			p, _ := hx.Guard(func() { n.closeErr = n.scp.Close() })
			n.closeRes = "ok"
			if p {
				n.closeRes = "panic"
			}
		}
		for _, n := range all[1:] {
			workers.Add(1)
			go closer(n, slowness())
		}
		for i := 0; i < tasksOK; i++ {
			workers.Add(1)
			viaScope := mode == "wait" && master.Chance(1, 2)
			fails2 := master.Chance(2, 3)
			slow := slowness()
			go func() {
				defer workers.Done()
				<-start
				slow()
				p, _ := hx.Guard(func() {
					if fails2 {
						e := produce(nil, "task")
						if viaScope {
							P.AppendError(e)
						} else {
							ctx.AppendError(nil, e)
						}
					}
					P.DoneTask()
				})
				if p {
					fail("panic", "a task panicked in AppendError/DoneTask")
				}
			}()
		}
		close(start)
		wdone := make(chan struct{})
		go func() { workers.Wait(); close(wdone) }()
		if !waitChan(wdone) {
			fail("hang", "a child's Close() or a task did not return")
		}
		if !waitChan(obsDone) {
			fail("hang", fmt.Sprintf("every child is closed and every task done, but the parent's %s does not return", mode))
			// the goroutine still owns the obs* variables: nothing more to read in this round
		} else {
			// --- verdict, from the values stored at the moment of observation
			mu.Lock()
			prod := append([]lateProduced(nil), produced...)
			mu.Unlock()
			if obsRes == "panic" {
				fail("panic", "the parent's "+mode+" panicked")
				atomic.AddInt64(&nPanics, 1)
			}
			inRet := map[error]bool{}
			flatten(obsErr, inRet, 0)
			inList := map[error]bool{}
			for _, e := range obsErrs {
				if e == nil {
					fail("foreign", "Errors() holds a nil entry")
				}
				inList[e] = true
			}
			known := map[error]bool{}
			must := 0
			for _, p := range prod {
				known[p.e] = true
				guaranteed := p.owner != pn || mode == "close" // P's own listeners run only inside P.Close()
				if !guaranteed {
					continue
				}
				must++
				if !inRet[p.e] {
					fail(mode, fmt.Sprintf("%s() returned (err!=nil: %v, %d leaves) without the error of the %s (owner %s)",
						modeName(mode), obsErr != nil, len(inRet), p.what, ownerName(p.owner)))
				}
				if !inList[p.e] {
					fail(mode, fmt.Sprintf("Errors() read right after %s() returned holds %d errors, not the one of the %s (owner %s)",
						modeName(mode), len(obsErrs), p.what, ownerName(p.owner)))
				}
			}
			if must > 0 && (obsErr == nil || obsErr2 == nil) {
				fail(mode, fmt.Sprintf("%d errors were produced by children / tasks, %s()!=nil is %v, Err()!=nil right after is %v",
					must, modeName(mode), obsErr != nil, obsErr2 != nil))
			}
			for e := range inList {
				if !known[e] {
					fail("foreign", "Errors() holds an error nobody produced: "+e.Error())
				}
			}
			if mode == "wait" {
				nWaitObs++
			} else {
				nCloseObs++
			}
			// commit: a scope whose strict descendants / tasks produced an error does not commit
			for _, n := range all {
				if n == pn && mode == "wait" {
					continue
				}
				below := 0
				for _, p := range prod {
					if (p.owner == nil && n == pn) || (p.owner != nil && p.owner != n && n.inSubtree(p.owner)) {
						below++
					}
				}
				nCommitObs++
				if below > 0 && atomic.LoadInt32(&n.commits) > 0 {
					fail("commit", fmt.Sprintf("%s ran %d Commit-phase listeners although its children / tasks produced %d errors while it waited for them",
						n.name, n.commits, below))
				}
			}
			// child: Close() of a child returns the errors of its own subtree
			for _, n := range all[1:] {
				if n.closeRes != "ok" {
					fail("panic", n.name+".Close() panicked or did not return")
					continue
				}
				got := map[error]bool{}
				flatten(n.closeErr, got, 0)
				for _, p := range prod {
					if p.owner != nil && n.inSubtree(p.owner) && !got[p.e] {
						fail("child", fmt.Sprintf("%s.Close() returned without the error of the %s (owner %s)", n.name, p.what, p.owner.name))
					}
				}
			}
			// final: every produced error is held exactly once
			cnt := map[error]int{}
			for _, e := range ctx.Errors() {
				cnt[e]++
			}
			for _, p := range prod {
				if cnt[p.e] != 1 {
					fail("final", fmt.Sprintf("the error of the %s (owner %s) is held %d times at the end", p.what, ownerName(p.owner), cnt[p.e]))
				}
			}
			nProduced += int64(len(prod))
		}
		if root != nil {
			runtime.KeepAlive(root)
		}
		nRounds++
		nChildren += int64(len(all) - 1)
		nTasks += int64(tasksOK)
		if len(fails) > 0 {
			nFails++
			kinds["failclause:"+strings.SplitN(fails[0], ":", 2)[0]]++
			if nFails <= 5 {
				var shape []string
				for _, n := range all[1:] {
					shape = append(shape, n.name)
				}
				mu.Lock()
				var hist []string
				for _, p := range produced {
					hist = append(hist, fmt.Sprintf("%s/%s->%s", ownerName(p.owner), strings.ReplaceAll(p.what, " ", "_"), p.e.Error()))
				}
				mu.Unlock()
				fmt.Fprintf(w, "FAIL late round=%d mode=%s nested=%v children=[%s] tasks=%d procs=%d :: history: parent blocked in %s() | children closed / tasks finished in their own goroutines, errors produced in this order: [%s] | %s() returned %d leaves, Errors() right after: %d | %s\n",
					round, mode, nested, strings.Join(shape, " "), tasksOK, curProcs, modeName(mode), strings.Join(hist, " "),
					modeName(mode), leaves(obsErr), len(obsErrs), fails[0])
				for _, f := range fails[1:] {
					fmt.Fprintf(w, "also round=%d %s\n", round, f)
				}
			}
			w.Flush()
		}
		if atomic.LoadInt32(&hangs) >= 25 {
			fmt.Fprintf(w, "FAIL late aborted round=%d too many expired waits\n", round)
			break
		}
	}
	fmt.Fprintf(w, "late rounds=%d children=%d tasks=%d produced=%d waitobs=%d closeobs=%d commitobs=%d panics=%d failrounds=%d",
		nRounds, nChildren, nTasks, nProduced, nWaitObs, nCloseObs, nCommitObs, nPanics, nFails)
	keys := make([]string, 0, len(kinds))
	for k := range kinds {
		keys = append(keys, k)
	}
	sortStrings(keys)
	for _, k := range keys {
		fmt.Fprintf(w, " %s=%d", k, kinds[k])
	}
	fmt.Fprintln(w)
}

func modeName(m string) string {
	if m == "wait" {
		return "Wait"
	}
	return "Close"
}

func ownerName(n *lateNode) string {
	if n == nil {
		return "task"
	}
	return n.name
}

func leaves(e error) int {
	m := map[error]bool{}
	flatten(e, m, 0)
	return len(m)
}
