// Command scopesig is the implementation-side driver, generator and stress harness of property C12
// (failure signalling of the goatcore scopes from any number of goroutines).  It runs the real
// contextscope.New / contextscope.NewIsolated / scope.New / scope.NewChild of the repository under test.
//
//	scopesig drive                 `race …` and `seq …` lines on stdin -> one result line each (format of m_scopesig)
//	scopesig gen <n>               the fixed race scenarios, then n random `seq` lines (seeded from VERIF_SEED)
//	scopesig facts                 go/ast facts of the modelled functions as Lean data (repository from VERIF_REPO)
//	scopesig stress <rounds> <maxG> rounds of 2..maxG goroutines mixing AppendError/Kill/Stop/IsDone/Err/Errors and
//	                               child creation/closing on a plain scope, a shared child, an isolated child and an
//	                               isolated grandchild; prints one `hist …` line per context and round (decided by
//	                               the Lean monitor), `FAIL …` lines for clauses decided here, and a `stress …` summary
//	scopesig pub <rounds>          publication-order oracle (pub.go): waiters on Done() and pollers of IsDone() must find
//	                               the error of a scope that was ended by an error; isolated descendants end killed
//	scopesig late <rounds>         late-error oracle (late.go): a parent blocked in Wait()/Close() reports every error its
//	                               children's close-protocol listeners and its tasks produced before they signed off
//
// Every call into goatcore runs under recover; a panic is a counted result.
package main

import (
	"bufio"
	"context"
	"errors"
	"fmt"
	"os"
	"runtime"
	"strconv"
	"strings"
	"sync"
	"sync/atomic"
	"time"

	"gcverif/internal/hx"

	"github.com/goatcms/goatcore/app"
	"github.com/goatcms/goatcore/app/scope"
	"github.com/goatcms/goatcore/app/scope/contextscope"
	"github.com/goatcms/goatcore/verifhook"
)

// How long the harness waits for something that must happen.  Generous (never the cause of a verdict on a
// healthy tree); once three waits have expired the run has already failed, and later waits are cut short so
// that a broken tree is reported in reasonable time.
var hangs int32

func patience() time.Duration {
	if atomic.LoadInt32(&hangs) >= 3 {
		return 300 * time.Millisecond
	}
	return 10 * time.Second
}

func expired() { atomic.AddInt32(&hangs, 1) }

// tagErr is an error value the harness appends; every instance is distinct.
type tagErr struct{ id int }

func (e *tagErr) Error() string { return "tag" + strconv.Itoa(e.id) }

// ---------------------------------------------------------------------------------------------
// hook dispatcher: counts the propagation goroutine's branches, parks goroutines at the IsDone
// gate when a race scenario asks for it, yields the processor now and then during the stress.

var (
	selfSeen   int64 // propagation goroutines that took `<-isolated.done`
	parentSeen int64 // propagation goroutines that took `<-parent.Done()`
	gating     int32 // 1: park at *.isdone.miss
	arrived    = make(chan struct{}, 1024)
	release    atomic.Value // chan struct{}
	shake      int32        // 1: Gosched at yield points (stress)
	shakeCtr   uint32
)

func hook(point string) {
	switch point {
	case "isolated.prop.self":
		atomic.AddInt64(&selfSeen, 1)
	case "isolated.prop.parent":
		atomic.AddInt64(&parentSeen, 1)
	case "contextscope.isdone.miss", "isolated.isdone.miss":
		if atomic.LoadInt32(&gating) == 1 {
			ch := release.Load().(chan struct{})
			select {
			case arrived <- struct{}{}:
			default:
			}
			<-ch
			return
		}
	}
	if atomic.LoadInt32(&shake) == 1 && atomic.AddUint32(&shakeCtr, 1)%3 == 0 {
		runtime.Gosched()
	}
}

func waitChan(ch <-chan struct{}) bool {
	select {
	case <-ch:
		return true
	case <-time.After(patience()):
		expired()
		return false
	}
}

func isClosed(ch <-chan struct{}) bool {
	select {
	case <-ch:
		return true
	default:
		return false
	}
}

func bstr(b bool) string {
	if b {
		return "t"
	}
	return "f"
}

func b01(b bool) int {
	if b {
		return 1
	}
	return 0
}

// countErrs splits an error list into harness-tagged errors and context.Canceled entries;
// anything else is reported as foreign.
func countErrs(errs []error) (tagged, canceled, foreign int) {
	for _, e := range errs {
		switch {
		case e == context.Canceled:
			canceled++
		default:
			if _, ok := e.(*tagErr); ok {
				tagged++
			} else {
				foreign++
			}
		}
	}
	return
}

// ---------------------------------------------------------------------------------------------
// race scenarios (gated, deterministic)

func mkTarget(kind string) (root app.Scope, target app.Scope) {
	root = scope.New(scope.Params{})
	if kind == "isolated" {
		target = scope.NewChild(root, scope.ChildParams{ContextScope: contextscope.NewIsolated(root)})
		return root, target
	}
	return root, root
}

func doOp(s app.Scope, op string) {
	switch op {
	case "stop":
		s.Stop()
	case "kill":
		s.Kill()
	case "app":
		s.AppendError(&tagErr{1})
	}
}

// gatedPair runs two operations in two goroutines; each parks at the IsDone gate if it reaches it;
// both are released once each has either arrived or finished.
func gatedPair(target app.Scope, a, b string) (panics int) {
	ch := make(chan struct{})
	release.Store(ch)
	for len(arrived) > 0 {
		<-arrived
	}
	atomic.StoreInt32(&gating, 1)
	var pc int32
	fin := make(chan struct{}, 2)
	for _, op := range []string{a, b} {
		op := op
		go func() {
			if p, _ := hx.Guard(func() { doOp(target, op) }); p {
				atomic.AddInt32(&pc, 1)
			}
			fin <- struct{}{}
		}()
	}
	finished, seen := 0, 0
	deadline := time.After(patience())
	for seen < 2 {
		select {
		case <-arrived:
			seen++
		case <-fin:
			finished++
			seen++
		case <-deadline:
			expired()
			seen = 2
		}
	}
	atomic.StoreInt32(&gating, 0)
	close(ch)
	for finished < 2 {
		select {
		case <-fin:
			finished++
		case <-time.After(patience()):
			expired()
			return int(atomic.LoadInt32(&pc)) + 100
		}
	}
	return int(atomic.LoadInt32(&pc))
}

func waitScope(s app.Scope) string {
	done := make(chan error, 1)
	go func() {
		var err error
		if p, _ := hx.Guard(func() { err = s.Wait() }); p {
			done <- fmt.Errorf("panic")
			return
		}
		done <- err
	}()
	select {
	case <-done:
		return "ok"
	case <-time.After(patience()):
		expired()
		return "hang"
	}
}

func raceLine(scenario, kind string) string {
	_, target := mkTarget(kind)
	pair := func(a, b string) string {
		p := gatedPair(target, a, b)
		return fmt.Sprintf("panics=%d done=%s errs=%d", p, bstr(isClosed(target.Done())), len(target.Errors()))
	}
	switch scenario {
	case "stopstop":
		return pair("stop", "stop")
	case "stopkill":
		return pair("stop", "kill")
	case "killkill":
		return pair("kill", "kill")
	case "killapp":
		return pair("kill", "app")
	case "childadd":
		// A parks inside AddTasks after its IsDone test; the parent ends; A goes on to wg.Add(1)
		ch := make(chan struct{})
		release.Store(ch)
		for len(arrived) > 0 {
			<-arrived
		}
		atomic.StoreInt32(&gating, 1)
		panics := 0
		var child app.Scope
		fin := make(chan bool, 1)
		go func() {
			p, _ := hx.Guard(func() { child = scope.NewChild(target, scope.ChildParams{}) })
			fin <- p
		}()
		early := false
		select {
		case <-arrived:
		case p := <-fin:
			early = true
			if p {
				panics++
			}
		case <-time.After(patience()):
			expired()
		}
		atomic.StoreInt32(&gating, 0)
		if p, _ := hx.Guard(func() { target.Stop() }); p {
			panics++
		}
		close(ch)
		if !early {
			select {
			case p := <-fin:
				if p {
					panics++
				}
			case <-time.After(patience()):
				expired()
				return fmt.Sprintf("panics=%d wait=hang", panics+100)
			}
		}
		if child != nil {
			if p, _ := hx.Guard(func() { child.Close() }); p {
				panics++
			}
		}
		return fmt.Sprintf("panics=%d wait=%s", panics, waitScope(target))
	case "childafter":
		panics := 0
		if p, _ := hx.Guard(func() { target.Stop() }); p {
			panics++
		}
		var child app.Scope
		if p, _ := hx.Guard(func() { child = scope.NewChild(target, scope.ChildParams{}) }); p {
			panics++
		}
		if child != nil {
			if p, _ := hx.Guard(func() { child.Close() }); p {
				panics++
			}
		}
		return fmt.Sprintf("panics=%d wait=%s", panics, waitScope(target))
	}
	return "bad-op"
}

// ---------------------------------------------------------------------------------------------
// sequential differential: one goroutine, propagation settled after every operation

type seqEnv struct {
	ctxs     []app.ContextScope
	iso      []bool
	parent   []int
	consumed []bool // propagation goroutine of context i has taken a branch
	scopes   []app.Scope
	sctx     []int
	nextTag  int
	wantSelf int64
	// alias probe: the slice Errors() handed out last, per scope, and how many calls on that scope it has
	// survived.  A caller may do `errs = append(scope.Errors(), mine)` at any later time; that must never
	// change what the scope itself holds (the accessor hands out a copy).
	kept    map[int][]error
	keptAge map[int]int
}

// errCallerOwned is what the harness appends to a list it was handed out; it must never show up in a scope.
var errCallerOwned = errors.New("caller-owned error appended to a handed-out list")

func newSeqEnv(kinds string) *seqEnv {
	e := &seqEnv{}
	for _, tok := range strings.Split(kinds, ",") {
		if tok == "p" {
			e.ctxs = append(e.ctxs, contextscope.New())
			e.iso = append(e.iso, false)
			e.parent = append(e.parent, -1)
		} else if strings.HasPrefix(tok, "i") {
			p, err := strconv.Atoi(tok[1:])
			if err != nil || p < 0 || p >= len(e.ctxs) {
				return nil
			}
			e.ctxs = append(e.ctxs, contextscope.NewIsolated(e.ctxs[p]))
			e.iso = append(e.iso, true)
			e.parent = append(e.parent, p)
		} else {
			return nil
		}
		e.consumed = append(e.consumed, false)
	}
	for i, c := range e.ctxs {
		e.scopes = append(e.scopes, scope.New(scope.Params{ContextScope: c}))
		e.sctx = append(e.sctx, i)
	}
	e.wantSelf = atomic.LoadInt64(&selfSeen)
	return e
}

// settle waits for what the propagation goroutines must do after context c has become done.
func (e *seqEnv) settle(c int) bool {
	queue := []int{c}
	for len(queue) > 0 {
		c := queue[0]
		queue = queue[1:]
		if e.iso[c] && !e.consumed[c] {
			// done by its own operation while the parent is alive: the goroutine leaves through `<-isolated.done`
			e.consumed[c] = true
			if !hooksPresent {
				time.Sleep(20 * time.Millisecond)
			} else {
				e.wantSelf++
				deadline := time.Now().Add(patience())
				for atomic.LoadInt64(&selfSeen) < e.wantSelf {
					if time.Now().After(deadline) {
						expired()
						return false
					}
					time.Sleep(50 * time.Microsecond)
				}
			}
		}
		for d := range e.ctxs {
			if e.iso[d] && e.parent[d] == c && !e.consumed[d] {
				e.consumed[d] = true
				if !waitChan(e.ctxs[d].Done()) {
					return false
				}
				queue = append(queue, d)
			}
		}
	}
	return true
}

func (e *seqEnv) op(tok string) string {
	if len(tok) < 2 {
		return "bad-op"
	}
	kind, rest := tok[0], tok[1:]
	num := func(s string) (int, bool) {
		n, err := strconv.Atoi(s)
		return n, err == nil && n >= 0
	}
	withScope := func(s string, f func(sid int) string) string {
		sid, ok := num(s)
		if !ok || sid >= len(e.scopes) {
			return "disabled"
		}
		c := e.sctx[sid]
		if k, ok := e.kept[sid]; ok {
			if e.keptAge[sid] >= 1 { // at least one other call on the scope lies in between
				_ = append(k, errCallerOwned)
				for i := range k {
					k[i] = errCallerOwned
				}
				delete(e.kept, sid)
			} else {
				e.keptAge[sid]++
			}
		}
		was := e.ctxs[c].IsDone()
		var res string
		if p, _ := hx.Guard(func() { res = f(sid) }); p {
			return "panic"
		}
		if !was && e.ctxs[c].IsDone() {
			if !e.settle(c) {
				return "hang"
			}
		}
		return res
	}
	switch kind {
	case 's':
		return withScope(rest, func(sid int) string { e.scopes[sid].Stop(); return "ok" })
	case 'k':
		return withScope(rest, func(sid int) string { e.scopes[sid].Kill(); return "ok" })
	case 'd':
		return withScope(rest, func(sid int) string { return bstr(e.scopes[sid].IsDone()) })
	case 'e':
		return withScope(rest, func(sid int) string {
			errs := e.scopes[sid].Errors()
			if e.kept == nil {
				e.kept, e.keptAge = map[int][]error{}, map[int]int{}
			}
			if _, held := e.kept[sid]; !held {
				e.kept[sid], e.keptAge[sid] = errs, 0
			}
			t, c, f := countErrs(errs)
			if f != 0 || (e.scopes[sid].Err() != nil) != (len(errs) > 0) ||
				(e.ctxs[e.sctx[sid]].Err() != nil) != (len(errs) > 0) {
				return "incons"
			}
			return fmt.Sprintf("%d+%d", t, c)
		})
	case 'a':
		parts := strings.Split(rest, ".")
		if len(parts) != 2 {
			return "bad-op"
		}
		k, ok := num(parts[1])
		if !ok {
			return "bad-op"
		}
		return withScope(parts[0], func(sid int) string {
			var errs []error
			for i := 0; i < k; i++ {
				e.nextTag++
				errs = append(errs, &tagErr{e.nextTag})
				if i%2 == 0 {
					errs = append(errs, nil)
				}
			}
			if k == 0 && e.nextTag%2 == 0 {
				errs = append(errs, nil)
			}
			e.scopes[sid].AppendError(errs...)
			return "ok"
		})
	case 'n':
		parts := strings.Split(rest, ".")
		if len(parts) != 2 {
			return "bad-op"
		}
		p, ok := num(parts[0])
		if !ok || p >= len(e.scopes) {
			return "disabled"
		}
		params := scope.ChildParams{}
		c := e.sctx[p]
		if parts[1] != "s" {
			cc, ok := num(strings.TrimPrefix(parts[1], "c"))
			if !ok || cc >= len(e.ctxs) {
				return "disabled"
			}
			params.ContextScope = e.ctxs[cc]
			c = cc
		}
		var child app.Scope
		if pn, _ := hx.Guard(func() { child = scope.NewChild(e.scopes[p], params) }); pn {
			return "panic"
		}
		e.scopes = append(e.scopes, child)
		e.sctx = append(e.sctx, c)
		return "ok"
	case 'x':
		sid, ok := num(rest)
		if !ok || sid >= len(e.scopes) {
			return "disabled"
		}
		var err error
		if p, _ := hx.Guard(func() { err = e.scopes[sid].Close() }); p {
			return "panic"
		}
		return "ok:" + bstr(err != nil)
	case 'w':
		sid, ok := num(rest)
		if !ok || sid >= len(e.scopes) {
			return "bad"
		}
		done := make(chan string, 1)
		go func() {
			var err error
			if p, _ := hx.Guard(func() { err = e.scopes[sid].Wait() }); p {
				done <- "panic"
				return
			}
			done <- "ok:" + bstr(err != nil)
		}()
		select {
		case r := <-done:
			return r
		case <-time.After(patience()):
			expired()
			return "hang"
		}
	}
	return "bad-op"
}

// watch runs f (a call into goatcore that may block) in its own goroutine under recover and a watchdog.
func watch(f func() string) string {
	done := make(chan string, 1)
	go func() {
		var res string
		if p, _ := hx.Guard(func() { res = f() }); p {
			done <- "panic"
			return
		}
		done <- res
	}()
	select {
	case r := <-done:
		return r
	case <-time.After(patience()):
		expired()
		return "hang"
	}
}

func seqLine(fields []string) string {
	if len(fields) < 1 {
		return "bad-op"
	}
	e := newSeqEnv(fields[0])
	if e == nil {
		return "bad-op"
	}
	out := make([]string, 0, len(fields)-1)
	hung := false
	for _, tok := range fields[1:] {
		if hung {
			out = append(out, "skipped")
			continue
		}
		r := watch(func() string { return e.op(tok) })
		hung = r == "hang"
		out = append(out, r)
	}
	return strings.Join(out, " ")
}

// hooksPresent: does the repository under test contain the verifhook call sites of the context scopes?
// (a scratch tree older than the hook commit does not; the sequential driver then cannot observe that a
// propagation goroutine has left through `<-isolated.done` and gives it 20 ms instead — degraded, reported)
var hooksPresent = true

func probeHooks() {
	p := contextscope.New()
	i := contextscope.NewIsolated(p)
	before := atomic.LoadInt64(&selfSeen)
	i.Stop()
	deadline := time.Now().Add(2 * time.Second)
	for atomic.LoadInt64(&selfSeen) == before {
		if time.Now().After(deadline) {
			hooksPresent = false
			fmt.Fprintln(os.Stderr, "note: verif hook call sites absent in the repository under test (degraded sequential settle, no gate)")
			return
		}
		time.Sleep(100 * time.Microsecond)
	}
}

func drive() {
	probeHooks()
	in := bufio.NewScanner(os.Stdin)
	in.Buffer(make([]byte, 1<<20), 1<<24)
	w := bufio.NewWriter(os.Stdout)
	defer w.Flush()
	for in.Scan() {
		line := strings.TrimSpace(in.Text())
		if line == "" || strings.HasPrefix(line, "#") {
			continue
		}
		f := strings.Fields(line)
		switch {
		case f[0] == "race" && len(f) == 3:
			fmt.Fprintln(w, raceLine(f[1], f[2]))
		case f[0] == "seq":
			if atomic.LoadInt32(&hangs) >= 25 {
				fmt.Fprintln(w, "aborted") // the run has failed many times over; do not spend more time
			} else {
				fmt.Fprintln(w, seqLine(f[1:]))
			}
		default:
			fmt.Fprintln(w, "bad-op")
		}
		w.Flush()
	}
}

// ---------------------------------------------------------------------------------------------
// generator of sequential cases

var raceScenarios = []string{"stopstop", "stopkill", "killkill", "killapp", "childadd", "childafter"}

func gen(n int) {
	r := hx.NewRand(hx.SeedFromEnv())
	w := bufio.NewWriter(os.Stdout)
	defer w.Flush()
	for _, k := range []string{"plain", "isolated"} {
		for _, s := range raceScenarios {
			fmt.Fprintf(w, "race %s %s\n", s, k)
		}
	}
	for i := 0; i < n; i++ {
		nc := 1 + r.Intn(4)
		kinds := []string{"p"}
		for c := 1; c < nc; c++ {
			if r.Chance(2, 3) {
				kinds = append(kinds, "i"+strconv.Itoa(r.Intn(c)))
			} else {
				kinds = append(kinds, "p")
			}
		}
		// scope bookkeeping so that the case stays inside what the model describes: no operation on a
		// closed scope, a scope is closed only after all the children created from it, Wait only at the end
		type sc struct {
			closed   bool
			children []int
		}
		scopes := make([]sc, nc)
		var toks []string
		nops := 4 + r.Intn(22)
		open := func() []int {
			var o []int
			for i, s := range scopes {
				if !s.closed {
					o = append(o, i)
				}
			}
			return o
		}
		closable := func() []int {
			var o []int
			for i, s := range scopes {
				if s.closed {
					continue
				}
				ok := true
				for _, ch := range s.children {
					if !scopes[ch].closed {
						ok = false
					}
				}
				if ok {
					o = append(o, i)
				}
			}
			return o
		}
		for j := 0; j < nops; j++ {
			o := open()
			if len(o) == 0 {
				break
			}
			sid := o[r.Intn(len(o))]
			switch x := r.Intn(100); {
			case x < 18:
				toks = append(toks, fmt.Sprintf("a%d.%d", sid, r.Intn(4)))
			case x < 26:
				toks = append(toks, fmt.Sprintf("k%d", sid))
			case x < 34:
				toks = append(toks, fmt.Sprintf("s%d", sid))
			case x < 52:
				toks = append(toks, fmt.Sprintf("d%d", sid))
			case x < 70:
				toks = append(toks, fmt.Sprintf("e%d", sid))
			case x < 86:
				if r.Chance(1, 3) {
					toks = append(toks, fmt.Sprintf("n%d.c%d", sid, r.Intn(nc)))
				} else {
					toks = append(toks, fmt.Sprintf("n%d.s", sid))
				}
				scopes[sid].children = append(scopes[sid].children, len(scopes))
				scopes = append(scopes, sc{})
			default:
				if c := closable(); len(c) > 0 {
					x := c[r.Intn(len(c))]
					toks = append(toks, fmt.Sprintf("x%d", x))
					scopes[x].closed = true
				}
			}
		}
		// epilogue: observe everything, close all children (leaves first), wait on the roots
		for i := range scopes {
			if !scopes[i].closed {
				toks = append(toks, fmt.Sprintf("d%d", i), fmt.Sprintf("e%d", i))
			}
		}
		for {
			c := closable()
			var nonroot []int
			for _, x := range c {
				if x >= nc {
					nonroot = append(nonroot, x)
				}
			}
			if len(nonroot) == 0 {
				break
			}
			x := nonroot[r.Intn(len(nonroot))]
			toks = append(toks, fmt.Sprintf("x%d", x))
			scopes[x].closed = true
		}
		for i := 0; i < nc; i++ {
			if !scopes[i].closed {
				toks = append(toks, fmt.Sprintf("w%d", i))
				if r.Chance(1, 2) {
					toks = append(toks, fmt.Sprintf("x%d", i))
				}
			}
		}
		fmt.Fprintf(w, "seq %s %s\n", strings.Join(kinds, ","), strings.Join(toks, " "))
	}
}

// ---------------------------------------------------------------------------------------------
// stress

type ctxRec struct {
	name   string
	iso    bool
	parent *ctxRec
	ctx    app.ContextScope
	app    int64
	kills  int64
	stops  int64
}

type target struct {
	scp app.Scope
	rec *ctxRec
}

type obs struct {
	ltag, lcan, foreign int
	err, done           bool
}

// observe reads the accessors of a context whose callers have all returned.  An isolated context may still
// gain its one propagated Canceled while we look, so the error list is read before and after Err() and the
// reading is repeated until both agree (the list can change at most once).
func observe(r *ctxRec) obs {
	for try := 0; ; try++ {
		before := r.ctx.Errors()
		e := r.ctx.Err()
		after := r.ctx.Errors()
		if len(before) != len(after) && try < 8 {
			continue
		}
		t, c, f := countErrs(after)
		return obs{ltag: t, lcan: c, foreign: f, err: e != nil, done: isClosed(r.ctx.Done())}
	}
}

type stats struct {
	rounds, goroutines, ops, panics, mono, fails, children, hist int64
	kinds                                                        map[string]int64
}

func stress(rounds, maxG int) {
	seed := hx.SeedFromEnv()
	master := hx.NewRand(seed ^ 0x5c09e5)
	w := bufio.NewWriter(os.Stdout)
	defer w.Flush()
	st := stats{kinds: map[string]int64{}}
	atomic.StoreInt32(&shake, 1)
	procs := []int{1, 2, 4, 8, 16}
	oldProcs := runtime.GOMAXPROCS(0)
	defer runtime.GOMAXPROCS(oldProcs)
	profiles := []string{"mixed", "append", "stop", "child", "kill", "observe"}
	for round := 0; round < rounds; round++ {
		runtime.GOMAXPROCS(procs[master.Intn(len(procs))])
		G := 2 + master.Intn(maxG-1)
		if master.Chance(1, 3) {
			G = 2 + master.Intn(7)
		}
		profile := profiles[master.Intn(len(profiles))]
		st.kinds["profile:"+profile]++
		rseed := master.U64()

		R := scope.New(scope.Params{})
		cR := &ctxRec{name: "R", ctx: R.BaseContextScope()}
		S := scope.NewChild(R, scope.ChildParams{})
		I := scope.NewChild(R, scope.ChildParams{ContextScope: contextscope.NewIsolated(R)})
		cI := &ctxRec{name: "I", iso: true, parent: cR, ctx: I.BaseContextScope()}
		J := scope.NewChild(I, scope.ChildParams{ContextScope: contextscope.NewIsolated(I.BaseContextScope())})
		cJ := &ctxRec{name: "J", iso: true, parent: cI, ctx: J.BaseContextScope()}
		targets := []target{{R, cR}, {S, cR}, {I, cI}, {J, cJ}}

		var panics, mono, nops, nchildren int64
		var wg sync.WaitGroup
		start := make(chan struct{})
		for g := 0; g < G; g++ {
			wg.Add(1)
			go func(g int) {
				defer wg.Done()
				r := hx.NewRand(rseed + uint64(g)*0x9e3779b97f4a7c15)
				m := 1 + r.Intn(8)
				lastLen := map[*ctxRec]int{}
				sawDone := map[*ctxRec]bool{}
				tag := g * 1000
				<-start
				for i := 0; i < m; i++ {
					tg := targets[r.Intn(len(targets))]
					rec := tg.rec
					direct := r.Chance(1, 2) // through the context object or through the scope wrapper
					x := r.Intn(100)
					switch profile {
					case "append":
						x = x % 60 // never Stop/Kill/child
						if x >= 30 {
							x += 20
						}
					case "stop":
						if x < 40 {
							x = 40 + x%10
						}
					case "kill":
						if x < 40 {
							x = 30 + x%10
						}
					case "child":
						if x < 50 {
							x = 85
						}
					case "observe": // accessors, nil appends and children only: nothing may fire the done signal
						if x < 50 {
							x = 50 + x
						}
					}
					atomic.AddInt64(&nops, 1)
					p, _ := hx.Guard(func() {
						switch {
						case x < 30: // AppendError with 0..3 tagged errors and some nils
							k := r.Intn(4)
							var errs []error
							for j := 0; j < k; j++ {
								tag++
								errs = append(errs, &tagErr{tag})
								if r.Chance(1, 3) {
									errs = append(errs, nil)
								}
							}
							if k == 0 && r.Chance(1, 2) {
								errs = append(errs, nil)
							}
							atomic.AddInt64(&rec.app, int64(k))
							if direct {
								rec.ctx.AppendError(errs...)
							} else {
								tg.scp.AppendError(errs...)
							}
						case x < 40:
							atomic.AddInt64(&rec.kills, 1)
							if direct {
								rec.ctx.Kill()
							} else {
								tg.scp.Kill()
							}
						case x < 50:
							atomic.AddInt64(&rec.stops, 1)
							if direct {
								rec.ctx.Stop()
							} else {
								tg.scp.Stop()
							}
						case x < 62:
							d := rec.ctx.IsDone()
							if sawDone[rec] && !d {
								atomic.AddInt64(&mono, 1)
							}
							sawDone[rec] = sawDone[rec] || d
						case x < 72:
							var e error
							if direct {
								e = rec.ctx.Err()
							} else {
								e = tg.scp.Err()
							}
							if lastLen[rec] > 0 && e == nil {
								atomic.AddInt64(&mono, 1)
							}
						case x < 82:
							errs := rec.ctx.Errors()
							if len(errs) < lastLen[rec] {
								atomic.AddInt64(&mono, 1)
							}
							for _, e := range errs {
								if e == nil {
									atomic.AddInt64(&mono, 1)
								}
							}
							lastLen[rec] = len(errs)
						case x < 85:
							select {
							case <-rec.ctx.Done():
								sawDone[rec] = true
							default:
								if sawDone[rec] {
									atomic.AddInt64(&mono, 1)
								}
							}
						default: // a child is created (racing with or following the parent's end) and closed
							atomic.AddInt64(&nchildren, 1)
							c := scope.NewChild(tg.scp, scope.ChildParams{})
							if profile == "observe" {
								c.AppendError(nil, nil)
								if err := c.Close(); err != nil {
									atomic.AddInt64(&mono, 1)
								}
								return
							}
							if r.Chance(1, 3) {
								tag++
								atomic.AddInt64(&rec.app, 1)
								c.AppendError(&tagErr{tag})
							}
							if r.Chance(1, 4) {
								atomic.AddInt64(&rec.stops, 1)
								c.Stop()
							}
							err := c.Close()
							if err == nil && lastLen[rec] > 0 {
								atomic.AddInt64(&mono, 1)
							}
						}
					})
					if p {
						atomic.AddInt64(&panics, 1)
					}
				}
			}(g)
		}
		close(start)
		wg.Wait()

		// what must happen: an isolated context follows its parent's end
		fails := 0
		if cR.ctx.IsDone() && !waitChan(cI.ctx.Done()) {
			fmt.Fprintf(w, "FAIL inherit round=%d isolated child of a done parent is not done after %v\n", round, patience())
			fails++
		}
		if cI.ctx.IsDone() && !waitChan(cJ.ctx.Done()) {
			fmt.Fprintf(w, "FAIL inherit round=%d isolated grandchild of a done parent is not done after %v\n", round, patience())
			fails++
		}
		// children first, then parents (a propagated Canceled in a child implies the parent's error is visible afterwards)
		oJ := observe(cJ)
		oI := observe(cI)
		oR := observe(cR)
		emit := func(r *ctxRec, o obs, po *obs) {
			pdone, perr := 0, 0
			if po != nil {
				pdone, perr = b01(po.done), b01(po.ltag+po.lcan > 0)
			}
			pn := int64(0)
			if r == cR {
				pn = panics
			}
			fmt.Fprintf(w, "hist iso=%d app=%d kills=%d stops=%d pdone=%d perr=%d ltag=%d lcan=%d err=%d done=%d panics=%d\n",
				b01(r.iso), atomic.LoadInt64(&r.app), atomic.LoadInt64(&r.kills), atomic.LoadInt64(&r.stops),
				pdone, perr, o.ltag, o.lcan, b01(o.err), b01(o.done), pn)
			st.hist++
			if o.foreign != 0 {
				fmt.Fprintf(w, "FAIL foreign round=%d ctx=%s an error nobody appended is reported\n", round, r.name)
				fails++
			}
			if o.done {
				st.kinds["done:"+r.name]++
			}
			if o.lcan > int(atomic.LoadInt64(&r.kills)) {
				st.kinds["propagated-kill:"+r.name]++
			}
		}
		emit(cJ, oJ, &oI)
		emit(cI, oI, &oR)
		emit(cR, oR, nil)

		// Wait and Close report the error
		// (errors never disappear, but an isolated context may still gain its propagated Canceled: compare with
		// what was held before the call and what is held after it)
		closeChk := func(name string, s app.Scope, rec *ctxRec) {
			var err error
			before := len(rec.ctx.Errors())
			switch watch(func() string { err = s.Close(); return "ok" }) {
			case "panic":
				fmt.Fprintf(w, "FAIL close-panic round=%d scope=%s\n", round, name)
				fails++
				return
			case "hang":
				fmt.Fprintf(w, "FAIL close-hang round=%d scope=%s every child is closed but Close does not return\n", round, name)
				fails++
				return
			}
			after := len(rec.ctx.Errors())
			if (before > 0 && err == nil) || (err != nil && after == 0) {
				fmt.Fprintf(w, "FAIL close-report round=%d scope=%s Close()=%v but the scope held %d errors before and %d after\n", round, name, err, before, after)
				fails++
			}
		}
		closeChk("J", J, cJ)
		closeChk("I", I, cI)
		closeChk("S", S, cR)
		wres := make(chan error, 1)
		go func() {
			var err error
			if p, _ := hx.Guard(func() { err = R.Wait() }); p {
				wres <- fmt.Errorf("panic in Wait")
				return
			}
			wres <- err
		}()
		select {
		case err := <-wres:
			if (err != nil) != (oR.ltag+oR.lcan > 0) { // R is plain and all callers have returned: its list is final
				fmt.Fprintf(w, "FAIL wait-report round=%d Wait()=%v but the scope holds %d errors\n", round, err, len(cR.ctx.Errors()))
				fails++
			}
		case <-time.After(patience()):
			expired()
			fmt.Fprintf(w, "FAIL wait-hang round=%d every child is closed but Wait does not return\n", round)
			fails++
		}
		closeChk("R", R, cR)

		w.Flush()
		if atomic.LoadInt32(&hangs) >= 25 {
			fmt.Fprintf(w, "FAIL aborted round=%d too many expired waits\n", round)
			break
		}
		st.rounds++
		st.goroutines += int64(G)
		st.ops += nops
		st.panics += panics
		st.mono += mono
		st.fails += int64(fails)
		st.children += nchildren
		if panics > 0 {
			fmt.Fprintf(w, "FAIL panic round=%d goroutines=%d profile=%s panics=%d\n", round, G, profile, panics)
		}
		if mono > 0 {
			fmt.Fprintf(w, "FAIL observation round=%d an accessor went backwards (IsDone/Done/Errors/Err) %d times\n", round, mono)
		}
		if G <= 8 {
			st.kinds["G:2-8"]++
		} else if G <= 32 {
			st.kinds["G:9-32"]++
		} else {
			st.kinds["G:33+"]++
		}
	}
	fmt.Fprintf(w, "stress rounds=%d goroutines=%d ops=%d children=%d hist=%d panics=%d mono=%d fails=%d",
		st.rounds, st.goroutines, st.ops, st.children, st.hist, st.panics, st.mono, st.fails)
	keys := make([]string, 0, len(st.kinds))
	for k := range st.kinds {
		keys = append(keys, k)
	}
	sortStrings(keys)
	for _, k := range keys {
		fmt.Fprintf(w, " %s=%d", k, st.kinds[k])
	}
	fmt.Fprintln(w)
}

func sortStrings(a []string) {
	for i := 1; i < len(a); i++ {
		for j := i; j > 0 && a[j] < a[j-1]; j-- {
			a[j], a[j-1] = a[j-1], a[j]
		}
	}
}

func main() {
	verifhook.Set(hook)
	release.Store(make(chan struct{}))
	if len(os.Args) < 2 {
		fmt.Fprintln(os.Stderr, "usage: scopesig drive | gen <n> | facts | stress <rounds> <maxG> | pub <rounds> | late <rounds>")
		os.Exit(2)
	}
	switch os.Args[1] {
	case "drive":
		drive()
	case "gen":
		n := 1000
		if len(os.Args) > 2 {
			n, _ = strconv.Atoi(os.Args[2])
		}
		gen(n)
	case "facts":
		facts()
	case "late":
		rounds := 1000
		if len(os.Args) > 2 {
			rounds, _ = strconv.Atoi(os.Args[2])
		}
		late(rounds)
	case "pub":
		rounds := 1000
		if len(os.Args) > 2 {
			rounds, _ = strconv.Atoi(os.Args[2])
		}
		pub(rounds)
	case "stress":
		rounds, maxG := 1000, 64
		if len(os.Args) > 2 {
			rounds, _ = strconv.Atoi(os.Args[2])
		}
		if len(os.Args) > 3 {
			maxG, _ = strconv.Atoi(os.Args[3])
		}
		if maxG < 2 {
			maxG = 2
		}
		stress(rounds, maxG)
	default:
		fmt.Fprintln(os.Stderr, "unknown command")
		os.Exit(2)
	}
}
