// Publication-order oracle of property C12 (`scopesig pub <rounds>`).
//
// The property says that an appended error is "retained and reported by the scope's error accessors" and that
// the done signal announces the end of the scope.  Read together: whoever learns from Done()/IsDone() that a
// scope has ended, on a scope that can only have been ended by an error, finds that error in Err()/Errors() at
// that very moment; and an isolated descendant of a scope ended by an error ends with an error too (its
// NewIsolated watcher is exactly such an observer).  In the code this is the order "record the error under
// errorsMU, unlock, then close(done)" of AppendError (Goat.C12.error_published_before_done proves the clauses
// for that order over all interleavings and refutes them for the swapped order).
//
// One round = one fresh target context (plain, behind a scope.Scope, behind a shared child scope, or itself an
// isolated context of a parent that stays alive) with a chain of 0..3 isolated descendants;
//
//	W waiters per context block on <-Done() and read Err()/Errors() the moment they wake up,
//	P pollers spin on IsDone()/Errors()/Err() of the target (they contend on errorsMU, which is what turns a
//	  window of a few instructions into a wide one),
//	1..3 enders call, at the same time, an entry point that ends the scope WITH an error (AppendError with one
//	  or several errors and interleaved nils, Kill, through the context object or through the scope wrappers).
//
// Nobody calls Stop, so every clause below is about values at the moment of observation, never about timing:
//
//	wake    a waiter that received from Done() reads Err() != nil and len(Errors()) > 0
//	poll    a poller that saw IsDone() == true reads Err() != nil and len(Errors()) > 0
//	child   every isolated descendant becomes done (generous wait) and then holds context.Canceled
//	final   the target holds exactly the tagged errors / Canceled entries the enders handed in
//
// A failing round prints `FAIL publish …` with the history of the round.
package main

import (
	"bufio"
	"fmt"
	"os"
	"runtime"
	"strings"
	"sync"
	"sync/atomic"
	"time"

	"gcverif/internal/hx"

	"github.com/goatcms/goatcore/app"
	"github.com/goatcms/goatcore/app/scope"
	"github.com/goatcms/goatcore/app/scope/contextscope"
)

// the entry points that end a scope with an error
var pubEntries = []string{"ctx.AppendError(e)", "ctx.AppendError(nil,e,nil)", "ctx.AppendError(e,e,e)", "ctx.Kill()",
	"scope.AppendError(e)", "scope.AppendError(e,nil,e)", "scope.Kill()"}

type pubFail struct {
	clause string
	who    string
	detail string
}

type pubRound struct {
	mu    sync.Mutex
	fails []pubFail
}

func (r *pubRound) fail(clause, who, detail string) {
	r.mu.Lock()
	if len(r.fails) < 6 {
		r.fails = append(r.fails, pubFail{clause, who, detail})
	}
	r.mu.Unlock()
}

func describe(errs []error) string {
	t, c, f := countErrs(errs)
	return fmt.Sprintf("%d tagged + %d Canceled + %d foreign", t, c, f)
}

func pub(rounds int) {
	seed := hx.SeedFromEnv()
	master := hx.NewRand(seed ^ 0x9b11ca7e)
	w := bufio.NewWriter(os.Stdout)
	defer w.Flush()
	oldProcs := runtime.GOMAXPROCS(0)
	defer runtime.GOMAXPROCS(oldProcs)
	procs := []int{2, 3, 4, 8, 16}
	kinds := map[string]int64{}
	var nRounds, nWakes, nPollHits, nPollSpins, nChildren, nFails, nEnders, nPanics int64
	curProcs := oldProcs
	for round := 0; round < rounds; round++ {
		if round%32 == 0 {
			curProcs = procs[master.Intn(len(procs))]
			runtime.GOMAXPROCS(curProcs)
		}
		atomic.StoreInt32(&shake, int32(master.Intn(2)))
		targetKind := []string{"plain", "scope", "sharedchild", "isolated"}[master.Intn(4)]
		depth := master.Intn(4)
		W := 1 + master.Intn(4)
		P := master.Intn(9)
		if master.Chance(1, 4) {
			P = 4 + master.Intn(9)
		}
		E := 1
		if master.Chance(1, 3) {
			E = 2 + master.Intn(2)
		}
		settle := master.Intn(4)
		errFirst := master.Chance(1, 2)

		// --- the forest of the round
		var (
			target  app.ContextScope
			wrapper app.Scope // what scope-level entry points are called on
			keep    []interface{}
		)
		switch targetKind {
		case "plain":
			target = contextscope.New()
			wrapper = scope.New(scope.Params{ContextScope: target})
		case "scope":
			wrapper = scope.New(scope.Params{})
			target = wrapper.BaseContextScope()
		case "sharedchild":
			root := scope.New(scope.Params{})
			wrapper = scope.NewChild(root, scope.ChildParams{})
			target = root.BaseContextScope()
			keep = append(keep, root)
		case "isolated":
			alive := contextscope.New() // stays alive: the target's watcher never fires
			target = contextscope.NewIsolated(alive)
			wrapper = scope.New(scope.Params{ContextScope: target})
			keep = append(keep, alive)
		}
		chain := make([]app.ContextScope, 0, depth)
		prev := target
		for d := 0; d < depth; d++ {
			c := contextscope.NewIsolated(prev)
			chain = append(chain, c)
			prev = c
		}
		entries := make([]string, E)
		for i := range entries {
			entries[i] = pubEntries[master.Intn(len(pubEntries))]
			kinds["entry:"+entries[i]]++
		}
		kinds["target:"+targetKind]++
		kinds[fmt.Sprintf("depth:%d", depth)]++
		kinds[fmt.Sprintf("procs:%d", curProcs)]++

		rd := &pubRound{}
		var giveUp int32
		var ready, obsWG sync.WaitGroup
		var wakes, pollHits, pollSpins int64

		// --- waiters: blocked on Done(), read the accessors the moment they wake up
		waiter := func(name string, c app.ContextScope, viaScope bool) {
			defer obsWG.Done()
			ready.Done()
			select {
			case <-c.Done():
			case <-time.After(patience()):
				if atomic.LoadInt32(&giveUp) == 0 {
					expired()
				}
				return // reported by the `child` / `final` clauses
			}
			var e error
			var errs []error
			read := func() {
				if viaScope {
					e = wrapper.Err()
				} else {
					e = c.Err()
				}
			}
			if p, _ := hx.Guard(func() {
				if errFirst {
					read()
					errs = c.Errors()
				} else {
					errs = c.Errors()
					read()
				}
			}); p {
				rd.fail("panic", name, "an accessor panicked")
				return
			}
			atomic.AddInt64(&wakes, 1)
			if e == nil || len(errs) == 0 {
				later := c.Errors()
				rd.fail("wake", name, fmt.Sprintf("<-Done() returned, then Err()!=nil is %v and Errors() holds %s; read again later: %s",
					e != nil, describe(errs), describe(later)))
			}
		}
		for i := 0; i < W; i++ {
			ready.Add(1)
			obsWG.Add(1)
			go waiter(fmt.Sprintf("waiter%d(target)", i), target, i%2 == 1)
		}
		for d, c := range chain {
			ready.Add(1)
			obsWG.Add(1)
			go waiter(fmt.Sprintf("waiter(isolated descendant %d)", d+1), c, false)
		}
		// --- pollers: spin on the accessors of the target
		for i := 0; i < P; i++ {
			ready.Add(1)
			obsWG.Add(1)
			go func(i int) {
				defer obsWG.Done()
				ready.Done()
				name := fmt.Sprintf("poller%d", i)
				for n := 0; ; n++ {
					if !target.IsDone() && atomic.LoadInt32(&giveUp) != 0 {
						return // the enders have returned and the target is not done: reported by the `final` clause
					}
					if target.IsDone() {
						e := target.Err()
						errs := target.Errors()
						atomic.AddInt64(&pollHits, 1)
						if e == nil || len(errs) == 0 {
							rd.fail("poll", name, fmt.Sprintf("IsDone()==true, then Err()!=nil is %v and Errors() holds %s; read again later: %s",
								e != nil, describe(errs), describe(target.Errors())))
						}
						return
					}
					atomic.AddInt64(&pollSpins, 1)
					switch (n + i) % 3 {
					case 0:
						_ = target.Errors()
					case 1:
						_ = target.Err()
					default:
						_ = target.Errors()
						if i%2 == 0 || n%16 == 15 {
							runtime.Gosched()
						}
					}
				}
			}(i)
		}
		ready.Wait()
		for i := 0; i < settle; i++ {
			runtime.Gosched() // let waiters and watchers park on their receive
		}

		// --- the enders
		var wantTag, wantCan int64
		var endWG sync.WaitGroup
		start := make(chan struct{})
		for i, entry := range entries {
			endWG.Add(1)
			go func(i int, entry string) {
				defer endWG.Done()
				e1, e2, e3 := &tagErr{round*16 + i*3 + 1}, &tagErr{round*16 + i*3 + 2}, &tagErr{round*16 + i*3 + 3}
				<-start
				p, _ := hx.Guard(func() {
					switch entry {
					case "ctx.AppendError(e)":
						atomic.AddInt64(&wantTag, 1)
						target.AppendError(e1)
					case "ctx.AppendError(nil,e,nil)":
						atomic.AddInt64(&wantTag, 1)
						target.AppendError(nil, e1, nil)
					case "ctx.AppendError(e,e,e)":
						atomic.AddInt64(&wantTag, 3)
						target.AppendError(e1, e2, e3)
					case "ctx.Kill()":
						atomic.AddInt64(&wantCan, 1)
						target.Kill()
					case "scope.AppendError(e)":
						atomic.AddInt64(&wantTag, 1)
						wrapper.AppendError(e1)
					case "scope.AppendError(e,nil,e)":
						atomic.AddInt64(&wantTag, 2)
						wrapper.AppendError(e1, nil, e2)
					case "scope.Kill()":
						atomic.AddInt64(&wantCan, 1)
						wrapper.Kill()
					}
				})
				if p {
					atomic.AddInt64(&nPanics, 1)
					rd.fail("panic", "ender "+entry, "the call panicked")
				}
			}(i, entry)
		}
		close(start)
		endWG.Wait()

		// --- what must have happened once every ender has returned
		if !isClosed(target.Done()) {
			rd.fail("final", "target", "every ender has returned but the target is not done")
		}
		for d, c := range chain {
			if !waitChan(c.Done()) {
				rd.fail("child", fmt.Sprintf("isolated descendant %d", d+1), fmt.Sprintf("its ancestor was ended by an error but it is not done after %v", patience()))
				break
			}
			// done: its watcher has decided.  The decision is Kill iff it saw the parent's error; Kill records
			// Canceled before it closes done, so the entry is there now.
			errs := c.Errors()
			_, can, _ := countErrs(errs)
			if c.Err() == nil || can != 1 || len(errs) != 1 {
				rd.fail("child", fmt.Sprintf("isolated descendant %d", d+1),
					fmt.Sprintf("its ancestor was ended by an error; it is done and Err()!=nil is %v, Errors() holds %s (want exactly one Canceled)",
						c.Err() != nil, describe(errs)))
			}
			nChildren++
		}
		atomic.StoreInt32(&giveUp, 1)
		obsDone := make(chan struct{})
		go func() { obsWG.Wait(); close(obsDone) }()
		if !waitChan(obsDone) {
			rd.fail("final", "observers", "waiters / pollers did not return")
		}
		ft, fc, ff := countErrs(target.Errors())
		if int64(ft) != wantTag || int64(fc) != wantCan || ff != 0 || target.Err() == nil {
			rd.fail("final", "target", fmt.Sprintf("%d tagged errors and %d Kill calls were made; the target holds %d tagged + %d Canceled + %d foreign, Err()!=nil is %v",
				wantTag, wantCan, ft, fc, ff, target.Err() != nil))
		}
		runtime.KeepAlive(keep)

		nRounds++
		nWakes += atomic.LoadInt64(&wakes)
		nPollHits += atomic.LoadInt64(&pollHits)
		nPollSpins += atomic.LoadInt64(&pollSpins)
		nEnders += int64(E)
		if len(rd.fails) > 0 {
			nFails++
			seen := map[string]bool{}
			for _, f := range rd.fails {
				if !seen[f.clause] {
					seen[f.clause] = true
					kinds["failclause:"+f.clause]++
				}
			}
			if nFails <= 5 {
				f := rd.fails[0]
				fmt.Fprintf(w, "FAIL publish round=%d clause=%s target=%s depth=%d waiters=%d pollers=%d procs=%d enders=[%s] :: history: %d observers parked/spinning | enders called | %s: %s | enders returned | target holds %s\n",
					round, f.clause, targetKind, depth, W+depth, P, curProcs, strings.Join(entries, " "), W+depth+P, f.who, f.detail, describe(target.Errors()))
				for _, f := range rd.fails[1:] {
					fmt.Fprintf(w, "also round=%d clause=%s %s: %s\n", round, f.clause, f.who, f.detail)
				}
			}
			w.Flush()
		}
		if atomic.LoadInt32(&hangs) >= 25 {
			fmt.Fprintf(w, "FAIL publish aborted round=%d too many expired waits\n", round)
			break
		}
	}
	atomic.StoreInt32(&shake, 0)
	fmt.Fprintf(w, "pub rounds=%d enders=%d wakes=%d pollhits=%d pollspins=%d descendants=%d panics=%d failrounds=%d",
		nRounds, nEnders, nWakes, nPollHits, nPollSpins, nChildren, nPanics, nFails)
	keys := make([]string, 0, len(kinds))
	for k := range kinds {
		keys = append(keys, k)
	}
	sortStrings(keys)
	for _, k := range keys {
		fmt.Fprintf(w, " %s=%d", strings.ReplaceAll(k, " ", ""), kinds[k])
	}
	fmt.Fprintln(w)
}
