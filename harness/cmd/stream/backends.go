package main

import (
	"fmt"
	"io/ioutil"
	"os"
	"path/filepath"
	"sort"
	"strings"

	"gcverif/internal/hx"

	"github.com/goatcms/goatcore/filesystem/filespace/diskfs"
	"github.com/goatcms/goatcore/filesystem/filespace/encryptfs"
	"github.com/goatcms/goatcore/filesystem/filespace/encryptfs/cipherfs/aesgcm256cfs"
	"github.com/goatcms/goatcore/filesystem/filespace/encryptfs/cipherfs/extcfs"
	"github.com/goatcms/goatcore/filesystem/filespace/memfs"
	"github.com/goatcms/goatcore/filesystem/fscache"
)

var backendNames = []string{"mem", "disk", "encmem", "encdisk", "cache"}

// diskLike: a Writer needs the parent directory (the model's kind `disk`).
func diskLike(b string) bool { return b == "disk" || b == "encdisk" }

func knownBackend(b string) bool {
	for _, n := range backendNames {
		if n == b {
			return true
		}
	}
	return false
}

// entry of a tree token: a directory or a file with its content.
type entry struct {
	path  string
	isDir bool
	data  []byte
}

func nameOK(s string) bool {
	if s == "" {
		return false
	}
	alnum := false
	for _, c := range s {
		switch {
		case c >= 'a' && c <= 'z' || c >= 'A' && c <= 'Z' || c >= '0' && c <= '9':
			alnum = true
		case c == '.' || c == '~': // `a.tmp`, `b~`: names an implementation might take for its own temporaries
		default:
			return false
		}
	}
	return alnum // not `.`, `..`
}

// parsePath: `-` is the root (""), otherwise names joined by `/`.
func parsePath(s string) (string, bool) {
	if s == "-" {
		return "", true
	}
	for _, seg := range strings.Split(s, "/") {
		if !nameOK(seg) {
			return "", false
		}
	}
	return s, true
}

// parseTree reads a tree token; ok=false when it is malformed or inconsistent (a node below a file,
// a directory entry where a file stands) — exactly when the model's parser refuses it.
func parseTree(tok string) (ents []entry, ok bool) {
	if tok == "-" {
		return nil, true
	}
	kind := map[string]byte{} // 'd' or 'f'
	for _, e := range strings.Split(tok, ",") {
		var p string
		var data []byte
		isDir := strings.HasSuffix(e, "/")
		if isDir {
			var good bool
			if p, good = parsePath(strings.TrimSuffix(e, "/")); !good || p == "" {
				// "-/" is the root directory: the model accepts mkdirs [] — keep the two sides equal
				if e == "-/" {
					continue
				}
				return nil, false
			}
		} else {
			f := strings.Split(e, "=")
			if len(f) != 2 {
				return nil, false
			}
			var good bool
			if p, good = parsePath(f[0]); !good || p == "" {
				return nil, false
			}
			var err error
			if data, err = hx.Dec(f[1]); err != nil {
				return nil, false
			}
		}
		segs := strings.Split(p, "/")
		for i := 1; i < len(segs); i++ {
			pre := strings.Join(segs[:i], "/")
			if kind[pre] == 'f' {
				return nil, false
			}
			if kind[pre] == 0 {
				kind[pre] = 'd'
				ents = append(ents, entry{path: pre, isDir: true})
			}
		}
		switch {
		case isDir && kind[p] == 'f':
			return nil, false
		case isDir && kind[p] == 'd':
		case isDir:
			kind[p] = 'd'
			ents = append(ents, entry{path: p, isDir: true})
		case kind[p] == 'd':
			return nil, false
		case kind[p] == 'f':
			for i := range ents {
				if ents[i].path == p {
					ents[i].data = data
				}
			}
		default:
			kind[p] = 'f'
			ents = append(ents, entry{path: p, data: data})
		}
	}
	return ents, true
}

// world is the set of filesystems of one case; close removes the temp directories.
type world struct {
	dirs []string
}

func (w *world) close() {
	for _, d := range w.dirs {
		os.RemoveAll(d)
	}
	w.dirs = nil
}

var (
	encSecret = []byte("c04 secret")
	encSalt   = []byte("c04 salt")
)

func (w *world) disk() (FS, error) {
	dir, err := ioutil.TempDir("/var/tmp", "c04-disk-")
	if err != nil {
		return nil, err
	}
	w.dirs = append(w.dirs, dir)
	root := filepath.Join(dir, "root")
	if err = os.Mkdir(root, 0777); err != nil {
		return nil, err
	}
	return diskfs.NewFilespace(root)
}

// populate creates the entries through the public interface of fs (parents first).
func populate(fs FS, ents []entry) error {
	for _, e := range ents {
		var err error
		if e.isDir {
			err = fs.MkdirAll(e.path, 0777)
		} else {
			err = fs.WriteFile(e.path, e.data, 0644)
		}
		if err != nil {
			return fmt.Errorf("populate %s: %v", e.path, err)
		}
	}
	return nil
}

// build creates a backend holding the tree.  For `cache` the tree is split: with split=true every other
// file (and the directories above it) is put into the remote filespace before the cache is created, the rest
// is written through the cache; with split=false everything goes through the cache (into its buffer).
func (w *world) build(backend string, ents []entry, split bool) (FS, error) {
	var fs FS
	var err error
	switch backend {
	case "mem":
		fs, err = memfs.NewFilespace()
	case "disk":
		fs, err = w.disk()
	case "encmem":
		var base FS
		if base, err = memfs.NewFilespace(); err == nil {
			fs, err = encryptfs.NewEncryptFS(base, encryptfs.Settings{Secret: encSecret, Salt: encSalt,
				Cipher: aesgcm256cfs.NewCipher()})
		}
	case "encdisk":
		var base FS
		if base, err = w.disk(); err == nil {
			fs, err = encryptfs.NewEncryptFS(base, encryptfs.Settings{Secret: encSecret, Salt: encSalt,
				Cipher: extcfs.NewDefaultCipher()})
		}
	case "cache":
		var remote FS
		if remote, err = memfs.NewFilespace(); err != nil {
			return nil, err
		}
		var first, second []entry
		if split {
			n := 0
			for _, e := range ents {
				if e.isDir {
					second = append(second, e)
					continue
				}
				if n%2 == 0 {
					first = append(first, e)
				} else {
					second = append(second, e)
				}
				n++
			}
		} else {
			second = ents
		}
		if err = populate(remote, first); err != nil {
			return nil, err
		}
		var c *fscache.Cache
		if c, err = fscache.NewMemCache(remote); err != nil {
			return nil, err
		}
		if err = populate(c, second); err != nil {
			return nil, err
		}
		return c, nil
	default:
		return nil, fmt.Errorf("unknown backend %s", backend)
	}
	if err != nil {
		return nil, err
	}
	if err = populate(fs, ents); err != nil {
		return nil, err
	}
	return fs, nil
}

// refTree is the harness's own flat picture of a tree: path -> nil (directory) or content.
type refTree map[string][]byte

func refOf(ents []entry) refTree {
	t := refTree{}
	for _, e := range ents {
		if e.isDir {
			t[e.path] = nil
		} else {
			d := e.data
			if d == nil {
				d = []byte{}
			}
			t[e.path] = d
		}
	}
	return t
}

// dumpRef prints a reference tree in the `dump` format.
func dumpRef(t refTree) string {
	ps := make([]string, 0, len(t))
	for p := range t {
		ps = append(ps, p)
	}
	sort.Strings(ps)
	if len(ps) == 0 {
		return "tree"
	}
	items := make([]string, len(ps))
	for i, p := range ps {
		if t[p] == nil {
			items[i] = hx.Enc([]byte(p)) + "/"
		} else {
			items[i] = hx.Enc([]byte(p)) + "=" + hx.Enc(t[p])
		}
	}
	return "tree " + strings.Join(items, " ")
}

func joinPath(base, p string) string {
	if base == "" {
		return p
	}
	if p == "" {
		return base
	}
	return base + "/" + p
}
