package main

import (
	"bytes"
	"fmt"
	"io"
	"runtime"
	"strconv"
	"strings"
	"sync/atomic"
	"time"

	"gcverif/internal/fsdrv"
	"gcverif/internal/hx"

	"github.com/goatcms/goatcore/filesystem/filespace/memfs"
	"github.com/goatcms/goatcore/filesystem/fscache"
	"github.com/goatcms/goatcore/filesystem/fshelper"
	"github.com/goatcms/goatcore/verifhook"
)

// Watchdog: a case that does not finish within this time is reported as `hang` (generous: only ever
// "wait for what must happen").
var Watchdog = 30 * time.Second

var hangsSeen int32

// outcome of one case on the real code.
type outcome struct {
	line   string   // the result line of the protocol
	fails  []string // property clauses that failed (oracle mode only)
	fired  bool     // the injected fault was reached
	counts map[string]int
	tags   []string // histogram keys of this case (schedule observed, backend, yield point reached)
}

// guarded runs f under recover and the watchdog.
func guarded(f func() outcome) outcome {
	ch := make(chan outcome, 1)
	go func() {
		var o outcome
		if p, v := hx.Guard(func() { o = f() }); p {
			o = outcome{line: "panic", fails: []string{fmt.Sprintf("panic: %v", v)}}
		}
		ch <- o
	}()
	// the first case that does not finish is waited for generously; once a process has seen a hang (the
	// property has failed on that case already) later cases get a short watchdog, so that a tree on which
	// many cases hang is reported in bounded time.  Where everything returns nothing changes.
	wd := Watchdog
	if atomic.LoadInt32(&hangsSeen) > 0 {
		wd = 2 * time.Second
	}
	t := time.NewTimer(wd)
	defer t.Stop()
	select {
	case o := <-ch:
		return o
	case <-t.C:
		atomic.AddInt32(&hangsSeen, 1)
		return outcome{line: "hang", fails: []string{"hang: the case did not finish within the watchdog time"}}
	}
}

// parsed common arguments
type copyArgs struct {
	sb, db     string
	src, dst   []entry
	sizes      []int
	raw        bool
	stage      string
	k          int
	short      bool
	srcRefTree refTree
	dstRefTree refTree
}

func parseSizes(tok string) (sizes []int, raw bool, ok bool) {
	switch tok {
	case "-":
		return nil, false, true
	case "raw":
		return nil, true, true
	}
	for _, t := range strings.Split(tok, ",") {
		n, err := strconv.Atoi(t)
		if err != nil || n < 0 {
			return nil, false, false
		}
		sizes = append(sizes, n)
	}
	return sizes, false, true
}

func parseFault(tok string) (stage string, k int, short bool, ok bool) {
	if tok == "-" {
		return "", 0, false, true
	}
	f := strings.Split(tok, ":")
	if len(f) != 3 {
		return "", 0, false, false
	}
	known := false
	for _, s := range stageNames {
		if s == f[0] {
			known = true
		}
	}
	n, err := strconv.Atoi(f[1])
	if !known || err != nil || n < 0 || (f[2] != "h" && f[2] != "s") {
		return "", 0, false, false
	}
	return f[0], n, f[2] == "s", true
}

func isNat(tok string) bool {
	n, err := strconv.Atoi(tok)
	return err == nil && n >= 0
}

func parseCopyArgs(sb, db, st, dt, sizes, fault string) (a copyArgs, ok bool) {
	if !knownBackend(sb) || !knownBackend(db) {
		return a, false
	}
	a.sb, a.db = sb, db
	var g1, g2, g3, g4 bool
	a.src, g1 = parseTree(st)
	a.dst, g2 = parseTree(dt)
	a.sizes, a.raw, g3 = parseSizes(sizes)
	a.stage, a.k, a.short, g4 = parseFault(fault)
	if !(g1 && g2 && g3 && g4) {
		return a, false
	}
	a.srcRefTree, a.dstRefTree = refOf(a.src), refOf(a.dst)
	return a, true
}

// setup builds both filesystems and (unless raw) their decorators.
func (a *copyArgs) setup(w *world) (src, dst, srcRaw, dstRaw FS, p *plan, err error) {
	if srcRaw, err = w.build(a.sb, a.src, true); err != nil {
		return
	}
	if dstRaw, err = w.build(a.db, a.dst, false); err != nil {
		return
	}
	p = newPlan(a.sizes, a.stage, a.k, a.short)
	if a.raw {
		return srcRaw, dstRaw, srcRaw, dstRaw, p, nil
	}
	return &faultFS{FS: srcRaw, p: p, src: true}, &faultFS{FS: dstRaw, p: p, src: false}, srcRaw, dstRaw, p, nil
}

func okErr(err error) string {
	if err != nil {
		return "err"
	}
	return "ok"
}

// overlay: the source subtree laid over the old destination at base (the harness's own expectation,
// written from the sentence "reproduce a source tree byte-for-byte in any destination").
func overlay(dst refTree, base string, sub refTree) refTree {
	t := refTree{}
	for p, d := range dst {
		t[p] = d
	}
	if base != "" {
		segs := strings.Split(base, "/")
		for i := 1; i <= len(segs); i++ {
			t[strings.Join(segs[:i], "/")] = nil
		}
	}
	for p, d := range sub {
		t[joinPath(base, p)] = d
	}
	return t
}

// subtree of a reference tree below path sp ("" = the whole tree); isFile: sp is a file.
func subtree(t refTree, sp string) (sub refTree, isFile bool, exists bool) {
	if sp == "" {
		return t, false, true
	}
	d, ok := t[sp]
	if !ok {
		return nil, false, false
	}
	if d != nil {
		return refTree{"": d}, true, true
	}
	sub = refTree{}
	for p, x := range t {
		if strings.HasPrefix(p, sp+"/") {
			sub[p[len(sp)+1:]] = x
		}
	}
	return sub, false, true
}

// compatible: laying sub over dst at base meets no node of the other kind (then a fault-free copy must
// succeed); a file on the way to base or to a node also counts as a conflict.
func compatible(dst refTree, base string, sub refTree, destDiskLike bool) bool {
	check := func(p string, wantDir bool) bool {
		segs := strings.Split(p, "/")
		for i := 1; i < len(segs); i++ {
			if d, ok := dst[strings.Join(segs[:i], "/")]; ok && d != nil {
				return false
			}
		}
		if d, ok := dst[p]; ok && (d == nil) != wantDir {
			return false
		}
		return true
	}
	if base != "" && !check(base, true) {
		return false
	}
	for p, d := range sub {
		if !check(joinPath(base, p), d == nil) {
			return false
		}
	}
	return true
}

// ---------------------------------------------------------------------------------------------
// wr
// ---------------------------------------------------------------------------------------------

var readBufSizes = []int{1, 2, 3, 7, 4096}

// readAllWith reads the file through Reader with buffers of one size until io.EOF.
func readAllWith(fs FS, path string, size int) ([]byte, error) {
	r, err := fs.Reader(path)
	if err != nil {
		return nil, err
	}
	var out []byte
	buf := make([]byte, size)
	for i := 0; ; i++ {
		n, err := r.Read(buf)
		if n < 0 || n > size {
			r.Close()
			return nil, fmt.Errorf("Read returned n=%d for a buffer of %d", n, size)
		}
		out = append(out, buf[:n]...)
		if err == io.EOF {
			break
		}
		if err != nil {
			r.Close()
			return nil, err
		}
		if i > 1<<22 {
			r.Close()
			return nil, fmt.Errorf("no EOF after %d reads", i)
		}
	}
	// nothing may follow EOF
	if n, _ := r.Read(buf); n != 0 {
		r.Close()
		return nil, fmt.Errorf("%d bytes delivered after EOF", n)
	}
	return out, r.Close()
}

func caseWr(args []string, oracle bool) (o outcome, ok bool) {
	if len(args) < 2 || !knownBackend(args[0]) {
		return o, false
	}
	backend, old := args[0], args[1]
	var chunks [][]byte
	for _, h := range args[2:] {
		c, err := hx.Dec(h)
		if err != nil {
			return o, false
		}
		chunks = append(chunks, c)
	}
	ents := []entry{{path: "d", isDir: true}}
	path := "d/f"
	var oldData []byte
	switch old {
	case "absent":
	case "dir":
		ents = append(ents, entry{path: "d/f", isDir: true})
	case "noparent":
		path = "x/f"
	default:
		d, err := hx.Dec(old)
		if err != nil {
			return o, false
		}
		oldData = d
		ents = append(ents, entry{path: "d/f", data: d})
	}
	_ = oldData
	return guarded(func() outcome {
		w := &world{}
		defer w.close()
		fs, err := w.build(backend, ents, false)
		if err != nil {
			return outcome{line: "setup-err", fails: []string{"setup: " + err.Error()}}
		}
		var want []byte
		for _, c := range chunks {
			want = append(want, c...)
		}
		res := outcome{}
		wr, err := fs.Writer(path)
		bad := err != nil
		if err == nil {
			for _, c := range chunks {
				b := append([]byte{}, c...)
				n, err := wr.Write(b)
				if err != nil || n != len(c) {
					bad = true
				}
				for j := range b { // io.Writer: "implementations must not retain p"
					b[j] ^= 0xa5
				}
			}
			if err := wr.Close(); err != nil {
				bad = true
			}
		}
		var got []byte
		if !bad {
			if got, err = fs.ReadFile(path); err != nil {
				bad = true
			}
		}
		if bad {
			res.line = "err"
		} else {
			res.line = "ok " + hx.Enc(got)
		}
		if oracle {
			switch {
			case old == "dir":
				if !bad {
					res.fails = append(res.fails, "writer on a directory succeeded")
				}
				if !fs.IsDir("d/f") {
					res.fails = append(res.fails, "the directory at the writer's path is gone")
				}
			case old == "noparent":
				if !bad && !bytes.Equal(got, want) {
					res.fails = append(res.fails, fmt.Sprintf("content %s, chunks concatenate to %s", hx.Enc(got), hx.Enc(want)))
				}
			default:
				if bad {
					res.fails = append(res.fails, "writer / write / close / ReadFile failed on a writable path")
					break
				}
				if !bytes.Equal(got, want) {
					res.fails = append(res.fails, fmt.Sprintf("ReadFile after Close = %s, chunks concatenate to %s (old content %s)",
						hx.Enc(got), hx.Enc(want), old))
				}
				for _, sz := range readBufSizes {
					g, err := readAllWith(fs, path, sz)
					if err != nil {
						res.fails = append(res.fails, fmt.Sprintf("Reader with buffer %d: %v", sz, err))
					} else if !bytes.Equal(g, want) {
						res.fails = append(res.fails, fmt.Sprintf("Reader with buffer %d = %s, chunks concatenate to %s",
							sz, hx.Enc(g), hx.Enc(want)))
					}
				}
				if info, err := fs.Lstat(path); err != nil || info == nil || info.IsDir() {
					res.fails = append(res.fails, "Lstat of the written file fails")
				} else if backend == "mem" || backend == "disk" || backend == "cache" {
					if info.Size() != int64(len(want)) {
						res.fails = append(res.fails, fmt.Sprintf("Lstat size %d, content length %d", info.Size(), len(want)))
					}
				}
			}
		}
		return res
	}), true
}

// ---------------------------------------------------------------------------------------------
// wrq: a writer queued behind an open writer
// ---------------------------------------------------------------------------------------------

func parseChunks(tok string) ([][]byte, bool) {
	if tok == "_" {
		return nil, true
	}
	var res [][]byte
	for _, h := range strings.Split(tok, ",") {
		c, err := hx.Dec(h)
		if err != nil {
			return nil, false
		}
		res = append(res, c)
	}
	return res, true
}

// The gate of wrq is the yield point `memfs.writer.open` of /repo (build tag verif).  Should the code under
// test not have it (an older tree), B's arrival cannot be observed: after two cases in which the hook never
// fired the generous wait is replaced by a short pause (the expected result does not depend on the timing:
// on a backend that serialises its streams the order is A, then B, whenever B was started).
var (
	hookFired  bool
	hookMisses int
)

func caseWrq(args []string, oracle bool) (o outcome, ok bool) {
	if len(args) != 6 || !knownBackend(args[0]) || diskLike(args[0]) || (args[2] != "w" && args[2] != "c") || !isNat(args[3]) {
		return o, false
	}
	backend, old, mode := args[0], args[1], args[2]
	split, _ := strconv.Atoi(args[3])
	ca, g1 := parseChunks(args[4])
	cb, g2 := parseChunks(args[5])
	if !g1 || !g2 {
		return o, false
	}
	ents := []entry{{path: "d", isDir: true}}
	path := "d/f"
	switch old {
	case "absent":
	case "dir":
		ents = append(ents, entry{path: "d/f", isDir: true})
	case "noparent":
		path = "x/f"
	default:
		d, err := hx.Dec(old)
		if err != nil {
			return o, false
		}
		ents = append(ents, entry{path: "d/f", data: d})
	}
	if split > len(ca) {
		split = len(ca)
	}
	return guarded(func() outcome {
		w := &world{}
		defer w.close()
		defer verifhook.Set(nil)
		fs, err := w.build(backend, ents, false)
		if err != nil {
			return outcome{line: "setup-err", fails: []string{"setup: " + err.Error()}}
		}
		var want []byte
		for _, c := range cb {
			want = append(want, c...)
		}
		res := outcome{}
		bad := false
		wa, err := fs.Writer(path)
		if err != nil {
			bad = true
		} else {
			put := func(wr io.Writer, chunks [][]byte) {
				for _, c := range chunks {
					if n, err := wr.Write(c); err != nil || n != len(c) {
						bad = true
					}
				}
			}
			put(wa, ca[:split])
			// B is started while A is open; the hook tells when B has found the file and is about to wait for it
			reached := make(chan struct{}, 1)
			verifhook.Set(func(pt string) {
				if pt == "memfs.writer.open" {
					select {
					case reached <- struct{}{}:
					default:
					}
				}
			})
			bdone := make(chan error, 1)
			go func() {
				var berr error
				if p, v := hx.Guard(func() {
					if mode == "w" {
						wb, err := fs.Writer(path)
						if err != nil {
							berr = err
							return
						}
						for _, c := range cb {
							if n, err := wb.Write(c); err != nil || n != len(c) {
								berr = fmt.Errorf("write failed")
							}
						}
						if err := wb.Close(); err != nil {
							berr = err
						}
						return
					}
					src, err := memfs.NewFilespace()
					if err == nil {
						err = src.WriteFile(path, want, 0644)
					}
					if err != nil {
						berr = err
						return
					}
					berr = fshelper.StreamCopy(src, fs, path)
				}); p {
					berr = fmt.Errorf("panic: %v", v)
				}
				bdone <- berr
			}()
			var berr error
			finished := false
			wait := 3 * time.Second
			if !hookFired && hookMisses >= 2 {
				wait = 20 * time.Millisecond
			}
			select {
			case <-reached:
				hookFired = true
			case berr = <-bdone: // B did not have to wait
				finished = true
			case <-time.After(wait): // B never showed up at the file: go on, the order is A then B anyway
				hookMisses++
			}
			put(wa, ca[split:])
			if err := wa.Close(); err != nil {
				bad = true
			}
			if !finished {
				berr = <-bdone
			}
			if berr != nil {
				bad = true
				if strings.HasPrefix(berr.Error(), "panic") {
					res.fails = append(res.fails, "the queued stream: "+berr.Error())
				}
			}
		}
		var got []byte
		if !bad {
			if got, err = fs.ReadFile(path); err != nil {
				bad = true
			}
		}
		if bad {
			res.line = "err"
		} else {
			res.line = "ok " + hx.Enc(got)
		}
		if oracle {
			switch {
			case old == "dir":
				if !bad {
					res.fails = append(res.fails, "writer on a directory succeeded")
				}
			case bad:
				res.fails = append(res.fails, "a writer, a queued writer / stream copy or the final ReadFile failed on a writable path")
			case !bytes.Equal(got, want):
				res.fails = append(res.fails, fmt.Sprintf("after writer A (%d of %d chunks before B was started) and the queued %s "+
					"B were closed the file holds %s; B's chunks concatenate to %s", split, len(ca),
					map[string]string{"w": "writer", "c": "StreamCopy"}[mode], hx.Enc(got), hx.Enc(want)))
			}
		}
		return res
	}), true
}

// ---------------------------------------------------------------------------------------------
// rdq / scopyq: a reader that stays open while the same file is rewritten
// ---------------------------------------------------------------------------------------------

// the backends whose streams are memfs handles: mem, encmem, cache (the file lives in the cache's buffer),
// rcache (fscache whose file lives in the remote memfs, so that the rewrite goes to another file, in the buffer)
func knownQBackend(b string) bool {
	return b == "mem" || b == "encmem" || b == "cache" || b == "rcache"
}

func (w *world) buildQ(backend string, ents []entry) (FS, error) {
	if backend != "rcache" {
		return w.build(backend, ents, false)
	}
	remote, err := memfs.NewFilespace()
	if err != nil {
		return nil, err
	}
	if err = populate(remote, ents); err != nil {
		return nil, err
	}
	return fscache.NewMemCache(remote)
}

func parseSizesQ(tok string) ([]int, bool) {
	if tok == "-" {
		return nil, true
	}
	var sizes []int
	for _, t := range strings.Split(tok, ",") {
		n, err := strconv.Atoi(t)
		if err != nil || n < 0 || n > 1<<24 {
			return nil, false
		}
		sizes = append(sizes, n)
	}
	return sizes, true
}

// rewriter is the other goroutine of an rdq/scopyq case: Writer(path), one Write per chunk, Close.
type rewriter struct {
	id       chan int64
	done     chan error
	finished bool
	err      error
	hook     int32 // the yield point memfs.writer.open was reached
}

func startRewriter(fs FS, path string, chunks [][]byte) *rewriter {
	rw := &rewriter{id: make(chan int64, 1), done: make(chan error, 1)}
	verifhook.Set(func(pt string) {
		if pt == "memfs.writer.open" {
			atomic.StoreInt32(&rw.hook, 1)
		}
	})
	go func() {
		rw.id <- hx.GoID()
		var rerr error
		if p, v := hx.Guard(func() {
			wr, err := fs.Writer(path)
			if err != nil {
				rerr = err
				return
			}
			for _, c := range chunks {
				if n, err := wr.Write(c); err != nil || n != len(c) {
					rerr = fmt.Errorf("write failed")
				}
			}
			if err := wr.Close(); err != nil {
				rerr = err
			}
		}); p {
			rerr = fmt.Errorf("panic: %v", v)
		}
		rw.done <- rerr
	}()
	return rw
}

// settle waits — generously — for what must happen: the rewriter either runs to its end (`free`) or comes to
// rest on a lock (`wait`; the runtime's wait reason of the goroutine, observed twice).  `stuck`: neither within
// 20 s.
func (rw *rewriter) settle() string {
	id := <-rw.id
	deadline := time.Now().Add(20 * time.Second)
	for i := 0; ; i++ {
		select {
		case rw.err = <-rw.done:
			rw.finished = true
			return "free"
		default:
		}
		if st, ok := hx.GoroutineStatus(id); ok && hx.ParkedOnLock(st) {
			time.Sleep(300 * time.Microsecond)
			if st2, ok2 := hx.GoroutineStatus(id); ok2 && hx.ParkedOnLock(st2) {
				select {
				case rw.err = <-rw.done:
					rw.finished = true
					return "free"
				default:
				}
				return "wait"
			}
		}
		if time.Now().After(deadline) {
			return "stuck"
		}
		if i < 50 {
			runtime.Gosched()
		} else {
			time.Sleep(100 * time.Microsecond)
		}
	}
}

// join waits for the rewriter's end (the case's watchdog bounds it).
func (rw *rewriter) join() error {
	if !rw.finished {
		rw.err = <-rw.done
		rw.finished = true
	}
	return rw.err
}

func flat(chunks [][]byte) []byte {
	out := []byte{}
	for _, c := range chunks {
		out = append(out, c...)
	}
	return out
}

func caseRdq(args []string, oracle bool) (o outcome, ok bool) {
	if len(args) != 5 || !knownQBackend(args[0]) || !isNat(args[2]) {
		return o, false
	}
	backend := args[0]
	old, err := hx.Dec(args[1])
	split, _ := strconv.Atoi(args[2])
	sizes, g1 := parseSizesQ(args[3])
	chunks, g2 := parseChunks(args[4])
	if err != nil || !g1 || !g2 {
		return o, false
	}
	if split > len(sizes) {
		split = len(sizes)
	}
	path := "d/f"
	return guarded(func() outcome {
		w := &world{}
		defer w.close()
		defer verifhook.Set(nil)
		fs, err := w.buildQ(backend, []entry{{path: "d", isDir: true}, {path: path, data: old}})
		if err != nil {
			return outcome{line: "setup-err", fails: []string{"setup: " + err.Error()}}
		}
		want := flat(chunks)
		res := outcome{}
		rd, err := fs.Reader(path)
		if err != nil {
			return outcome{line: "err", fails: []string{"Reader of an existing file failed"}}
		}
		var items []string
		var all []byte
		bad, eofSeen := false, false
		read := func(szs []int) {
			for _, sz := range szs {
				b := make([]byte, sz)
				n, err := rd.Read(b)
				if n < 0 || n > sz || (err != nil && err != io.EOF) {
					bad = true
					return
				}
				all = append(all, b[:n]...)
				flag := "c"
				if err == io.EOF {
					flag = "e"
					eofSeen = true
					if oracle && !bytes.Equal(all, old) {
						res.fails = append(res.fails, fmt.Sprintf("EOF reported after %s; the file held %s when the reader was opened "+
							"(the rewrite: %s)", hx.Enc(all), hx.Enc(old), hx.Enc(want)))
					}
				} else if oracle && eofSeen && sz > 0 {
					res.fails = append(res.fails, "a read after EOF did not report EOF")
				}
				if oracle && sz > 0 && n == 0 && err == nil {
					res.fails = append(res.fails, "a read with a non-empty buffer delivered nothing and no EOF")
				}
				items = append(items, hx.Enc(b[:n])+":"+flag)
			}
		}
		read(sizes[:split])
		// the rewrite of the same file is started while the reader is open
		rw := startRewriter(fs, path, chunks)
		sched := rw.settle()
		if !bad {
			read(sizes[split:])
		}
		if err := rd.Close(); err != nil {
			bad = true
		}
		if werr := rw.join(); werr != nil {
			bad = true
			res.fails = append(res.fails, "the rewriting stream failed: "+werr.Error())
		}
		var got []byte
		if !bad {
			if got, err = fs.ReadFile(path); err != nil {
				bad = true
			}
		}
		res.tags = append(res.tags, "rdq-sched:"+sched, "qbackend:"+backend)
		if atomic.LoadInt32(&rw.hook) != 0 {
			res.tags = append(res.tags, "rdq-hook:memfs.writer.open")
		}
		if bad {
			res.line = "err"
			if oracle {
				res.fails = append(res.fails, "Read / Close of the open reader, the rewriting stream or the final ReadFile failed")
			}
			return res
		}
		rdTok := "rd"
		if len(items) > 0 {
			rdTok = "rd " + strings.Join(items, ",")
		}
		res.line = "ok " + sched + " " + rdTok + " " + hx.Enc(got)
		if oracle {
			if !bytes.HasPrefix(old, all) {
				res.fails = append(res.fails, fmt.Sprintf("the reader, opened on %s, delivered %s (buffers %s, the rewrite %s was started after "+
					"%d reads): bytes that were not the file's content", hx.Enc(old), hx.Enc(all), args[3], args[4], split))
			}
			if !bytes.Equal(got, want) {
				res.fails = append(res.fails, fmt.Sprintf("after the reader and the rewriting stream were closed the file holds %s; the "+
					"chunks concatenate to %s", hx.Enc(got), hx.Enc(want)))
			}
			if sched == "stuck" {
				res.fails = append(res.fails, "the rewriting stream neither finished nor came to rest on the file's lock within 20 s")
			}
		}
		return res
	}), true
}

func caseScopyq(args []string, oracle bool) (o outcome, ok bool) {
	if len(args) != 7 || !knownQBackend(args[0]) || !knownBackend(args[1]) || !isNat(args[4]) {
		return o, false
	}
	sb, db := args[0], args[1]
	old, err := hx.Dec(args[2])
	split, _ := strconv.Atoi(args[4])
	sizes, g1 := parseSizesQ(args[5])
	chunks, g2 := parseChunks(args[6])
	if err != nil || !g1 || !g2 {
		return o, false
	}
	path := "d/f"
	dstEnts := []entry{{path: "d", isDir: true}}
	if args[3] != "absent" {
		d, err := hx.Dec(args[3])
		if err != nil {
			return o, false
		}
		dstEnts = append(dstEnts, entry{path: path, data: d})
	}
	return guarded(func() outcome {
		w := &world{}
		defer w.close()
		defer verifhook.Set(nil)
		srcRaw, err := w.buildQ(sb, []entry{{path: "d", isDir: true}, {path: path, data: old}})
		if err != nil {
			return outcome{line: "setup-err", fails: []string{"setup: " + err.Error()}}
		}
		dstRaw, err := w.build(db, dstEnts, false)
		if err != nil {
			return outcome{line: "setup-err", fails: []string{"setup: " + err.Error()}}
		}
		want := flat(chunks)
		p := newPlan(sizes, "", 0, false)
		var rw *rewriter
		sched := "none"
		p.gateAt = split
		p.gate = func() {
			rw = startRewriter(srcRaw, path, chunks)
			sched = rw.settle()
		}
		res := outcome{}
		err = fshelper.StreamCopy(&faultFS{FS: srcRaw, p: p, src: true}, &faultFS{FS: dstRaw, p: p, src: false}, path)
		var werr error
		if rw != nil {
			werr = rw.join()
		}
		d := fsdrv.Dump(dstRaw)
		srcAfter, rerr := srcRaw.ReadFile(path)
		res.tags = append(res.tags, "scopyq-sched:"+sched, "qbackend:"+sb)
		if werr != nil || rerr != nil {
			res.line = "err-rewriter"
			res.fails = append(res.fails, fmt.Sprintf("the rewriting stream or the final ReadFile of the source failed: %v %v", werr, rerr))
			return res
		}
		res.line = okErr(err) + " " + sched + " " + d + " src=" + hx.Enc(srcAfter)
		if oracle {
			if err != nil {
				res.fails = append(res.fails, "StreamCopy failed although no fault was injected and the destination is writable: "+err.Error())
			} else {
				tree := func(content []byte) refTree { return refTree{"d": nil, path: content} }
				if diffTree(d, tree(old)) != "" && diffTree(d, tree(want)) != "" {
					res.fails = append(res.fails, fmt.Sprintf("StreamCopy returned nil but the destination is a copy neither of the source's old "+
						"content %s nor of its new content %s (the rewrite was started before read %d of the copy): %s",
						hx.Enc(old), hx.Enc(want), split, clip(d)))
				}
			}
			if !bytes.Equal(srcAfter, want) {
				res.fails = append(res.fails, fmt.Sprintf("after the copy and the rewriting stream the source holds %s; the chunks concatenate to %s",
					hx.Enc(srcAfter), hx.Enc(want)))
			}
			if sched == "stuck" {
				res.fails = append(res.fails, "the rewriting stream neither finished nor came to rest on the file's lock within 20 s")
			}
		}
		return res
	}), true
}

// ---------------------------------------------------------------------------------------------
// rd
// ---------------------------------------------------------------------------------------------

func caseRd(args []string, oracle bool) (o outcome, ok bool) {
	if len(args) < 2 || !knownBackend(args[0]) {
		return o, false
	}
	backend := args[0]
	data, err := hx.Dec(args[1])
	if err != nil {
		return o, false
	}
	var sizes []int
	for _, t := range args[2:] {
		n, err := strconv.Atoi(t)
		if err != nil || n < 0 || n > 1<<24 {
			return o, false
		}
		sizes = append(sizes, n)
	}
	return guarded(func() outcome {
		w := &world{}
		defer w.close()
		// for the cache: files of even length live in the remote filespace, the others in the buffer
		fs, err := w.build(backend, []entry{{path: "f", data: data}, {path: "g", data: []byte{1}}}, len(data)%2 == 0)
		if err != nil {
			return outcome{line: "setup-err", fails: []string{"setup: " + err.Error()}}
		}
		res := outcome{}
		rd, err := fs.Reader("f")
		if err != nil {
			return outcome{line: "err", fails: []string{"Reader of an existing file failed"}}
		}
		var items []string
		var all []byte
		bad := false
		eofSeen := false
		for _, sz := range sizes {
			b := make([]byte, sz)
			n, err := rd.Read(b)
			if n < 0 || n > sz || (err != nil && err != io.EOF) {
				bad = true
				break
			}
			all = append(all, b[:n]...)
			flag := "c"
			if err == io.EOF {
				flag = "e"
				eofSeen = true
				if oracle && !bytes.Equal(all, data) {
					res.fails = append(res.fails, fmt.Sprintf("EOF reported after %d of %d bytes", len(all), len(data)))
				}
			} else if oracle && eofSeen && sz > 0 {
				res.fails = append(res.fails, "a read after EOF did not report EOF")
			}
			if oracle && sz > 0 && n == 0 && err == nil {
				res.fails = append(res.fails, "a read with a non-empty buffer delivered nothing and no EOF")
			}
			items = append(items, hx.Enc(b[:n])+":"+flag)
		}
		if err := rd.Close(); err != nil {
			bad = true
		}
		if bad {
			res.line = "err"
			if oracle {
				res.fails = append(res.fails, "Read or Close failed")
			}
			return res
		}
		if oracle && !bytes.HasPrefix(data, all) {
			res.fails = append(res.fails, fmt.Sprintf("delivered %s is not a prefix of the stored %s", hx.Enc(all), hx.Enc(data)))
		}
		if len(items) == 0 {
			res.line = "rd"
		} else {
			res.line = "rd " + strings.Join(items, ",")
		}
		return res
	}), true
}

// ---------------------------------------------------------------------------------------------
// scopy / tcopy / copier
// ---------------------------------------------------------------------------------------------

// checkTree compares the destination with the expectation; on a mismatch it names the first difference.
func diffTree(got string, want refTree) string {
	w := dumpRef(want)
	if got == w {
		return ""
	}
	gi, wi := strings.Split(got, " "), strings.Split(w, " ")
	for i := 0; i < len(gi) || i < len(wi); i++ {
		var a, b string
		if i < len(gi) {
			a = gi[i]
		}
		if i < len(wi) {
			b = wi[i]
		}
		if a != b {
			return fmt.Sprintf("first difference at item %d: destination has `%s`, a complete copy has `%s`", i, clip(a), clip(b))
		}
	}
	return "trees differ"
}

func clip(s string) string {
	if len(s) > 160 {
		return s[:160] + "…"
	}
	return s
}

// common tail of the three copy cases: evaluate the property's clauses on what happened.
func judgeCopy(res *outcome, a *copyArgs, err error, dstDump, srcDumpAfter string, want refTree, mustSucceed bool) {
	if srcDumpAfter != dumpRef(a.srcRefTree) {
		res.fails = append(res.fails, "the source changed during the copy: "+diffTree(srcDumpAfter, a.srcRefTree))
	}
	if err == nil {
		if d := diffTree(dstDump, want); d != "" {
			res.fails = append(res.fails, "the helper returned nil but the destination is not a complete copy: "+d)
		}
	} else if mustSucceed && !res.fired {
		res.fails = append(res.fails, "the helper failed although no fault was injected and source and destination are compatible: "+err.Error())
	}
}

func caseScopy(args []string, oracle bool) (o outcome, ok bool) {
	if len(args) != 7 {
		return o, false
	}
	a, good := parseCopyArgs(args[0], args[1], args[2], args[3], args[5], args[6])
	path, g2 := parsePath(args[4])
	if !good || !g2 {
		return o, false
	}
	return guarded(func() outcome {
		w := &world{}
		defer w.close()
		src, dst, srcRaw, dstRaw, p, err := a.setup(w)
		if err != nil {
			return outcome{line: "setup-err", fails: []string{"setup: " + err.Error()}}
		}
		err = fshelper.StreamCopy(src, dst, path)
		d := fsdrv.Dump(dstRaw)
		res := outcome{line: okErr(err) + " " + d, fired: p.fired, counts: p.counts}
		if oracle {
			data, isFile := a.srcRefTree[path]
			want := a.dstRefTree
			must := false
			if isFile && data != nil && path != "" {
				want = refTree{}
				for q, x := range a.dstRefTree {
					want[q] = x
				}
				want[path] = data
				// a memory-like destination creates the missing parents
				segs := strings.Split(path, "/")
				parentOK := true
				for i := 1; i < len(segs); i++ {
					pre := strings.Join(segs[:i], "/")
					if x, have := a.dstRefTree[pre]; have && x != nil {
						parentOK = false
					} else if !have {
						if diskLike(a.db) {
							parentOK = false
						}
						want[pre] = nil
					}
				}
				old, have := a.dstRefTree[path]
				must = parentOK && !(have && old == nil)
			}
			judgeCopy(&res, &a, err, d, fsdrv.Dump(srcRaw), want, must)
		}
		return res
	}), true
}

func caseTcopy(args []string, oracle bool) (o outcome, ok bool) {
	if len(args) != 8 || !isNat(args[6]) || !isNat(args[7]) {
		return o, false
	}
	a, good := parseCopyArgs(args[0], args[1], args[2], args[3], args[4], args[5])
	if !good {
		return o, false
	}
	return guarded(func() outcome {
		w := &world{}
		defer w.close()
		src, dst, srcRaw, dstRaw, p, err := a.setup(w)
		if err != nil {
			return outcome{line: "setup-err", fails: []string{"setup: " + err.Error()}}
		}
		err = fshelper.Copy(src, dst, nil)
		d := fsdrv.Dump(dstRaw)
		res := outcome{fired: p.fired, counts: p.counts}
		if err == nil {
			res.line = "ok " + d
		} else {
			res.line = "err"
		}
		if oracle {
			judgeCopy(&res, &a, err, d, fsdrv.Dump(srcRaw), overlay(a.dstRefTree, "", a.srcRefTree),
				compatible(a.dstRefTree, "", a.srcRefTree, diskLike(a.db)))
		}
		return res
	}), true
}

func caseCopier(args []string, oracle bool) (o outcome, ok bool) {
	if len(args) != 10 || !isNat(args[8]) || !isNat(args[9]) {
		return o, false
	}
	a, good := parseCopyArgs(args[0], args[1], args[2], args[4], args[6], args[7])
	sp, g2 := parsePath(args[3])
	dp, g3 := parsePath(args[5])
	if !good || !g2 || !g3 {
		return o, false
	}
	return guarded(func() outcome {
		w := &world{}
		defer w.close()
		src, dst, srcRaw, dstRaw, p, err := a.setup(w)
		if err != nil {
			return outcome{line: "setup-err", fails: []string{"setup: " + err.Error()}}
		}
		err = fshelper.Copier{SrcFS: src, SrcPath: sp, DestFS: dst, DestPath: dp}.Do()
		d := fsdrv.Dump(dstRaw)
		res := outcome{fired: p.fired, counts: p.counts}
		if err == nil {
			res.line = "ok " + d
		} else {
			res.line = "err"
		}
		if oracle {
			sub, isFile, exists := subtree(a.srcRefTree, sp)
			switch {
			case !exists:
				if err == nil {
					res.fails = append(res.fails, "Copier.Do returned nil for a source path that does not exist")
				}
				judgeCopy(&res, &a, fmt.Errorf("no source"), d, fsdrv.Dump(srcRaw), nil, false)
			case isFile:
				want := refTree{}
				for q, x := range a.dstRefTree {
					want[q] = x
				}
				must := dp != ""
				if dp != "" {
					want[dp] = sub[""]
					segs := strings.Split(dp, "/")
					for i := 1; i < len(segs); i++ {
						pre := strings.Join(segs[:i], "/")
						if x, have := a.dstRefTree[pre]; have && x != nil {
							must = false
						} else if !have {
							if diskLike(a.db) {
								must = false
							}
							want[pre] = nil
						}
					}
					if old, have := a.dstRefTree[dp]; have && old == nil {
						must = false
					}
				}
				judgeCopy(&res, &a, err, d, fsdrv.Dump(srcRaw), want, must)
			default:
				judgeCopy(&res, &a, err, d, fsdrv.Dump(srcRaw), overlay(a.dstRefTree, dp, sub),
					compatible(a.dstRefTree, dp, sub, diskLike(a.db)))
			}
		}
		return res
	}), true
}

// runLine executes one protocol line.
func runLine(line string, oracle bool) outcome {
	f := strings.Split(line, " ")
	var o outcome
	ok := false
	switch f[0] {
	case "wr":
		o, ok = caseWr(f[1:], oracle)
	case "wrq":
		o, ok = caseWrq(f[1:], oracle)
	case "rdq":
		o, ok = caseRdq(f[1:], oracle)
	case "scopyq":
		o, ok = caseScopyq(f[1:], oracle)
	case "rd":
		o, ok = caseRd(f[1:], oracle)
	case "scopy":
		o, ok = caseScopy(f[1:], oracle)
	case "tcopy":
		o, ok = caseTcopy(f[1:], oracle)
	case "copier":
		o, ok = caseCopier(f[1:], oracle)
	}
	if !ok {
		return outcome{line: "bad-op"}
	}
	return o
}
