package main

import (
	"errors"
	"os"
	"sync"

	"github.com/goatcms/goatcore/filesystem"
)

// FS is the interface under test (filesystem.Filespace has a method named Filespace, so a struct
// cannot embed it under its own name).
type FS = filesystem.Filespace

// Stages of the `stream` protocol (see /verif/lean/Driver/Stream.lean, Goat/Model/Stream.lean `Stage`).
var stageNames = []string{"openReader", "read", "closeReader", "list", "srcView",
	"openWriter", "write", "closeWriter", "mkdir", "dstView"}

var errInjected = errors.New("injected fault")

// plan is what both decorators of one case share: the chunking oracle, the single fault, and the number
// of calls of every stage made so far.
type plan struct {
	mu     sync.Mutex
	sizes  []int  // the i-th Read of every reader delivers at most sizes[i] bytes
	stage  string // "" = no fault
	k      int    // fail the k-th (from 0) call of the stage
	short  bool   // short read / short write instead of a hard failure
	counts map[string]int
	fired  bool
	// gate (scopyq): called once, before the gateAt-th (from 0) Read of the source reader, or before that
	// reader's Close when fewer reads were made
	gate   func()
	gateAt int
	gated  bool
}

// runGate calls the gate once.
func (p *plan) runGate() {
	p.mu.Lock()
	g := p.gate
	if p.gated {
		g = nil
	}
	p.gated = true
	p.mu.Unlock()
	if g != nil {
		g()
	}
}

func newPlan(sizes []int, stage string, k int, short bool) *plan {
	return &plan{sizes: sizes, stage: stage, k: k, short: short, counts: map[string]int{}}
}

// hit counts one call of the stage and says whether it is the one to fail.
func (p *plan) hit(stage string) bool {
	p.mu.Lock()
	defer p.mu.Unlock()
	n := p.counts[stage]
	p.counts[stage] = n + 1
	if p.stage == stage && n == p.k {
		p.fired = true
		return true
	}
	return false
}

func (p *plan) count(stage string) int {
	p.mu.Lock()
	defer p.mu.Unlock()
	return p.counts[stage]
}

// faultFS decorates a filespace.  As a source (src=true) it fails Reader / ReadDir / Filespace and the
// Read / Close of the readers it hands out and limits what a Read delivers (the chunking oracle); as a
// destination it fails Writer / MkdirAll / Filespace and the Write / Close of its writers.  Everything
// else passes through.  Child views share the plan.
type faultFS struct {
	FS
	p   *plan
	src bool
}

func (f *faultFS) Reader(path string) (filesystem.Reader, error) {
	if !f.src {
		return f.FS.Reader(path)
	}
	if f.p.hit("openReader") {
		return nil, errInjected
	}
	r, err := f.FS.Reader(path)
	if err != nil {
		return nil, err
	}
	return &faultReader{inner: r, p: f.p}, nil
}

func (f *faultFS) Writer(path string) (filesystem.Writer, error) {
	if f.src {
		return f.FS.Writer(path)
	}
	if f.p.hit("openWriter") {
		return nil, errInjected
	}
	w, err := f.FS.Writer(path)
	if err != nil {
		return nil, err
	}
	return &faultWriter{inner: w, p: f.p}, nil
}

func (f *faultFS) MkdirAll(path string, mode os.FileMode) error {
	if f.src {
		return f.FS.MkdirAll(path, mode)
	}
	if f.p.hit("mkdir") {
		return errInjected
	}
	return f.FS.MkdirAll(path, mode)
}

func (f *faultFS) ReadDir(path string) ([]os.FileInfo, error) {
	if !f.src {
		return f.FS.ReadDir(path)
	}
	if f.p.hit("list") {
		return nil, errInjected
	}
	return f.FS.ReadDir(path)
}

func (f *faultFS) Filespace(path string) (FS, error) {
	stage := "dstView"
	if f.src {
		stage = "srcView"
	}
	if f.p.hit(stage) {
		return nil, errInjected
	}
	c, err := f.FS.Filespace(path)
	if err != nil {
		return nil, err
	}
	return &faultFS{FS: c, p: f.p, src: f.src}, nil
}

// faultReader offers Read and Close only (io.Copy cannot take a WriteTo short cut through it).
type faultReader struct {
	inner filesystem.Reader
	p     *plan
	n     int // reads made on this handle
}

func (r *faultReader) Read(b []byte) (int, error) {
	if r.p.gate != nil && r.n == r.p.gateAt {
		r.p.runGate()
	}
	limit := len(b)
	if r.n < len(r.p.sizes) && r.p.sizes[r.n] < limit {
		limit = r.p.sizes[r.n]
	}
	r.n++
	if r.p.hit("read") {
		if !r.p.short {
			return 0, errInjected
		}
		n, _ := r.inner.Read(b[:limit/2])
		return n, errInjected
	}
	return r.inner.Read(b[:limit])
}

// Close: a failing Close has closed the underlying stream.
func (r *faultReader) Close() error {
	if r.p.gate != nil {
		r.p.runGate()
	}
	fail := r.p.hit("closeReader")
	err := r.inner.Close()
	if fail {
		return errInjected
	}
	return err
}

// faultWriter offers Write and Close only (no ReadFrom).  It is a write-behind stream: the most recent chunk
// is handed to the underlying writer by the next Write or by Close — like a backend that delivers its last
// bytes on Close (diskfs syncs there, the encrypting writer seals and writes there).  A `short` Close fault
// is such a Close failing: the held chunk is lost, the underlying stream is closed, an error is returned.
// A `hard` Close fault delivers everything, closes the underlying stream and returns an error.
type faultWriter struct {
	inner filesystem.Writer
	p     *plan
	held  []byte
	have  bool
}

// flush hands the held chunk over.
func (w *faultWriter) flush() error {
	if !w.have {
		return nil
	}
	w.have = false
	n, err := w.inner.Write(w.held)
	if err == nil && n != len(w.held) {
		err = errors.New("short write of the underlying stream")
	}
	return err
}

func (w *faultWriter) put(b []byte) (int, error) {
	if err := w.flush(); err != nil {
		return 0, err
	}
	w.held = append(w.held[:0], b...)
	w.have = true
	return len(b), nil
}

func (w *faultWriter) Write(b []byte) (int, error) {
	if w.p.hit("write") {
		if !w.p.short {
			return 0, errInjected
		}
		return w.put(b[:len(b)/2]) // n < len(b), no error: io.ErrShortWrite
	}
	return w.put(b)
}

func (w *faultWriter) Close() error {
	fail := w.p.hit("closeWriter")
	var ferr error
	if fail && w.p.short {
		w.have = false // the last chunk is lost
	} else {
		ferr = w.flush()
	}
	err := w.inner.Close()
	if fail {
		return errInjected
	}
	if ferr != nil {
		return ferr
	}
	return err
}
