package main

import (
	"bufio"
	"fmt"
	"sort"
	"strings"

	"gcverif/internal/hx"
)

// ---------------------------------------------------------------------------------------------
// Generator of `stream` cases.  One PRNG; everything derives from it.
//
//   trees      0..12 nodes (sometimes up to 30), names {a,b,c,d}, depth <= 4, files and directories
//   contents   empty, 1 byte, a few bytes, tens of bytes, hundreds, 4 KiB; rarely 32767/32768/32769/70000
//              (around and beyond io.Copy's 32 KiB buffer) — at most one large file per tree
//   dest       derived from the source: for every source node nothing / the same kind with shorter, longer,
//              equal-length or empty content / (rarely) the other kind; plus unrelated nodes {k,e}
//   chunking   `raw` (undecorated filesystems), `-`, or 1..6 sizes from {1,2,3,7,4096}
//   faults     random single faults on the random lines; `faultBlock` enumerates EVERY call index of every
//              stage (0 .. number of calls, the last one not firing) for a small tree, hard and short
//   open reader + rewrite   rdq / scopyq: a reader (a StreamCopy) on a memfs-based backend {mem, encmem, cache, rcache}
//              whose file is rewritten through Writer by another goroutine started after `split` reads; the rewrite
//              is shorter than / as long as / longer than the old content; `queueBlock` enumerates EVERY split for
//              a small file on all four backends
// ---------------------------------------------------------------------------------------------

type gen struct {
	r     *hx.Rand
	w     *bufio.Writer
	count map[string]int
}

var pool = []string{"a", "b", "c", "d", "a.tmp", "b~", ".a", ".c"} // incl. names an implementation might take for its own temporaries, and dot-prefixed twins of plain names
var chunkPool = []int{1, 2, 3, 7, 4096}

func (g *gen) bytes(n int) []byte {
	b := make([]byte, n)
	for i := 0; i < n; i += 8 {
		v := g.r.U64()
		for j := 0; j < 8 && i+j < n; j++ {
			b[i+j] = byte(v >> (8 * uint(j)))
		}
	}
	return b
}

// content draws a file content; big allows one of the large sizes.
func (g *gen) content(big bool) []byte {
	x := g.r.Intn(100)
	switch {
	case x < 10:
		return []byte{}
	case x < 20:
		return g.bytes(1)
	case x < 58:
		return g.bytes(2 + g.r.Intn(7))
	case x < 82:
		return g.bytes(9 + g.r.Intn(40))
	case x < 88:
		return g.bytes(100 + g.r.Intn(200))
	case x < 91:
		return g.bytes(4096)
	case x < 97 && big:
		return g.bytes([]int{32767, 32768, 32769}[g.r.Intn(3)])
	case x < 100 && big:
		return g.bytes(70000)
	}
	return g.bytes(3)
}

// tree under construction: kind by path, insertion order kept.
type treeB struct {
	kind  map[string]byte
	data  map[string][]byte
	order []string
}

func newTreeB() *treeB { return &treeB{kind: map[string]byte{}, data: map[string][]byte{}} }

// insert adds a node (and its missing parent directories) unless that is inconsistent.
func (t *treeB) insert(path string, isDir bool, data []byte) bool {
	segs := strings.Split(path, "/")
	for i := 1; i < len(segs); i++ {
		if t.kind[strings.Join(segs[:i], "/")] == 'f' {
			return false
		}
	}
	if k := t.kind[path]; k != 0 {
		if isDir || k == 'd' {
			return false
		}
		t.data[path] = data
		return true
	}
	for i := 1; i < len(segs); i++ {
		pre := strings.Join(segs[:i], "/")
		if t.kind[pre] == 0 {
			t.kind[pre] = 'd'
			t.order = append(t.order, pre)
		}
	}
	if isDir {
		t.kind[path] = 'd'
	} else {
		t.kind[path] = 'f'
		t.data[path] = data
	}
	t.order = append(t.order, path)
	return true
}

func (t *treeB) token() string {
	if len(t.order) == 0 {
		return "-"
	}
	items := make([]string, len(t.order))
	for i, p := range t.order {
		if t.kind[p] == 'd' {
			items[i] = p + "/"
		} else {
			items[i] = p + "=" + hx.Enc(t.data[p])
		}
	}
	return strings.Join(items, ",")
}

func (t *treeB) files() (res []string) {
	for _, p := range t.order {
		if t.kind[p] == 'f' {
			res = append(res, p)
		}
	}
	return
}

func (t *treeB) dirs() (res []string) {
	for _, p := range t.order {
		if t.kind[p] == 'd' {
			res = append(res, p)
		}
	}
	return
}

func (g *gen) path(names []string, maxDepth int) string {
	d := 1 + g.r.Intn(maxDepth)
	segs := make([]string, d)
	for i := range segs {
		segs[i] = g.r.Pick(names)
	}
	return strings.Join(segs, "/")
}

// srcTree draws a source tree; small: a few nodes with tiny files (fault enumeration).
func (g *gen) srcTree(small bool) *treeB {
	t := newTreeB()
	n := g.r.Intn(13)
	if small {
		n = 1 + g.r.Intn(5)
	} else if g.r.Chance(1, 12) {
		n = 13 + g.r.Intn(18)
	}
	bigLeft := !small && g.r.Chance(1, 10)
	for i := 0; i < n; i++ {
		p := g.path(pool, 4)
		if small {
			p = g.path(pool[:3], 3)
		}
		if g.r.Chance(35, 100) {
			t.insert(p, true, nil)
			continue
		}
		var c []byte
		if small {
			c = g.bytes(g.r.Intn(8))
		} else {
			c = g.content(bigLeft)
			if len(c) > 30000 {
				bigLeft = false
			}
		}
		t.insert(p, false, c)
	}
	// neighbours whose names differ by a suffix an implementation might use for its own temporaries, the
	// suffixed one created (and therefore listed and copied) first
	if g.r.Chance(1, 4) {
		dir := ""
		if g.r.Chance(1, 2) {
			dir = g.r.Pick(pool[:3]) + "/"
		}
		suf := g.r.Pick([]string{".tmp", "~", ".bak", ".part"})
		t.insert(dir+"d"+suf, false, g.bytes(1+g.r.Intn(6)))
		t.insert(dir+"d", false, g.bytes(1+g.r.Intn(6)))
		g.count["src:temp-neighbours"]++
	}
	return t
}

// dstTree derives a pre-existing destination from the source (relative to base) and adds unrelated nodes.
func (g *gen) dstTree(src *treeB, base string, conflicts bool) *treeB {
	t := newTreeB()
	if g.r.Chance(1, 6) {
		return t
	}
	for _, p := range src.order {
		if !g.r.Chance(1, 2) {
			continue
		}
		q := joinPath(base, p)
		isDir := src.kind[p] == 'd'
		if conflicts && g.r.Chance(3, 100) {
			isDir = !isDir
			g.count["dst:conflict"]++
		}
		if isDir {
			t.insert(q, true, nil)
			continue
		}
		old := src.data[p]
		var c []byte
		switch g.r.Intn(5) {
		case 0:
			c = g.bytes(len(old) + 1 + g.r.Intn(9)) // longer
			g.count["dst:longer"]++
		case 1:
			c = g.bytes(len(old) / 2) // shorter
			g.count["dst:shorter"]++
		case 2:
			c = g.bytes(len(old)) // same length, other bytes
		case 3:
			c = []byte{}
		default:
			c = g.bytes(1 + g.r.Intn(20))
		}
		t.insert(q, false, c)
	}
	for i := g.r.Intn(4); i > 0; i-- {
		p := g.path([]string{"k", "e", "a"}, 2)
		if g.r.Chance(1, 3) {
			t.insert(p, true, nil)
		} else {
			t.insert(p, false, g.bytes(g.r.Intn(6)))
		}
	}
	return t
}

func (g *gen) sizesTok(allowRaw bool) string {
	x := g.r.Intn(100)
	switch {
	case allowRaw && x < 25:
		return "raw"
	case x < 40:
		return "-"
	}
	n := 1 + g.r.Intn(6)
	items := make([]string, n)
	for i := range items {
		items[i] = fmt.Sprint(chunkPool[g.r.Intn(len(chunkPool))])
	}
	return strings.Join(items, ",")
}

func (g *gen) backend() string { return g.r.Pick(backendNames) }

// stages a helper can reach
var stagesStream = []string{"openReader", "read", "closeReader", "openWriter", "write", "closeWriter"}
var stagesTree = append([]string{"list", "mkdir"}, stagesStream...)
var stagesCopier = append([]string{"srcView", "dstView"}, stagesTree...)

func (g *gen) randomFault(stages []string) string {
	st := g.r.Pick(stages)
	mode := "h"
	if (st == "read" || st == "write" || st == "closeWriter") && g.r.Chance(1, 2) {
		mode = "s"
	}
	return fmt.Sprintf("%s:%d:%s", st, g.r.Intn(6), mode)
}

func (g *gen) emit(format string, a ...interface{}) {
	fmt.Fprintf(g.w, format, a...)
	g.w.WriteByte('\n')
}

func (g *gen) lineWr() {
	old := "absent"
	switch x := g.r.Intn(100); {
	case x < 15:
	case x < 25:
		old = "dir"
	case x < 33:
		old = "noparent"
	default:
		old = hx.Enc(g.content(g.r.Chance(1, 10)))
	}
	n := g.r.Intn(6)
	chunks := make([]string, n)
	for i := range chunks {
		switch g.r.Intn(8) {
		case 0:
			chunks[i] = "-"
		case 1:
			chunks[i] = hx.Enc(g.bytes(4096))
		default:
			chunks[i] = hx.Enc(g.bytes(1 + g.r.Intn(9)))
		}
	}
	g.count["line:wr"]++
	g.emit("wr %s %s%s", g.backend(), old, prefixed(chunks))
}

func prefixed(items []string) string {
	if len(items) == 0 {
		return ""
	}
	return " " + strings.Join(items, " ")
}

func (g *gen) chunksTok(max int) string {
	n := g.r.Intn(max + 1)
	if n == 0 {
		return "_"
	}
	items := make([]string, n)
	for i := range items {
		if g.r.Chance(1, 10) {
			items[i] = "-"
		} else {
			items[i] = hx.Enc(g.bytes(1 + g.r.Intn(9)))
		}
	}
	return strings.Join(items, ",")
}

// lineWrq: a writer (or a stream copy) queued behind an open writer, on the backends that serialise them.
func (g *gen) lineWrq() {
	old := "absent"
	switch x := g.r.Intn(100); {
	case x < 20:
	case x < 26:
		old = "dir"
	case x < 32:
		old = "noparent"
	default:
		old = hx.Enc(g.bytes(g.r.Intn(24)))
	}
	mode := "w"
	if g.r.Chance(1, 3) {
		mode = "c"
	}
	g.count["line:wrq"]++
	g.emit("wrq %s %s %s %d %s %s", g.r.Pick([]string{"mem", "encmem", "cache"}), old, mode, g.r.Intn(4),
		g.chunksTok(4), g.chunksTok(4))
}

var qBackends = []string{"mem", "mem", "encmem", "cache", "rcache"}

// oldForQ draws the content a reader is opened on: mostly a few bytes (so that the rewrite is shorter, of equal
// length or longer than it), sometimes empty, sometimes one of the general contents.
func (g *gen) oldForQ() []byte {
	switch x := g.r.Intn(100); {
	case x < 8:
		return []byte{}
	case x < 80:
		return g.bytes(1 + g.r.Intn(24))
	}
	return g.content(false)
}

// chunksForQ draws the rewrite: 0..4 chunks; its total length is below, at or above len(old) (a rewrite that
// fits into the old array and one that outgrows it).
func (g *gen) chunksForQ(old []byte) string {
	n := g.r.Intn(5)
	if n == 0 {
		return "_"
	}
	total := 0
	switch g.r.Intn(4) {
	case 0:
		total = len(old) // equal length
	case 1:
		total = len(old) + 1 + g.r.Intn(12) // longer
	default:
		total = g.r.Intn(len(old) + 1) // shorter (fits)
	}
	items := make([]string, n)
	for i := range items {
		l := total / n
		if i == n-1 {
			l = total - (n-1)*(total/n)
		}
		if g.r.Chance(1, 12) {
			l = 0
		}
		items[i] = hx.Enc(g.bytes(l))
	}
	return strings.Join(items, ",")
}

// lineRdq: a reader that stays open while the same file is rewritten through Writer.
func (g *gen) lineRdq() {
	old := g.oldForQ()
	n := g.r.Intn(7)
	sizes := make([]string, n)
	for i := range sizes {
		switch x := g.r.Intn(24); {
		case x == 0:
			sizes[i] = "0"
		case x == 1:
			sizes[i] = "40000"
		default:
			sizes[i] = fmt.Sprint(chunkPool[g.r.Intn(len(chunkPool))])
		}
	}
	tok := "-"
	if n > 0 {
		tok = strings.Join(sizes, ",")
	}
	g.count["line:rdq"]++
	g.emit("rdq %s %s %d %s %s", g.r.Pick(qBackends), hx.Enc(old), g.r.Intn(n+2), tok, g.chunksForQ(old))
}

// lineScopyq: StreamCopy whose source file is rewritten while the copy runs.
func (g *gen) lineScopyq() {
	old := g.oldForQ()
	dstold := "absent"
	switch g.r.Intn(4) {
	case 0:
		dstold = hx.Enc(g.bytes(len(old) + 1 + g.r.Intn(9)))
	case 1:
		dstold = hx.Enc(g.bytes(len(old) / 2))
	}
	tok := "-"
	if n := g.r.Intn(5); n > 0 {
		items := make([]string, n)
		for i := range items {
			items[i] = fmt.Sprint(chunkPool[g.r.Intn(len(chunkPool))])
		}
		tok = strings.Join(items, ",")
	}
	g.count["line:scopyq"]++
	g.emit("scopyq %s %s %s %s %d %s %s", g.r.Pick(qBackends), g.backend(), hx.Enc(old), dstold, g.r.Intn(6), tok,
		g.chunksForQ(old))
}

// queueBlock enumerates, for one small file, EVERY point at which the rewrite can be started (before the first
// read … after the last, i.e. before Close) on every backend of the family, with a rewrite that fits into the
// old array, one of equal length and one that outgrows it.
func (g *gen) queueBlock() {
	old := g.bytes(6 + g.r.Intn(5))
	sz := []int{2, 3, 1, 7}
	for i := len(sz) - 1; i > 0; i-- {
		j := g.r.Intn(i + 1)
		sz[i], sz[j] = sz[j], sz[i]
	}
	items := make([]string, len(sz))
	for i, n := range sz {
		items[i] = fmt.Sprint(n)
	}
	sizes := strings.Join(items, ",")
	rewrites := []string{
		hx.Enc(g.bytes(2)) + "," + hx.Enc(g.bytes(1+g.r.Intn(len(old)-3))),
		hx.Enc(g.bytes(len(old)/2)) + "," + hx.Enc(g.bytes(len(old)-len(old)/2)),
		hx.Enc(g.bytes(3)) + "," + hx.Enc(g.bytes(len(old))),
	}
	for _, be := range []string{"mem", "encmem", "cache", "rcache"} {
		for split := 0; split <= len(sz)+1; split++ {
			for _, rw := range rewrites {
				g.emit("rdq %s %s %d %s %s", be, hx.Enc(old), split, sizes, rw)
				g.count["queuepos"]++
			}
		}
		db := g.backend()
		for split := 0; split <= 4; split++ {
			g.emit("scopyq %s %s %s %s %d %s %s", be, db, hx.Enc(old), "absent", split, sizes, rewrites[split%len(rewrites)])
			g.count["queuepos"]++
		}
	}
	g.count["queueblock"]++
}

func (g *gen) lineRd() {
	data := g.content(g.r.Chance(1, 8))
	n := g.r.Intn(9)
	sizes := make([]string, n)
	for i := range sizes {
		switch x := g.r.Intn(20); {
		case x == 0:
			sizes[i] = "0"
		case x == 1:
			sizes[i] = "40000"
		default:
			sizes[i] = fmt.Sprint(chunkPool[g.r.Intn(len(chunkPool))])
		}
	}
	g.count["line:rd"]++
	g.emit("rd %s %s%s", g.backend(), hx.Enc(data), prefixed(sizes))
}

func (g *gen) pickPath(t *treeB, wantFile int, wantDir int, wantAbsent int) string {
	x := g.r.Intn(wantFile + wantDir + wantAbsent)
	fs, ds := t.files(), t.dirs()
	switch {
	case x < wantFile && len(fs) > 0:
		return fs[g.r.Intn(len(fs))]
	case x < wantFile+wantDir && len(ds) > 0:
		return ds[g.r.Intn(len(ds))]
	}
	return g.path(pool, 3)
}

func (g *gen) lineScopy() {
	src := g.srcTree(false)
	dst := g.dstTree(src, "", true)
	sizes := g.sizesTok(true)
	fault := "-"
	if sizes != "raw" && g.r.Chance(3, 10) {
		fault = g.randomFault(stagesStream)
	}
	g.count["line:scopy"]++
	g.emit("scopy %s %s %s %s %s %s %s", g.backend(), g.backend(), src.token(), dst.token(),
		g.pickPath(src, 75, 10, 15), sizes, fault)
}

func (g *gen) lineTcopy() {
	src := g.srcTree(false)
	dst := g.dstTree(src, "", true)
	sizes := g.sizesTok(true)
	fault := "-"
	if sizes != "raw" && g.r.Chance(3, 10) {
		fault = g.randomFault(stagesTree)
	}
	g.count["line:tcopy"]++
	g.emit("tcopy %s %s %s %s %s %s %d %d", g.backend(), g.backend(), src.token(), dst.token(), sizes, fault,
		g.r.Intn(1000000), g.r.Intn(4))
}

func (g *gen) lineCopier() {
	src := g.srcTree(false)
	sp := "-"
	switch x := g.r.Intn(100); {
	case x < 15:
	case x < 60:
		sp = g.pickPath(src, 0, 1, 0)
	case x < 85:
		sp = g.pickPath(src, 1, 0, 0)
	default:
		sp = g.path(pool, 3)
	}
	// the subtree that will be copied, to derive a destination that collides with it
	sub := newTreeB()
	spath := ""
	if sp != "-" {
		spath = sp
	}
	for _, p := range src.order {
		if spath == "" {
			sub.insert(p, src.kind[p] == 'd', src.data[p])
		} else if strings.HasPrefix(p, spath+"/") {
			sub.insert(p[len(spath)+1:], src.kind[p] == 'd', src.data[p])
		}
	}
	dp := "-"
	switch x := g.r.Intn(100); {
	case x < 10:
	case x < 50:
		dp = g.r.Pick([]string{"t", "u", "k"})
	case x < 70:
		dp = g.r.Pick([]string{"t/u", "k/t", "a/t"})
	default:
		dp = g.path(pool, 2)
	}
	dbase := ""
	if dp != "-" {
		dbase = dp
	}
	dst := g.dstTree(sub, dbase, true)
	if g.r.Chance(1, 4) && dbase != "" {
		// the destination path itself pre-exists: a directory, or (rarely) a file
		if g.r.Chance(1, 5) {
			dst.insert(dbase, false, g.bytes(3))
		} else {
			dst.insert(dbase, true, nil)
		}
	}
	sizes := g.sizesTok(true)
	fault := "-"
	if sizes != "raw" && g.r.Chance(3, 10) {
		fault = g.randomFault(stagesCopier)
	}
	g.count["line:copier"]++
	g.emit("copier %s %s %s %s %s %s %s %s %d %d", g.backend(), g.backend(), src.token(), sp, dst.token(), dp,
		sizes, fault, g.r.Intn(1000000), g.r.Intn(4))
}

// simulate the io.Copy loop: how many Read and Write calls a file of length n takes under the chunking.
func simulate(n int, sizes []int, lazy bool) (reads, writes int) {
	pos := 0
	for i := 0; ; i++ {
		lim := 32768
		if i < len(sizes) && sizes[i] < lim {
			lim = sizes[i]
		}
		reads++
		c := lim
		if n-pos < c {
			c = n - pos
		}
		pos += c
		if c > 0 {
			writes++
		}
		if lazy {
			if c == 0 && lim > 0 {
				return
			}
		} else if pos == n {
			return
		}
		if i > 1<<20 {
			return
		}
	}
}

// faultBlock emits, for one small case of each helper, a line for EVERY call index of every stage the
// helper reaches: 0 .. (number of calls of the stage in a fault-free run), the last index not firing.
func (g *gen) faultBlock() {
	src := g.srcTree(true)
	dst := g.dstTree(src, "", false)
	sb, db := g.backend(), g.backend()
	n := 1 + g.r.Intn(3)
	sz := make([]int, n)
	items := make([]string, n)
	for i := range sz {
		sz[i] = chunkPool[g.r.Intn(3)]
		items[i] = fmt.Sprint(sz[i])
	}
	sizes := strings.Join(items, ",")
	lazy := sb == "disk"
	counts := func(files []string, data map[string][]byte, ndirs int) map[string]int {
		c := map[string]int{}
		for _, f := range files {
			r, w := simulate(len(data[f]), sz, lazy)
			c["read"] += r
			c["write"] += w
		}
		c["openReader"], c["openWriter"] = len(files), len(files)
		c["closeReader"], c["closeWriter"] = len(files), len(files)
		c["mkdir"] = ndirs + len(files)
		c["list"] = 1 + ndirs
		return c
	}
	each := func(stages []string, c map[string]int, emit func(fault string)) {
		for _, st := range stages {
			for k := 0; k <= c[st]; k++ {
				emit(fmt.Sprintf("%s:%d:h", st, k))
				g.count["faultpos"]++
				if st == "read" || st == "write" || st == "closeWriter" {
					emit(fmt.Sprintf("%s:%d:s", st, k))
					g.count["faultpos"]++
				}
			}
		}
	}
	seed, extra := g.r.Intn(1000000), g.r.Intn(3)
	// tree copy
	c := counts(src.files(), src.data, len(src.dirs()))
	each(stagesTree, c, func(fault string) {
		g.emit("tcopy %s %s %s %s %s %s %d %d", sb, db, src.token(), dst.token(), sizes, fault, seed, extra)
	})
	// copier of the whole tree into a sub-directory
	c["mkdir"]++
	c["srcView"], c["dstView"] = 1, 1
	dp := g.r.Pick([]string{"t", "t/u", "-"})
	dst2 := dst
	if dp != "-" {
		dst2 = g.dstTree(src, dp, false)
	}
	each(stagesCopier, c, func(fault string) {
		g.emit("copier %s %s %s - %s %s %s %s %d %d", sb, db, src.token(), dst2.token(), dp, sizes, fault, seed, extra)
	})
	// stream copy of one file
	if fs := src.files(); len(fs) > 0 {
		f := fs[g.r.Intn(len(fs))]
		r, w := simulate(len(src.data[f]), sz, lazy)
		c1 := map[string]int{"openReader": 1, "openWriter": 1, "closeReader": 1, "closeWriter": 1, "read": r, "write": w}
		// the parent must exist for a disk-like destination: copy into a destination that has the directories
		dst3 := newTreeB()
		for _, d := range src.dirs() {
			dst3.insert(d, true, nil)
		}
		if g.r.Chance(1, 2) {
			dst3.insert(f, false, g.bytes(len(src.data[f])+3))
		}
		each(stagesStream, c1, func(fault string) {
			g.emit("scopy %s %s %s %s %s %s %s", sb, db, src.token(), dst3.token(), f, sizes, fault)
		})
	}
	g.count["faultblock"]++
}

// genLines emits this shard's share of n random lines followed by `blocks` fault-enumeration blocks.
func genLines(w *bufio.Writer, stat *bufio.Writer, seed uint64, n, blocks int) {
	g := &gen{r: hx.NewRand(seed), w: w, count: map[string]int{}}
	for i := 0; i < n; i++ {
		switch x := g.r.Intn(100); {
		case x < 12:
			g.lineWr()
		case x < 17:
			g.lineWrq()
		case x < 23:
			g.lineRdq()
		case x < 27:
			g.lineScopyq()
		case x < 35:
			g.lineRd()
		case x < 53:
			g.lineScopy()
		case x < 78:
			g.lineTcopy()
		default:
			g.lineCopier()
		}
	}
	for i := 0; i < blocks; i++ {
		g.faultBlock()
		g.queueBlock()
	}
	if stat != nil {
		keys := make([]string, 0, len(g.count))
		for k := range g.count {
			keys = append(keys, k)
		}
		sort.Strings(keys)
		stat.WriteString("genstat")
		for _, k := range keys {
			fmt.Fprintf(stat, " %s=%d", k, g.count[k])
		}
		stat.WriteString("\n")
	}
}
