// Command stream is the implementation side of the `stream` line protocol (property C04: streams and
// cross-filespace copies are byte-exact and replace old content).  The protocol is described in
// /verif/lean/Driver/Stream.lean (model driver `m_stream`).
//
//	stream drive [-stats <file>]        case lines on stdin -> one result line per case; the REAL code:
//	                                    memfs / diskfs (temp dirs under /var/tmp, removed per case) / encryptfs over
//	                                    memory (AES-GCM) and over disk (ext cipher) / fscache over memory, as source
//	                                    and destination; Writer/Reader; fshelper.StreamCopy, Copy, Copier through a
//	                                    fault-injecting, chunk-limiting Filespace decorator (fault.go)
//	stream gen <n> <shard> <nshards> <blocks>   this shard's share of n random cases, then <blocks> blocks that
//	                                    enumerate every call index of every stage for a small case (gen.go)
//	stream oracle <n> <shard> <nshards> <blocks>  the property evaluated on the implementation alone (no Lean model):
//	                                    expectations are known by construction from the case line
//	                                    prints `FAIL <clause…>` + `L <case line>` per failing case and a summary line
//	stream check                        case lines on stdin, oracle mode (replays)
package main

import (
	"bufio"
	"encoding/json"
	"fmt"
	"hash/fnv"
	"os"
	"sort"
	"strconv"
	"strings"

	"gcverif/internal/hx"
)

func seedFor(shard int, oracle bool) uint64 {
	s := hx.SeedFromEnv()*1000003 + uint64(shard)*7919 + 4
	if oracle {
		s += 500000007
	}
	return s
}

type stats struct {
	Lines     int            `json:"lines"`
	Histogram map[string]int `json:"histogram"`
	Faults    map[string]int `json:"faults"` // enumerated / fired / fired_err / fired_ok / notfired_ok …
	Pairs     map[string]int `json:"pairs"`  // source>destination backend pairs of the copy cases
	Stages    map[string]int `json:"stages"` // fault positions per stage
	// distinct non-trivial cases: 64-bit digests of the case lines that moved at least one byte or met a
	// pre-existing node / a fault (see nontrivial)
	Nontrivial int      `json:"nontrivial"`
	Hashes     []string `json:"hashes"`
	seen       map[uint64]bool
}

// nontrivial: the case exercises more than the empty path of the code — a writer over something that
// exists (or several chunks), a reader with at least two reads of a non-empty file, a copy of a non-empty
// source.  Malformed lines and set-up failures never count.
func nontrivial(f []string, verdict string) bool {
	if verdict == "bad-op" || verdict == "setup-err" {
		return false
	}
	switch f[0] {
	case "wr":
		return len(f) >= 4 && (f[2] != "absent" || len(f) >= 5)
	case "wrq":
		return len(f) == 7 && f[5] != "_" && f[6] != "_"
	case "rd":
		return len(f) >= 5 && f[2] != "-"
	case "rdq": // at least two reads of a non-empty file, a non-empty rewrite
		return len(f) == 6 && f[2] != "-" && strings.Contains(f[4], ",") && f[5] != "_"
	case "scopyq":
		return len(f) == 8 && f[3] != "-" && f[7] != "_"
	case "scopy", "tcopy":
		return len(f) >= 4 && f[3] != "-"
	case "copier":
		return len(f) >= 4 && f[3] != "-"
	}
	return false
}

func newStats() *stats {
	return &stats{Histogram: map[string]int{}, Faults: map[string]int{}, Pairs: map[string]int{}, Stages: map[string]int{},
		seen: map[uint64]bool{}}
}

func (st *stats) account(line string, o outcome) {
	st.Lines++
	f := strings.Split(line, " ")
	verdict := o.line
	if i := strings.IndexByte(verdict, ' '); i >= 0 {
		verdict = verdict[:i]
	}
	st.Histogram[f[0]+":"+verdict]++
	for _, t := range o.tags {
		st.Histogram[t]++
	}
	if nontrivial(f, verdict) {
		h := fnv.New64a()
		h.Write([]byte(line))
		if !st.seen[h.Sum64()] {
			st.seen[h.Sum64()] = true
			st.Nontrivial++
		}
	}
	var fault string
	switch f[0] {
	case "scopy":
		if len(f) == 8 {
			st.Pairs[f[1]+">"+f[2]]++
			fault = f[7]
			if f[6] == "raw" {
				st.Histogram["chunking:raw"]++
			}
		}
	case "tcopy":
		if len(f) == 9 {
			st.Pairs[f[1]+">"+f[2]]++
			fault = f[6]
			if f[5] == "raw" {
				st.Histogram["chunking:raw"]++
			}
		}
	case "copier":
		if len(f) == 11 {
			st.Pairs[f[1]+">"+f[2]]++
			fault = f[8]
			if f[7] == "raw" {
				st.Histogram["chunking:raw"]++
			}
		}
	case "wr":
		if len(f) >= 3 {
			old := f[2]
			if old != "absent" && old != "dir" && old != "noparent" {
				old = "file"
			}
			st.Histogram["wr-old:"+old+":"+verdict]++
			st.Histogram["backend:"+f[1]]++
		}
	case "rd":
		if len(f) >= 2 {
			st.Histogram["backend:"+f[1]]++
		}
	}
	if fault != "" && fault != "-" {
		st.Faults["positions"]++
		st.Stages[strings.SplitN(fault, ":", 2)[0]]++
		switch {
		case o.fired && verdict == "err":
			st.Faults["fired_err"]++
		case o.fired && verdict == "ok":
			st.Faults["fired_ok"]++
		case o.fired:
			st.Faults["fired_"+verdict]++
		case verdict == "ok":
			st.Faults["notfired_ok"]++
		default:
			st.Faults["notfired_"+verdict]++
		}
	}
}

func (st *stats) write(path string) {
	for k := range st.seen {
		st.Hashes = append(st.Hashes, strconv.FormatUint(k, 16))
	}
	sort.Strings(st.Hashes)
	b, _ := json.Marshal(st)
	_ = os.WriteFile(path, b, 0644)
}

func scanner() *bufio.Scanner {
	sc := bufio.NewScanner(os.Stdin)
	sc.Buffer(make([]byte, 1<<20), 1<<28)
	return sc
}

func atoi(s string) int {
	n, err := strconv.Atoi(s)
	if err != nil {
		fmt.Fprintln(os.Stderr, "bad number", s)
		os.Exit(2)
	}
	return n
}

// report prints the failures of one case in oracle mode.
func report(w *bufio.Writer, line string, o outcome) int {
	for _, f := range o.fails {
		fmt.Fprintf(w, "FAIL %s\n", f)
	}
	if len(o.fails) > 0 {
		fmt.Fprintf(w, "L %s\n", line)
	}
	return len(o.fails)
}

func main() {
	w := bufio.NewWriterSize(os.Stdout, 1<<20)
	defer w.Flush()
	a := os.Args
	switch {
	case len(a) >= 2 && a[1] == "drive":
		statsPath := ""
		if len(a) >= 4 && a[2] == "-stats" {
			statsPath = a[3]
		}
		st := newStats()
		sc := scanner()
		for sc.Scan() {
			line := sc.Text()
			if line == "" || strings.HasPrefix(line, "#") {
				continue
			}
			o := runLine(line, false)
			w.WriteString(o.line)
			w.WriteByte('\n')
			st.account(line, o)
		}
		if statsPath != "" {
			st.write(statsPath)
		}
	case len(a) == 6 && a[1] == "gen":
		n, shard, nshards, blocks := atoi(a[2]), atoi(a[3]), atoi(a[4]), atoi(a[5])
		stat := bufio.NewWriter(os.Stderr)
		genLines(w, stat, seedFor(shard, false), share(n, shard, nshards), blocks)
		stat.Flush()
	case len(a) == 6 && a[1] == "oracle":
		n, shard, nshards, blocks := atoi(a[2]), atoi(a[3]), atoi(a[4]), atoi(a[5])
		// generate into memory, then evaluate every case
		var buf strings.Builder
		bw := bufio.NewWriter(&buf)
		genLines(bw, nil, seedFor(shard, true), share(n, shard, nshards), blocks)
		bw.Flush()
		st := newStats()
		fails, cases := 0, 0
		for _, line := range strings.Split(buf.String(), "\n") {
			if line == "" {
				continue
			}
			o := runLine(line, true)
			cases++
			st.account(line, o)
			fails += report(w, line, o)
		}
		fmt.Fprintf(w, "oracle cases=%d fails=%d faultpos=%d fired=%d fired_err=%d fired_ok=%d", cases, fails,
			st.Faults["positions"], st.Faults["fired_err"]+st.Faults["fired_ok"], st.Faults["fired_err"], st.Faults["fired_ok"])
		for _, k := range []string{"wr:ok", "wr:err", "wrq:ok", "wrq:err", "rdq:ok", "rdq:err", "scopyq:ok", "scopyq:err",
			"rdq-sched:wait", "rdq-sched:free", "scopyq-sched:wait", "scopyq-sched:free", "rd:rd", "scopy:ok", "scopy:err", "tcopy:ok", "tcopy:err", "copier:ok",
			"copier:err", "chunking:raw"} {
			fmt.Fprintf(w, " %s=%d", k, st.Histogram[k])
		}
		for _, bad := range []string{"panic", "hang", "setup-err"} {
			nbad := 0
			for k, v := range st.Histogram {
				if strings.HasSuffix(k, ":"+bad) {
					nbad += v
				}
			}
			fmt.Fprintf(w, " %s=%d", bad, nbad)
		}
		w.WriteString("\n")
	case len(a) == 2 && a[1] == "check":
		sc := scanner()
		fails, cases := 0, 0
		for sc.Scan() {
			line := sc.Text()
			if line == "" || strings.HasPrefix(line, "#") {
				continue
			}
			o := runLine(line, true)
			cases++
			fmt.Fprintf(w, "R %s\n", clip(o.line))
			fails += report(w, line, o)
		}
		fmt.Fprintf(w, "oracle cases=%d fails=%d\n", cases, fails)
	default:
		fmt.Fprintln(os.Stderr, "usage: stream drive [-stats file] | gen <n> <shard> <nshards> <blocks> | "+
			"oracle <n> <shard> <nshards> <blocks> | check")
		os.Exit(2)
	}
}

func share(n, shard, nshards int) int {
	c := n / nshards
	if shard < n%nshards {
		c++
	}
	return c
}
