//go:build !verif
// +build !verif

package main

// installHook: without the verif tag the yield points are empty functions.
func installHook(f func(point string)) {}
