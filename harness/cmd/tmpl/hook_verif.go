//go:build verif
// +build verif

package main

import "github.com/goatcms/goatcore/verifhook"

// installHook routes the repository's yield points (build tag verif) to f.
func installHook(f func(point string)) { verifhook.Set(f) }
