// Command tmpl is the harness of property C19 (template providers).
//
//	tmpl drive                 run the real providers on `tmpl` protocol lines (stdin), one result line each
//	tmpl gen <cases>           seeded generator of protocol lines (every case in the four configurations
//	                           html/text x cached on/off)
//	tmpl oracle <cases> [known=exec,colon]
//	                           the property's clauses evaluated on the implementation alone, against a
//	                           reference renderer built directly with html/template / text/template
//	tmpl stress <rounds>       concurrent first use from 2..32 goroutines, each run in a CHILD PROCESS
//	                           (re-exec of this binary); exit status and stderr are reported
//	tmpl child <kind> <g> <rounds> <seed>   the child itself
//
// Protocol (all byte strings hex, "-" = empty):
//
//	new <html|text> <on|off>
//	file <path> <root> <name>=<body>,...|- [bad]
//	dir <path>
//	base [exec] | layout <l> [exec] | view <l> <v> [exec]
//
// Result lines: ok | defs <name>=<body>,... (sorted) | defs - | err | panic
package main

import (
	"bufio"
	"bytes"
	"fmt"
	htemplate "html/template"
	"os"
	"os/exec"
	"regexp"
	"runtime"
	"sort"
	"strconv"
	"strings"
	"sync"
	"sync/atomic"
	ttemplate "text/template"
	"text/template/parse"
	"time"

	"gcverif/internal/hx"

	"github.com/goatcms/goatcore/filesystem"
	"github.com/goatcms/goatcore/filesystem/filespace/memfs"
	"github.com/goatcms/goatcore/goathtml/ghprovider"
	"github.com/goatcms/goatcore/goattext/gtprovider"
)

// FS is the filespace interface (alias: the interface has a method named Filespace).
type FS = filesystem.Filespace

const (
	ext         = ".tpl"
	helpersPath = "helpers/"
	layoutPath  = "layouts/{name}/"
	viewPath    = "views/{name}/"
	rootName    = "baseTemplate"
)

// ---------------------------------------------------------------- template sets of both kinds

type tset interface {
	defined() string
	tree(name string) *parse.Tree
	render(name string) (string, error)
	clone() (tset, error)
	parse(text string) error
}

type hset struct{ t *htemplate.Template }

func (h hset) defined() string { return h.t.DefinedTemplates() }
func (h hset) tree(name string) *parse.Tree {
	if x := h.t.Lookup(name); x != nil {
		return x.Tree
	}
	return nil
}
func (h hset) render(name string) (string, error) {
	var b bytes.Buffer
	err := h.t.ExecuteTemplate(&b, name, nil)
	return b.String(), err
}
func (h hset) clone() (tset, error) {
	c, err := h.t.Clone()
	if err != nil {
		return nil, err
	}
	return hset{c}, nil
}
func (h hset) parse(text string) error { _, err := h.t.Parse(text); return err }

type xset struct{ t *ttemplate.Template }

func (h xset) defined() string { return h.t.DefinedTemplates() }
func (h xset) tree(name string) *parse.Tree {
	if x := h.t.Lookup(name); x != nil {
		return x.Tree
	}
	return nil
}
func (h xset) render(name string) (string, error) {
	var b bytes.Buffer
	err := h.t.ExecuteTemplate(&b, name, nil)
	return b.String(), err
}
func (h xset) clone() (tset, error) {
	c, err := h.t.Clone()
	if err != nil {
		return nil, err
	}
	return xset{c}, nil
}
func (h xset) parse(text string) error { _, err := h.t.Parse(text); return err }

func newSet(kind string) tset {
	if kind == "html" {
		return hset{htemplate.New(rootName)}
	}
	return xset{ttemplate.New(rootName)}
}

var quoted = regexp.MustCompile(`"((?:[^"\\]|\\.)*)"`)

// definedNames parses the public DefinedTemplates() listing.
func definedNames(t tset) []string {
	var res []string
	for _, m := range quoted.FindAllStringSubmatch(t.defined(), -1) {
		if s, err := strconv.Unquote(`"` + m[1] + `"`); err == nil {
			res = append(res, s)
		}
	}
	sort.Strings(res)
	return res
}

// Obs is what a caller can see of a template set: the defined names with their bodies and what
// each of them renders to.
type Obs struct {
	Err  bool
	Hang bool // the request never returned (watchdog); the provider is not asked again
	Defs map[string]string
	Rend map[string]string
}

func (o Obs) defsLine() string {
	if o.Hang {
		return "hang"
	}
	if o.Err {
		return "err"
	}
	var items []string
	for n, b := range o.Defs {
		items = append(items, hx.Enc([]byte(n))+"="+hx.Enc([]byte(b)))
	}
	if len(items) == 0 {
		return "defs -"
	}
	sort.Strings(items)
	return "defs " + strings.Join(items, ",")
}

func (o Obs) full() string {
	if o.Err {
		return "err"
	}
	var names []string
	for n := range o.Defs {
		names = append(names, n)
	}
	sort.Strings(names)
	var b strings.Builder
	for _, n := range names {
		fmt.Fprintf(&b, "%q=%q->%q;", n, o.Defs[n], o.Rend[n])
	}
	return b.String()
}

// observe looks at a template the way the property does.  With direct=false the rendering is done
// on a clone so that looking does not change the object (html/template marks a set as executed);
// an object that can no longer be cloned has been executed already and is rendered directly.
func observe(t tset, direct bool) Obs {
	o := Obs{Defs: map[string]string{}, Rend: map[string]string{}}
	names := definedNames(t)
	for _, n := range names {
		if tr := t.tree(n); tr != nil && tr.Root != nil {
			o.Defs[n] = tr.Root.String()
		}
	}
	target := t
	if !direct {
		if c, err := t.clone(); err == nil {
			target = c
		}
	}
	for _, n := range names {
		out, err := target.render(n)
		if err != nil {
			o.Rend[n] = "!err"
		} else {
			o.Rend[n] = "=" + out
		}
	}
	return o
}

// ---------------------------------------------------------------- providers

type provider interface {
	call(r ReqSpec) (tset, error)
}

type hprov struct{ p *ghprovider.Provider }

func (h hprov) call(r ReqSpec) (tset, error) {
	var t *htemplate.Template
	var err error
	switch r.Op {
	case "base":
		t, err = h.p.Base()
	case "layout":
		t, err = h.p.Layout(r.L)
	default:
		t, err = h.p.View(r.L, r.V)
	}
	if err != nil || t == nil {
		if err == nil {
			err = fmt.Errorf("nil template without error")
		}
		return nil, err
	}
	return hset{t}, nil
}

type xprov struct{ p *gtprovider.Provider }

func (h xprov) call(r ReqSpec) (tset, error) {
	var t *ttemplate.Template
	var err error
	switch r.Op {
	case "base":
		t, err = h.p.Base()
	case "layout":
		t, err = h.p.Layout(r.L)
	default:
		t, err = h.p.View(r.L, r.V)
	}
	if err != nil || t == nil {
		if err == nil {
			err = fmt.Errorf("nil template without error")
		}
		return nil, err
	}
	return xset{t}, nil
}

func newProvider(kind string, fs FS, cached bool) provider {
	if kind == "html" {
		return hprov{ghprovider.NewProvider(fs, helpersPath, layoutPath, viewPath, ext, nil, cached)}
	}
	return xprov{gtprovider.NewProvider(fs, helpersPath, layoutPath, viewPath, ext, nil, cached)}
}

// ask performs one request and observes the answer; a panic is a result.
func ask(p provider, r ReqSpec) (Obs, bool) {
	if _, bad := hungProviders.Load(p); bad {
		return Obs{Err: true, Hang: true}, false
	}
	type answer struct {
		o   Obs
		pan bool
	}
	ch := make(chan answer, 1)
	go func() {
		var a answer
		a.pan, _ = hx.Guard(func() {
			t, err := p.call(r)
			if err != nil {
				a.o = Obs{Err: true}
				return
			}
			a.o = observe(t, r.Exec)
		})
		ch <- a
	}()
	// a request that never returns (a lock left behind by an earlier request of this provider) is a result,
	// not the end of the driver: generous watchdog for the first one of a process, short afterwards
	wd := 20 * time.Second
	if ms, err := strconv.Atoi(os.Getenv("TMPL_WATCHDOG_MS")); err == nil && ms > 0 {
		wd = time.Duration(ms) * time.Millisecond // only set by the check while it minimises a failing block
	}
	if atomic.LoadInt32(&askHangs) > 0 {
		wd = 2 * time.Second
	}
	select {
	case a := <-ch:
		return a.o, a.pan
	case <-time.After(wd):
		atomic.AddInt32(&askHangs, 1)
		hungProviders.Store(p, true)
		return Obs{Err: true, Hang: true}, false
	}
}

var (
	askHangs      int32
	hungProviders sync.Map
)

// ---------------------------------------------------------------- reference renderer

func refWalk(fs FS, dir string, t tset) error {
	if !fs.IsDir(dir) {
		return nil
	}
	infos, err := fs.ReadDir(dir)
	if err != nil {
		return err
	}
	for _, info := range infos {
		p := strings.TrimSuffix(dir, "/") + "/" + info.Name()
		if info.IsDir() {
			if err := refWalk(fs, p, t); err != nil {
				return err
			}
			continue
		}
		if !strings.HasSuffix(p, ext) {
			continue
		}
		data, err := fs.ReadFile(p)
		if err != nil {
			return err
		}
		if len(data) == 0 {
			return fmt.Errorf("empty file") // the loaders' own rule
		}
		if err := t.parse(string(data)); err != nil {
			return err
		}
	}
	return nil
}

func normL(l string) string {
	if l == "" {
		return "default"
	}
	return l
}

// reference builds the template the property describes directly with the standard library:
// helpers, then the layout's files, then the view's files, parsed into one set.
func reference(kind string, fs FS, r ReqSpec) Obs {
	t := newSet(kind)
	if err := refWalk(fs, "helpers", t); err != nil {
		return Obs{Err: true}
	}
	if r.Op == "layout" || r.Op == "view" {
		if r.Op == "view" && r.V == "" {
			return Obs{Err: true}
		}
		if err := refWalk(fs, "layouts/"+normL(r.L), t); err != nil {
			return Obs{Err: true}
		}
	}
	if r.Op == "view" {
		if err := refWalk(fs, "views/"+r.V, t); err != nil {
			return Obs{Err: true}
		}
	}
	return observe(t, true)
}

// ---------------------------------------------------------------- cases

// FileSpec is one template file.
type FileSpec struct {
	Path string
	Root string
	Defs [][2]string
	Bad  bool
}

func (f FileSpec) content() []byte {
	var b strings.Builder
	for _, d := range f.Defs {
		fmt.Fprintf(&b, "{{define %q}}%s{{end}}", d[0], d[1])
	}
	b.WriteString(f.Root)
	if f.Bad {
		b.WriteString("{{")
	}
	return []byte(b.String())
}

func (f FileSpec) line() string {
	defs := "-"
	if len(f.Defs) > 0 {
		var items []string
		for _, d := range f.Defs {
			items = append(items, hx.Enc([]byte(d[0]))+"="+hx.Enc([]byte(d[1])))
		}
		defs = strings.Join(items, ",")
	}
	s := "file " + hx.Enc([]byte(f.Path)) + " " + hx.Enc([]byte(f.Root)) + " " + defs
	if f.Bad {
		s += " bad"
	}
	return s
}

// ReqSpec is one request.
type ReqSpec struct {
	Op   string
	L, V string
	Exec bool
}

func (r ReqSpec) line() string {
	s := r.Op
	if r.Op != "base" {
		s += " " + hx.Enc([]byte(r.L))
	}
	if r.Op == "view" {
		s += " " + hx.Enc([]byte(r.V))
	}
	if r.Exec {
		s += " exec"
	}
	return s
}

func (r ReqSpec) key() string { return r.Op + "|" + normL(r.L) + "|" + r.V }

// Case is a file set plus a request order.
type Case struct {
	Files []FileSpec // in creation order (interleaved with Dirs by index -1 marker not needed: dirs first)
	Dirs  []string
	Reqs  []ReqSpec
	Tags  []string
}

func (c Case) setup(fs FS) error {
	for _, d := range c.Dirs {
		if err := fs.MkdirAll(d, 0777); err != nil {
			return err
		}
	}
	for _, f := range c.Files {
		if err := fs.WriteFile(f.Path, f.content(), 0666); err != nil {
			return err
		}
	}
	return nil
}

func (c Case) lines(kind string, cached bool) []string {
	on := "off"
	if cached {
		on = "on"
	}
	res := []string{"new " + kind + " " + on}
	for _, d := range c.Dirs {
		res = append(res, "dir "+hx.Enc([]byte(d)))
	}
	for _, f := range c.Files {
		res = append(res, f.line())
	}
	for _, r := range c.Reqs {
		res = append(res, r.line())
	}
	return res
}

var tnames = []string{"n0", "n1", "n2", "n3", "n4"}
var fnames = []string{"a.tpl", "b.tpl", "sub/c.tpl", "z/d.tpl", "note.txt", ".h.tpl", ".p/e.tpl", "sub/.f.tpl"}

type gen struct {
	r   *hx.Rand
	seq int
	// callable: indices into tnames that the helper layer of the current case defines with a
	// non-blank body, so that a call of them can be rendered in every template the case can build
	// (a call of an undefined template is Go's business: html/template then drops the caller from
	// the set, which would make looking at a template change it)
	callable []int
}

func (g *gen) token(layer string) string {
	g.seq++
	return fmt.Sprintf("%s%d", layer, g.seq)
}

// body of template tnames[i]: plain text, blank, or text that calls a later name (no cycles).
func (g *gen) body(layer string, i int) string {
	switch x := g.r.Intn(20); {
	case x < 2:
		return ""
	case x < 3:
		return " "
	case x < 9 && len(g.later(i)) > 0:
		j := g.later(i)[g.r.Intn(len(g.later(i)))]
		return g.token(layer) + `{{template "` + tnames[j] + `"}}` + g.token("")
	default:
		return g.token(layer)
	}
}

// later: callable names with a greater index than i (calls never form a cycle)
func (g *gen) later(i int) []int {
	var res []int
	for _, j := range g.callable {
		if j > i {
			res = append(res, j)
		}
	}
	return res
}

func (g *gen) file(dir, name, layer string, errs bool) FileSpec {
	f := FileSpec{Path: dir + "/" + name}
	if !strings.HasSuffix(name, ext) {
		f.Root, f.Bad = "ignored", true // would be a syntax error if it were parsed
		return f
	}
	nd := g.r.Intn(4)
	used := map[int]bool{}
	for k := 0; k < nd; k++ {
		i := g.r.Intn(len(tnames))
		if used[i] && !(errs && g.r.Chance(1, 3)) {
			continue
		}
		used[i] = true
		f.Defs = append(f.Defs, [2]string{tnames[i], g.body(layer, i)})
	}
	if g.r.Chance(1, 25) {
		f.Defs = append(f.Defs, [2]string{rootName, g.token(layer + "R")})
	}
	switch x := g.r.Intn(10); {
	case x < 5:
	case x < 8:
		f.Root = g.token(layer + "r")
	default:
		f.Root = g.token(layer + "r")
		if len(g.callable) > 0 {
			f.Root += `{{template "` + tnames[g.callable[g.r.Intn(len(g.callable))]] + `"}}`
		}
	}
	if errs && g.r.Chance(1, 6) {
		f.Bad = true
	}
	if errs && g.r.Chance(1, 8) {
		f.Defs, f.Root, f.Bad = nil, "", false // empty file
	}
	if len(f.Defs) == 0 && f.Root == "" && !(errs && g.r.Chance(1, 2)) {
		f.Root = g.token(layer + "r")
	}
	return f
}

func (g *gen) subset(pool []string, min int) []string {
	n := min + g.r.Intn(len(pool)-min+1)
	idx := g.perm(len(pool))
	var res []string
	for _, i := range idx[:n] {
		res = append(res, pool[i])
	}
	return res
}

func (g *gen) perm(n int) []int {
	p := make([]int, n)
	for i := range p {
		p[i] = i
	}
	for i := n - 1; i > 0; i-- {
		j := g.r.Intn(i + 1)
		p[i], p[j] = p[j], p[i]
	}
	return p
}

// newCase draws one case.  colon: use layout/view names whose joined cache keys can collide.
// errs: allow malformed / empty / doubly defining files.  big: the fixed 4x4 shape of the stress runs.
func (g *gen) newCase(colon, errs, big bool) Case {
	var c Case
	lpool := []string{"default", "la", "lb", "la/sub"}
	vpool := []string{"va", "vb", "vc", "va/sub"}
	// two (layout, view) pairs that coincide when the names are joined with a separator character: whatever
	// the providers key their view cache by, the pairs must stay apart (":" was the separator of the repaired
	// defect 7d60dbb; "/" is the one nested names contain anyway)
	sep := ":"
	if colon {
		sep = g.r.Pick([]string{":", "/"})
		lpool = []string{"p" + sep + "q", "p", "default", "la"}
		vpool = []string{"r", "q" + sep + "r", "va", "vb"}
		c.Tags = append(c.Tags, "colon-names")
	}
	layouts, views := g.subset(lpool, 1), g.subset(vpool, 1)
	if big {
		layouts, views = lpool, vpool
	}
	type lay struct{ dir, layer string }
	var dirs []lay
	g.callable = nil
	var files []FileSpec
	if !g.r.Chance(1, 5) || big {
		dirs = append(dirs, lay{"helpers", "h"})
		if g.r.Chance(3, 4) || big {
			f := FileSpec{Path: "helpers/base.tpl"}
			for _, i := range g.perm(len(tnames))[:1+g.r.Intn(3)] {
				g.callable = append(g.callable, i)
			}
			sort.Ints(g.callable)
			for k := len(g.callable) - 1; k >= 0; k-- { // later names first: a body may call them
				i := g.callable[k]
				b := g.token("h")
				if l := g.later(i); len(l) > 0 && g.r.Chance(1, 2) {
					b += `{{template "` + tnames[l[g.r.Intn(len(l))]] + `"}}`
				}
				f.Defs = append(f.Defs, [2]string{tnames[i], b})
			}
			files = append(files, f)
			c.Tags = append(c.Tags, "calls")
		}
	} else {
		c.Tags = append(c.Tags, "no-helpers")
	}
	for _, l := range layouts {
		dirs = append(dirs, lay{"layouts/" + l, "L" + l + "_"})
	}
	for _, v := range views {
		dirs = append(dirs, lay{"views/" + v, "V" + v + "_"})
	}
	for _, d := range dirs {
		if !big && g.r.Chance(1, 8) && !(d.dir == "helpers" && len(g.callable) > 0) {
			c.Dirs = append(c.Dirs, d.dir) // exists, but holds no file
			c.Tags = append(c.Tags, "empty-dir")
			continue
		}
		names := g.subset(fnames, 1)
		if len(names) > 3 {
			names = names[:3]
		}
		marked := false
		for _, n := range names {
			f := g.file(d.dir, n, d.layer, errs)
			if !marked && strings.HasSuffix(n, ext) && !f.Bad && (len(f.Defs) > 0 || f.Root != "") &&
				(strings.HasPrefix(d.dir, "views/") || strings.HasPrefix(d.dir, "layouts/")) {
				// a name that only the file's own directory defines (isolation oracle)
				f.Defs = append(f.Defs, [2]string{"only-" + f.Path[:strings.LastIndex(f.Path, "/")], g.token("M")})
				marked = true
			}
			files = append(files, f)
		}
	}
	for _, i := range g.perm(len(files)) { // creation order is not alphabetical and interleaves directories
		c.Files = append(c.Files, files[i])
	}
	for _, f := range c.Files {
		if f.Bad && strings.HasSuffix(f.Path, ext) {
			c.Tags = append(c.Tags, "bad-file")
		}
		if len(f.Defs) == 0 && f.Root == "" {
			c.Tags = append(c.Tags, "empty-file")
		}
	}
	lreq := append(append([]string{}, layouts...), "", "nolay")
	vreq := append(append([]string{}, views...), "nov")
	n := 3 + g.r.Intn(10)
	for i := 0; i < n; i++ {
		var r ReqSpec
		switch x := g.r.Intn(20); {
		case x < 2:
			r = ReqSpec{Op: "base", Exec: g.r.Chance(1, 6)}
		case x < 7:
			r = ReqSpec{Op: "layout", L: g.r.Pick(lreq), Exec: g.r.Chance(1, 6)}
		default:
			r = ReqSpec{Op: "view", L: g.r.Pick(lreq), V: g.r.Pick(vreq), Exec: g.r.Chance(1, 3)}
			if colon && g.r.Chance(1, 2) { // the two pairs whose joined keys coincide
				if g.r.Chance(1, 2) {
					r.L, r.V = "p"+sep+"q", "r"
				} else {
					r.L, r.V = "p", "q"+sep+"r"
				}
			}
			if g.r.Chance(1, 40) {
				r.V = ""
			}
		}
		c.Reqs = append(c.Reqs, r)
	}
	return c
}

func (g *gen) next() Case {
	return g.newCase(g.r.Chance(1, 7), g.r.Chance(1, 5), false)
}

// defect classes (DESIGN 1.5): decidable predicates on the request sequence
func dExec(c Case) bool { // KF-C19-1: a base/layout object of the cached html provider is executed
	for _, r := range c.Reqs {
		if r.Exec && r.Op != "view" {
			return true
		}
	}
	return false
}

func dColon(c Case) bool { // joined view keys of two different (layout, view) pairs coincide
	seen := map[string]string{}
	for _, r := range c.Reqs {
		if r.Op != "view" || r.V == "" {
			continue
		}
		k, pair := normL(r.L)+":"+r.V, normL(r.L)+"\x00"+r.V
		if p, ok := seen[k]; ok && p != pair {
			return true
		}
		seen[k] = pair
	}
	return false
}

// ---------------------------------------------------------------- drive

func drive() {
	in := bufio.NewScanner(os.Stdin)
	in.Buffer(make([]byte, 1<<20), 1<<26)
	out := bufio.NewWriter(os.Stdout)
	defer out.Flush()
	var fs FS
	var p provider
	emit := func(s string) { out.WriteString(s + "\n"); out.Flush() }
	for in.Scan() {
		line := strings.TrimRight(in.Text(), "\r\n")
		if line == "" || strings.HasPrefix(line, "#") {
			continue
		}
		f := strings.Split(line, " ")
		res := "bad-op"
		pan, hung := false, false
		done := make(chan struct{})
		go func() {
			defer close(done)
			pan, _ = hx.Guard(func() {
				switch {
				case f[0] == "new" && len(f) == 3:
					nfs, err := memfs.NewFilespace()
					if err != nil {
						res = "err"
						return
					}
					fs, p = nfs, newProvider(f[1], nfs, f[2] == "on")
					poisoned = false
					res = "ok"
				case f[0] == "file" && len(f) >= 4 && fs != nil:
					spec := FileSpec{Path: string(hx.MustDec(f[1])), Root: string(hx.MustDec(f[2])), Bad: len(f) == 5 && f[4] == "bad"}
					if f[3] != "-" {
						for _, kv := range strings.Split(f[3], ",") {
							x := strings.SplitN(kv, "=", 2)
							spec.Defs = append(spec.Defs, [2]string{string(hx.MustDec(x[0])), string(hx.MustDec(x[1]))})
						}
					}
					if err := fs.WriteFile(spec.Path, spec.content(), 0666); err != nil {
						res = "err"
						return
					}
					res = "ok"
				case f[0] == "dir" && len(f) == 2 && fs != nil:
					if err := fs.MkdirAll(string(hx.MustDec(f[1])), 0777); err != nil {
						res = "err"
						return
					}
					res = "ok"
				case (f[0] == "base" || f[0] == "layout" || f[0] == "view") && p != nil && poisoned:
					res = "hang" // an earlier request on this provider never returned: it is not asked again
				case (f[0] == "base" || f[0] == "layout" || f[0] == "view") && p != nil:
					r := ReqSpec{Op: f[0]}
					rest := f[1:]
					if r.Op != "base" && len(rest) > 0 {
						r.L, rest = string(hx.MustDec(rest[0])), rest[1:]
					}
					if r.Op == "view" && len(rest) > 0 {
						r.V, rest = string(hx.MustDec(rest[0])), rest[1:]
					}
					r.Exec = len(rest) == 1 && rest[0] == "exec"
					o, pn := ask(p, r)
					if pn {
						res = "panic"
					} else {
						res = o.defsLine()
					}
				}
			})
		}()
		// a provider call that never returns (a lock left behind by an earlier request) must not take the
		// driver with it: generous watchdog for the first one, a short one afterwards (the property has
		// failed on that request already); a request after a hang runs on a poisoned provider until `new`
		wd := 20 * time.Second
		if ms, err := strconv.Atoi(os.Getenv("TMPL_WATCHDOG_MS")); err == nil && ms > 0 {
			wd = time.Duration(ms) * time.Millisecond // only set by the check while it minimises a failing block
		}
		if driveHangs > 0 {
			wd = 2 * time.Second
		}
		select {
		case <-done:
		case <-time.After(wd):
			hung = true
			poisoned = true
			driveHangs++
		}
		switch {
		case hung:
			res = "hang"
		case pan:
			res = "panic"
		}
		emit(res)
	}
}

var (
	driveHangs int
	poisoned   bool
)

// ---------------------------------------------------------------- gen

func genMain(n int) {
	g := &gen{r: hx.NewRand(hx.SeedFromEnv())}
	out := bufio.NewWriter(os.Stdout)
	defer out.Flush()
	for i := 0; i < n; i++ {
		c := g.next()
		for _, kind := range []string{"html", "text"} {
			for _, cached := range []bool{true, false} {
				for _, l := range c.lines(kind, cached) {
					out.WriteString(l + "\n")
				}
			}
		}
	}
}

// ---------------------------------------------------------------- oracle

type tally struct {
	mu sync.Mutex
	m  map[string]int
}

func (t *tally) add(k string, n int) {
	t.mu.Lock()
	t.m[k] += n
	t.mu.Unlock()
}

// underDir: a marker defined in directory d (relative to views/ or layouts/) is visible to the
// request named req when d is req's directory or lies below it.
func underDir(d, req string) bool {
	return d == req || strings.HasPrefix(d, req+"/")
}

func oracleMain(n int, known map[string]bool) {
	g := &gen{r: hx.NewRand(hx.SeedFromEnv() ^ 0x5eed0c19)}
	out := bufio.NewWriter(os.Stdout)
	defer out.Flush()
	tl := &tally{m: map[string]int{}}
	fails := 0
	fail := func(c Case, kind string, cached bool, clause string, idx int, detail string) {
		fails++
		if fails > 20 {
			return
		}
		fmt.Fprintf(out, "FAIL %s kind=%s cached=%v req=%d %s\n", clause, kind, cached, idx, detail)
		for _, l := range c.lines(kind, cached) {
			fmt.Fprintf(out, "| %s\n", l)
		}
		if clause == "cache-transparent" { // the replay needs the uncached twin as well
			for _, l := range c.lines(kind, false) {
				fmt.Fprintf(out, "| %s\n", l)
			}
		}
	}
	for i := 0; i < n; i++ {
		c := g.next()
		for _, t := range c.Tags {
			tl.add("case:"+t, 1)
		}
		tl.add("cases", 1)
		for _, kind := range []string{"html", "text"} {
			var answers [2][]Obs
			for ci, cached := range []bool{true, false} {
				fs, err := memfs.NewFilespace()
				if err != nil || c.setup(fs) != nil {
					fmt.Fprintf(os.Stderr, "memfs setup failed\n")
					os.Exit(3)
				}
				p := newProvider(kind, fs, cached)
				inExec := cached && kind == "html" && dExec(c)
				inColon := cached && dColon(c)
				skip := (inExec && known["exec"]) || (inColon && known["colon"])
				if inExec {
					tl.add("class:exec", 1)
				}
				if inColon {
					tl.add("class:colon", 1)
				}
				first := map[string]Obs{}
				for idx, r := range c.Reqs {
					o, pan := ask(p, r)
					answers[ci] = append(answers[ci], o)
					tl.add("evals", 1)
					tl.add("req:"+r.Op, 1)
					if pan {
						fail(c, kind, cached, "no-panic", idx, "the provider panicked")
						continue
					}
					if o.Err {
						tl.add("ans:err", 1)
					} else {
						tl.add("ans:ok", 1)
					}
					if skip {
						continue
					}
					// clause 1: the answer is the layered template the reference builds
					ref := reference(kind, fs, r)
					if o.full() != ref.full() {
						fail(c, kind, cached, "layering-vs-reference", idx, fmt.Sprintf("impl %s ref %s", o.full(), ref.full()))
					}
					// clause 3: asking twice gives equivalent templates
					if prev, ok := first[r.key()]; ok {
						tl.add("asked-again", 1)
						if prev.full() != o.full() {
							fail(c, kind, cached, "ask-twice", idx, fmt.Sprintf("first %s now %s", prev.full(), o.full()))
						}
					} else {
						first[r.key()] = o
					}
					// clause 4: isolation, by construction of the marker names
					if !o.Err {
						for name := range o.Defs {
							if !strings.HasPrefix(name, "only-") {
								continue
							}
							okv := r.Op == "view" && strings.HasPrefix(name, "only-views/") && underDir(strings.TrimPrefix(name, "only-views/"), r.V)
							okl := r.Op != "base" && strings.HasPrefix(name, "only-layouts/") && underDir(strings.TrimPrefix(name, "only-layouts/"), normL(r.L))
							if !okv && !okl {
								fail(c, kind, cached, "isolation", idx, fmt.Sprintf("%q is visible in %s", name, r.line()))
							}
							tl.add("marker-seen", 1)
						}
					}
				}
			}
			// clause 2: caching on and off give the same answers
			inExec, inColon := kind == "html" && dExec(c), dColon(c)
			if !((inExec && known["exec"]) || (inColon && known["colon"])) {
				for idx := range c.Reqs {
					if answers[0][idx].full() != answers[1][idx].full() {
						fail(c, kind, true, "cache-transparent", idx, fmt.Sprintf("cached %s uncached %s", answers[0][idx].full(), answers[1][idx].full()))
						break
					}
				}
				tl.add("transparent-checked", 1)
			}
		}
	}
	var keys []string
	for k := range tl.m {
		keys = append(keys, k)
	}
	sort.Strings(keys)
	fmt.Fprintf(out, "oracle fails=%d", fails)
	for _, k := range keys {
		fmt.Fprintf(out, " %s=%d", k, tl.m[k])
	}
	fmt.Fprintln(out)
}

// ---------------------------------------------------------------- concurrent first use

var hookCtr uint64

// perturb is installed at the yield point in front of the cache look-ups: it hands the processor
// over now and then so that look-ups and cache writes of different goroutines overlap more often.
func perturb(point string) {
	x := atomic.AddUint64(&hookCtr, 0x9e3779b97f4a7c15)
	x ^= x >> 29
	if x%3 == 0 {
		runtime.Gosched()
	}
}

func childMain(kind string, G, rounds int, seed uint64) {
	g := &gen{r: hx.NewRand(seed)}
	installHook(perturb)
	calls, mism := 0, 0
	for round := 0; round < rounds; round++ {
		c := g.newCase(false, false, true)
		fs, err := memfs.NewFilespace()
		if err != nil || c.setup(fs) != nil {
			fmt.Fprintln(os.Stderr, "memfs setup failed")
			os.Exit(3)
		}
		var reqs []ReqSpec
		reqs = append(reqs, ReqSpec{Op: "base"})
		for _, l := range []string{"default", "la", "lb", "la/sub", "nolay"} {
			reqs = append(reqs, ReqSpec{Op: "layout", L: l})
			for _, v := range []string{"va", "vb", "vc", "va/sub", "nov"} {
				reqs = append(reqs, ReqSpec{Op: "view", L: l, V: v})
			}
		}
		want := make([]string, len(reqs))
		for i, r := range reqs {
			want[i] = reference(kind, fs, r).full()
		}
		p := newProvider(kind, fs, round%4 != 3)
		perms := make([][]int, G)
		for i := range perms {
			perms[i] = g.perm(len(reqs))
			if i%2 == 1 { // half of the goroutines start with a view: the first use of all three caches at once
				for j, x := range perms[i] {
					if reqs[x].Op == "view" {
						perms[i][0], perms[i][j] = perms[i][j], perms[i][0]
						break
					}
				}
			}
		}
		got := make([][]string, G)
		start := make(chan struct{})
		var wg sync.WaitGroup
		for i := 0; i < G; i++ {
			got[i] = make([]string, len(reqs))
			wg.Add(1)
			go func(i int) {
				defer wg.Done()
				<-start
				for _, x := range perms[i] {
					o, pan := ask(p, reqs[x])
					if pan {
						got[i][x] = "panic"
					} else {
						got[i][x] = o.full()
					}
				}
			}(i)
		}
		close(start)
		wg.Wait()
		for i := 0; i < G; i++ {
			for x := range reqs {
				calls++
				if got[i][x] != want[x] {
					mism++
					if mism <= 3 {
						fmt.Printf("MISMATCH round=%d goroutine=%d %s got %s want %s\n", round, i, reqs[x].line(), got[i][x], want[x])
					}
				}
			}
		}
	}
	fmt.Printf("conc rounds=%d goroutines=%d calls=%d mism=%d\n", rounds, G, calls, mism)
	if mism > 0 {
		os.Exit(4)
	}
}

func stressMain(rounds int) {
	seed := hx.SeedFromEnv()
	exe, err := os.Executable()
	if err != nil {
		exe = os.Args[0]
	}
	type job struct {
		kind string
		g    int
	}
	var jobs []job
	for _, kind := range []string{"html", "text"} {
		for _, g := range []int{2, 3, 4, 8, 16, 32} {
			jobs = append(jobs, job{kind, g})
		}
	}
	lines := make([]string, len(jobs))
	var wg sync.WaitGroup
	sem := make(chan struct{}, 4)
	for i, j := range jobs {
		wg.Add(1)
		go func(i int, j job) {
			defer wg.Done()
			sem <- struct{}{}
			defer func() { <-sem }()
			cmd := exec.Command(exe, "child", j.kind, strconv.Itoa(j.g), strconv.Itoa(rounds), strconv.FormatUint(seed*1000+uint64(i), 10))
			var so, se bytes.Buffer
			cmd.Stdout, cmd.Stderr = &so, &se
			status := "0"
			done := make(chan error, 1)
			if err := cmd.Start(); err != nil {
				lines[i] = fmt.Sprintf("child kind=%s g=%d status=start-failed", j.kind, j.g)
				return
			}
			go func() { done <- cmd.Wait() }()
			select {
			case err := <-done:
				if err != nil {
					if ee, ok := err.(*exec.ExitError); ok {
						status = strconv.Itoa(ee.ExitCode())
					} else {
						status = "wait-failed"
					}
				}
			case <-time.After(900 * time.Second):
				cmd.Process.Kill()
				status = "hang"
			}
			errText := se.String()
			fatal := strings.Contains(errText, "concurrent map")
			race := strings.Contains(errText, "DATA RACE")
			first := ""
			if status != "0" {
				for _, l := range strings.Split(errText, "\n") {
					if strings.TrimSpace(l) != "" {
						first = l
						break
					}
				}
			}
			summary := ""
			for _, l := range strings.Split(so.String(), "\n") {
				if strings.HasPrefix(l, "conc ") || strings.HasPrefix(l, "MISMATCH") {
					summary += " [" + l + "]"
				}
			}
			lines[i] = fmt.Sprintf("child kind=%s g=%d status=%s concurrent-map=%v data-race=%v%s stderr=%q", j.kind, j.g, status, fatal, race, summary, first)
		}(i, j)
	}
	wg.Wait()
	for _, l := range lines {
		fmt.Println(l)
	}
}

func main() {
	if len(os.Args) < 2 {
		fmt.Fprintln(os.Stderr, "usage: tmpl drive|gen <n>|oracle <n> [known=..]|stress <rounds>|child <kind> <g> <rounds> <seed>")
		os.Exit(2)
	}
	num := func(i int) int {
		if len(os.Args) <= i {
			return 0
		}
		n, _ := strconv.Atoi(os.Args[i])
		return n
	}
	switch os.Args[1] {
	case "drive":
		drive()
	case "gen":
		genMain(num(2))
	case "oracle":
		known := map[string]bool{}
		for _, a := range os.Args[3:] {
			if strings.HasPrefix(a, "known=") {
				for _, k := range strings.Split(strings.TrimPrefix(a, "known="), ",") {
					known[k] = true
				}
			}
		}
		oracleMain(num(2), known)
	case "stress":
		stressMain(num(2))
	case "child":
		seed, _ := strconv.ParseUint(os.Args[5], 10, 64)
		childMain(os.Args[2], num(3), num(4), seed)
	default:
		os.Exit(2)
	}
}
