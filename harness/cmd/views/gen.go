package main

// Random histories through random view stacks (`gen`, for the differential against m_views) and the
// property oracle on the implementation alone (`oracle`, `scan`).
//
// A history:  reset; a random stack (stacks.go builder) of 1..4 layers drawn from
// {Filespace(p), sub-path view, memory wrapper, read-only mask, encrypted view, cache} over a bottom
// (gen: mem 55 %, spy 15 %, disk 15 %, cache somewhere in the stack 15 %; oracle: mem/disk, real ciphers),
// layer paths spelled `in`, `./in/`, `/in`, `in/x/..`, `in/in` …; the parent tree with sentinels; then 6..30
// operations:
//
//	* through an INSIDE handle (the child view, its read-write twin, views opened from them during the history):
//	  any of the 15 call words / view / dump with paths over the pool {a, in, b} (depth 1..3, re-spelled by the
//	  fsdrv spelling mutator), ~15 % climbing paths (`..`, `../a`, `in/../../zsent_0`, …), ~7 % spellings of
//	  the root; followed by `chk 0` (outside byte-identical, no sentinel inside);
//	* through an OUTSIDE handle (the bottom and the intermediate layers): the same words with paths over
//	  {a, b, c} — these never name `in`, so they never reach into the child root, but they legitimately change
//	  the parent tree; followed by a new `guard 0 …` (re-baseline).
//
// Over a spy bottom every op is followed by `calls 0` (the exact calls that reached the bottom).  Over an
// opaque bottom (disk; any stack that contains a cache) the model cannot predict results: ops are sent as
// `q <fs> <word> …` (answer projected to refused | done); `view` on such a stack is compared with one tolerance (a
// disk root opens views on existing directories only, the model does not know the host; see checks/c03.py).

import (
	"bufio"
	"bytes"
	"fmt"
	"sort"
	"strings"

	"gcverif/internal/fsdrv"
	"gcverif/internal/hx"

	"github.com/goatcms/goatcore/varutil"
)

var layerSpells = []struct {
	spell string
	depth int
}{
	{"in", 1}, {"in", 1}, {"./in/", 1}, {"/in", 1}, {"in/x/..", 1}, {"in//", 1}, {"in/in", 2}, {"in/./in", 2},
	{".", 0}, {"", 0},
}

var climbers = []string{"..", "../a", "a/../..", "../in/a", "in/../../a", "/..", "./..", "../..", "../../a",
	"../" + sentName + "_0", "in/../../" + sentName + "_0", "a/../../in", "../../..", "..//a", "../.", "in/in/../../../a", "../inx/a", "../inx", "in/../../inx/a", "../../inx/a"}
var rootSpells = []string{"", ".", "/", "./", "a/..", "//", "in/..", "in/a/../.."}

type histGen struct {
	r      *hx.Rand
	g      *fsdrv.HistGen // spelling and content streams, Emit
	count  map[string]int
	oracle bool
}

type handle struct {
	id     int
	inside bool
	opq    bool // answers not predictable by the model: calls are sent as `q …` (gen only)
}

func (h *histGen) segs(pool []string) []string {
	n := 1
	switch x := h.r.Intn(100); {
	case x < 45:
		n = 1
	case x < 80:
		n = 2
	default:
		n = 3
	}
	s := make([]string, n)
	for i := range s {
		s[i] = h.r.Pick(pool)
	}
	return s
}

func (h *histGen) path(inside bool) string {
	pool := []string{"a", "b", "c"}
	if inside {
		pool = []string{"a", "in", "b"}
	}
	switch x := h.r.Intn(100); {
	case x < 15:
		h.count["path:climbing"]++
		return climbers[h.r.Intn(len(climbers))]
	case x < 22:
		h.count["path:root"]++
		return rootSpells[h.r.Intn(len(rootSpells))]
	}
	h.count["path:plain"]++
	return h.g.Spell(h.segs(pool))
}

// randomStack draws a stack; opaque = its results cannot be predicted by the model
func (h *histGen) randomStack() (st stack, opaque bool) {
	r := h.r
	bottom := "mem"
	wantCache := false
	switch x := r.Intn(100); {
	case h.oracle && x < 35:
		bottom = "disk"
	case h.oracle:
		wantCache = x < 55
	case x < 55:
	case x < 70:
		bottom = "spy"
	case x < 85:
		bottom = "disk"
	default:
		wantCache = true
	}
	nl := 1 + r.Intn(4)
	type lay struct {
		kind  string
		spell string
		depth int
	}
	var ls []lay
	depth := 0
	cachePlaced := false
	roBelow := false
	for i := 0; i < nl; i++ {
		k := r.Intn(100)
		sp := layerSpells[r.Intn(len(layerSpells))]
		if depth+sp.depth > 3 {
			sp = layerSpells[8]
		}
		switch {
		case wantCache && !cachePlaced && !roBelow && (i == nl-2 || (nl == 1) || r.Chance(1, 3)):
			ls = append(ls, lay{kind: "cache"})
			cachePlaced = true
			continue
		case k < 35:
			ls = append(ls, lay{"view", sp.spell, sp.depth})
		case k < 60:
			ls = append(ls, lay{"sub", sp.spell, sp.depth})
		case k < 72:
			ls = append(ls, lay{"wrap", sp.spell, sp.depth})
		case k < 86:
			ls = append(ls, lay{kind: "ro"})
			roBelow = true
			continue
		default:
			ls = append(ls, lay{kind: "enc"})
			continue
		}
		depth += sp.depth
	}
	if wantCache && !cachePlaced {
		// a cache cannot sit above a read-only mask in the builder: put it first
		ls = append([]lay{{kind: "cache"}}, ls...)
		cachePlaced = true
	}
	if bottom == "spy" {
		// Filespace() of the spy itself fails: start with a constructor layer
		if len(ls) > 0 && ls[0].kind == "view" {
			ls[0].kind = "sub"
		}
	}
	opaque = bottom == "disk" || cachePlaced
	cipher := "id"
	name := bottom
	st = mkq("rand", bottom, depth, !h.oracle, func(p *pre) {
		for _, l := range ls {
			name += "." + l.kind
			switch l.kind {
			case "view":
				// a disk bottom opens views on existing directories only (the tree has them); a view of a
				// view spelled `.`/`` is fine everywhere
				p.view(l.spell)
			case "sub":
				p.sub(l.spell)
			case "wrap":
				p.wrap(l.spell)
			case "ro":
				p.roMask()
			case "enc":
				if h.oracle {
					cipher = []string{"aes", "ext", "id"}[r.Intn(3)]
				}
				p.enc(cipher)
			case "cache":
				p.cache()
			}
		}
	})
	st.name = name
	return st, opaque
}

// one history as op lines
func (h *histGen) history() {
	g := h.g
	st, opaque := h.randomStack()
	h.count["stack:"+st.bottom]++
	h.count[fmt.Sprintf("layers:%d", st.layers)]++
	if opaque {
		h.count["stack:opaque"]++
	}
	if st.ro {
		h.count["stack:readonly"]++
	}
	g.Emit("reset")
	for _, l := range st.lines {
		g.Emit("%s", l)
	}
	spy := st.bottom == "spy"
	// handles: the builder numbered them; the child and its twin are inside, everything else outside
	var hs []handle
	inside := map[int]bool{st.child: true, st.twin: true}
	for id := 0; id < st.nextID; id++ {
		hs = append(hs, handle{id, inside[id], st.opq[id] && !h.oracle})
	}
	next := st.nextID
	after := func(hd handle) {
		switch {
		case spy:
			g.Emit("calls 0")
		case hd.inside:
			g.Emit("chk 0")
		default:
			g.Emit("%s", st.guard)
		}
	}
	// the sibling family (every fifth history): from a view 1-4 levels below the child, two sibling views are
	// opened one after the other and then a view below each of them - a view's root must not depend on what
	// its parent handed out to others before or after it (state shared between sibling views)
	if h.r.Intn(5) == 0 {
		par := hs[0]
		for _, x := range hs {
			if x.id == st.child {
				par = x
			}
		}
		open := func(from handle, path string) handle {
			g.Emit("view %d %d %s", next, from.id, hp(path))
			nh := handle{next, from.inside, from.opq}
			hs = append(hs, nh)
			next++
			h.count["op:view"]++
			after(from)
			return nh
		}
		deep := par
		if d := h.r.Intn(5); d > 0 {
			deep = open(par, strings.Join([]string{"a", "in", "b", "a"}[:d], "/"))
		}
		s1 := open(deep, "a")
		s2 := open(deep, []string{"in", "b"}[h.r.Intn(2)])
		open(s1, "b")
		open(s2, "b")
		h.count["family:siblings"]++
	}
	n := 6 + h.r.Intn(25)
	for i := 0; i < n; i++ {
		// 70 % through an inside handle
		var cand []handle
		wantInside := h.r.Intn(100) < 70
		for _, x := range hs {
			if x.inside == wantInside {
				cand = append(cand, x)
			}
		}
		if len(cand) == 0 {
			cand = hs
		}
		hd := cand[h.r.Intn(len(cand))]
		p := func() string { return hp(h.path(hd.inside)) }
		// `word <fs> …` or, for an opaque handle, `q <fs> word …`
		call := func(word string, rest ...string) {
			l := fmt.Sprintf("%s %d", word, hd.id)
			if hd.opq {
				l = fmt.Sprintf("q %d %s", hd.id, word)
			}
			g.Emit("%s", strings.TrimRight(l+" "+strings.Join(rest, " "), " "))
			h.count["op:"+word]++
		}
		one := func(word string) { call(word, p()) }
		// (Copy*(x, x) through a write-back cache used not to return — KF-C03-1 / KF-C06-7, repaired: the cache
		// refuses overlapping arguments; such calls are generated like any other, witness in corpus/C03)
		two := func(word string) {
			a, b := h.path(hd.inside), h.path(hd.inside)
			call(word, hp(a), hp(b))
		}
		switch x := h.r.Intn(100); {
		case x < 14:
			call("write", p(), hx.Enc(g.Content()))
		case x < 19:
			call("writer", p(), hx.Enc(g.Content()), hx.Enc(g.Content()))
		case x < 28:
			one("mkdir")
		case x < 36:
			one("remove")
		case x < 43:
			one("removeall")
		case x < 49:
			two("copy")
		case x < 53:
			two("copyfile")
		case x < 57:
			two("copydir")
		case x < 64:
			one("readfile")
		case x < 71:
			one("readdir")
		case x < 74:
			one("isexist")
		case x < 77:
			one("isfile")
		case x < 80:
			one("isdir")
		case x < 84:
			one("lstat")
		case x < 88:
			call("reader", p(), "3", "4096")
		case x < 96:
			g.Emit("view %d %d %s", next, hd.id, p())
			hs = append(hs, handle{next, hd.inside, hd.opq})
			next++
			h.count["op:view"]++
		default:
			if hd.opq {
				one("isdir")
			} else {
				g.Emit("dump %d", hd.id)
				h.count["op:dump"]++
			}
		}
		after(hd)
	}
	if !spy && !hs[0].opq {
		g.Emit("dump 0")
	}
	if !spy && !(st.opq[st.child] && !h.oracle) {
		g.Emit("dump %d", st.child)
	}
	h.count["histories"]++
}

func genSeed(shard int, stream uint64) uint64 {
	return hx.SeedFromEnv()*1000003 + uint64(shard)*7919 + 31 + stream*104729
}

func genMain(w, stat *bufio.Writer, n, shard, nshards int) {
	r := hx.NewRand(genSeed(shard, 0))
	h := &histGen{r: r, g: fsdrv.NewHistGen(r, w), count: map[string]int{}}
	for i := shard; i < n; i += nshards {
		h.history()
	}
	for k, v := range h.g.Count {
		h.count[k] += v
	}
	fsdrv.PrintCounts(stat, "genstat", h.count)
}

// sameTarget: the two spellings name the same node for some layer of a cache stack — by ReduceAbsPath (views) or
// by varutil.CleanPath (the cache itself resolves `/..` to its root)
func sameTarget(a, b string) bool {
	if !climbs(a) && !climbs(b) && strings.Join(reduceSegs(a), "/") == strings.Join(reduceSegs(b), "/") {
		return true
	}
	ca, cb := varutil.CleanPath(a), varutil.CleanPath(b)
	if ca == "." {
		ca = ""
	}
	if cb == "." {
		cb = ""
	}
	return ca == cb
}

// ---------------------------------------------------------------------------------------------
// oracle: the property on the implementation alone
// ---------------------------------------------------------------------------------------------

// scanHistory runs op lines in-process and returns the verdict lines (`FAIL …`).  A result is bad when it is
// panic / hang / nil, when a `chk` answers anything but `same`, when a `guard` or the preamble's constructors do
// not answer ok on a line that must (guards only), or when the answer of a call that is followed by `chk`
// (= made through an inside handle) carries a sentinel marker.
func scanHistory(lines []string, each func(op, res string)) (fails []string) {
	s := fsdrv.NewSession()
	defer s.Reset()
	res := make([]string, len(lines))
	for i, l := range lines {
		res[i] = s.Line(strings.Split(l, " "))
		if each != nil {
			each(l, res[i])
		}
	}
	for i, l := range lines {
		r := res[i]
		word := strings.SplitN(l, " ", 2)[0]
		switch {
		case r == "panic" || r == "hang" || r == "nil":
			fails = append(fails, fmt.Sprintf("FAIL %s line=%d op=%s", r, i, clip(l)))
		case word == "chk" && r != "same":
			prev := ""
			if i > 0 {
				prev = lines[i-1]
			}
			fails = append(fails, fmt.Sprintf("FAIL %s line=%d after=%s got=%s", strings.Fields(r)[0], i, clip(prev), clip(r)))
		case word == "guard" && r != "ok":
			fails = append(fails, fmt.Sprintf("FAIL guard line=%d op=%s got=%s", i, clip(l), r))
		case word != "chk" && word != "guard" && i+1 < len(lines) && strings.HasPrefix(lines[i+1], "chk ") && leaks(r):
			fails = append(fails, fmt.Sprintf("FAIL leak-in-result line=%d op=%s got=%s", i, clip(l), clip(r)))
		}
	}
	return fails
}

func oracleMain(w *bufio.Writer, n, shard, nshards int) {
	r := hx.NewRand(genSeed(shard, 1))
	var buf bytes.Buffer
	bw := bufio.NewWriter(&buf)
	h := &histGen{r: r, g: fsdrv.NewHistGen(r, bw), count: map[string]int{}, oracle: true}
	total, cases, nfail := 0, 0, 0
	kinds := map[string]int{}
	for i := shard; i < n; i += nshards {
		buf.Reset()
		h.history()
		bw.Flush()
		lines := strings.Split(strings.TrimRight(buf.String(), "\n"), "\n")
		total++
		cases += len(lines)
		fails := scanHistory(lines, func(op, res string) {
			word := strings.SplitN(op, " ", 2)[0]
			k := res
			if j := strings.IndexByte(res, ' '); j >= 0 {
				k = res[:j]
			}
			kinds[word+":"+k]++
		})
		if len(fails) > 0 {
			nfail++
			if nfail <= 5 {
				for _, f := range fails {
					fmt.Fprintln(w, f)
				}
				for _, l := range lines {
					fmt.Fprintf(w, "H %s\n", l)
				}
			}
		}
	}
	var parts []string
	for k, v := range h.count {
		parts = append(parts, fmt.Sprintf("gen:%s=%d", k, v))
	}
	for k, v := range kinds {
		parts = append(parts, fmt.Sprintf("%s=%d", k, v))
	}
	sort.Strings(parts)
	fmt.Fprintf(w, "oracle histories=%d cases=%d fails=%d %s\n", total, cases, nfail, strings.Join(parts, " "))
}
