package main

// guard / chk: the observation of property C03.  A guard is a list of parts; each part yields a canonical,
// sorted list of entries (`<hexpath>/`, `<hexpath>=<hexdata>`, `<hexpath>!`, `<hexpath>@<hextarget>`) which is
// split into what lies strictly under the guarded root (inside) and everything else (outside; the root
// directory entry itself is outside: it is part of its parent's listing).

import (
	"io/ioutil"
	"os"
	"sort"
	"strconv"
	"strings"

	"gcverif/internal/fsdrv"
	"gcverif/internal/hx"
)

type guardPart struct {
	host    bool
	fs      FS     // fs part: walked through the public interface; host part: the disk filespace
	hostDir string // host part: the temp directory that contains root/
	root    []string
	label   string
}

type guard struct {
	parts       []guardPart
	baseOutside []string
	baseInside  []string
	baseRoot    []string // the directories on the view's own root path (root and ancestors) that existed
}

func segsOf(p string) []string {
	var out []string
	for _, s := range strings.Split(p, "/") {
		if s != "" {
			out = append(out, s)
		}
	}
	return out
}

// onRootPath: segs is the root or one of its ancestors
func onRootPath(segs, root []string) bool {
	if len(segs) > len(root) {
		return false
	}
	for i, s := range segs {
		if root[i] != s {
			return false
		}
	}
	return true
}

// strictly under root?
func under(segs, root []string) bool {
	if len(segs) <= len(root) {
		return false
	}
	for i, r := range root {
		if segs[i] != r {
			return false
		}
	}
	return true
}

// snap returns the entries of one part, split.  rootPath: directory entries of the view's own root path — a view
// opened on a path that does not exist yet may create it on the first write ("resolved inside the root"), so these
// may appear; they must never disappear or turn into files.
func (p guardPart) snap() (outside, inside, rootPath []string) {
	add := func(path string, entry string) {
		e := p.label + entry
		segs := segsOf(path)
		switch {
		case under(segs, p.root):
			inside = append(inside, e)
		case strings.HasSuffix(entry, "/") && onRootPath(segs, p.root):
			rootPath = append(rootPath, e)
		default:
			outside = append(outside, e)
		}
	}
	if !p.host {
		// walk through the public interface: ReadDir, then ReadFile / recursion by the listing's own IsDir()
		// (the consistency of the query methods with the listing is C01's business, not checked here)
		var walk func(dir string, depth int)
		walk = func(dir string, depth int) {
			l, err := p.fs.ReadDir(dir)
			if err != nil || depth > 40 {
				add(dir, hx.Enc([]byte(dir))+"!")
				return
			}
			for _, e := range l {
				if e == nil {
					add(dir, hx.Enc([]byte(dir))+"!nil")
					continue
				}
				r := e.Name()
				if dir != "" {
					r = dir + "/" + e.Name()
				}
				if e.IsDir() {
					add(r, hx.Enc([]byte(r))+"/")
					walk(r, depth+1)
					continue
				}
				data, err := p.fs.ReadFile(r)
				if err != nil {
					add(r, hx.Enc([]byte(r))+"!")
				} else {
					add(r, hx.Enc([]byte(r))+"="+hx.Enc(data))
				}
			}
		}
		walk("", 0)
		return
	}
	// OS-level walk of the directory above the disk root; the guarded root is root/<root…>
	hostRoot := append([]string{"root"}, p.root...)
	saved := p.root
	p.root = hostRoot
	var walk func(rel string)
	walk = func(rel string) {
		l, err := ioutil.ReadDir(p.hostDir + "/" + rel)
		if err != nil {
			add(rel, hx.Enc([]byte(rel))+"!")
			return
		}
		for _, e := range l {
			r := e.Name()
			if rel != "" {
				r = rel + "/" + e.Name()
			}
			switch {
			case e.Mode()&os.ModeSymlink != 0:
				t, _ := os.Readlink(p.hostDir + "/" + r)
				add(r, hx.Enc([]byte(r))+"@"+hx.Enc([]byte(t)))
			case e.IsDir():
				add(r, hx.Enc([]byte(r))+"/")
				walk(r)
			default:
				data, err := ioutil.ReadFile(p.hostDir + "/" + r)
				if err != nil {
					add(r, hx.Enc([]byte(r))+"!")
				} else {
					add(r, hx.Enc([]byte(r))+"="+hx.Enc(data))
				}
			}
		}
	}
	walk("")
	p.root = saved
	return
}

func (g *guard) snap() (outside, inside, rootPath []string) {
	for _, p := range g.parts {
		o, i, r := p.snap()
		outside = append(outside, o...)
		inside = append(inside, i...)
		rootPath = append(rootPath, r...)
	}
	sort.Strings(outside)
	sort.Strings(inside)
	sort.Strings(rootPath)
	return
}

func firstDiff(a, b []string) string {
	i, j := 0, 0
	for i < len(a) || j < len(b) {
		switch {
		case j >= len(b) || (i < len(a) && a[i] < b[j]):
			return "-" + a[i]
		case i >= len(a) || b[j] < a[i]:
			return "+" + b[j]
		}
		i++
		j++
	}
	return ""
}

func sameList(a, b []string) bool {
	if len(a) != len(b) {
		return false
	}
	for i := range a {
		if a[i] != b[i] {
			return false
		}
	}
	return true
}

// verdict: "same", "CHANGED …" or "LEAK …"; insideChanged: the inside differs from its baseline
func (g *guard) verdict() (res string, insideChanged bool) {
	out, in, rp := g.snap()
	insideChanged = !sameList(in, g.baseInside) || !sameList(rp, g.baseRoot)
	if d := firstDiff(g.baseOutside, out); d != "" {
		return "CHANGED " + d, insideChanged
	}
	have := map[string]bool{}
	for _, e := range rp {
		have[e] = true
	}
	for _, e := range g.baseRoot {
		if !have[e] {
			return "CHANGED -" + e, insideChanged
		}
	}
	for _, e := range in {
		if leaks(e) {
			return "LEAK " + e, insideChanged
		}
	}
	return "same", insideChanged
}

func getGuard(s *fsdrv.Session, tok string) (*guard, bool) {
	g, ok := s.Vals["guard:"+tok].(*guard)
	return g, ok
}

// guard <g> <part>…
func cmdGuard(s *fsdrv.Session, args []string) string {
	if len(args) < 2 {
		return "bad-op"
	}
	if _, err := strconv.Atoi(args[0]); err != nil {
		return "bad-op"
	}
	g := &guard{}
	for k, tok := range args[1:] {
		f := strings.Split(tok, ":")
		if len(f) != 3 || (f[0] != "fs" && f[0] != "host") {
			return "bad-op"
		}
		if _, err := strconv.Atoi(f[1]); err != nil {
			return "bad-op"
		}
		root, err := hx.Dec(f[2])
		if err != nil {
			return "bad-op"
		}
		fs, ok := s.FSArg(f[1])
		if !ok {
			return "nofs"
		}
		p := guardPart{fs: fs, root: segsOf(string(root)), label: strconv.Itoa(k) + "|"}
		if f[0] == "host" {
			p.host = true
			if p.hostDir, ok = diskHosts(s)[fs]; !ok {
				return "err"
			}
		}
		g.parts = append(g.parts, p)
	}
	return s.Exec(func() string {
		g.baseOutside, g.baseInside, g.baseRoot = g.snap()
		s.Vals["guard:"+args[0]] = g
		return "ok"
	})
}

// chk <g>
func cmdChk(s *fsdrv.Session, args []string) string {
	if len(args) != 1 {
		return "bad-op"
	}
	if _, err := strconv.Atoi(args[0]); err != nil {
		return "bad-op"
	}
	g, ok := getGuard(s, args[0])
	if !ok {
		return "none"
	}
	return s.Exec(func() string {
		r, _ := g.verdict()
		return r
	})
}
