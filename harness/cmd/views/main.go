// Command views is the implementation-side driver, generator, exhaustive sweep and oracle of property
// C03 ("a filespace never reaches outside its root").  It is a family of the `fs` line protocol
// (gcverif/internal/fsdrv; protocol text in /verif/lean/Driver/FSCore.lean, Lean twin
// /verif/lean/Driver/Views.lean = m_views).
//
// Backend kinds added to `new <id> <kind> …` (all build REAL code of /repo):
//
//	wrap <fs> <hexpath>     memfs.NewFilespaceWrapper(<fs>, path)            (memory wrapper over any filespace)
//	sub <fs> <hexpath>      fshelper.NewSubFS(<fs>, path)                     (sub-path view)
//	ro <fs>                 fshelper.NewReadonlyFS(<fs>)                      (read-only mask)
//	enc <fs> id|aes|ext     encryptfs.NewEncryptFS(<fs>, …)  id = identity cipher of this harness (the model
//	                        treats the encrypted view as pure delegation of names), aes/ext = the real ciphers
//	cache <fs>              fscache.NewMemCache(<fs>)                          (write-back cache, <fs> = remote)
//	disk                    diskfs.NewFilespace(<tmp>/root), <tmp> = a fresh /var/tmp/c03-* directory that also
//	                        holds sentinel files NEXT TO the root (a, in/a, zsent_host, zsent_hdir/a)
//	spy                     a bottom filespace that records every call (word and path arguments) and fails it
//
// Extra words:
//
//	guard <g> <part>…       take the baseline of everything OUTSIDE a root.  part = fs:<fs>:<hexroot> (walk of <fs>
//	                        through its public interface, minus what lies strictly under root) or
//	                        host:<diskfs>:<hexroot> (OS-level walk of the temp directory above a disk root, minus
//	                        root/<hexroot>/…)                                            -> ok | err | nofs
//	chk <g>                 -> same | CHANGED <first difference> | LEAK <entry>   (outside byte-identical to the
//	                        baseline; nothing inside carries a sentinel marker)
//	calls <spy>             -> calls <word>:<hexpath>[:<hexpath>],…    calls recorded since the last `calls`
//	q <fs> <word> <arg>…    the interface call, answer projected: refused (err / f) | done | panic | hang
//
// Sub-commands:
//
//	views drive [-stats f] [-nohash]        op lines on stdin -> result lines
//	views gen <n> [<shard> <nshards>]       random histories through random view stacks (see gen.go)
//	views oracle <n> [<shard> <nshards>]    the same histories (other seed stream, all bottoms) run in-process, the
//	                                        property evaluated on the implementation alone
//	views sweep <maxsegs> [<shard> <nshards> [<heavysegs> [<extrasegs>]]]   exhaustive confinement sweep (see sweep.go)
//	views stacks                            names of the fixed view stacks of the sweep
//	views scan                              op lines on stdin, run in-process, verdict as `oracle` (replays)
package main

import (
	"bufio"
	"fmt"
	"io/ioutil"
	"os"
	"runtime/pprof"
	"strconv"
	"strings"
	"sync"
	"time"

	"gcverif/internal/fsdrv"
	"gcverif/internal/hx"

	"github.com/goatcms/goatcore/filesystem"
	"github.com/goatcms/goatcore/filesystem/filespace/diskfs"
	"github.com/goatcms/goatcore/filesystem/filespace/encryptfs"
	"github.com/goatcms/goatcore/filesystem/filespace/encryptfs/cipherfs"
	"github.com/goatcms/goatcore/filesystem/filespace/encryptfs/cipherfs/aesgcm256cfs"
	"github.com/goatcms/goatcore/filesystem/filespace/encryptfs/cipherfs/extcfs"
	"github.com/goatcms/goatcore/filesystem/filespace/memfs"
	"github.com/goatcms/goatcore/filesystem/fscache"
	"github.com/goatcms/goatcore/filesystem/fshelper"
)

type FS = filesystem.Filespace

// ---------------------------------------------------------------------------------------------
// temp directories (disk roots): every one is registered so that main removes what a blocked case left
// ---------------------------------------------------------------------------------------------

var (
	tempMu   sync.Mutex
	tempDirs = map[string]bool{}
)

func removeTemp(dir string) {
	os.RemoveAll(dir)
	tempMu.Lock()
	delete(tempDirs, dir)
	tempMu.Unlock()
}

func removeAllTemp() {
	tempMu.Lock()
	defer tempMu.Unlock()
	for d := range tempDirs {
		os.RemoveAll(d)
	}
}

// Sentinel markers: every file content outside a guarded root starts with sentMark, every name that exists
// only outside starts with sentName.  Neither can be spelled by the path alphabets of the generators.
const (
	sentMark = "S3NT1NEL"
	sentName = "zsent"
)

var (
	hexMark = hx.Enc([]byte(sentMark))
	hexName = hx.Enc([]byte(sentName))
)

// leaks: a result line (or a dump entry) carries sentinel content or a sentinel-only name
func leaks(res string) bool {
	return strings.Contains(res, hexMark) || strings.Contains(res, hexName)
}

// ---------------------------------------------------------------------------------------------
// identity cipher (the path plumbing of encryptfs is what C03 is about; C05 covers the ciphers)
// ---------------------------------------------------------------------------------------------

type idCipher struct{}

func (idCipher) DecryptReader(key []byte, r filesystem.Reader) (filesystem.Reader, error) {
	return r, nil
}
func (idCipher) EncryptWriter(key []byte, w filesystem.Writer) (filesystem.Writer, error) {
	return w, nil
}
func (idCipher) Encrypt(key []byte, data []byte) ([]byte, error) {
	return append([]byte{}, data...), nil
}
func (idCipher) Decrypt(key []byte, data []byte) ([]byte, error) {
	return append([]byte{}, data...), nil
}

func cipherOf(name string) cipherfs.Cipher {
	switch name {
	case "id":
		return idCipher{}
	case "aes":
		return aesgcm256cfs.NewCipher()
	case "ext":
		return extcfs.NewDefaultCipher()
	}
	return nil
}

// ---------------------------------------------------------------------------------------------
// spy bottom
// ---------------------------------------------------------------------------------------------

type spyFS struct {
	log []string
}

var errSpy = fmt.Errorf("spy")

func (s *spyFS) rec(word string, paths ...string) {
	it := word
	for _, p := range paths {
		it += ":" + hx.Enc([]byte(p))
	}
	s.log = append(s.log, it)
}
func (s *spyFS) Copy(a, b string) error          { s.rec("copy", a, b); return errSpy }
func (s *spyFS) CopyDirectory(a, b string) error { s.rec("copydir", a, b); return errSpy }
func (s *spyFS) CopyFile(a, b string) error      { s.rec("copyfile", a, b); return errSpy }
func (s *spyFS) ReadDir(p string) ([]os.FileInfo, error) {
	s.rec("readdir", p)
	return nil, errSpy
}
func (s *spyFS) IsExist(p string) bool                  { s.rec("isexist", p); return false }
func (s *spyFS) IsFile(p string) bool                   { s.rec("isfile", p); return false }
func (s *spyFS) IsDir(p string) bool                    { s.rec("isdir", p); return false }
func (s *spyFS) MkdirAll(p string, m os.FileMode) error { s.rec("mkdir", p); return errSpy }
func (s *spyFS) ReadFile(p string) ([]byte, error)      { s.rec("readfile", p); return nil, errSpy }
func (s *spyFS) WriteFile(p string, d []byte, m os.FileMode) error {
	s.rec("write", p)
	return errSpy
}

// Filespace is not recorded: the model's `Filespace` of a bottom has no state to record into
func (s *spyFS) Filespace(p string) (filesystem.Filespace, error) { return nil, errSpy }
func (s *spyFS) Reader(p string) (filesystem.Reader, error)       { s.rec("reader", p); return nil, errSpy }
func (s *spyFS) Writer(p string) (filesystem.Writer, error)       { s.rec("writer", p); return nil, errSpy }
func (s *spyFS) Remove(p string) error                            { s.rec("remove", p); return errSpy }
func (s *spyFS) RemoveAll(p string) error                         { s.rec("removeall", p); return errSpy }
func (s *spyFS) Lstat(p string) (os.FileInfo, error)              { s.rec("lstat", p); return nil, errSpy }

// ---------------------------------------------------------------------------------------------
// kinds
// ---------------------------------------------------------------------------------------------

// per-history bookkeeping kept in Session.Vals
func diskHosts(s *fsdrv.Session) map[FS]string {
	m, _ := s.Vals["disks"].(map[FS]string)
	if m == nil {
		m = map[FS]string{}
		s.Vals["disks"] = m
	}
	return m
}

func mustWrite(path, content string) {
	if err := ioutil.WriteFile(path, []byte(content), 0644); err != nil {
		panic(err)
	}
}

func init() {
	inner1 := func(s *fsdrv.Session, args []string, n int) (FS, bool) {
		if len(args) != n {
			return nil, false
		}
		return s.FSArg(args[0])
	}
	fsdrv.RegisterKind("wrap", func(s *fsdrv.Session, args []string) (fsdrv.FS, error) {
		inner, ok := inner1(s, args, 2)
		if !ok {
			return nil, fsdrv.ErrBadOp
		}
		base, err := hx.Dec(args[1])
		if err != nil {
			return nil, fsdrv.ErrBadOp
		}
		return memfs.NewFilespaceWrapper(inner, string(base))
	})
	fsdrv.RegisterKind("sub", func(s *fsdrv.Session, args []string) (fsdrv.FS, error) {
		inner, ok := inner1(s, args, 2)
		if !ok {
			return nil, fsdrv.ErrBadOp
		}
		base, err := hx.Dec(args[1])
		if err != nil {
			return nil, fsdrv.ErrBadOp
		}
		return fshelper.NewSubFS(inner, string(base)), nil
	})
	fsdrv.RegisterKind("ro", func(s *fsdrv.Session, args []string) (fsdrv.FS, error) {
		inner, ok := inner1(s, args, 1)
		if !ok {
			return nil, fsdrv.ErrBadOp
		}
		return fshelper.NewReadonlyFS(inner), nil
	})
	fsdrv.RegisterKind("enc", func(s *fsdrv.Session, args []string) (fsdrv.FS, error) {
		inner, ok := inner1(s, args, 2)
		if !ok {
			return nil, fsdrv.ErrBadOp
		}
		c := cipherOf(args[1])
		if c == nil {
			return nil, fsdrv.ErrBadOp
		}
		return encryptfs.NewEncryptFS(inner, encryptfs.Settings{
			Salt: []byte("c03-salt"), Secret: []byte("c03-secret-c03-secret-c03-secret"), Cipher: c})
	})
	fsdrv.RegisterKind("cache", func(s *fsdrv.Session, args []string) (fsdrv.FS, error) {
		inner, ok := inner1(s, args, 1)
		if !ok {
			return nil, fsdrv.ErrBadOp
		}
		c, err := fscache.NewMemCache(inner)
		if err != nil {
			return nil, err
		}
		return c, nil
	})
	fsdrv.RegisterKind("disk", func(s *fsdrv.Session, args []string) (fsdrv.FS, error) {
		if len(args) != 0 {
			return nil, fsdrv.ErrBadOp
		}
		host, err := ioutil.TempDir("/var/tmp", "c03-")
		if err != nil {
			return nil, err
		}
		tempMu.Lock()
		tempDirs[host] = true
		tempMu.Unlock()
		s.OnReset(func() { removeTemp(host) })
		// sentinels next to the root: what a climbing path would reach
		for _, d := range []string{"root", "in", sentName + "_hdir"} {
			if err := os.Mkdir(host+"/"+d, 0755); err != nil {
				return nil, err
			}
		}
		mustWrite(host+"/a", sentMark+"-host-a")
		mustWrite(host+"/"+sentName+"_host", sentMark+"-host-z")
		mustWrite(host+"/in/a", sentMark+"-host-in-a")
		mustWrite(host+"/"+sentName+"_hdir/a", sentMark+"-host-hdir-a")
		fs, err := diskfs.NewFilespace(host + "/root")
		if err != nil {
			return nil, err
		}
		diskHosts(s)[fs] = host
		return fs, nil
	})
	fsdrv.RegisterKind("spy", func(s *fsdrv.Session, args []string) (fsdrv.FS, error) {
		if len(args) != 0 {
			return nil, fsdrv.ErrBadOp
		}
		return &spyFS{}, nil
	})

	fsdrv.RegisterCommand("guard", cmdGuard)
	fsdrv.RegisterCommand("chk", cmdChk)
	fsdrv.RegisterCommand("calls", func(s *fsdrv.Session, args []string) string {
		if len(args) != 1 {
			return "bad-op"
		}
		if _, err := strconv.Atoi(args[0]); err != nil {
			return "bad-op"
		}
		fs, ok := s.FSArg(args[0])
		if !ok {
			return "nofs"
		}
		spy, ok := fs.(*spyFS)
		if !ok {
			return "bad-op"
		}
		out := "calls"
		if len(spy.log) > 0 {
			out += " " + strings.Join(spy.log, ",")
		}
		spy.log = nil
		return out
	})
	fsdrv.RegisterCommand("q", func(s *fsdrv.Session, args []string) string {
		if len(args) < 2 {
			return "bad-op"
		}
		if _, err := strconv.Atoi(args[0]); err != nil {
			return "bad-op"
		}
		fs, ok := s.FSArg(args[0])
		if !ok {
			if !fsdrv.KnownCall(args[1], len(args)-2) {
				return "bad-op"
			}
			return "nofs"
		}
		res, _, good := s.Call(fs, args[1], args[2:])
		if !good {
			return "bad-op"
		}
		return project(res)
	})
	fsdrv.MarkMutating("q")
}

// project: what of a result an opaque bottom (disk, cache) lets the model predict
func project(res string) string {
	switch res {
	case "err", "f":
		return "refused"
	case "panic", "hang", "nil":
		return res
	}
	return "done"
}

func shardArgs(a []string) (int, int) {
	if len(a) >= 2 {
		s, e1 := strconv.Atoi(a[0])
		n, e2 := strconv.Atoi(a[1])
		if e1 == nil && e2 == nil && n > 0 && s >= 0 && s < n {
			return s, n
		}
	}
	return 0, 1
}

func main() {
	w := bufio.NewWriterSize(os.Stdout, 1<<20)
	ew := bufio.NewWriter(os.Stderr)
	code := 0
	defer func() {
		w.Flush()
		ew.Flush()
		removeAllTemp()
		os.Exit(code)
	}()
	usage := func() {
		fmt.Fprintln(os.Stderr, "usage: views drive [-stats f] [-nohash] | gen <n> [shard nshards] | oracle <n> [shard nshards] | sweep <maxsegs> [shard nshards] | stacks | scan")
		code = 2
	}
	if len(os.Args) < 2 {
		usage()
		return
	}
	// exploration only: a shorter watchdog (the checks run with the generous default of fsdrv)
	if ms, err := strconv.Atoi(os.Getenv("VIEWS_WATCHDOG_MS")); err == nil && ms > 0 {
		fsdrv.Watchdog = time.Duration(ms) * time.Millisecond
	}
	if pf := os.Getenv("VIEWS_PROF"); pf != "" {
		f, _ := os.Create(pf)
		pprof.StartCPUProfile(f)
		defer pprof.StopCPUProfile()
	}
	num := func() int {
		if len(os.Args) < 3 {
			return -1
		}
		n, err := strconv.Atoi(os.Args[2])
		if err != nil {
			return -1
		}
		return n
	}
	switch os.Args[1] {
	case "drive":
		fsdrv.Drive(os.Stdin, w, fsdrv.ParseDriveArgs(os.Args[2:]))
	case "gen":
		n := num()
		if n < 0 {
			usage()
			return
		}
		s, ns := shardArgs(os.Args[3:])
		genMain(w, ew, n, s, ns)
	case "oracle":
		n := num()
		if n < 0 {
			usage()
			return
		}
		s, ns := shardArgs(os.Args[3:])
		oracleMain(w, n, s, ns)
	case "sweep":
		n := num()
		if n < 0 {
			usage()
			return
		}
		s, ns := shardArgs(os.Args[3:])
		heavy, extra := n, n
		if len(os.Args) >= 6 {
			if h, err := strconv.Atoi(os.Args[5]); err == nil && h >= 0 {
				heavy = h
			}
		}
		if len(os.Args) >= 7 {
			if h, err := strconv.Atoi(os.Args[6]); err == nil && h >= 0 {
				extra = h
			}
		}
		sweepMain(w, n, s, ns, heavy, extra)
	case "stacks":
		for _, st := range fixedStacks() {
			fmt.Fprintf(w, "%s depth=%d layers=%d\n", st.name, st.depth, st.layers)
		}
	case "scan":
		sc := bufio.NewScanner(os.Stdin)
		sc.Buffer(make([]byte, 1<<20), 1<<28)
		var lines []string
		for sc.Scan() {
			if l := sc.Text(); l != "" && !strings.HasPrefix(l, "#") {
				lines = append(lines, l)
			}
		}
		fails := scanHistory(lines, func(op, res string) { fmt.Fprintf(w, "R %s => %s\n", clip(op), clip(res)) })
		for _, f := range fails {
			fmt.Fprintln(w, f)
		}
		fmt.Fprintf(w, "scan lines=%d fails=%d\n", len(lines), len(fails))
	default:
		usage()
	}
}

func clip(s string) string {
	if len(s) > 300 {
		return s[:300] + "…"
	}
	return s
}
