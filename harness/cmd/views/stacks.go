package main

// View stacks as op-line preambles.  A stack is built over bottom filespace 0 (mem or disk) by a sequence of
// layers; the preamble first plants the parent tree — for a child root `in/in/…` (depth k) every proper
// ancestor directory D_j = in^j gets sentinels around the way down:
//
//	D_j/a            file   S3NT1NEL-<j>-a      (what `../a`, `../../a` … would reach)
//	D_j/zsent_<j>    file   S3NT1NEL-<j>-z      (a name that exists only outside)
//	D_j/zsent_d<j>/a file   S3NT1NEL-<j>-da
//	D_j/inx/a        file   S3NT1NEL-<j>-xa     (sibling whose name extends the name `in` of the way down)
//	D_j/in/          the next directory on the way
//
// (a disk bottom additionally has the host sentinels next to its root, see kind `disk`) — then the layers,
// then the inside of the child root, written THROUGH the stack (its read-write twin when the stack contains a
// read-only mask):  a, in/a, in/in/a  with contents `inside-…`; finally the guard.

import (
	"fmt"
	"strings"

	"gcverif/internal/fsdrv"
	"gcverif/internal/hx"
)

func hp(s string) string { return fsdrv.HP(s) }
func hd(s string) string { return hx.Enc([]byte(s)) }

type pre struct {
	bottom    string // mem | disk | spy
	lines     []string
	cur, twin int
	next      int
	root      []string // child root in coordinates of bottom 0
	layers    int
	ro        bool
	cacheID   int // -1: none
	cacheFrom int // len(root) when the cache was created
	ids       []int
	qmode     bool         // gen for the differential: calls on an opaque handle are sent as `q <fs> <word> …`
	opq       map[int]bool // handles whose answers the model cannot predict (disk bottom; at or above a cache)
}

// call emits an interface call on handle id (`q`-projected when the handle is opaque and qmode is on)
func (p *pre) call(id int, word string, args ...string) {
	l := fmt.Sprintf("%s %d %s", word, id, strings.Join(args, " "))
	if p.qmode && p.opq[id] {
		l = fmt.Sprintf("q %d %s %s", id, word, strings.Join(args, " "))
	}
	p.emit("%s", l)
}

func newPre(bottom string) *pre {
	return &pre{bottom: bottom, next: 1, cacheID: -1, ids: []int{0}, opq: map[int]bool{0: bottom == "disk"}}
}

func (p *pre) emit(format string, a ...interface{}) {
	p.lines = append(p.lines, fmt.Sprintf(format, a...))
}

func (p *pre) alloc() int {
	id := p.next
	p.next++
	p.ids = append(p.ids, id)
	return id
}

// apply a layer constructor line to cur (and to the twin when it is a different filespace)
func (p *pre) layer(mk func(id, inner int) string, both bool) {
	same := p.cur == p.twin
	id := p.alloc()
	l := mk(id, p.cur)
	p.emit("%s", l)
	p.opq[id] = p.opq[p.cur] || strings.Contains(l, " cache ")
	p.cur = id
	if both {
		if same {
			p.twin = id
		} else {
			t := p.alloc()
			l = mk(t, p.twin)
			p.emit("%s", l)
			p.opq[t] = p.opq[p.twin] || strings.Contains(l, " cache ")
			p.twin = t
		}
	}
	p.layers++
}

func (p *pre) view(spell string) *pre {
	p.layer(func(id, in int) string { return fmt.Sprintf("view %d %d %s", id, in, hp(spell)) }, true)
	p.root = append(p.root, reduceSegs(spell)...)
	return p
}
func (p *pre) sub(spell string) *pre {
	p.layer(func(id, in int) string { return fmt.Sprintf("new %d sub %d %s", id, in, hp(spell)) }, true)
	p.root = append(p.root, reduceSegs(spell)...)
	return p
}
func (p *pre) wrap(spell string) *pre {
	p.layer(func(id, in int) string { return fmt.Sprintf("new %d wrap %d %s", id, in, hp(spell)) }, true)
	p.root = append(p.root, reduceSegs(spell)...)
	return p
}
func (p *pre) roMask() *pre {
	p.layer(func(id, in int) string { return fmt.Sprintf("new %d ro %d", id, in) }, false)
	p.ro = true
	return p
}
func (p *pre) enc(cipher string) *pre {
	p.layer(func(id, in int) string { return fmt.Sprintf("new %d enc %d %s", id, in, cipher) }, true)
	return p
}
func (p *pre) cache() *pre {
	if p.cur != p.twin || p.cacheID >= 0 {
		panic("cache over a read-only mask / second cache: not supported by the stack builder")
	}
	p.layer(func(id, in int) string { return fmt.Sprintf("new %d cache %d", id, in) }, true)
	p.cacheID, p.cacheFrom = p.cur, len(p.root)
	return p
}

// what a non-climbing spelling resolves to
func reduceSegs(spell string) []string {
	var out []string
	for _, s := range strings.Split(spell, "/") {
		switch s {
		case "", ".":
		case "..":
			if len(out) > 0 {
				out = out[:len(out)-1]
			}
		default:
			out = append(out, s)
		}
	}
	return out
}

// tree plants the parent tree for a child root of the given depth (before any layer)
func (p *pre) tree(depth int) *pre {
	if p.bottom == "spy" {
		p.emit("new 0 spy")
		return p
	}
	p.emit("new 0 %s", p.bottom)
	prefix := ""
	for j := 0; j < depth; j++ {
		p.call(0, "write", hp(prefix+"a"), hd(fmt.Sprintf("%s-%d-a", sentMark, j)))
		p.call(0, "write", hp(fmt.Sprintf("%s%s_%d", prefix, sentName, j)), hd(fmt.Sprintf("%s-%d-z", sentMark, j)))
		p.call(0, "write", hp(fmt.Sprintf("%s%s_d%d/a", prefix, sentName, j)), hd(fmt.Sprintf("%s-%d-da", sentMark, j)))
		// a sibling whose NAME has the name of the next directory on the way as a string prefix (`in` / `inx`):
		// what a containment test by plain string prefix would let through
		p.call(0, "write", hp(prefix+"inx/a"), hd(fmt.Sprintf("%s-%d-xa", sentMark, j)))
		p.call(0, "mkdir", hp(prefix+"in"))
		prefix += "in/"
	}
	return p
}

func (p *pre) rootPath() string { return strings.Join(p.root, "/") }

func (p *pre) guardLine() string {
	kind := "fs"
	if p.bottom == "disk" {
		kind = "host"
	}
	l := fmt.Sprintf("guard 0 %s:0:%s", kind, hp(p.rootPath()))
	if p.cacheID >= 0 {
		l += fmt.Sprintf(" fs:%d:%s", p.cacheID, hp(strings.Join(p.root[p.cacheFrom:], "/")))
	}
	return l
}

// finish writes the inside of the child root through the twin and takes the guard
func (p *pre) finish() *pre {
	if p.bottom == "spy" {
		return p
	}
	t := p.twin
	p.call(t, "write", hp("a"), hd("inside-a"))
	p.call(t, "mkdir", hp("in/in"))
	p.call(t, "write", hp("in/a"), hd("inside-in-a"))
	p.call(t, "write", hp("in/in/a"), hd("inside-in-in-a"))
	p.emit("%s", p.guardLine())
	return p
}

// stack is a finished preamble
type stack struct {
	name   string
	bottom string
	depth  int
	layers int
	ro     bool
	cache  bool     // the stack contains a write-back cache
	core   bool     // swept with the full number of segments also in the quick tier
	lines  []string // after `reset`
	child  int      // the view under test
	twin   int      // its read-write twin (= child unless the stack contains a read-only mask)
	opq    map[int]bool
	nextID int
	guard  string // the guard line (to re-baseline)
}

func mk(name, bottom string, depth int, build func(p *pre)) stack {
	return mkq(name, bottom, depth, false, build)
}

func mkq(name, bottom string, depth int, qmode bool, build func(p *pre)) stack {
	p := newPre(bottom)
	p.qmode = qmode
	p.tree(depth)
	build(p)
	if len(p.root) != depth {
		panic(fmt.Sprintf("stack %s: layers reach depth %d, tree planted for %d", name, len(p.root), depth))
	}
	p.finish()
	return stack{name: name, bottom: bottom, depth: depth, layers: p.layers, ro: p.ro, cache: p.cacheID >= 0, lines: p.lines, child: p.cur, twin: p.twin, opq: p.opq,
		nextID: p.next, guard: p.guardLine()}
}

// fixedStacks: the view stacks of the exhaustive sweep (every kind, views of views, depth up to 4)
func fixedStacks() []stack {
	core := map[string]bool{"mem.view": true, "mem.view.view": true, "mem.sub": true, "mem.sub.view": true,
		"mem.view.wrap": true, "mem.ro.view": true, "mem.view.enc": true, "mem.wrap.sub.enc.view": true,
		"mem.view.sub.ro.view": true}
	l := fixedStackList()
	for i := range l {
		l[i].core = core[l[i].name]
	}
	return l
}

func fixedStackList() []stack {
	return []stack{
		mk("mem.root", "mem", 0, func(p *pre) {}),
		mk("mem.view", "mem", 1, func(p *pre) { p.view("in") }),
		mk("mem.view.view", "mem", 2, func(p *pre) { p.view("in").view("in") }),
		mk("mem.view2", "mem", 2, func(p *pre) { p.view("in/./in/") }),
		mk("mem.sub", "mem", 1, func(p *pre) { p.sub("in") }),
		mk("mem.sub.sub", "mem", 2, func(p *pre) { p.sub("in").sub("/in/") }),
		mk("mem.sub.view", "mem", 2, func(p *pre) { p.sub("in").view("in") }),
		mk("mem.view.wrap", "mem", 2, func(p *pre) { p.view("in").wrap("in") }),
		mk("mem.ro.view", "mem", 1, func(p *pre) { p.roMask().view("in") }),
		mk("mem.view.ro", "mem", 1, func(p *pre) { p.view("in").roMask() }),
		mk("mem.view.enc", "mem", 1, func(p *pre) { p.view("in").enc("aes") }),
		mk("mem.enc.view", "mem", 1, func(p *pre) { p.enc("ext").view("in") }),
		mk("mem.cache.view", "mem", 1, func(p *pre) { p.cache().view("in") }),
		mk("mem.view.cache.view.view", "mem", 3, func(p *pre) { p.view("in").cache().view("in").view("in") }),
		mk("mem.wrap.sub.enc.view", "mem", 3, func(p *pre) { p.wrap("in").sub("in").enc("aes").view("in") }),
		mk("mem.view.sub.ro.view", "mem", 3, func(p *pre) { p.view("in").sub("in").roMask().view("in") }),
		mk("disk.root", "disk", 0, func(p *pre) {}),
		mk("disk.view", "disk", 1, func(p *pre) { p.view("in") }),
		mk("disk.sub.ro.view", "disk", 2, func(p *pre) { p.sub("in").roMask().view("in") }),
		mk("disk.view.enc.sub", "disk", 2, func(p *pre) { p.view("in").enc("aes").sub("in") }),
		mk("disk.cache.view", "disk", 1, func(p *pre) { p.cache().view("in") }),
	}
}
