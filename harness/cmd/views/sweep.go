package main

// The exhaustive confinement sweep.  For every fixed view stack (stacks.go), every operation x argument
// position (13 one-path methods + both arguments of the three copies = 19) and every path string of at most
// <maxsegs> segments over {a, in, ., .., ""} joined by `/`, with and without a leading and a trailing `/`:
// build the stack and its parent tree (op lines through an fsdrv.Session, i.e. exactly what `drive` would
// execute), make the ONE call through the child view, then check
//
//	* the answer is not panic / hang and carries no sentinel content and no sentinel-only name,
//	* `chk`: everything outside the child root (bottom filespace, the cache's merged view, for a disk bottom
//	  the host directory above the root) is byte-identical to the baseline, and nothing inside the child
//	  root carries a sentinel marker (a copy that read from outside would plant one).
//
// A successful Filespace(path) is followed by a battery of calls through the new view of the view (listing,
// reads, writes, removal of its root, climbing copies), each checked the same way.  The environment is
// rebuilt whenever the inside changed, so every case starts from the same tree.
//
// Output: `FAIL …` + the replay (`H <op line>` …) per failing case, then one summary line
// `sweep stacks=… strings=… positions=19 cases=… calls=… rebuilds=… fails=…`.

import (
	"bufio"
	"fmt"
	"os"
	"sort"
	"strings"

	"gcverif/internal/fsdrv"
	"gcverif/internal/hx"
)

var sweepAlphabet = []string{"a", "in", ".", "..", ""}

// a second, smaller alphabet with the sibling name `inx` (string-prefix confusion), swept up to 3 segments
var siblingAlphabet = []string{"inx", "in", "..", "a"}

var outsideAlphabet = []string{sentName + "_0", sentName + "_host", sentName + "_hdir", "..", "in"}

// outsideOnly: does the (single) path argument of a query line, read lexically, name something that exists only
// outside every guarded root - it climbs above the root, or its reduced form still has a segment with an
// outside-only name?  (`in/zsent_host/..` is just `in`.)  The reduction is the harness's own, not goatcore's.
func outsideOnly(line string) bool {
	f := strings.Split(line, " ")
	if len(f) != 3 || !strings.Contains(f[2], hexName) {
		return false
	}
	raw, err := hx.Dec(f[2])
	if err != nil {
		return false
	}
	var segs []string
	for _, s := range strings.Split(string(raw), "/") {
		switch s {
		case "", ".":
		case "..":
			if len(segs) == 0 {
				return true // climbs: whatever it found, it found it outside
			}
			segs = segs[:len(segs)-1]
		default:
			segs = append(segs, s)
		}
	}
	for _, s := range segs {
		if strings.HasPrefix(s, sentName) {
			return true
		}
	}
	return false
}

// sweepStrings: every spelling, deduplicated and sorted
func sweepStrings(maxsegs int) []string {
	set := map[string]bool{}
	alphabet := sweepAlphabet
	var rec func(k int, cur []string)
	rec = func(k int, cur []string) {
		if len(cur) > 0 {
			s := strings.Join(cur, "/")
			set[s] = true
			set["/"+s] = true
			set[s+"/"] = true
			set["/"+s+"/"] = true
		}
		if k == 0 {
			return
		}
		for _, a := range alphabet {
			rec(k-1, append(append([]string{}, cur...), a))
		}
	}
	rec(maxsegs, nil)
	alphabet = siblingAlphabet
	if maxsegs > 3 {
		rec(3, nil)
	} else {
		rec(maxsegs, nil)
	}
	// a third alphabet that spells names existing ONLY outside every guarded root (next to it in the bottom
	// filespace, and next to a disk root on the host): a positive answer about such a path - even a bare
	// `true` of IsExist/IsFile/IsDir - can only come from outside
	alphabet = outsideAlphabet
	rec(3, nil)
	out := make([]string, 0, len(set))
	for s := range set {
		out = append(out, s)
	}
	sort.Strings(out)
	return out
}

// position: an operation and the argument that carries the path under test
type position struct {
	name string
	src  string // copies, destination position: the fixed source
	line func(child, fresh int, hpath string) string
	view bool
}

func positions() []position {
	one := func(word string) position {
		return position{name: word, line: func(c, _ int, h string) string { return fmt.Sprintf("%s %d %s", word, c, h) }}
	}
	cp := func(word, src string) []position {
		return []position{
			{name: word + ".src", line: func(c, _ int, h string) string { return fmt.Sprintf("%s %d %s %s", word, c, h, hp("cpdst")) }},
			{name: word + ".dst", src: src, line: func(c, _ int, h string) string { return fmt.Sprintf("%s %d %s %s", word, c, hp(src), h) }},
		}
	}
	ps := []position{
		one("readdir"), one("isexist"), one("isfile"), one("isdir"), one("mkdir"), one("readfile"),
		{name: "write", line: func(c, _ int, h string) string { return fmt.Sprintf("write %d %s %s", c, h, hd("w")) }},
		{name: "view", view: true, line: func(c, f int, h string) string { return fmt.Sprintf("view %d %d %s", f, c, h) }},
		{name: "reader", line: func(c, _ int, h string) string { return fmt.Sprintf("reader %d %s 64 64", c, h) }},
		{name: "writer", line: func(c, _ int, h string) string { return fmt.Sprintf("writer %d %s %s %s", c, h, hd("w1"), hd("w2")) }},
		one("remove"), one("removeall"), one("lstat"),
	}
	ps = append(ps, cp("copy", "a")...)
	ps = append(ps, cp("copyfile", "a")...)
	ps = append(ps, cp("copydir", "in")...)
	return ps
}

// battery: what is tried through a view of the view
func battery(v int) []string {
	return []string{
		fmt.Sprintf("readdir %d %s", v, hp("")),
		fmt.Sprintf("readfile %d %s", v, hp("a")),
		fmt.Sprintf("readfile %d %s", v, hp("../a")),
		fmt.Sprintf("readdir %d %s", v, hp("..")),
		fmt.Sprintf("lstat %d %s", v, hp("../..")),
		fmt.Sprintf("write %d %s %s", v, hp("probe"), hd("p")),
		fmt.Sprintf("write %d %s %s", v, hp("../probe"), hd("p")),
		fmt.Sprintf("mkdir %d %s", v, hp("../../zz")),
		fmt.Sprintf("copy %d %s %s", v, hp("../a"), hp("stolen")),
		fmt.Sprintf("copy %d %s %s", v, hp("probe"), hp("../../planted")),
		fmt.Sprintf("remove %d %s", v, hp("")),
		fmt.Sprintf("removeall %d %s", v, hp(".")),
		fmt.Sprintf("removeall %d %s", v, hp("a/../..")),
	}
}

// env: one built stack
type env struct {
	st stack
	s  *fsdrv.Session
	g  *guard
}

func (e *env) do(line string) string {
	if traceLines {
		fmt.Fprintln(os.Stderr, line)
	}
	return e.s.Line(strings.Split(line, " "))
}

var traceLines = os.Getenv("VIEWS_TRACE") != ""

// build runs the preamble; an unexpected answer is returned as error text
func buildEnv(st stack) (*env, string) {
	e := &env{st: st, s: fsdrv.NewSession()}
	for _, l := range st.lines {
		if r := e.do(l); r != "ok" {
			return e, fmt.Sprintf("preamble line %q answered %s", l, r)
		}
	}
	g, ok := getGuard(e.s, "0")
	if !ok {
		return e, "no guard"
	}
	e.g = g
	return e, ""
}

type sweeper struct {
	w        *bufio.Writer
	calls    int
	rebuilds int
	fails    int
	cases    int
	skipped  int
	drains   int
}

func (sw *sweeper) fail(e *env, what string, hist []string, op, res string) {
	sw.fails++
	if sw.fails > 40 {
		return
	}
	fmt.Fprintf(sw.w, "FAIL %s stack=%s op=%s got=%s\n", what, e.st.name, op, clip(res))
	fmt.Fprintln(sw.w, "H reset")
	for _, l := range e.st.lines {
		fmt.Fprintf(sw.w, "H %s\n", l)
	}
	for _, l := range hist {
		fmt.Fprintf(sw.w, "H %s\n", l)
		fmt.Fprintln(sw.w, "H chk 0")
	}
}

// one checked call; returns false when the environment must be rebuilt
func (sw *sweeper) call(e *env, hist []string, line string) (res string, clean bool) {
	sw.calls++
	res = e.do(line)
	hist = append(hist, line)
	bad := ""
	switch {
	case res == "panic" || res == "hang" || res == "nil":
		bad = res
	case leaks(res):
		bad = "leak-in-result"
	case res == "t" && outsideOnly(line):
		// IsExist / IsFile / IsDir answered true for a path that spells an outside-only name (the
		// environment is rebuilt whenever a call changed something inside the root)
		bad = "leak-in-result"
	}
	if bad != "" {
		sw.fail(e, bad, hist, line, res)
	}
	if res == "hang" {
		return res, false
	}
	var v string
	var insideChanged bool
	out := e.s.Exec(func() string {
		v, insideChanged = e.g.verdict()
		return "ok"
	})
	if out != "ok" {
		sw.fail(e, "chk-"+out, hist, line, res)
		return res, false
	}
	if v != "same" {
		sw.fail(e, strings.Fields(v)[0], hist, line, res+" / chk: "+v)
		return res, false
	}
	return res, !insideChanged
}

// sweepMain: the nine core stacks over memory ("light") are swept with maxsegs segments, the other stacks over
// memory without a cache with extrasegs, stacks with a disk bottom or a cache ("heavy": every case costs
// file-system traffic or dozens of error values with stack traces) with heavysegs.  Each shard starts at a different stack so that the disk stacks of the shards do
// not all run at the same moment.
func sweepMain(w *bufio.Writer, maxsegs, shard, nshards, heavysegs, extrasegs int) {
	strsLight, strsHeavy, strsExtra := sweepStrings(maxsegs), sweepStrings(heavysegs), sweepStrings(extrasegs)
	stacks := fixedStacks()
	pos := positions()
	sw := &sweeper{w: w}
	only := os.Getenv("VIEWS_STACK")
	nLight, nHeavy, nExtra := 0, 0, 0
	for k := range stacks {
		st := stacks[(k+shard*len(stacks)/nshards)%len(stacks)]
		if only != "" && !strings.HasPrefix(st.name, only) {
			continue
		}
		strs := strsLight
		switch {
		case st.cache || st.bottom == "disk":
			strs = strsHeavy
			nHeavy++
		case !st.core:
			strs = strsExtra
			nExtra++
		default:
			nLight++
		}
		idx := 0
		var e *env
		fresh := func() bool {
			if e != nil {
				e.s.Reset()
			}
			var msg string
			e, msg = buildEnv(st)
			sw.rebuilds++
			if msg != "" {
				sw.fails++
				fmt.Fprintf(w, "FAIL build stack=%s %s\n", st.name, msg)
				fmt.Fprintln(w, "H reset")
				for _, l := range st.lines {
					fmt.Fprintf(w, "H %s\n", l)
				}
				return false
			}
			return true
		}
		built := false
		for _, str := range strs {
			mine := idx%nshards == shard
			idx++
			if !mine {
				continue
			}
			if !built {
				if !fresh() {
					break
				}
				built = true
			}
			for _, p := range pos {
				// (Copy*(x, x) through a write-back cache used not to return — KF-C03-1, repaired: such positions are
				// swept like any other; `skipped_selfcopy` stays 0)
				// paths spelling an outside-only name go through the positions that cannot create a node of
				// that name inside the root (a created `zsent…` inside would be the harness's own doing)
				if strings.Contains(str, sentName) && (p.name == "mkdir" || p.name == "write" || p.name == "writer" ||
					p.view || strings.HasSuffix(p.name, ".dst")) {
					continue
				}
				sw.cases++
				line := p.line(st.child, st.nextID, hp(str))
				res, clean := sw.call(e, nil, line)
				if p.view && res == "ok" {
					hist := []string{line}
					for _, b := range battery(st.nextID) {
						_, c := sw.call(e, hist, b)
						hist = append(hist, b)
						if !c {
							clean = false
						}
					}
					clean = false // the new handle stays bound: start over
				}
				if !clean {
					if !fresh() {
						built = false
						break
					}
				}
			}
		}
		if built && fresh() {
			// drain: remove everything inside the child root through the child, the last node by a plain Remove;
			// the emptied root itself and the directories above it belong to the outside and must stay
			var hist []string
			for _, l := range []string{
				fmt.Sprintf("removeall %d %s", st.child, hp("in")),
				fmt.Sprintf("remove %d %s", st.child, hp("a")),
				fmt.Sprintf("readdir %d %s", st.child, hp("")),
				fmt.Sprintf("write %d %s %s", st.child, hp("again"), hd("w")),
				fmt.Sprintf("remove %d %s", st.child, hp("again")),
				fmt.Sprintf("isdir %d %s", st.child, hp("")),
			} {
				sw.cases++
				sw.drains++
				sw.call(e, hist, l)
				hist = append(hist, l)
			}
		}
		if e != nil {
			e.s.Reset()
		}
	}
	fmt.Fprintf(w, "sweep stacks=%d light=%d:%d extra=%d:%d heavy=%d:%d positions=%d cases=%d skipped_selfcopy=%d calls=%d rebuilds=%d fails=%d\n",
		len(stacks), nLight, len(strsLight), nExtra, len(strsExtra), nHeavy, len(strsHeavy), len(pos), sw.cases, sw.skipped, sw.calls, sw.rebuilds, sw.fails)
}

// climbs: the spelling leaves the root it is given to
func climbs(spell string) bool {
	depth := 0
	for _, s := range strings.Split(spell, "/") {
		switch s {
		case "", ".":
		case "..":
			if depth == 0 {
				return true
			}
			depth--
		default:
			depth++
		}
	}
	return false
}
