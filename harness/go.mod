module gcverif

go 1.16

require github.com/goatcms/goatcore v0.0.0

replace github.com/goatcms/goatcore => /repo
