package fsdrv

import (
	"fmt"
	"io"
	"os"
	"strconv"
	"strings"

	"gcverif/internal/hx"
)

func dec(s string) (string, bool) {
	b, err := hx.Dec(s)
	return string(b), err == nil
}

// Call runs one of the interface methods (cmd: a protocol word, a: the tokens after the filespace id)
// under Exec.  buf is the buffer handed in or out that the alias probes may keep; ok=false: unparsable.
func (s *Session) Call(fs FS, cmd string, a []string) (res string, buf *Kept, ok bool) {
	p1 := func(f func(p string) string) (string, *Kept, bool) {
		if len(a) != 1 {
			return "", nil, false
		}
		p, good := dec(a[0])
		if !good {
			return "", nil, false
		}
		return s.Exec(func() string { return f(p) }), nil, true
	}
	p2 := func(f func(x, y string) error) (string, *Kept, bool) {
		if len(a) != 2 {
			return "", nil, false
		}
		x, g1 := dec(a[0])
		y, g2 := dec(a[1])
		if !g1 || !g2 {
			return "", nil, false
		}
		return s.Exec(func() string { return OkErr(f(x, y)) }), nil, true
	}
	switch cmd {
	case "write":
		if len(a) != 2 {
			return "", nil, false
		}
		p, g1 := dec(a[0])
		data, err := hx.Dec(a[1])
		if !g1 || err != nil {
			return "", nil, false
		}
		res = s.Exec(func() string { return OkErr(fs.WriteFile(p, data, 0644)) })
		return res, &Kept{Bytes: data}, true
	case "writer":
		if len(a) < 1 {
			return "", nil, false
		}
		p, g1 := dec(a[0])
		if !g1 {
			return "", nil, false
		}
		chunks := make([][]byte, 0, len(a)-1)
		for _, h := range a[1:] {
			c, err := hx.Dec(h)
			if err != nil {
				return "", nil, false
			}
			chunks = append(chunks, c)
		}
		res = s.Exec(func() string {
			w, err := fs.Writer(p)
			if err != nil {
				return "err"
			}
			bad := false
			for i, c := range chunks {
				n, err := w.Write(c)
				if err != nil || n != len(c) {
					bad = true
				}
				// io.Writer: "implementations must not retain p" - the caller reuses its buffer at once
				// (the last chunk stays intact: it is the kept buffer of the alias probes)
				if i < len(chunks)-1 {
					for j := range c {
						c[j] ^= 0xa5
					}
				}
			}
			if err := w.Close(); err != nil {
				bad = true
			}
			if bad {
				return "err"
			}
			return "ok"
		})
		if len(chunks) > 0 {
			buf = &Kept{Bytes: chunks[len(chunks)-1]}
		}
		return res, buf, true
	case "reader":
		if len(a) < 1 {
			return "", nil, false
		}
		p, g1 := dec(a[0])
		if !g1 {
			return "", nil, false
		}
		sizes := make([]int, 0, len(a)-1)
		for _, t := range a[1:] {
			n, err := strconv.Atoi(t)
			if err != nil || n < 0 || n > 1<<24 {
				return "", nil, false
			}
			sizes = append(sizes, n)
		}
		var lastBuf []byte
		res = s.Exec(func() string {
			rd, err := fs.Reader(p)
			if err != nil {
				return "err"
			}
			items := make([]string, 0, len(sizes))
			bad := false
			for _, sz := range sizes {
				b := make([]byte, sz)
				n, err := rd.Read(b)
				if n < 0 || n > sz || (err != nil && err != io.EOF) {
					bad = true
					break
				}
				lastBuf = b[:n]
				flag := "c"
				if err == io.EOF {
					flag = "e"
				}
				items = append(items, hx.Enc(b[:n])+":"+flag)
			}
			if err := rd.Close(); err != nil || bad {
				return "err"
			}
			if len(items) == 0 {
				return "rd"
			}
			return "rd " + strings.Join(items, ",")
		})
		if strings.HasPrefix(res, "rd ") {
			buf = &Kept{Bytes: lastBuf}
		}
		return res, buf, true
	case "mkdir":
		return p1(func(p string) string { return OkErr(fs.MkdirAll(p, 0777)) })
	case "remove":
		return p1(func(p string) string { return OkErr(fs.Remove(p)) })
	case "removeall":
		return p1(func(p string) string { return OkErr(fs.RemoveAll(p)) })
	case "readfile":
		var data []byte
		res, _, ok = p1(func(p string) string {
			d, err := fs.ReadFile(p)
			if err != nil {
				return "err"
			}
			data = d
			return "data " + hx.Enc(d)
		})
		if ok && strings.HasPrefix(res, "data ") {
			buf = &Kept{Bytes: data}
		}
		return res, buf, ok
	case "readdir":
		var l []os.FileInfo
		res, _, ok = p1(func(p string) string {
			nodes, err := fs.ReadDir(p)
			if err != nil {
				return "err"
			}
			l = nodes
			return ShowListing(nodes)
		})
		if ok && strings.HasPrefix(res, "list") {
			buf = &Kept{IsList: true, Listing: l}
		}
		return res, buf, ok
	case "isexist":
		return p1(func(p string) string { return TF(fs.IsExist(p)) })
	case "isfile":
		return p1(func(p string) string { return TF(fs.IsFile(p)) })
	case "isdir":
		return p1(func(p string) string { return TF(fs.IsDir(p)) })
	case "lstat":
		return p1(func(p string) string {
			info, err := fs.Lstat(p)
			if err != nil {
				return "err"
			}
			if info == nil {
				return "nil"
			}
			if info.IsDir() {
				return "stat " + hx.Enc([]byte(info.Name())) + " d"
			}
			return fmt.Sprintf("stat %s f %d", hx.Enc([]byte(info.Name())), info.Size())
		})
	case "copy":
		return p2(fs.Copy)
	case "copyfile":
		return p2(fs.CopyFile)
	case "copydir":
		return p2(fs.CopyDirectory)
	}
	return "", nil, false
}
