package fsdrv

import (
	"bufio"
	"encoding/json"
	"hash/fnv"
	"io"
	"os"
	"sort"
	"strconv"
	"strings"
)

// stats accumulated by `drive -stats <file>` (Options.StatsPath): op:result histogram and per-history digests
type stats struct {
	Histogram  map[string]int `json:"histogram"`
	Histories  int            `json:"histories"`
	Nontrivial int            `json:"nontrivial"`
	Hashes     []string       `json:"hashes,omitempty"` // digests of the non-trivial histories (omitted with -nohash)
	Lines      int            `json:"lines"`
}

// Options of Drive (the `drive [-stats <file>] [-nohash]` sub-command of every family).
type Options struct {
	StatsPath string // write the statistics (JSON) here when not empty
	NoHash    bool   // omit the per-history digests from the statistics
}

// ParseDriveArgs reads `[-stats <file>] [-nohash]`; unknown arguments are ignored.
func ParseDriveArgs(args []string) Options {
	var o Options
	for i := 0; i < len(args); i++ {
		switch args[i] {
		case "-stats":
			if i++; i < len(args) {
				o.StatsPath = args[i]
			}
		case "-nohash":
			o.NoHash = true
		}
	}
	return o
}

// Drive reads op lines from in and writes one result line per op to w (see the protocol in
// /verif/lean/Driver/FSCore.lean), running the real code through the registered kinds and commands.
func Drive(in io.Reader, w *bufio.Writer, opts Options) {
	statsPath, noHash := opts.StatsPath, opts.NoHash
	sc := bufio.NewScanner(in)
	sc.Buffer(make([]byte, 1<<20), 1<<28)
	s := NewSession()
	st := &stats{Histogram: map[string]int{}}
	h := fnv.New64a()
	var mutOK, anyErr, open bool
	seen := map[uint64]bool{}
	finish := func() {
		if !open {
			return
		}
		st.Histories++
		if mutOK && anyErr {
			st.Nontrivial++
			if !noHash {
				seen[h.Sum64()] = true
			}
		}
		h.Reset()
		mutOK, anyErr, open = false, false, false
	}
	tag := "" // `#@ <tag>`: the result kind of the next op line is also counted under `<tag>:<kind>`
	for sc.Scan() {
		line := sc.Text()
		if line == "" || strings.HasPrefix(line, "#") {
			if strings.HasPrefix(line, "#@ ") {
				tag = line[3:]
			}
			continue
		}
		f := strings.Split(line, " ")
		if f[0] == "pathenum" && len(f) == 2 {
			n, err := strconv.Atoi(f[1])
			if err != nil || n < 0 {
				w.WriteString("bad-op\n")
				continue
			}
			for l := 0; l <= n; l++ {
				pathEnum(w, l, nil)
			}
			continue
		}
		if f[0] == "reset" {
			finish()
		}
		res := s.Line(f)
		w.WriteString(res)
		w.WriteByte('\n')
		if statsPath != "" {
			open = true
			st.Lines++
			h.Write([]byte(line))
			h.Write([]byte{'\n'})
			kind := res
			if i := strings.IndexByte(res, ' '); i >= 0 {
				kind = res[:i]
			}
			st.Histogram[f[0]+":"+kind]++
			if tag != "" {
				st.Histogram[tag+":"+kind]++
			}
			if kind == "err" {
				anyErr = true
			}
			if kind == "ok" && mutating[f[0]] {
				mutOK = true
			}
		}
		tag = ""
	}
	finish()
	s.Reset()
	if statsPath != "" {
		if !noHash {
			for k := range seen {
				st.Hashes = append(st.Hashes, strconv.FormatUint(k, 16))
			}
			sort.Strings(st.Hashes)
		}
		b, _ := json.Marshal(st)
		_ = os.WriteFile(statsPath, b, 0644)
	}
}
