package fsdrv

import (
	"bufio"
	"fmt"
	"strings"

	"gcverif/internal/hx"
)

// ---------------------------------------------------------------------------------------------
// Random histories (C01).  One PRNG; everything a history contains derives from it.
//
//   paths     segments from the live pool {a,b,c}, depth 1..4; half of the time a path already used
//             in this history (or its parent, or a child of it) so that operations collide
//   spelling  a separate mutator re-spells a path without changing its meaning: `.` segments,
//             `//`, a leading `/`, `x/..` detours, a trailing `/` (any combination)
//   climbing  a separate ~10 % stream of paths that leave the root: `..`, `a/../..`, `../a`, …
//   root      `""`, `.`, `/`, `./`, `a/..` (the filespace's own root), ~5 %
//   contents  empty, 1 byte, 00 80 ff, short random, `hello`, 4 KiB
//   handles   the root filespace (id 0) and child views opened at any depth from any open handle
//   probes    keep / mutate / recheck of handed-in and handed-out buffers and listings
// A history is `reset`, the preamble (default `new 0 mem`), ≤ 40 operation lines, then `recheck` of
// every slot and `dump 0`.
//
// Reuse by other families: NewHistGen, then change Preamble / InitIDs / Ops / MinOps / MaxOps /
// Epilogue before calling History; the path, spelling and content streams (Path, PathW, Spell,
// Content) and the emit helpers can be used from own op functions (`Weighted.Fn`).
// ---------------------------------------------------------------------------------------------

// Pool is the live name pool of path segments.

var Pool = []string{"a", "b", "c"}

// HistGen generates histories.  One PRNG (R); everything a history contains derives from it.
type HistGen struct {
	R     *hx.Rand
	W     *bufio.Writer
	IDs   []int // open filespace ids (PickFS draws from them)
	Slots int   // number of `keep` slots used so far
	// Count is the distribution of what was generated (printed by `gen` on stderr as `genstat k=v …`)
	Count map[string]int

	Preamble []string       // lines after `reset` (default: `new 0 mem`)
	InitIDs  []int          // ids the preamble binds (default: 0)
	Ops      []Weighted     // weighted op table (default: DefaultOps())
	MinOps   int            // a history has MinOps + Intn(OpsSpan) draws from the table (default 5, 34)
	OpsSpan  int            //
	Epilogue func(*HistGen) // default: `recheck` of every slot, `dump 0`

	// Base is the root path (segments below the filespace's own root) of every handle whose position is
	// known to the generator: the InitIDs are at [], a `view` through a known handle with a spelling that
	// resolves is at base ++ resolve(spelling) (it may still be unbound: a file in the way).  Read by the
	// nested-view family (nest.go).
	Base map[int][]string

	used  [][]string // segment lists used so far in this history
	files [][]string // … those written as files (a guess: the write may have failed)
	dirs  [][]string // … those created as directories, and parents of written files
	want  int        // what the next path should preferably be: WantAny/WantFile/WantDir/WantFresh

	extraIDs int // ids handed out by NewID that were not appended to IDs (handles that must stay unbound)
}

// NewHistGen returns the C01 generator configuration.
func NewHistGen(r *hx.Rand, w *bufio.Writer) *HistGen {
	return &HistGen{R: r, W: w, Count: map[string]int{},
		Preamble: []string{"new 0 mem"}, InitIDs: []int{0}, Ops: DefaultOps(), MinOps: 5, OpsSpan: 34,
		Epilogue: func(g *HistGen) {
			for k := 0; k < g.Slots; k++ {
				g.Emit("recheck %d", k)
			}
			g.Emit("dump 0")
		}}
}

// what a drawn path should preferably be / will become (PathW)
const (
	WantAny = iota
	WantFile
	WantDir
	WantFresh
)

// Segs draws a segment list (fresh, or near one already used in this history).
func (g *HistGen) Segs() []string {
	r := g.R
	from := g.used
	reuse := 50
	switch g.want {
	case WantFile:
		from, reuse = g.files, 75
	case WantDir:
		from, reuse = g.dirs, 75
	case WantFresh:
		reuse = 25
	}
	if len(from) == 0 {
		from = g.used
	}
	if len(from) > 0 && r.Intn(100) < reuse {
		base := from[r.Intn(len(from))]
		if g.want == WantFile || g.want == WantDir {
			if r.Chance(4, 5) {
				return append([]string{}, base...)
			}
		}
		switch r.Intn(4) {
		case 0:
			if len(base) > 1 {
				return append([]string{}, base[:len(base)-1]...)
			}
		case 1:
			if len(base) < 4 {
				return append(append([]string{}, base...), r.Pick(Pool))
			}
		}
		return append([]string{}, base...)
	}
	depth := 1
	switch x := r.Intn(100); {
	case x < 40:
		depth = 1
	case x < 75:
		depth = 2
	case x < 90:
		depth = 3
	default:
		depth = 4
	}
	s := make([]string, depth)
	for i := range s {
		s[i] = r.Pick(Pool)
	}
	return s
}

// Spell re-spells a segment list; the result reduces to the same path.
func (g *HistGen) Spell(segs []string) string {
	r := g.R
	if r.Chance(1, 2) {
		g.Count["spell:plain"]++
		return strings.Join(segs, "/")
	}
	parts := append([]string{}, segs...)
	n := 1 + r.Intn(3)
	lead, trail := false, false
	for i := 0; i < n; i++ {
		pos := r.Intn(len(parts) + 1)
		ins := func(xs ...string) {
			parts = append(parts[:pos], append(append([]string{}, xs...), parts[pos:]...)...)
		}
		switch r.Intn(5) {
		case 0:
			g.Count["spell:dot"]++
			ins(".")
		case 1:
			g.Count["spell:dslash"]++
			ins("")
		case 2:
			g.Count["spell:lead"]++
			lead = true
		case 3:
			g.Count["spell:detour"]++
			ins([]string{"a", "b", "c", "z"}[r.Intn(4)], "..")
		default:
			g.Count["spell:trail"]++
			trail = true
		}
	}
	s := strings.Join(parts, "/")
	if lead {
		s = "/" + s
	}
	if trail {
		s += "/"
	}
	return s
}

// Climbers leave the root; Roots are spellings of the root itself.
var Climbers = []string{"..", "a/../..", "../a", "a/b/../../..", "/..", "./..", "a/../../b", "../..", "b/../../a/b", "..//a", "a/./../.."}
var Roots = []string{"", ".", "/", "./", "a/..", "//", "./.", "b/c/../.."}

// PathW draws a path that is preferably of the given kind and records what it will become.
func (g *HistGen) PathW(want int, becomes int) string {
	g.want = want
	n := len(g.used)
	p := g.Path()
	g.want = WantAny
	if len(g.used) > n {
		segs := g.used[len(g.used)-1]
		switch becomes {
		case WantFile:
			g.files = append(g.files, segs)
			if len(segs) > 1 {
				g.dirs = append(g.dirs, segs[:len(segs)-1])
			}
		case WantDir:
			g.dirs = append(g.dirs, segs)
		}
	}
	return p
}

// Path draws a path spelling: 10 % climbing, 5 % a spelling of the root, else Spell(Segs()).
func (g *HistGen) Path() string {
	r := g.R
	switch x := r.Intn(100); {
	case x < 10:
		g.Count["path:climbing"]++
		return Climbers[r.Intn(len(Climbers))]
	case x < 15:
		g.Count["path:root"]++
		return Roots[r.Intn(len(Roots))]
	}
	s := g.Segs()
	g.used = append(g.used, s)
	g.Count[fmt.Sprintf("path:depth%d", len(s))]++
	return g.Spell(s)
}

// Content draws a file content from the content pool.
func (g *HistGen) Content() []byte {
	r := g.R
	switch x := r.Intn(100); {
	case x < 12:
		return []byte{}
	case x < 24:
		return []byte{byte(r.Intn(256))}
	case x < 34:
		return []byte{0x00, 0x80, 0xff}
	case x < 37:
		b := make([]byte, 4096)
		for i := range b {
			b[i] = byte(r.U64())
		}
		return b
	case x < 55:
		return []byte("hello")
	}
	b := make([]byte, 1+r.Intn(8))
	for i := range b {
		b[i] = byte(r.Intn(256))
	}
	return b
}

// HP is the hex token of a path string.
func HP(s string) string { return hx.Enc([]byte(s)) }

// Emit writes one op line.
func (g *HistGen) Emit(format string, a ...interface{}) {
	fmt.Fprintf(g.W, format+"\n", a...)
}

// Weighted is an entry of the op table.
type Weighted struct {
	W  int
	Fn func(g *HistGen)
}

// PickFS draws an open filespace id.
func (g *HistGen) PickFS() int { return g.IDs[g.R.Intn(len(g.IDs))] }

// MaybeKeep emits `keep <next slot>` one time in three.
func (g *HistGen) MaybeKeep() {
	if g.R.Chance(1, 3) {
		g.Emit("keep %d", g.Slots)
		g.Slots++
		g.Count["op:keep"]++
	}
}

// DefaultOps is the C01 op table: the 15 call words, `view`, `dump`, `mutate`, `recheck`.
func DefaultOps() []Weighted {
	one := func(cmd string, want, becomes int) func(g *HistGen) {
		return func(g *HistGen) {
			g.Emit("%s %d %s", cmd, g.PickFS(), HP(g.PathW(want, becomes)))
			g.Count["op:"+cmd]++
		}
	}
	two := func(cmd string, want int) func(g *HistGen) {
		return func(g *HistGen) {
			g.Emit("%s %d %s %s", cmd, g.PickFS(), HP(g.PathW(want, WantAny)), HP(g.PathW(WantFresh, want)))
			g.Count["op:"+cmd]++
		}
	}
	return []Weighted{
		{14, func(g *HistGen) {
			g.Emit("write %d %s %s", g.PickFS(), HP(g.PathW(WantAny, WantFile)), hx.Enc(g.Content()))
			g.Count["op:write"]++
			g.MaybeKeep()
		}},
		{6, func(g *HistGen) {
			n := g.R.Intn(4)
			cs := make([]string, n)
			for i := range cs {
				cs[i] = hx.Enc(g.Content())
			}
			g.Emit("%s", strings.TrimRight(fmt.Sprintf("writer %d %s %s", g.PickFS(), HP(g.PathW(WantAny, WantFile)), strings.Join(cs, " ")), " "))
			g.Count["op:writer"]++
			g.MaybeKeep()
		}},
		{10, one("mkdir", WantAny, WantDir)},
		{8, one("remove", WantAny, WantAny)},
		{5, one("removeall", WantAny, WantAny)},
		{6, two("copy", WantAny)},
		{4, two("copyfile", WantFile)},
		{4, two("copydir", WantDir)},
		{7, func(g *HistGen) { one("readfile", WantFile, WantAny)(g); g.MaybeKeep() }},
		{7, func(g *HistGen) { one("readdir", WantDir, WantAny)(g); g.MaybeKeep() }},
		{3, one("isexist", WantAny, WantAny)},
		{3, one("isfile", WantAny, WantAny)},
		{3, one("isdir", WantAny, WantAny)},
		{3, one("lstat", WantAny, WantAny)},
		{4, func(g *HistGen) {
			n := g.R.Intn(5)
			ss := make([]string, n)
			for i := range ss {
				ss[i] = fmt.Sprint([]int{0, 1, 2, 3, 5, 8, 4096, 5000}[g.R.Intn(8)])
			}
			g.Emit("%s", strings.TrimRight(fmt.Sprintf("reader %d %s %s", g.PickFS(), HP(g.PathW(WantFile, WantAny)), strings.Join(ss, " ")), " "))
			g.Count["op:reader"]++
			g.MaybeKeep()
		}},
		{5, func(g *HistGen) { // Filespace(path): a child view of any open handle
			id := g.NewID()
			parent := g.PickFS()
			p := g.PathW(WantDir, WantAny)
			g.Emit("view %d %d %s", id, parent, HP(p))
			g.IDs = append(g.IDs, id) // if the call fails the id stays unbound: both sides answer `nofs`
			g.NoteView(id, parent, p)
			g.Count["op:view"]++
		}},
		{3, func(g *HistGen) { g.Emit("dump %d", g.PickFS()); g.Count["op:dump"]++ }},
		{5, func(g *HistGen) {
			if g.Slots == 0 {
				return
			}
			g.Emit("mutate %d %d %d", g.R.Intn(g.Slots), g.R.Intn(6), g.R.Intn(256))
			g.Count["op:mutate"]++
		}},
		{2, func(g *HistGen) {
			if g.Slots == 0 {
				return
			}
			g.Emit("recheck %d", g.R.Intn(g.Slots))
			g.Count["op:recheck"]++
		}},
	}
}

// NewID returns a filespace id that no line of this history has used yet.
func (g *HistGen) NewID() int {
	id := len(g.IDs) + g.extraIDs
	return id
}

// NoteView records where the view `id` opened through `parent` with spelling p is rooted (when known).
func (g *HistGen) NoteView(id, parent int, p string) {
	if pb, ok := g.Base[parent]; ok {
		if rel, good := Resolve(p); good {
			g.Base[id] = append(append([]string{}, pb...), rel...)
		}
	}
}

// Tag emits the comment line `#@ <tag>`: both drivers skip it (no result line); `drive -stats` and the
// oracle count the result kind of the NEXT op line under `<tag>:<kind>` (family-wise coverage counters).
func (g *HistGen) Tag(tag string) { g.Emit("#@ %s", tag) }

// History emits one history.
func (g *HistGen) History() {
	g.used, g.files, g.dirs, g.IDs, g.Slots = nil, nil, nil, append([]int{}, g.InitIDs...), 0
	g.extraIDs = 0
	g.Base = map[int][]string{}
	for _, id := range g.InitIDs {
		g.Base[id] = []string{}
	}
	g.Emit("reset")
	for _, l := range g.Preamble {
		g.Emit("%s", l)
	}
	total := 0
	for _, o := range g.Ops {
		total += o.W
	}
	n := g.MinOps + g.R.Intn(g.OpsSpan)
	for i := 0; i < n; i++ {
		x := g.R.Intn(total)
		for _, o := range g.Ops {
			if x < o.W {
				o.Fn(g)
				break
			}
			x -= o.W
		}
	}
	g.Epilogue(g)
	g.Count["histories"]++
}

// GenSeed is the seed of shard `shard` of the `gen` stream for the current VERIF_SEED.
func GenSeed(shard int) uint64 { return hx.SeedFromEnv()*1000003 + uint64(shard)*7919 + 17 }

// Gen is `fs gen <n> [<shard> <nshards>]`: this shard's share of n C01 histories.
func Gen(w *bufio.Writer, stat *bufio.Writer, n int, shard, nshards int) {
	g := NewHistGen(hx.NewRand(GenSeed(shard)), w)
	g.Ops = append(g.Ops, NestedViewOps()...) // the nested-view family (nest.go)
	for i := shard; i < n; i += nshards {
		g.History()
	}
	PrintCounts(stat, "genstat", g.Count)
}
