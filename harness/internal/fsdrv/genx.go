package fsdrv

import (
	"bufio"
	"fmt"
	"strconv"
)

// ---------------------------------------------------------------------------------------------
// Exhaustive small scope: every sequence of length 1..maxLen over
//   {WriteFile, MkdirAll, Remove, RemoveAll, ReadDir} × 12 path strings  +  Copy × 12 × 12
// where the 12 path strings are 2 names × 6 spellings (n = the name, m = the other one):
//   n   ./n//   /n   m/../n   n/m (depth 2)   n/../.. (climbing)
// Each sequence is its own history ending in `dump 0`.
// ---------------------------------------------------------------------------------------------

func ExhaustiveAlphabet() []string {
	var paths []string
	for _, nm := range [][2]string{{"a", "b"}, {"b", "a"}} {
		n, m := nm[0], nm[1]
		paths = append(paths, n, "./"+n+"//", "/"+n, m+"/../"+n, n+"/"+m, n+"/../..")
	}
	var ops []string
	for _, p := range paths {
		ops = append(ops, "write 0 "+HP(p)+" 78")
	}
	for _, cmd := range []string{"mkdir", "remove", "removeall", "readdir"} {
		for _, p := range paths {
			ops = append(ops, cmd+" 0 "+HP(p))
		}
	}
	for _, s := range paths {
		for _, d := range paths {
			ops = append(ops, "copy 0 "+HP(s)+" "+HP(d))
		}
	}
	return ops
}

func GenExhaustive(w *bufio.Writer, stat *bufio.Writer, maxLen, shard, nshards int) {
	ops := ExhaustiveAlphabet()
	count := 0
	idx := make([]int, maxLen)
	for l := 1; l <= maxLen; l++ {
		for i := range idx {
			idx[i] = 0
		}
		for {
			if count%nshards == shard {
				w.WriteString("reset\nnew 0 mem\n")
				for i := 0; i < l; i++ {
					w.WriteString(ops[idx[i]])
					w.WriteByte('\n')
				}
				w.WriteString("dump 0\n")
			}
			count++
			k := l - 1
			for k >= 0 {
				idx[k]++
				if idx[k] < len(ops) {
					break
				}
				idx[k] = 0
				k--
			}
			if k < 0 {
				break
			}
		}
	}
	fmt.Fprintf(stat, "exhstat alphabet=%d maxlen=%d sequences=%d\n", len(ops), maxLen, count)
}

// ShardArgs parses the optional `<shard> <nshards>` tail of gen / genx / oracle (default 0 1).
func ShardArgs(a []string) (int, int) {
	if len(a) >= 2 {
		s, _ := strconv.Atoi(a[0])
		n, _ := strconv.Atoi(a[1])
		if n > 0 && s >= 0 && s < n {
			return s, n
		}
	}
	return 0, 1
}
