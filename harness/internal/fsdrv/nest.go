package fsdrv

import (
	"bufio"
	"fmt"
	"strings"

	"gcverif/internal/hx"
)

// ---------------------------------------------------------------------------------------------
// The nested-view family (C01, C03): `Filespace(p)` called on a CHILD VIEW (root 1..3 levels below the
// filespace's root, reached in one call or through a chain of views of views) with an UNREDUCED spelling.
//
//	inside  `..` elements that go up and come down again without ever passing the view's root
//	        (`x/y/../../t`, `/./t/z/..//u`), leading `/`, `.` and empty elements, trailing `/`:
//	        must succeed and the new view is rooted at base ++ reduce(spelling)
//	self    such a spelling of the view's own root (`x/..`, `/./x/y/../..`): must succeed, same root
//	escape  the walk passes the view's root but stays inside the filespace's root: `../s`, `w/../../s`,
//	        `/../s`, `./x/.././../s`, `../<the view's own name>/t`, k = 1..depth levels up:
//	        must FAIL and bind nothing
//	over    k = depth+1: the walk also leaves the filespace's root: must fail
//
// Every such `view` line is followed by calls THROUGH the new handle (one mutation with a fresh marker
// name, `dump <new>`) and by `dump <root>`: for inside/self they must act at the reduced path, for
// escape/over every call must answer `nofs` and the root's tree must be unchanged — so a view that was
// handed out where it must not be shows up as a result line, not only as ok/err of the `view` call.
// Lines are tagged (`#@ nest:<kind>`, `#@ nestuse:<kind>`) for the family-wise counters.
// ---------------------------------------------------------------------------------------------

// NestKinds are the four kinds of the nested-view family.
var NestKinds = []string{"inside", "self", "escape", "over"}

var nestNames = []string{"a", "b", "c", "z"}

// decorate re-spells a list of path elements without changing the walk: `.` and empty elements, a
// leading `/`, a trailing `/`.
func (g *HistGen) decorate(parts []string) string {
	r := g.R
	parts = append([]string{}, parts...)
	lead, trail := false, false
	for i, n := 0, r.Intn(4); i < n; i++ {
		pos := r.Intn(len(parts) + 1)
		ins := func(x string) { parts = append(parts[:pos], append([]string{x}, parts[pos:]...)...) }
		switch r.Intn(4) {
		case 0:
			g.Count["nestspell:dot"]++
			ins(".")
		case 1:
			g.Count["nestspell:dslash"]++
			ins("")
		case 2:
			g.Count["nestspell:lead"]++
			lead = true
		default:
			g.Count["nestspell:trail"]++
			trail = true
		}
	}
	s := strings.Join(parts, "/")
	if lead {
		s = "/" + s
	}
	if trail && s != "" && !strings.HasSuffix(s, "/") {
		s += "/"
	}
	return s
}

// insideParts: elements that resolve to target and contain at least one `..`; the walk never passes the
// start (detours of 1..2 names followed by as many `..`, at any position).
func (g *HistGen) insideParts(target []string) []string {
	r := g.R
	parts := append([]string{}, target...)
	for i, n := 0, 1+r.Intn(2); i < n; i++ {
		// a detour may only start between whole elements of the target: the positions of `parts` where the
		// walk so far is at a prefix of the target, i.e. not inside an earlier detour — positions are drawn
		// among the current element boundaries and the detour is self-contained, so any boundary is fine
		pos := r.Intn(len(parts) + 1)
		k := 1 + r.Intn(2)
		var d []string
		for j := 0; j < k; j++ {
			d = append(d, nestNames[r.Intn(len(nestNames))])
		}
		for j := 0; j < k; j++ {
			d = append(d, "..")
		}
		parts = append(parts[:pos], append(d, parts[pos:]...)...)
	}
	return parts
}

// escapeParts: u names, then u+k `..` (the walk is k levels above its start), then a tail of names.
func (g *HistGen) escapeParts(k int, tail []string) []string {
	r := g.R
	var parts []string
	u := r.Intn(3)
	for j := 0; j < u; j++ {
		parts = append(parts, nestNames[r.Intn(len(nestNames))])
	}
	if u == 2 && r.Chance(1, 2) {
		// a/../b/../..: come back to the start in between
		parts = []string{parts[0], "..", parts[1], ".."}
		u = 0
	}
	for j := 0; j < u+k; j++ {
		parts = append(parts, "..")
	}
	return append(parts, tail...)
}

func plainSegs(g *HistGen, n int) []string {
	s := make([]string, n)
	for i := range s {
		s[i] = g.R.Pick(Pool)
	}
	return s
}

// NestBlock emits one block of the family (see the header).
func NestBlock(g *HistGen) {
	r := g.R
	root := g.InitIDs[0]
	// --- the parent: a handle known to be rooted 1..3 levels down; sometimes (always when there is none) a
	// fresh chain of views below a known handle: in one call or level by level (views of views)
	var cands, starts []int
	for _, id := range g.IDs {
		if b, ok := g.Base[id]; ok {
			if len(b) >= 1 && len(b) <= 3 {
				cands = append(cands, id)
			}
			if len(b) <= 2 {
				starts = append(starts, id)
			}
		}
	}
	parent := -1
	if len(cands) > 0 && !r.Chance(1, 3) {
		parent = cands[r.Intn(len(cands))]
		g.Count["nestparent:existing"]++
	} else {
		from := starts[r.Intn(len(starts))] // the InitIDs are always in it
		room := 3 - len(g.Base[from])
		g.want = WantDir
		segs := g.Segs()
		g.want = WantAny
		if len(segs) > room {
			segs = segs[:room]
		}
		g.used = append(g.used, segs)
		g.dirs = append(g.dirs, segs)
		open := func(from int, segs []string) int {
			id := g.NewID()
			p := g.Spell(segs)
			g.Emit("view %d %d %s", id, from, HP(p))
			g.IDs = append(g.IDs, id)
			g.NoteView(id, from, p)
			g.Count["op:view"]++
			return id
		}
		if len(segs) == 1 || r.Chance(1, 2) {
			parent = open(from, segs)
			g.Count["nestparent:onecall"]++
		} else {
			parent = from
			for _, s := range segs {
				parent = open(parent, []string{s})
			}
			g.Count["nestparent:chain"]++
		}
	}
	base := g.Base[parent]
	depth := len(base)
	g.Count[fmt.Sprintf("nestdepth:%d", depth)]++
	// --- the spelling
	kind := "inside"
	var parts, target []string
	switch x := r.Intn(100); {
	case x < 38:
		target = plainSegs(g, r.Intn(3))
		if len(g.dirs) > 0 && r.Chance(1, 2) {
			target = append([]string{}, g.dirs[r.Intn(len(g.dirs))]...)
			if len(target) > 2 {
				target = target[:2]
			}
		}
		parts = g.insideParts(target)
	case x < 48:
		kind = "self"
		parts = g.insideParts(nil)
	case x < 94:
		kind = "escape"
		k := 1 + r.Intn(depth)
		var tail []string
		switch r.Intn(4) {
		case 0: // back into the view itself, lexically
			tail = append(append([]string{}, base[depth-k:]...), plainSegs(g, r.Intn(2))...)
		case 1:
		default:
			tail = plainSegs(g, 1+r.Intn(2))
		}
		parts = g.escapeParts(k, tail)
	default:
		kind = "over"
		parts = g.escapeParts(depth+1+r.Intn(2), plainSegs(g, r.Intn(2)))
	}
	p := g.decorate(parts)
	// self-check of the generator: the spelling is what its kind says (walk from the view / from the root)
	rel, stays := Resolve(p)
	_, inRoot := Resolve(strings.Join(base, "/") + "/" + strings.TrimLeft(p, "/"))
	switch kind {
	case "inside", "self":
		if !stays || strings.Join(rel, "/") != strings.Join(target, "/") {
			panic("nest generator: inside spelling " + p)
		}
	case "escape":
		if stays || !inRoot {
			panic("nest generator: escape spelling " + p)
		}
	case "over":
		if stays || inRoot {
			panic("nest generator: over spelling " + p)
		}
	}
	if strings.Contains(p, "..") {
		g.Count["nestspell:dotdot"]++
	}
	id := g.NewID()
	g.Tag("nest:" + kind)
	g.Emit("view %d %d %s", id, parent, HP(p))
	g.Count["nest:"+kind]++
	g.Count["op:view"]++
	if kind == "inside" || kind == "self" {
		g.IDs = append(g.IDs, id)
		g.NoteView(id, parent, p)
	} else {
		g.extraIDs++ // never drawn by PickFS: the handle must not exist
	}
	// --- calls through the new handle, then the whole tree
	marker := []string{"p", "q", "a", "b"}[r.Intn(4)]
	use := func(format string, a ...interface{}) {
		g.Tag("nestuse:" + kind)
		g.Emit(format, a...)
	}
	switch r.Intn(5) {
	case 0:
		use("mkdir %d %s", id, HP(marker+"/"+r.Pick(Pool)))
	case 1:
		use("writer %d %s %s", id, HP(marker), hx.Enc(g.Content()))
	case 2:
		use("removeall %d %s", id, HP(r.Pick(Pool)))
	default:
		use("write %d %s %s", id, HP(marker), hx.Enc(g.Content()))
	}
	if r.Chance(1, 2) {
		use("readdir %d -", id)
	}
	use("dump %d", id)
	g.Emit("dump %d", root)
}

// NestedViewOps is the op-table entry of the family.
func NestedViewOps() []Weighted {
	return []Weighted{{6, NestBlock}}
}

// ---------------------------------------------------------------------------------------------
// Exhaustive small scope of the same family: `fs gennest <maxseg> [<shard> <nshards>]`.
// For every depth 1..3 (view rooted at a, a/b, a/b/c), both ways of getting there (one call / a chain of
// views of views) and EVERY spelling of up to maxseg elements over {a, s, .., ., ""} with and without a
// leading `/`:   a tree with one sentinel file per level and a sibling `s` next to every level, the parent
// view, `view <new> <parent> <spelling>`, a write through the new handle, `dump <new>`, `dump 0`.
// ---------------------------------------------------------------------------------------------

func GenNestExhaustive(w *bufio.Writer, stat *bufio.Writer, maxSeg, shard, nshards int) {
	alpha := []string{"a", "s", "..", ".", ""}
	var spellings []string
	var rec func(prefix []string, left int)
	rec = func(prefix []string, left int) {
		if len(prefix) > 0 {
			s := strings.Join(prefix, "/")
			spellings = append(spellings, s, "/"+s)
		}
		if left == 0 {
			return
		}
		for _, x := range alpha {
			rec(append(append([]string{}, prefix...), x), left-1)
		}
	}
	rec(nil, maxSeg)
	chainSegs := []string{"a", "b", "c"}
	count, kinds := 0, map[string]int{}
	for depth := 1; depth <= 3; depth++ {
		for style := 0; style < 2; style++ {
			if depth == 1 && style == 1 {
				continue // one level: the two styles coincide
			}
			for _, sp := range spellings {
				base := chainSegs[:depth]
				_, stays := Resolve(sp)
				_, inRoot := Resolve(strings.Join(base, "/") + "/" + strings.TrimLeft(sp, "/"))
				kind := "inside"
				switch {
				case !stays && inRoot:
					kind = "escape"
				case !stays:
					kind = "over"
				}
				kinds[kind]++
				if count%nshards == shard {
					fmt.Fprintf(w, "reset\nnew 0 mem\n")
					// sentinels: a file and a sibling directory `s` with a file at every level of a/b/c, and below
					fmt.Fprintf(w, "write 0 %s 30\nwrite 0 %s 31\nwrite 0 %s 32\nwrite 0 %s 33\n",
						HP("f"), HP("a/f"), HP("a/b/f"), HP("a/b/c/f"))
					fmt.Fprintf(w, "write 0 %s 40\nwrite 0 %s 41\nwrite 0 %s 42\nwrite 0 %s 43\n",
						HP("s/f"), HP("a/s/f"), HP("a/b/s/f"), HP("a/b/c/s/f"))
					parent := 0
					if style == 0 {
						fmt.Fprintf(w, "view 1 0 %s\n", HP(strings.Join(base, "/")))
						parent = 1
					} else {
						for i, s := range base {
							fmt.Fprintf(w, "view %d %d %s\n", i+1, i, HP(s))
							parent = i + 1
						}
					}
					fmt.Fprintf(w, "#@ nest:%s\nview 9 %d %s\n", kind, parent, HP(sp))
					fmt.Fprintf(w, "#@ nestuse:%s\nwrite 9 %s 99\n", kind, HP("p"))
					fmt.Fprintf(w, "#@ nestuse:%s\ndump 9\ndump 0\n", kind)
				}
				count++
			}
		}
	}
	fmt.Fprintf(stat, "neststat alphabet=%d maxseg=%d spellings=%d histories=%d inside=%d escape=%d over=%d\n",
		len(alpha), maxSeg, len(spellings), count, kinds["inside"], kinds["escape"], kinds["over"])
}
