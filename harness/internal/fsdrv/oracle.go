package fsdrv

import (
	"bufio"
	"bytes"
	"fmt"
	"sort"
	"strconv"
	"strings"

	"gcverif/internal/hx"
)

// ---------------------------------------------------------------------------------------------
// `fs oracle <n>`: the property evaluated on the implementation alone — no Lean model involved.
//
// The expected answers come from `ref`, a flat "set of named paths" written directly from the
// sentences of the property (it is the executable twin of Goat/Spec/FS.lean: a map from normalised
// path to file-bytes-or-directory, every operation a point-wise rule on that map, relative spellings
// resolved by *walking* `.`/`..` from the root, a view at `base` = the same rule at base ++ path).
// It has no tree, no ordered children and no aliasing, so:
//   - listings are compared as sets (both sides sorted),
//   - every buffer handed in or out is a snapshot by construction (keep / mutate / recheck).
// n random histories from the same generator as `gen` (other seed) are run against the real code
// line by line; a difference prints
//   FAIL <class> line=<k> op=<op line> want=<ref> got=<impl>
//   H <op line>        (the history up to and including the failing line, replayable with `drive`)
// <class> is `value` when the two sides disagree about content (data, listing, tree, t/f, stat,
// kept buffer), `verdict` when they only disagree about ok/err of a call.
// ---------------------------------------------------------------------------------------------

type rnode struct {
	dir  bool
	data []byte
}

type rkept struct {
	isList    bool
	bytes     []byte
	listing   string
	untracked bool
}

// Ref is the flat reference: ONE tree of named paths; every `new` binds its id to the root of that
// tree (whatever the kind), `view` to a base path inside it.  A family with several independent
// backends in one history needs one Ref per tree or its own Model.
type Ref struct {
	nodes map[string]*rnode // key = segments joined by "/"; the root directory is implicit
	views map[int][]string
	slots map[int]*rkept
	last  *rkept
}

func NewRef() *Ref {
	return &Ref{nodes: map[string]*rnode{}, views: map[int][]string{}, slots: map[int]*rkept{}}
}

// Resolve walks a relative path spelling from the root of a view: "" and "." stay, ".." goes up,
// leaving the root is an error.
func Resolve(raw string) ([]string, bool) {
	var cur []string
	for _, s := range strings.Split(raw, "/") {
		switch s {
		case "", ".":
		case "..":
			if len(cur) == 0 {
				return nil, false
			}
			cur = cur[:len(cur)-1]
		default:
			cur = append(cur, s)
		}
	}
	return cur, true
}

func key(p []string) string { return strings.Join(p, "/") }

func (r *Ref) get(p []string) *rnode {
	if len(p) == 0 {
		return &rnode{dir: true}
	}
	return r.nodes[key(p)]
}

// parentsOK: no proper prefix of p is a file
func (r *Ref) parentsOK(p []string) bool {
	for i := 1; i < len(p); i++ {
		if n := r.nodes[key(p[:i])]; n != nil && !n.dir {
			return false
		}
	}
	return true
}

func (r *Ref) mkParents(p []string) {
	for i := 1; i < len(p); i++ {
		r.nodes[key(p[:i])] = &rnode{dir: true}
	}
}

func (r *Ref) hasChildren(p []string) bool {
	pre := key(p) + "/"
	for k := range r.nodes {
		if strings.HasPrefix(k, pre) {
			return true
		}
	}
	return false
}

func (r *Ref) write(p []string, data []byte) string {
	if len(p) == 0 || !r.parentsOK(p) {
		return "err"
	}
	if n := r.get(p); n != nil && n.dir {
		return "err"
	}
	r.mkParents(p)
	r.nodes[key(p)] = &rnode{data: append([]byte{}, data...)}
	return "ok"
}

func (r *Ref) mkdir(p []string) string {
	if !r.parentsOK(p) {
		return "err"
	}
	if n := r.get(p); n != nil && !n.dir {
		return "err"
	}
	r.mkParents(p)
	if len(p) > 0 {
		r.nodes[key(p)] = &rnode{dir: true}
	}
	return "ok"
}

func (r *Ref) remove(rel, p []string, all bool) string {
	if len(rel) == 0 || len(p) == 0 {
		return "err"
	}
	n := r.get(p)
	if n == nil {
		return "err"
	}
	if !all && n.dir && r.hasChildren(p) {
		return "err"
	}
	pre := key(p) + "/"
	for k := range r.nodes {
		if strings.HasPrefix(k, pre) {
			delete(r.nodes, k)
		}
	}
	delete(r.nodes, key(p))
	return "ok"
}

func (r *Ref) copy(kind string, s, d []string) string {
	src := r.get(s)
	if len(d) == 0 || src == nil || !r.parentsOK(d) || r.get(d) != nil {
		return "err"
	}
	if (kind == "copyfile" && src.dir) || (kind == "copydir" && !src.dir) {
		return "err"
	}
	r.mkParents(d)
	// the copy is a snapshot of the source as it is once the destination's parents exist
	clone := func(n *rnode) *rnode { return &rnode{dir: n.dir, data: append([]byte{}, n.data...)} }
	snap := map[string]*rnode{"": clone(src)}
	pre := ""
	if len(s) > 0 {
		pre = key(s) + "/"
	}
	for k, n := range r.nodes { // every node strictly below the source
		if strings.HasPrefix(k, pre) {
			snap["/"+k[len(pre):]] = clone(n)
		}
	}
	for k, n := range snap {
		r.nodes[key(d)+k] = n
	}
	return "ok"
}

func (r *Ref) children(p []string) []string {
	pre := ""
	if len(p) > 0 {
		pre = key(p) + "/"
	}
	var items []string
	for k, n := range r.nodes {
		if strings.HasPrefix(k, pre) && !strings.Contains(k[len(pre):], "/") {
			kind := "f"
			if n.dir {
				kind = "d"
			}
			items = append(items, HP(k[len(pre):])+":"+kind)
		}
	}
	sort.Strings(items)
	return items
}

func (r *Ref) dump(base []string) string {
	n := r.get(base)
	if n == nil || !n.dir {
		return "err"
	}
	pre := ""
	if len(base) > 0 {
		pre = key(base) + "/"
	}
	var ks []string
	for k := range r.nodes {
		if strings.HasPrefix(k, pre) {
			ks = append(ks, k[len(pre):])
		}
	}
	sort.Strings(ks)
	if len(ks) == 0 {
		return "tree"
	}
	out := make([]string, len(ks))
	for i, k := range ks {
		if n := r.nodes[pre+k]; n.dir {
			out[i] = HP(k) + "/"
		} else {
			out[i] = HP(k) + "=" + hx.Enc(n.data)
		}
	}
	return "tree " + strings.Join(out, " ")
}

// ReadChunks is the expected `rd …` answer of `reader` on a file with this content.
func ReadChunks(data []byte, sizes []int) string {
	if len(sizes) == 0 {
		return "rd"
	}
	items := make([]string, len(sizes))
	rest := data
	for i, sz := range sizes {
		n := sz
		if n > len(rest) {
			n = len(rest)
		}
		flag := "c"
		if n == len(rest) {
			flag = "e"
		}
		items[i] = hx.Enc(rest[:n]) + ":" + flag
		rest = rest[n:]
	}
	return "rd " + strings.Join(items, ",")
}

func lastChunk(data []byte, sizes []int) []byte {
	rest := data
	var last []byte
	for _, sz := range sizes {
		n := sz
		if n > len(rest) {
			n = len(rest)
		}
		last = rest[:n]
		rest = rest[n:]
	}
	return append([]byte{}, last...)
}

// Line is the reference's answer to one protocol line (same syntax as the drivers).
func (r *Ref) Line(f []string) string {
	last := r.last
	r.last = nil
	num := func(s string) int { n, _ := strconv.Atoi(s); return n }
	switch f[0] {
	case "reset":
		*r = *NewRef()
		return "ok"
	case "new":
		r.views[num(f[1])] = []string{}
		return "ok"
	case "view":
		base, ok := r.views[num(f[2])]
		if !ok {
			return "nofs"
		}
		rel, good := Resolve(string(hx.MustDec(f[3])))
		if !good {
			return "err"
		}
		r.views[num(f[1])] = append(append([]string{}, base...), rel...)
		return "ok"
	case "keep":
		if last == nil {
			return "none"
		}
		r.slots[num(f[1])] = last
		return "ok"
	case "mutate":
		v := r.slots[num(f[1])]
		i, b := num(f[2]), num(f[3])
		if v == nil {
			return "none"
		}
		if v.isList {
			n := 0
			if v.listing != "list" {
				n = strings.Count(v.listing, ",") + 1
			}
			if i >= n {
				return "none"
			}
			v.untracked = true // the reference has no order of entries
			return "ok"
		}
		if i >= len(v.bytes) {
			return "none"
		}
		v.bytes[i] = byte(b)
		return "ok"
	case "recheck":
		v := r.slots[num(f[1])]
		if v == nil {
			return "none"
		}
		if v.untracked {
			return "skip"
		}
		if v.isList {
			return v.listing
		}
		return "data " + hx.Enc(v.bytes)
	case "dump":
		base, ok := r.views[num(f[1])]
		if !ok {
			return "nofs"
		}
		return r.dump(base)
	}
	base, ok := r.views[num(f[1])]
	if !ok {
		return "nofs"
	}
	arg := func(i int) ([]string, []string, bool) {
		rel, good := Resolve(string(hx.MustDec(f[i])))
		if !good {
			return nil, nil, false
		}
		return rel, append(append([]string{}, base...), rel...), true
	}
	rel, p, good := arg(2)
	switch f[0] {
	case "write":
		data := hx.MustDec(f[3])
		r.last = &rkept{bytes: append([]byte{}, data...)}
		if !good {
			return "err"
		}
		return r.write(p, data)
	case "writer":
		var all []byte
		for _, h := range f[3:] {
			c := hx.MustDec(h)
			all = append(all, c...)
			r.last = &rkept{bytes: append([]byte{}, c...)}
		}
		if !good {
			return "err"
		}
		return r.write(p, all)
	case "mkdir":
		if !good {
			return "err"
		}
		return r.mkdir(p)
	case "remove", "removeall":
		if !good {
			return "err"
		}
		return r.remove(rel, p, f[0] == "removeall")
	case "copy", "copyfile", "copydir":
		_, d, good2 := arg(3)
		if !good || !good2 {
			return "err"
		}
		return r.copy(f[0], p, d)
	case "isexist":
		return TF(good && r.get(p) != nil)
	case "isfile":
		return TF(good && r.get(p) != nil && !r.get(p).dir)
	case "isdir":
		return TF(good && r.get(p) != nil && r.get(p).dir)
	}
	if !good {
		return "err"
	}
	n := r.get(p)
	if n == nil {
		return "err"
	}
	switch f[0] {
	case "readfile":
		if n.dir {
			return "err"
		}
		r.last = &rkept{bytes: append([]byte{}, n.data...)}
		return "data " + hx.Enc(n.data)
	case "reader":
		if n.dir {
			return "err"
		}
		sizes := make([]int, 0, len(f)-3)
		for _, s := range f[3:] {
			sizes = append(sizes, num(s))
		}
		if len(sizes) > 0 {
			r.last = &rkept{bytes: lastChunk(n.data, sizes)}
		}
		return ReadChunks(n.data, sizes)
	case "readdir":
		if !n.dir {
			return "err"
		}
		items := r.children(p)
		res := "list"
		if len(items) > 0 {
			res = "list " + strings.Join(items, ",")
		}
		r.last = &rkept{isList: true, listing: res}
		return res
	case "lstat":
		name := "ROOT"
		if len(p) > 0 {
			name = p[len(p)-1]
		}
		if n.dir {
			return "stat " + HP(name) + " d"
		}
		return fmt.Sprintf("stat %s f %d", HP(name), len(n.data))
	}
	return "bad-op"
}

// Canon: canonical form for the comparison with the reference: listings as sets
func Canon(res string) string {
	if strings.HasPrefix(res, "list ") {
		items := strings.Split(res[5:], ",")
		sort.Strings(items)
		return "list " + strings.Join(items, ",")
	}
	return res
}

// CompareHistory runs one history against the real code and the reference side by side.
// A verdict difference (ok/err only) is recorded and the run continues (a later value difference
// shows whether the disagreement became visible in the tree); a value difference ends the run:
// the two sides have diverged and the rest says nothing new.
type Failure struct {
	Class, Op, Want, Got string
	Line                 int
}

// Model is anything that answers protocol lines the way the implementation should (`skip`: no
// expectation for this line).  *Ref is one.
type Model interface {
	Line(f []string) string
}

// Comment lines (`#…`) are skipped; `#@ <tag>` makes the next line also count under `<tag>:<result kind>`,
// and every `view` line under `view:<result kind>` (family-wise coverage counters of the oracle).
func CompareHistory(impl *Session, model Model, hist []string, checked map[string]int) (fails []Failure, lines int) {
	tag := ""
	for k, l := range hist {
		if l == "" || strings.HasPrefix(l, "#") {
			if strings.HasPrefix(l, "#@ ") {
				tag = l[3:]
			}
			continue
		}
		f := strings.Split(l, " ")
		got := Canon(impl.Line(f))
		want := model.Line(f)
		lines++
		if checked != nil {
			checked[f[0]]++
			kind := got
			if i := strings.IndexByte(got, ' '); i >= 0 {
				kind = got[:i]
			}
			if f[0] == "view" {
				checked["view:"+kind]++
			}
			if tag != "" {
				checked[tag+":"+kind]++
			}
		}
		tag = ""
		if want == "skip" || got == want {
			continue
		}
		if (got == "ok" || got == "err") && (want == "ok" || want == "err") {
			fails = append(fails, Failure{"verdict", l, want, got, k})
			continue
		}
		fails = append(fails, Failure{"value", l, want, got, k})
		break
	}
	return fails, lines
}

func ReportFails(w *bufio.Writer, hist []string, fails []Failure) {
	last := 0
	for _, f := range fails {
		fmt.Fprintf(w, "FAIL %s line=%d op=%s want=%s got=%s\n", f.Class, f.Line, f.Op, trunc(f.Want), trunc(f.Got))
		last = f.Line
	}
	for _, h := range hist[:last+1] {
		fmt.Fprintf(w, "H %s\n", h)
	}
}

// OracleSeed is the seed of shard `shard` of the `oracle` stream for the current VERIF_SEED.
func OracleSeed(shard int) uint64 {
	return (hx.SeedFromEnv()*1000003 + uint64(shard)*104729) ^ 0x5eed
}

// Oracle is `fs oracle <n> [<shard> <nshards>]` (C01 generator against *Ref).
func Oracle(w *bufio.Writer, n, shard, nshards int) {
	var buf bytes.Buffer
	bw := bufio.NewWriter(&buf)
	g := NewHistGen(hx.NewRand(OracleSeed(shard)), bw)
	g.Ops = append(g.Ops, NestedViewOps()...)
	impl := NewSession()
	model := NewRef()
	nfail, lines, checked := 0, 0, map[string]int{}
	hists := 0
	for i := shard; i < n; i += nshards {
		buf.Reset()
		g.History()
		bw.Flush()
		hists++
		hist := strings.Split(strings.TrimRight(buf.String(), "\n"), "\n")
		fails, k := CompareHistory(impl, model, hist, checked)
		lines += k
		if len(fails) > 0 {
			nfail++
			if nfail <= 3 {
				ReportFails(w, hist, fails)
			}
		}
	}
	impl.Reset()
	var cs []string
	for k, v := range checked {
		cs = append(cs, fmt.Sprintf("%s=%d", k, v))
	}
	sort.Strings(cs)
	for k, v := range g.Count {
		if strings.HasPrefix(k, "nest") {
			cs = append(cs, fmt.Sprintf("gen:%s=%d", k, v))
		}
	}
	sort.Strings(cs)
	fmt.Fprintf(w, "oracle histories=%d cases=%d fails=%d %s\n", hists, lines, nfail, strings.Join(cs, " "))
}

// Refcheck: op lines on stdin (one or more histories) against the reference; same FAIL format.
func Refcheck(in *bufio.Scanner, w *bufio.Writer) {
	impl := NewSession()
	model := NewRef()
	var hist []string
	for in.Scan() {
		l := in.Text()
		if l == "" || strings.HasPrefix(l, "#") {
			continue
		}
		hist = append(hist, l)
	}
	fails, lines := CompareHistory(impl, model, hist, nil)
	if len(fails) > 0 {
		ReportFails(w, hist, fails)
	}
	impl.Reset()
	fmt.Fprintf(w, "refcheck cases=%d fails=%d\n", lines, len(fails))
}

func trunc(s string) string {
	if len(s) > 400 {
		return s[:400] + "…"
	}
	return s
}

// PrintCounts prints `<tag> k=v …` sorted by key.
func PrintCounts(w *bufio.Writer, tag string, m map[string]int) {
	var ks []string
	for k := range m {
		ks = append(ks, k)
	}
	sort.Strings(ks)
	parts := make([]string, len(ks))
	for i, k := range ks {
		parts[i] = fmt.Sprintf("%s=%d", k, m[k])
	}
	fmt.Fprintf(w, "%s %s\n", tag, strings.Join(parts, " "))
}
