// Package fsdrv is the reusable implementation-side part of the `fs` line protocol (filespace
// family, properties C01–C07; the protocol is described in /verif/lean/Driver/FSCore.lean, the
// extension mechanism in /verif/notes/FS_EXTENDING.md).
//
//	session.go  Session (bound filespaces, kept buffers, watchdog), the registries RegisterKind /
//	            RegisterCommand / MarkMutating, the protocol interpreter Session.Line
//	show.go     result formatting (OkErr, TF, ShowListing), Dump, the path functions
//	drive.go    Drive: op lines in, result lines out, optional statistics file
//	gen.go      HistGen: seeded generator of histories (paths, spellings, contents, op table)
//	genx.go     exhaustive small-scope histories
//	oracle.go   Ref: the flat reference oracle; CompareHistory, Oracle, Refcheck
//
// A family's command (`harness/cmd/<family>/main.go`) imports this package, registers its backend
// kinds and extra protocol words in init() or main, and calls Drive.  Kind `mem` is registered here.
package fsdrv

import (
	"fmt"
	"os"
	"strconv"
	"sync/atomic"
	"time"

	"gcverif/internal/hx"

	"github.com/goatcms/goatcore/filesystem"
	"github.com/goatcms/goatcore/filesystem/filespace/memfs"
)

// FS is the interface under test.  (filesystem.Filespace has a method named Filespace, so a
// struct cannot embed it under its own name; use this alias.)
type FS = filesystem.Filespace

// ErrBadOp is what a kind constructor returns for arguments it cannot parse (result `bad-op`);
// any other error is the result `err`.
var ErrBadOp = fmt.Errorf("bad-op")

// Watchdog: an interface call that does not return within this time is reported as `hang`
// (generous: "wait for what must happen", never used to assert that something did not happen).
var Watchdog = 20 * time.Second

// After the first hang of a process the watchdog is short: the first one is waited for generously, an
// implementation that hangs once usually hangs in many histories and must not stall the driver.
var WatchdogAfterHang = 1500 * time.Millisecond

var hangsSeen int32

// probes of a minimisation (the check sets VERIF_MINIMISING) use the short watchdog from the start: the hang
// was waited for generously before, and the minimised history is confirmed without the flag
var minimising = os.Getenv("VERIF_MINIMISING") != ""

// GiveUpAfterHangs: after that many hung histories a driver process stops calling into the code under test.
var GiveUpAfterHangs int32 = 8

func watchdog() time.Duration {
	if (atomic.LoadInt32(&hangsSeen) > 0 || minimising) && WatchdogAfterHang < Watchdog {
		return WatchdogAfterHang
	}
	return Watchdog
}

// Kept is a buffer remembered by the alias probes: the very slice / listing object the filespace
// was given or returned.
type Kept struct {
	IsList  bool
	Bytes   []byte
	Listing []os.FileInfo
}

// Session is the state of one history: filespaces bound to ids, kept buffers, cleanups.
type Session struct {
	// Vals is free per-history storage for kinds and commands (forgotten on reset).
	Vals map[string]interface{}

	fss     map[int]FS
	slots   map[int]*Kept
	last    *Kept
	hung    bool
	cleanup []func()
	timer   *time.Timer
}

func NewSession() *Session {
	return &Session{Vals: map[string]interface{}{}, fss: map[int]FS{}, slots: map[int]*Kept{}}
}

// FS resolves an already bound filespace id.
func (s *Session) FS(id int) (FS, bool) { fs, ok := s.fss[id]; return fs, ok }

// FSArg resolves a protocol token that names a bound filespace.
func (s *Session) FSArg(tok string) (FS, bool) {
	id, err := strconv.Atoi(tok)
	if err != nil {
		return nil, false
	}
	return s.FS(id)
}

// Bind binds id to fs (what `new` and `view` do on success); for commands that create filespaces.
func (s *Session) Bind(id int, fs FS) { s.fss[id] = fs }

// OnReset registers something to release when the history ends (temp directories …).
func (s *Session) OnReset(f func()) { s.cleanup = append(s.cleanup, f) }

// Hung reports whether a call of this history ran into the watchdog.
func (s *Session) Hung() bool { return s.hung }

// Reset runs the cleanups and forgets everything.
func (s *Session) Reset() {
	for _, f := range s.cleanup {
		f()
	}
	*s = *NewSession()
}

// Exec runs one call into the code under test under recover and the watchdog and returns f's
// result, `panic` or `hang`.  Not re-entrant: do not call it from inside f or from a kind constructor.
func (s *Session) Exec(f func() string) string {
	if s.hung {
		return "hang"
	}
	if atomic.LoadInt32(&hangsSeen) >= GiveUpAfterHangs {
		// the process has seen enough hanging histories: the rest of the stream is not attempted (every
		// difference the check reports is re-run alone, in a process of its own, before it is believed)
		return "hang"
	}
	ch := make(chan string, 1)
	go func() {
		var res string
		if p, _ := hx.Guard(func() { res = f() }); p {
			res = "panic"
		}
		ch <- res
	}()
	if s.timer == nil {
		s.timer = time.NewTimer(watchdog())
	} else {
		if !s.timer.Stop() {
			select {
			case <-s.timer.C:
			default:
			}
		}
		s.timer.Reset(watchdog())
	}
	for again := 0; ; again++ {
		select {
		case r := <-ch:
			return r
		case <-s.timer.C:
		}
		if again < 3 && hx.PausedWithin(watchdog()+5*time.Second) {
			// the machine stood still during the window (hx/pause.go): the call has not had its time yet
			s.timer.Reset(watchdog())
			continue
		}
		break
	}
	select {
	case r := <-ch: // finished while the timer fired
		return r
	default:
	}
	{
		atomic.AddInt32(&hangsSeen, 1)
		s.hung = true // locks may be held for ever: the rest of the history answers `hang`
		return "hang"
	}
}

// ---------------------------------------------------------------------------------------------
// registries
// ---------------------------------------------------------------------------------------------

// KindCtor builds the filespace of `new <id> <kind> <args…>`.  args are the remaining tokens of the
// line (hex byte strings, numbers, ids of already bound filespaces: s.FSArg(tok)).  It runs inside
// Session.Exec (a panic is the result `panic`); return ErrBadOp for unparsable arguments.
type KindCtor func(s *Session, args []string) (FS, error)

// CommandFn handles a protocol line whose first word is not one of the built-in ones; args are the
// remaining tokens; the return value is the result line (`bad-op` for unparsable arguments, `nofs`
// for an unbound id).  It runs under recover only: wrap calls into the code under test in s.Exec.
type CommandFn func(s *Session, args []string) string

var (
	kinds    = map[string]KindCtor{}
	commands = map[string]CommandFn{}
)

var builtinWords = map[string]bool{"reset": true, "new": true, "view": true, "dump": true, "keep": true,
	"mutate": true, "recheck": true, "path": true, "pathenum": true,
	"write": true, "writer": true, "reader": true, "mkdir": true, "remove": true, "removeall": true,
	"readfile": true, "readdir": true, "isexist": true, "isfile": true, "isdir": true, "lstat": true,
	"copy": true, "copyfile": true, "copydir": true}

// RegisterKind adds a backend kind for `new <id> <kind> <args…>`.  Panics on a duplicate.
func RegisterKind(kind string, ctor KindCtor) {
	if _, dup := kinds[kind]; dup || kind == "" {
		panic("fsdrv: kind registered twice: " + kind)
	}
	kinds[kind] = ctor
}

// RegisterCommand adds an extra protocol word (e.g. `commit <cache>`).  Panics on a duplicate or a
// built-in word.
func RegisterCommand(word string, h CommandFn) {
	if _, dup := commands[word]; dup || builtinWords[word] || word == "" {
		panic("fsdrv: command word already taken: " + word)
	}
	commands[word] = h
}

// MarkMutating declares that result `ok` of this (registered) word changed a filespace; only used
// by the statistics of Drive (a history is non-trivial when a mutation succeeded and a call failed).
func MarkMutating(word string) { mutating[word] = true }

func init() {
	RegisterKind("mem", func(s *Session, args []string) (FS, error) {
		if len(args) != 0 {
			return nil, ErrBadOp
		}
		return memfs.NewFilespace()
	})
}

// ---------------------------------------------------------------------------------------------
// the interpreter
// ---------------------------------------------------------------------------------------------

// Line executes one protocol line (already split at single spaces) and returns the result line.
func (s *Session) Line(f []string) string {
	last := s.last
	s.last = nil
	if h, ok := commands[f[0]]; ok {
		res := "panic"
		hx.Guard(func() { res = h(s, f[1:]) })
		return res
	}
	switch {
	case f[0] == "reset" && len(f) == 1:
		s.Reset()
		return "ok"
	case f[0] == "new" && len(f) >= 3:
		id, err := strconv.Atoi(f[1])
		if err != nil {
			return "bad-op"
		}
		ctor := kinds[f[2]]
		var fs FS
		res := s.Exec(func() string {
			if ctor == nil {
				return "bad-op"
			}
			var e error
			if fs, e = ctor(s, f[3:]); e == ErrBadOp {
				return "bad-op"
			} else if e != nil {
				return "err"
			}
			return "ok"
		})
		if res == "ok" {
			s.fss[id] = fs
		}
		return res
	case f[0] == "view" && len(f) == 4:
		id, e1 := strconv.Atoi(f[1])
		parent, e2 := strconv.Atoi(f[2])
		p, good := dec(f[3])
		if e1 != nil || e2 != nil || !good {
			return "bad-op"
		}
		fs, ok := s.fss[parent]
		if !ok {
			return "nofs"
		}
		var child FS
		res := s.Exec(func() string {
			c, err := fs.Filespace(p)
			if err != nil {
				return "err"
			}
			if c == nil {
				return "nil"
			}
			child = c
			return "ok"
		})
		if res == "ok" {
			s.fss[id] = child
		}
		return res
	case f[0] == "dump" && len(f) == 2:
		id, err := strconv.Atoi(f[1])
		if err != nil {
			return "bad-op"
		}
		fs, ok := s.fss[id]
		if !ok {
			return "nofs"
		}
		return s.Exec(func() string { return Dump(fs) })
	case f[0] == "keep" && len(f) == 2:
		k, err := strconv.Atoi(f[1])
		if err != nil {
			return "bad-op"
		}
		if last == nil {
			return "none"
		}
		s.slots[k] = last
		return "ok"
	case f[0] == "mutate" && len(f) == 4:
		k, e1 := strconv.Atoi(f[1])
		i, e2 := strconv.Atoi(f[2])
		b, e3 := strconv.Atoi(f[3])
		if e1 != nil || e2 != nil || e3 != nil || i < 0 || b < 0 {
			return "bad-op"
		}
		v := s.slots[k]
		if v == nil {
			return "none"
		}
		if v.IsList {
			if i >= len(v.Listing) {
				return "none"
			}
			v.Listing[i] = v.Listing[b%len(v.Listing)]
			return "ok"
		}
		if i >= len(v.Bytes) {
			return "none"
		}
		v.Bytes[i] = byte(b)
		return "ok"
	case f[0] == "recheck" && len(f) == 2:
		k, err := strconv.Atoi(f[1])
		if err != nil {
			return "bad-op"
		}
		v := s.slots[k]
		if v == nil {
			return "none"
		}
		if v.IsList {
			if p, _ := hx.Guard(func() { _ = ShowListing(v.Listing) }); p {
				return "panic"
			}
			return ShowListing(v.Listing)
		}
		return "data " + hx.Enc(v.Bytes)
	case f[0] == "path" && len(f) == 3:
		b, err := hx.Dec(f[2])
		if err != nil {
			return "bad-op"
		}
		return PathFn(f[1], b)
	case len(f) >= 2:
		id, err := strconv.Atoi(f[1])
		if err != nil {
			return "bad-op"
		}
		fs, have := s.fss[id]
		// parse first so that a malformed line is `bad-op` whether or not the id is bound
		if !have {
			if !KnownCall(f[0], len(f)-2) {
				return "bad-op"
			}
			return "nofs"
		}
		res, buf, ok := s.Call(fs, f[0], f[2:])
		if !ok {
			return "bad-op"
		}
		s.last = buf
		return res
	}
	return "bad-op"
}

// KnownCall: cmd is one of the 16 interface calls (15 words; Filespace is `view`) with an
// acceptable number of arguments after the filespace id.
func KnownCall(cmd string, nargs int) bool {
	switch cmd {
	case "write", "copy", "copyfile", "copydir":
		return nargs == 2
	case "writer", "reader":
		return nargs >= 1
	case "mkdir", "remove", "removeall", "readfile", "readdir", "isexist", "isfile", "isdir", "lstat":
		return nargs == 1
	}
	return false
}

var mutating = map[string]bool{"write": true, "writer": true, "mkdir": true, "remove": true, "removeall": true,
	"copy": true, "copyfile": true, "copydir": true}
