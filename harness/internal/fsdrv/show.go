package fsdrv

import (
	"bufio"
	"fmt"
	"os"
	"path"
	"sort"
	"strings"

	"gcverif/internal/hx"

	"github.com/goatcms/goatcore/varutil"
)

// OkErr, TF, ShowListing: the result spellings of the protocol.
func OkErr(err error) string {
	if err != nil {
		return "err"
	}
	return "ok"
}

func TF(b bool) string {
	if b {
		return "t"
	}
	return "f"
}

func ShowListing(l []os.FileInfo) string {
	if len(l) == 0 {
		return "list"
	}
	items := make([]string, len(l))
	for i, e := range l {
		if e == nil {
			items[i] = "nil"
			continue
		}
		k := "f"
		if e.IsDir() {
			k = "d"
		}
		items[i] = hx.Enc([]byte(e.Name())) + ":" + k
	}
	return "list " + strings.Join(items, ",")
}

// A tree deeper or larger than this cannot come from a history of at most a few hundred lines; the
// walk stops there and marks the entry `!` (a cyclic structure would otherwise be walked for ever).
const (
	dumpMaxDepth = 48
	dumpMaxItems = 100000
)

// Dump walks the whole filespace through the public interface only.
func Dump(fs FS) string {
	type item struct{ p, s string }
	var items []item
	var walk func(dir string, depth int) bool
	walk = func(dir string, depth int) bool {
		if depth > dumpMaxDepth || len(items) > dumpMaxItems {
			return false
		}
		l, err := fs.ReadDir(dir)
		if err != nil {
			return false
		}
		for _, e := range l {
			p := e.Name()
			if dir != "" {
				p = dir + "/" + e.Name()
			}
			hp := hx.Enc([]byte(p))
			isDir := e.IsDir()
			if !fs.IsExist(p) || fs.IsDir(p) != isDir || fs.IsFile(p) == isDir {
				items = append(items, item{p, hp + "!"})
				continue
			}
			if isDir {
				items = append(items, item{p, hp + "/"})
				if !walk(p, depth+1) {
					items = append(items, item{p, hp + "!"})
				}
				continue
			}
			data, err := fs.ReadFile(p)
			if err != nil {
				items = append(items, item{p, hp + "!"})
				continue
			}
			items = append(items, item{p, hp + "=" + hx.Enc(data)})
		}
		return true
	}
	if !walk("", 0) {
		return "err"
	}
	sort.SliceStable(items, func(i, j int) bool { return items[i].p < items[j].p })
	if len(items) == 0 {
		return "tree"
	}
	out := make([]string, len(items))
	for i, it := range items {
		out[i] = it.s
	}
	return "tree " + strings.Join(out, " ")
}

// PathFn is the `path clean|cleanpath|reduce <hex>` line.
func PathFn(fn string, b []byte) string {
	switch fn {
	case "clean":
		return "data " + hx.Enc([]byte(path.Clean(string(b))))
	case "cleanpath":
		return "data " + hx.Enc([]byte(varutil.CleanPath(string(b))))
	case "reduce":
		r, err := varutil.ReduceAbsPath(string(b))
		if err != nil {
			return "err"
		}
		return "data " + hx.Enc([]byte(r))
	}
	return "bad-op"
}

var pathAlphabet = []byte{'a', '.', '/'}

func pathEnum(w *bufio.Writer, n int, cur []byte) {
	if n == 0 {
		red := "err"
		if r, err := varutil.ReduceAbsPath(string(cur)); err == nil {
			red = hx.Enc([]byte(r))
		}
		fmt.Fprintf(w, "%s %s %s %s\n", hx.Enc(cur), hx.Enc([]byte(path.Clean(string(cur)))),
			hx.Enc([]byte(varutil.CleanPath(string(cur)))), red)
		return
	}
	for _, a := range pathAlphabet {
		pathEnum(w, n-1, append(cur, a))
	}
}
