// Package fskinds registers the backend kinds of the `fs` line protocol that wrap the real
// filespace implementations of /repo beyond `mem` (which fsdrv registers itself).  Importing it
// for side effects (`import _ "gcverif/internal/fskinds"`) is enough.
//
//	new <id> disk                      diskfs.NewFilespace on a fresh directory <scratch>/root under
//	                                   /var/tmp (removed on reset); the scratch parent also gets a
//	                                   sentinel file `hostsecret` so that escapes above the root show;
//	                                   the scratch dir is remembered in s.Vals["diskdir:<id>"]
//	new <id> sub <fs> <hexpath>        fshelper.NewSubFS(<fs>, path)   (path used verbatim)
//	new <id> ro <fs>                   fshelper.NewReadonlyFS(<fs>)
//	new <id> cache <fs>                fscache.NewMemCache(<fs>)
//	new <id> enc <fs> <cipher> <hexsecret> <hexsalt>
//	                                   encryptfs.NewEncryptFS(<fs>, Settings{…}); cipher = aes | ext
//
// Shared by the C02/C03/C04/C06/C07 families; do not change the meaning of an existing kind.
package fskinds

import (
	"fmt"
	"io/ioutil"
	"os"
	"path/filepath"
	"strconv"

	"gcverif/internal/fsdrv"
	"gcverif/internal/hx"

	"github.com/goatcms/goatcore/filesystem/filespace/diskfs"
	"github.com/goatcms/goatcore/filesystem/filespace/encryptfs"
	"github.com/goatcms/goatcore/filesystem/filespace/encryptfs/cipherfs"
	"github.com/goatcms/goatcore/filesystem/filespace/encryptfs/cipherfs/aesgcm256cfs"
	"github.com/goatcms/goatcore/filesystem/filespace/encryptfs/cipherfs/extcfs"
	"github.com/goatcms/goatcore/filesystem/fscache"
	"github.com/goatcms/goatcore/filesystem/fshelper"
)

// ScratchBase is where disk backends create their directories.
var ScratchBase = "/var/tmp"

// DiskDir returns the scratch directory (parent of the root) of the disk backend bound by the
// `new <id> disk` line with that id token, or "".
func DiskDir(s *fsdrv.Session, idTok string) string {
	if v, ok := s.Vals["diskdir:"+idTok]; ok {
		return v.(string)
	}
	return ""
}

var diskSeq int

func init() {
	fsdrv.RegisterKind("disk", func(s *fsdrv.Session, args []string) (fsdrv.FS, error) {
		if len(args) != 0 {
			return nil, fsdrv.ErrBadOp
		}
		dir, err := ioutil.TempDir(ScratchBase, "gcverif-disk-")
		if err != nil {
			return nil, err
		}
		s.OnReset(func() { os.RemoveAll(dir) })
		root := filepath.Join(dir, "root")
		if err = os.Mkdir(root, 0777); err != nil {
			return nil, err
		}
		if err = ioutil.WriteFile(filepath.Join(dir, "hostsecret"), []byte("outside"), 0666); err != nil {
			return nil, err
		}
		diskSeq++
		s.Vals["diskdir:last"] = dir
		s.Vals["diskdir:"+strconv.Itoa(diskSeq)] = dir
		return diskfs.NewFilespace(root)
	})
	fsdrv.RegisterKind("sub", func(s *fsdrv.Session, args []string) (fsdrv.FS, error) {
		if len(args) != 2 {
			return nil, fsdrv.ErrBadOp
		}
		inner, ok := s.FSArg(args[0])
		base, err := hx.Dec(args[1])
		if !ok || err != nil {
			return nil, fsdrv.ErrBadOp
		}
		return fshelper.NewSubFS(inner, string(base)), nil
	})
	fsdrv.RegisterKind("ro", func(s *fsdrv.Session, args []string) (fsdrv.FS, error) {
		if len(args) != 1 {
			return nil, fsdrv.ErrBadOp
		}
		inner, ok := s.FSArg(args[0])
		if !ok {
			return nil, fsdrv.ErrBadOp
		}
		return fshelper.NewReadonlyFS(inner), nil
	})
	fsdrv.RegisterKind("cache", func(s *fsdrv.Session, args []string) (fsdrv.FS, error) {
		if len(args) != 1 {
			return nil, fsdrv.ErrBadOp
		}
		inner, ok := s.FSArg(args[0])
		if !ok {
			return nil, fsdrv.ErrBadOp
		}
		return fscache.NewMemCache(inner)
	})
	fsdrv.RegisterKind("enc", func(s *fsdrv.Session, args []string) (fsdrv.FS, error) {
		if len(args) != 4 {
			return nil, fsdrv.ErrBadOp
		}
		inner, ok := s.FSArg(args[0])
		secret, e1 := hx.Dec(args[2])
		salt, e2 := hx.Dec(args[3])
		if !ok || e1 != nil || e2 != nil {
			return nil, fsdrv.ErrBadOp
		}
		var c cipherfs.Cipher
		switch args[1] {
		case "aes":
			c = aesgcm256cfs.NewCipher()
		case "ext":
			c = extcfs.NewDefaultCipher()
		default:
			return nil, fsdrv.ErrBadOp
		}
		fs, err := encryptfs.NewEncryptFS(inner, encryptfs.Settings{Secret: secret, Salt: salt, Cipher: c})
		if err != nil {
			return nil, fmt.Errorf("enc: %v", err)
		}
		return fs, nil
	})
}
