package hx

import (
	"bytes"
	"runtime"
	"strconv"
	"strings"
	"sync"
)

// GoID returns the id of the calling goroutine (parsed from its stack header).
func GoID() int64 {
	var buf [64]byte
	n := runtime.Stack(buf[:], false)
	s := buf[:n]
	s = s[len("goroutine "):]
	i := bytes.IndexByte(s, ' ')
	id, _ := strconv.ParseInt(string(s[:i]), 10, 64)
	return id
}

var (
	gstackMu  sync.Mutex
	gstackBuf = make([]byte, 1<<20)
)

// GoroutineStatus takes one stop-the-world snapshot of all goroutines and returns the status
// (running, runnable, chan receive, sync.RWMutex.RLock, sync.RWMutex.Lock, sync.Mutex.Lock, semacquire, …)
// of goroutine id; ok=false when that goroutine no longer exists.
func GoroutineStatus(id int64) (status string, ok bool) {
	gstackMu.Lock()
	defer gstackMu.Unlock()
	for {
		n := runtime.Stack(gstackBuf, true)
		if n == len(gstackBuf) {
			gstackBuf = make([]byte, 2*len(gstackBuf))
			continue
		}
		want := []byte("goroutine " + strconv.FormatInt(id, 10) + " [")
		for _, blk := range bytes.Split(gstackBuf[:n], []byte("\n\n")) {
			if !bytes.HasPrefix(blk, want) {
				continue
			}
			head := blk[len(want):]
			if i := bytes.IndexByte(head, '\n'); i >= 0 {
				head = head[:i]
			}
			st := string(head)
			if i := strings.IndexAny(st, ",]"); i >= 0 {
				st = st[:i]
			}
			return st, true
		}
		return "", false
	}
}

// ParkedOnLock reports whether a status is one of the runtime's wait reasons for a sync lock.
func ParkedOnLock(status string) bool {
	switch status {
	case "sync.Mutex.Lock", "sync.RWMutex.Lock", "sync.RWMutex.RLock", "semacquire":
		return true
	}
	return false
}
