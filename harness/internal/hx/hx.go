// Package hx holds the helpers every harness family shares: the hex wire format of the line
// protocols (empty = "-"), the single SplitMix64 PRNG all random choices derive from, and a
// panic-to-result wrapper.
package hx

import (
	"encoding/hex"
	"fmt"
	"os"
	"strconv"
)

// Enc encodes bytes as lower-case hex, the empty string as "-".
func Enc(b []byte) string {
	if len(b) == 0 {
		return "-"
	}
	return hex.EncodeToString(b)
}

// Dec is the inverse of Enc.
func Dec(s string) ([]byte, error) {
	if s == "-" {
		return []byte{}, nil
	}
	return hex.DecodeString(s)
}

// MustDec decodes or aborts (harness input is produced by our own generators).
func MustDec(s string) []byte {
	b, err := Dec(s)
	if err != nil {
		fmt.Fprintf(os.Stderr, "bad hex %q: %v\n", s, err)
		os.Exit(3)
	}
	return b
}

// Rand is SplitMix64; every random choice of a run derives from one instance seeded from
// VERIF_SEED, so a disagreement replays exactly.
type Rand struct{ s uint64 }

// NewRand seeds a generator.
func NewRand(seed uint64) *Rand { return &Rand{s: seed} }

// SeedFromEnv reads VERIF_SEED (default 1).
func SeedFromEnv() uint64 {
	if v := os.Getenv("VERIF_SEED"); v != "" {
		if n, err := strconv.ParseInt(v, 10, 64); err == nil {
			return uint64(n)
		}
	}
	return 1
}

// U64 returns the next 64 random bits.
func (r *Rand) U64() uint64 {
	r.s += 0x9e3779b97f4a7c15
	z := r.s
	z = (z ^ (z >> 30)) * 0xbf58476d1ce4e5b9
	z = (z ^ (z >> 27)) * 0x94d049bb133111eb
	return z ^ (z >> 31)
}

// Intn returns a value in [0,n).
func (r *Rand) Intn(n int) int {
	if n <= 0 {
		return 0
	}
	return int(r.U64() % uint64(n))
}

// Chance is true with probability num/den.
func (r *Rand) Chance(num, den int) bool { return r.Intn(den) < num }

// Pick returns a random element.
func (r *Rand) Pick(xs []string) string { return xs[r.Intn(len(xs))] }

// Guard runs f and converts a panic into ok=false.
func Guard(f func()) (panicked bool, val interface{}) {
	defer func() {
		if v := recover(); v != nil {
			panicked, val = true, v
		}
	}()
	f()
	return false, nil
}
