package hx

import (
	"sync/atomic"
	"time"
)

// Pause detector.  A watchdog measures elapsed time; when the whole machine stands still for a while (the
// sandbox being snapshotted, a suspended VM, a host that starves every core) the time passes without the
// operation under watch having had a chance to run, and a timer that expires right after the stall would
// report a hang that is none.  One goroutine sleeps in short steps and records every step that took far
// longer than asked; a watchdog that expires asks PausedWithin and, if the machine stalled during its
// window, waits again instead of reporting.  (Only ever makes a wait more generous.)

var lastPauseNano int64
var pauseOnce int32

const pauseStep = 100 * time.Millisecond
const pauseThreshold = 1500 * time.Millisecond

func startPauseDetector() {
	if !atomic.CompareAndSwapInt32(&pauseOnce, 0, 1) {
		return
	}
	go func() {
		for {
			t0 := time.Now()
			time.Sleep(pauseStep)
			if time.Since(t0) > pauseThreshold {
				atomic.StoreInt64(&lastPauseNano, time.Now().UnixNano())
			}
		}
	}()
}

func init() { startPauseDetector() }

// PausedWithin reports whether the process observed a stall of the machine during the last d.
func PausedWithin(d time.Duration) bool {
	p := atomic.LoadInt64(&lastPauseNano)
	return p != 0 && time.Since(time.Unix(0, p)) <= d
}
