package hx

import (
	"fmt"
	"os"
	"sync/atomic"
	"time"
)

var progress uint64

// Progress is called by a driver loop once per operation / case.
func Progress() { atomic.AddUint64(&progress, 1) }

// StartWatchdog ends the process with a `fatal error: watchdog` line on stderr (exit status 3)
// when no operation has completed for d: a call into the library under test that never returns
// (unbounded recursion that does not grow the stack, a livelock) cannot be interrupted from Go, so
// the driver gives up and the check reports the operation it was in as the failing input.
// `what` returns a description of the operation in progress.
func StartWatchdog(d time.Duration, what func() string) {
	go func() {
		last, since := atomic.LoadUint64(&progress), time.Now()
		for {
			time.Sleep(time.Second)
			cur := atomic.LoadUint64(&progress)
			if cur != last {
				last, since = cur, time.Now()
				continue
			}
			if time.Since(since) > d {
				if PausedWithin(d + 5*time.Second) {
					// the machine stood still during the window (pause.go): start the window again
					since = time.Now()
					continue
				}
				desc := ""
				if what != nil {
					desc = what()
				}
				fmt.Fprintf(os.Stderr, "fatal error: watchdog: no operation completed for %s (a call into the library never returns) %s\n", d, desc)
				os.Exit(3)
			}
		}
	}()
}
