/-
Model driver for the `args` line protocol (C17).  One operation per input line:
  split <hex>            -> ok eof=<b> rest=<n> args=[<hex>,…] | err eof=<b> | panic
  enum <n>               -> for every byte string of length ≤ n over the 9 significant bytes,
                            one line `<hex> <result>` (same order as the Go side)
  inject <hex>,<hex>,…   -> map <k>=<v>,… sep=<hex>,…   (final data-scope content, sorted by key)
-/
import Goat.Model.Args
open Goat Goat.Args

def alphabet : Array UInt8 := #[32, 9, 10, 34, 92, 61, 60, 97, 195]

def showOut : Outcome → String
  | .ok args eof rest => s!"ok eof={eof} rest={rest.length} args=[{",".intercalate (args.map Hex.encode)}]"
  | .err e _ => s!"err eof={e}"
  | .panic => "panic"

partial def enum (len : Nat) (cur : List UInt8) (out : IO.FS.Stream) : IO Unit := do
  if len = 0 then
    let inp := cur.reverse
    out.putStrLn s!"{Hex.encode inp} {showOut (readArgs inp)}"
  else
    for a in alphabet do
      enum (len - 1) (a :: cur) out

def parseList (s : String) : Option (List Bytes) :=
  if s = "" then some [] else (s.splitOn ",").mapM Hex.decode

def dedupKeys (l : List (Bytes × Bytes)) : List Bytes :=
  l.foldl (fun acc kv => if acc.contains kv.1 then acc else acc ++ [kv.1]) []

def showInject (all : List Bytes) : String :=
  let (sets, sep) := inject all
  let keys := dedupKeys sets
  let items := keys.map fun k => s!"{Hex.encode k}={Hex.encode ((lookupLast k sets).getD [])}"
  let items := items.toArray.qsort (· < ·) |>.toList
  s!"map {",".intercalate items} sep={",".intercalate (sep.map Hex.encode)}"

def stepLine (out : IO.FS.Stream) (line : String) : IO Unit := do
  match line.splitOn " " with
  | ["split", h] =>
    match Hex.decode h with
    | some b => out.putStrLn (showOut (readArgs b))
    | none => out.putStrLn "bad-op"
  | ["enum", n] =>
    match n.toNat? with
    | some k => for l in [0:k+1] do enum l [] out
    | none => out.putStrLn "bad-op"
  | ["inject", l] =>
    match parseList l with
    | some all => out.putStrLn (showInject all)
    | none => out.putStrLn "bad-op"
  | ["inject"] => out.putStrLn (showInject [])
  | _ => out.putStrLn "bad-op"

partial def loop (inp out : IO.FS.Stream) : IO Unit := do
  let line ← inp.getLine
  if line.isEmpty then return ()
  let line := (line.dropEndWhile (fun c => c = '\n' || c = '\r')).toString
  if line.isEmpty || line.startsWith "#" then loop inp out else
  stepLine out line
  loop inp out

def main : IO Unit := do
  let out ← IO.getStdout
  loop (← IO.getStdin) out
  out.flush
