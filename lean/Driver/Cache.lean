/-
Executable `m_cache`: the model driver of the `fs` line protocol for C06 / C07 (write-back cache,
model `Goat/Model/Cache.lean`).  Go twin: /verif/harness/cmd/cache.  Protocol and generic interpreter:
`Driver/FSCore.lean`; the memory backend: `Driver/FSMem.lean`.

  new <id> cache <remotefs>                fscache.NewMemCache(<remotefs>); the remote must be a root memory
                                           filespace (else `err`); its tree at this moment is the initial state
                                           of the direct application (the specification side)
  commit <cache> [failat <k>] [order <s>]  -> ok | err      Commit(); `failat k`: the k-th error-capable remote
                                           call fails; `order s`: replay the four journals in the orders drawn
                                           from seed s (the Go map iteration order)
  classify <cache>                         -> -             and on STDERR one line
        C <line> classes=<ids|-> c06=<n> c07=<n> first=<what>
     the defect classes (known findings) the history so far falls into, the number of model/specification
     differences seen so far (c06: a Commit that failed without injection, a remote tree after a successful
     Commit that is not the direct tree; c07: a read through the cache that is not the direct read), and the
     first such difference.

Result post-processing (`Post`, mirrored line for line by the Go driver): listings sorted; answers that depend
on a remote left by a failed Commit are `undet` until the next successful one.

With the argument `-v` every result line of a call through a cache is followed by ` | <specification's answer>`
(used by `--replay`).
-/
import Driver.FSCore
import Driver.FSMem
import Goat.Model.Cache
open Goat Goat.FS

namespace CacheDrv
open FSDrv

inductive Backend where
  | mem (h : MemHandle)
  | cache (idx : Nat) (h : Cache.Handle)

structure CacheRec where
  remoteStore : Nat
  st : Cache.State
  direct : Node
  failed : Bool := false
  defects : List Cache.Defect := []
  c06 : Nat := 0
  c07 : Nat := 0
  first : String := "-"

structure World where
  mem : MemWorld := #[]
  caches : Array CacheRec := #[]
  /-- pending stderr line (set by `classify`) -/
  msg : Option String := none
  /-- the specification's answer to the last call (verbose mode) -/
  spec : Option String := none

def addDefects (old new : List Cache.Defect) : List Cache.Defect :=
  new.foldl (fun acc d => if acc.contains d then acc else acc ++ [d]) old

def noteDiff (cr : CacheRec) (c06 : Bool) (what : String) : CacheRec :=
  let cr := if cr.first == "-" then { cr with first := what } else cr
  if c06 then { cr with c06 := cr.c06 + 1 } else { cr with c07 := cr.c07 + 1 }

def opWord : Op → String
  | .copy .. => "copy" | .copyDirectory .. => "copydir" | .copyFile .. => "copyfile"
  | .readDir _ => "readdir" | .isExist _ => "isexist" | .isFile _ => "isfile" | .isDir _ => "isdir"
  | .mkdirAll _ => "mkdir" | .readFile _ => "readfile" | .writeFile .. => "write" | .filespace _ => "view"
  | .reader .. => "reader" | .writer .. => "writer" | .remove _ => "remove" | .removeAll _ => "removeall"
  | .lstat _ => "lstat"

def applyOp (w : World) : Backend → Op → World × Result
  | .mem h, op => let (m, r) := memApply w.mem h op; ({ w with mem := m, spec := none }, r)
  | .cache idx h, op =>
    match w.caches[idx]? with
    | none => (w, .err)
    | some cr =>
      let s : Cache.State := { cr.st with remote := w.mem[cr.remoteStore]! }
      let sim : Cache.Sim := { cache := s, direct := cr.direct, failed := cr.failed }
      let (sim', r) := sim.step (.call h op)
      let ds := Cache.defectsAt sim h op r
      let specRes : Option Result :=
        match Cache.specRef h with
        | some ref => some (MemFS.step ref sim.direct op).2
        | none => none
      let cr := { cr with st := sim'.cache, direct := sim'.direct, defects := addDefects cr.defects ds }
      let cr :=
        match specRes with
        | some sr =>
          -- reads are judged until the first C06 deviation (after a wrong Commit the remote itself is off)
          if Cache.isRead op && cr.c06 == 0 && Cache.canon r != Cache.canon sr then noteDiff cr false s!"ryw:{opWord op}" else cr
        | none => cr
      ({ w with mem := w.mem.set! cr.remoteStore sim'.cache.remote, caches := w.caches.set! idx cr,
                spec := specRes.map fun sr => showResult (Cache.canon sr) }, r)

def openView (_w : World) : Backend → Bytes → Option Backend
  | .mem h, raw => (memOpenView h raw).map .mem
  | .cache idx h, raw => (Cache.openView h raw).map (.cache idx)

/-- a deterministic shuffle (stands for the Go map iteration order) -/
def shuffle (seed : Nat) : List Bytes → List Bytes
  | [] => []
  | l =>
    let rec go (fuel : Nat) (st : Nat) (l : List Bytes) (acc : List Bytes) : List Bytes :=
      match fuel, l with
      | 0, _ => acc.reverse ++ l
      | _, [] => acc.reverse
      | fuel + 1, x :: xs =>
        let st := (st * 1103515245 + 12345) % 2147483648
        let i := (st / 65536) % (x :: xs).length
        let l := x :: xs
        go fuel st (l.eraseIdx i) (l[i]! :: acc)
    go l.length (seed + 1) l []

/-- `<cache> [failat <k>] [order <s>]` -/
def parseCommit : List String → Option (Nat × Option Nat × Option Nat)
  | [] => none
  | c :: rest =>
    match c.toNat? with
    | none => none
    | some c =>
      let rec go : List String → Option Nat → Option Nat → Option (Option Nat × Option Nat)
        | [], fa, od => some (fa, od)
        | [_], _, _ => none
        | k :: v :: rest, fa, od =>
          match v.toNat? with
          | none => none
          | some n => if k == "failat" then go rest (some n) od else if k == "order" then go rest fa (some n) else none
      (go rest none none).map fun (fa, od) => (c, fa, od)

/-- is the token a (possibly negative) decimal integer the way Go's Atoi accepts it for an id -/
def isNat (s : String) : Bool := s.toNat?.isSome

def command (w : World) (lookup : Nat → Option Backend) (word : String) (args : List String) : Option (World × String) :=
  match word with
  | "commit" =>
    match parseCommit args with
    | none => some (w, "bad-op")
    | some (c, fa, od) =>
      match lookup c with
      | none => some (w, "nofs")
      | some (.cache idx .cache) =>
        match w.caches[idx]? with
        | none => some (w, "bad-op")
        | some cr =>
          let s : Cache.State := { cr.st with remote := w.mem[cr.remoteStore]! }
          let (s', n, ok) :=
            match od with
            | none => Cache.commit fa s
            | some seed =>
              Cache.commitWith (shuffle seed s.remove) (shuffle (seed + 1) s.removeAll) (shuffle (seed + 2) s.mkdirAll)
                (shuffle (seed + 3) s.write) fa s
          let fired := match fa with | some k => k < n | none => false
          let sim : Cache.Sim := { cache := s, direct := cr.direct, failed := cr.failed }
          let cr := { cr with st := s', failed := !ok, defects := addDefects cr.defects (Cache.defectsAtCommit sim) }
          let cr :=
            if !ok && !fired then noteDiff cr true "commit:err"
            else if ok && Cache.treeList s'.remote != Cache.treeList cr.direct then noteDiff cr true "commit:tree"
            else cr
          some ({ w with mem := w.mem.set! cr.remoteStore s'.remote, caches := w.caches.set! idx cr,
                         spec := some (if fired then "err" else "ok") }, if ok then "ok" else "err")
      | some _ => some (w, "bad-op")
  | "classify" =>
    match args with
    | [c] =>
      match c.toNat? with
      | none => some (w, "bad-op")
      | some c =>
        match lookup c with
        | some (.cache idx .cache) =>
          match w.caches[idx]? with
          | some cr =>
            let ids := cr.defects.map Cache.Defect.id
            let cls := if ids.isEmpty then "-" else ",".intercalate ids
            some ({ w with msg := some s!"classes={cls} c06={cr.c06} c07={cr.c07} first={cr.first}" }, "-")
          | none => some (w, "-")
        | _ => some (w, "-")
    | _ => some (w, "bad-op")
  | _ => none

def impl : Impl World Backend where
  init := {}
  newFS := fun w lookup kind args =>
    match kind, args with
    | "mem", [] => let (m, h) := memNew w.mem; some ({ w with mem := m }, some (.mem h))
    | "cache", [fs] =>
      match fs.toNat?.bind lookup with
      | none => none
      | some (.mem h) =>
        if h.ref == .root then
          let remote := w.mem[h.store]!
          let cr : CacheRec := { remoteStore := h.store, st := Cache.State.new remote, direct := remote }
          some ({ w with caches := w.caches.push cr }, some (.cache w.caches.size .cache))
        else some (w, none)
      | some _ => some (w, none)
    | _, _ => none
  applyOp := applyOp
  openView := openView
  command := command

/-! ### result post-processing (mirror of `post` in harness/cmd/cache/main.go) -/

structure Post where
  cacheOf : List (Nat × Nat) := []    -- filespace id ↦ cache id
  remoteOf : List (Nat × Nat) := []   -- cache id ↦ remote id
  undet : List (Nat × Nat) := []      -- cache id ↦ 0 | 1 | 2

def lookupNat (l : List (Nat × Nat)) (k : Nat) : Option Nat := (l.find? (·.1 == k)).map (·.2)
def setNat (l : List (Nat × Nat)) (k v : Nat) : List (Nat × Nat) := (k, v) :: l.filter (·.1 != k)
def delNat (l : List (Nat × Nat)) (k : Nat) : List (Nat × Nat) := l.filter (·.1 != k)

def canonLine (res : String) : String :=
  if res.startsWith "list " then
    let items := ((res.drop 5).toString.splitOn ",").toArray.qsort (· < ·)
    "list " ++ ",".intercalate items.toList
  else res

def copyWords : List String := ["copy", "copyfile", "copydir"]

/-- does an answer of filespace `id` depend on an undetermined remote (second component: the state after
marking the cache for ever when a copy is executed in that state) -/
def Post.masked (p : Post) (id : Nat) (word : String) : Bool × Post :=
  match lookupNat p.cacheOf id with
  | some c =>
    if (lookupNat p.undet c).getD 0 > 0 then
      (true, if copyWords.contains word then { p with undet := setNat p.undet c 2 } else p)
    else (p.remoteOf.any fun (c, r) => r == id && (lookupNat p.undet c).getD 0 > 0, p)
  | none => (p.remoteOf.any fun (c, r) => r == id && (lookupNat p.undet c).getD 0 > 0, p)

def Post.apply (p : Post) (f : List String) (res : String) : Post × String :=
  let num (i : Nat) : Option Nat := (f[i]?).bind String.toNat?
  match f with
  | "reset" :: _ => ({}, res)
  | "new" :: _ =>
    match num 1 with
    | some id =>
      if res == "ok" then
        let p := { p with cacheOf := delNat p.cacheOf id }
        if f.length == 4 && f[2]? == some "cache" then
          match num 3 with
          | some r => ({ cacheOf := setNat p.cacheOf id id, remoteOf := setNat p.remoteOf id r, undet := setNat p.undet id 0 }, res)
          | none => (p, res)
        else (p, res)
      else (p, res)
    | none => (p, res)
  | "view" :: _ =>
    match num 1, num 2 with
    | some id, some parent =>
      if res == "ok" then
        let c := lookupNat p.cacheOf parent
        let p := { p with cacheOf := delNat p.cacheOf id }
        match c with
        | some c => ({ p with cacheOf := setNat p.cacheOf id c }, res)
        | none => (p, res)
      else (p, res)
    | _, _ => (p, res)
  | "commit" :: _ =>
    match num 1 with
    | some c =>
      if (lookupNat p.remoteOf c).isSome then
        let u := (lookupNat p.undet c).getD 0
        if res == "ok" then (if u == 1 then { p with undet := setNat p.undet c 0 } else p, res)
        else if res == "err" || res == "swallowed" then (if u == 0 then { p with undet := setNat p.undet c 1 } else p, res)
        else (p, res)
      else (p, res)
    | none => (p, res)
  | "classify" :: _ | "keep" :: _ | "mutate" :: _ | "recheck" :: _ | "path" :: _ => (p, res)
  | word :: _ =>
    match num 1 with
    | some id =>
      if f.length ≥ 2 && res != "bad-op" && res != "nofs" then
        let (m, p') := p.masked id word
        if m then (p', "undet") else (p, canonLine res)
      else (p, canonLine res)
    | none => (p, canonLine res)
  | [] => (p, res)

/-- verbose mode: what the specification demands of a `dump` line.  Through a cache handle: the walk of the
direct tree through the same view.  Of a cache's remote, as long as no Commit has deviated (`c06 = 0`): the
model's own answer (before a Commit the remote is unchanged, after a successful one it is the direct tree). -/
def dumpSpec (s : St World Backend) (f : List String) (res : String) : Option String :=
  match f with
  | ["dump", id] =>
    match id.toNat?.bind s.fs? with
    | some (.cache idx h) =>
      match s.world.caches[idx]?, Cache.specRef h with
      | some cr, some ref => some (dumpFS memImpl #[cr.direct] { store := 0, ref := ref }).2
      | _, _ => none
    | some (.mem h) =>
      if h.ref == .root && (s.world.caches.any fun cr => cr.remoteStore == h.store && cr.c06 == 0) then some res else none
    | none => none
  | _ => none

partial def loop (verbose : Bool) (inp out err : IO.FS.Stream) (s : St World Backend) (p : Post) (lineNo : Nat) : IO Unit := do
  let line ← inp.getLine
  if line.isEmpty then return ()
  let line := (line.dropEndWhile (fun c => c = '\n' || c = '\r')).toString
  if line.isEmpty || line.startsWith "#" then loop verbose inp out err s p lineNo else
  let s := { s with world := { s.world with msg := none, spec := none } }
  let (s', res) := stepLine impl s line
  let (p', res) := p.apply (line.splitOn " ") res
  let res :=
    if verbose && res != "undet" then
      match dumpSpec s' (line.splitOn " ") res with
      | some sp => s!"{res} | {sp}"
      | none =>
        match s'.world.spec with
        | some sp => s!"{res} | {canonLine sp}"
        | none => res
    else res
  out.putStrLn res
  match s'.world.msg with
  | some m => err.putStrLn s!"C {lineNo} {m}"
  | none => pure ()
  loop verbose inp out err s' p' (lineNo + 1)

end CacheDrv

def main (args : List String) : IO Unit := do
  let out ← IO.getStdout
  let err ← IO.getStderr
  CacheDrv.loop (args.contains "-v") (← IO.getStdin) out err { world := CacheDrv.impl.init } {} 0
  out.flush
  err.flush
