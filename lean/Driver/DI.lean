/-
Model driver for the `di` line protocol (C10).  One operation per input line, one result line each:
  new                                   -> ok            (fresh container; starts a new program)
  set <n> [nil] | setdefault <n> [nil]  -> ok | refused  (a fresh caller object each time, or nil)
  factory <n> <deps> <out>              -> ok | refused  (AddFactory)
  deffactory <n> <deps> <out>           -> ok | refused  (AddDefaultFactory)
       <deps> = - | <name>:<o|r>:<g|i>,…   (optional/required, dp.Get / dp.InjectTo)   <out> = ok|fail|nil
  addinjectors <inj>+<inj>+… | addinjectors -   -> ok | refused  (AddInjectors with that slice)
       <inj> = n | m<t>{<key>=<v|nil>,…} | s<t>{…} | [<inj>+…]
               nil injector, map injector / data-scope injector for tag name <t> (0 = the provider's own),
               multi injector; every `v` is a fresh caller object
  get <n>                               -> inst <class|nil> ran=<names> | err <kind> ran=<names>
  inject <fields>                       -> ok vals=<class|->,… ran=… | err <kind> vals=… ran=…
       <fields> = - | <name>:<o|r>[:<t>=<tag text>]…,…     the provider's tag is `<name>` / `?<name>`
  injectbad <what>                      -> panic         (InjectTo of something that is not a pointer to a struct)
  static                                -> ok            (from here on: NewStaticProvider built from the tables)
  keys                                  -> keys <names>  (sorted once the provider is static: map order)
  calls                                 -> calls <name>=<count>,…   (factory invocations so far, by name)
A name is any text without ` :,;+=[]{}-~`; the token `~` is the empty name.
<class> numbers object identities in order of first appearance in the program's output;
`ran` lists the factory invocations of this request in order.
-/
import Goat.Model.DI
open Goat.DI

structure Prog where
  st      : St
  classes : List Inst      -- identity classes in order of first appearance
  nset    : Nat            -- caller objects handed out so far
  static  : Bool

def Prog.fresh : Prog := { st := St.empty, classes := [], nset := 0, static := false }

def join (l : List String) : String := if l.isEmpty then "-" else ",".intercalate l

def nameOf (tok : String) : Name := if tok = "~" then Name.empty else ⟨tok.toList.map Char.toNat⟩

def showName (n : Name) : String :=
  if n.chars.isEmpty then "~" else String.ofList (n.chars.map Char.ofNat)

def ltChars : List Nat → List Nat → Bool
  | [], [] => false
  | [], _ :: _ => true
  | _ :: _, [] => false
  | a :: as, b :: bs => a < b || (a == b && ltChars as bs)

def sortNames (l : List Name) : List Name :=
  (l.toArray.qsort fun a b => ltChars a.chars b.chars).toList

def classOf (p : Prog) (i : Inst) : Prog × Nat :=
  match p.classes.idxOf? i with
  | some k => (p, k)
  | none => ({ p with classes := p.classes ++ [i] }, p.classes.length)

def kindName : Err → String
  | .cyclic => "cyclic"
  | .missing => "missing"
  | .nilInstance => "nil"
  | .failed => "failed"
  | .fuel => "fuel"
  | .nilDependency => "nildep"
  | .injector k => s!"inj{k}"

def ranOf (before after : St) : String :=
  join ((after.log.drop before.log.length).filterMap fun
    | .start n => some (showName n)
    | .done _ _ => none)

def parseDep (s : String) : Option Dep :=
  match s.splitOn ":" with
  | [n, o, v] => do
    let o ← if o = "o" then some true else if o = "r" then some false else none
    let v ← if v = "i" then some true else if v = "g" then some false else none
    pure ⟨nameOf n, o, v⟩
  | _ => none

def parseFactory (deps out : String) : Option Factory := do
  let ds ← if deps = "-" then some [] else (deps.splitOn ",").mapM parseDep
  let o ← if out = "ok" then some Out.ok else if out = "fail" then some Out.fail
          else if out = "nil" then some Out.nilInst else none
  pure ⟨ds, o⟩

def parseExtraTag (s : String) : Option (TagName × Name) :=
  match s.splitOn "=" with
  | [t, raw] => do
    let t ← t.toNat?
    if raw.isEmpty then none else pure (t, nameOf raw)
  | _ => none

def parseField (s : String) : Option Field :=
  match s.splitOn ":" with
  | n :: o :: extra => do
    let o ← if o = "o" then some true else if o = "r" then some false else none
    let ex ← extra.mapM parseExtraTag
    let own := if o then (nameOf n).opt else nameOf n
    pure ⟨(ownTag, own) :: ex⟩
  | _ => none

/-! the injector grammar, over the characters of the spec; `nset` counts the caller objects -/

def parseEntries (s : String) (nset : Nat) : Option (List (Name × Inst) × Nat) :=
  if s.isEmpty then some ([], nset) else
  (s.splitOn ",").foldlM (fun (acc : List (Name × Inst) × Nat) item =>
    match item.splitOn "=" with
    | [k, "v"] => some (acc.1 ++ [(nameOf k, Inst.given acc.2)], acc.2 + 1)
    | [k, "nil"] => some (acc.1 ++ [(nameOf k, Inst.nil)], acc.2)
    | _ => none) ([], nset)

/-- keep the first entry of every key (the harness builds its Go map the same way) -/
def dedup (l : List (Name × Inst)) : List (Name × Inst) :=
  l.foldl (fun acc kv => if acc.any (fun p => p.1 == kv.1) then acc else acc ++ [kv]) []

mutual
/-- one injector at the head of `cs`; returns it, the rest of the input and the object counter -/
partial def parseInj (cs : List Char) (nset : Nat) : Option (Injector × List Char × Nat) :=
  match cs with
  | 'n' :: rest => some (.nop, rest, nset)
  | '[' :: ']' :: rest => some (.multi [], rest, nset)
  | '[' :: rest =>
    match parseInjList rest nset with
    | some (l, ']' :: rest', n') => some (.multi l, rest', n')
    | _ => none
  | k :: t :: '{' :: rest =>
    if (k = 'm' || k = 's') && t.isDigit then
      let body := rest.takeWhile (· ≠ '}')
      match rest.dropWhile (· ≠ '}') with
      | '}' :: rest' =>
        match parseEntries (String.ofList body) nset with
        | some (data, n') =>
          let tag := t.toNat - '0'.toNat
          some (if k = 'm' then .map tag (dedup data) else .scope tag (dedup data), rest', n')
        | none => none
      | _ => none
    else none
  | _ => none
/-- `<inj>+<inj>+…` -/
partial def parseInjList (cs : List Char) (nset : Nat) : Option (List Injector × List Char × Nat) :=
  match parseInj cs nset with
  | none => none
  | some (i, '+' :: rest, n') =>
    match parseInjList rest n' with
    | some (l, rest', n'') => some (i :: l, rest', n'')
    | none => none
  | some (i, rest, n') => some ([i], rest, n')
end

def parseInjSpec (s : String) (nset : Nat) : Option (List Injector × Nat) :=
  if s = "-" then some ([], nset) else
  match parseInjList s.toList nset with
  | some (l, [], n') => some (l, n')
  | _ => none

def showAccepted (b : Bool) : String := if b then "ok" else "refused"

def showVals (p : Prog) (vals : List (Option Inst)) (nfields : Nat) : Prog × String :=
  let (p, strs) := vals.foldl (fun (acc : Prog × List String) v =>
    match v with
    | none => (acc.1, acc.2 ++ ["-"])
    | some i => let (p', k) := classOf acc.1 i; (p', acc.2 ++ [toString k])) (p, [])
  (p, join (strs ++ List.replicate (nfields - vals.length) "-"))

def countCalls (log : List Ev) : String :=
  let names := log.filterMap fun | .start n => some n | .done _ _ => none
  let uniq := sortNames (names.foldl (fun acc n => if acc.contains n then acc else acc ++ [n]) [])
  join (uniq.map fun n => s!"{showName n}={(names.filter (· == n)).length}")

def doSet (p : Prog) (n : String) (isNil dflt : Bool) : Prog × String :=
  let v := if isNil then Inst.nil else Inst.given p.nset
  let r := if dflt then setDefault p.st (nameOf n) v else set p.st (nameOf n) v
  ({ p with st := r.1, nset := if isNil then p.nset else p.nset + 1 }, showAccepted r.2)

def stepLine (p : Prog) (line : String) : Prog × String :=
  match line.splitOn " " with
  | ["new"] => (Prog.fresh, "ok")
  | ["set", n] => doSet p n false false
  | ["set", n, "nil"] => doSet p n true false
  | ["setdefault", n] => doSet p n false true
  | ["setdefault", n, "nil"] => doSet p n true true
  | ["factory", n, deps, out] =>
    match parseFactory deps out with
    | some f => let r := addFactory p.st (nameOf n) f; ({ p with st := r.1 }, showAccepted r.2)
    | none => (p, "bad-op")
  | ["deffactory", n, deps, out] =>
    match parseFactory deps out with
    | some f => let r := addDefaultFactory p.st (nameOf n) f; ({ p with st := r.1 }, showAccepted r.2)
    | none => (p, "bad-op")
  | ["addinjectors", spec] =>
    match parseInjSpec spec p.nset with
    | some (l, n') => let r := addInjectors p.st l; ({ p with st := r.1, nset := n' }, showAccepted r.2)
    | none => (p, "bad-op")
  | ["get", n] =>
    let r := Get p.st (nameOf n)
    let ran := ranOf p.st r.1
    let p := { p with st := r.1 }
    match r.2 with
    | .inst .nil => (p, s!"inst nil ran={ran}")
    | .inst i => let (p, k) := classOf p i; (p, s!"inst {k} ran={ran}")
    | .err e => (p, s!"err {kindName e} ran={ran}")
  | ["inject", fields] =>
    match (if fields = "-" then some [] else (fields.splitOn ",").mapM parseField) with
    | some fs =>
      let r := InjectTo p.st fs
      let ran := ranOf p.st r.1
      let p := { p with st := r.1 }
      let (p, vals) := showVals p r.2.1 fs.length
      match r.2.2 with
      | none => (p, s!"ok vals={vals} ran={ran}")
      | some e => (p, s!"err {kindName e} vals={vals} ran={ran}")
    | none => (p, "bad-op")
  | ["injectbad", _] => let r := step p.st .injectBad; ({ p with st := r.1 }, "panic")
  | ["static"] => ({ p with st := toStatic p.st (Keys p.st), static := true }, "ok")
  | ["keys"] =>
    let ks := if p.static then sortNames (Keys p.st) else Keys p.st
    (p, s!"keys {join (ks.map showName)}")
  | ["calls"] => (p, s!"calls {countCalls p.st.log}")
  | _ => (p, "bad-op")

partial def loop (inp out : IO.FS.Stream) (p : Prog) : IO Unit := do
  let line ← inp.getLine
  if line.isEmpty then return ()
  let line := (line.dropEndWhile (fun c => c = '\n' || c = '\r')).toString
  if line.isEmpty || line.startsWith "#" then loop inp out p else
  let (p, res) := stepLine p line
  out.putStrLn (if p.st.exhausted then res ++ " FUEL-EXHAUSTED" else res)
  loop inp out p

def main : IO Unit := do
  let out ← IO.getStdout
  loop (← IO.getStdin) out Prog.fresh
  out.flush
