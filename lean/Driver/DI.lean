/-
Model driver for the `di` line protocol (C10).  One operation per input line, one result line each:
  new                                   -> ok            (fresh container; starts a new program)
  set <n> | setdefault <n>              -> ok | refused  (a fresh caller object each time)
  factory <n> <deps> <out>              -> ok | refused  (AddFactory)
  deffactory <n> <deps> <out>           -> ok | refused  (AddDefaultFactory)
       <deps> = - | <name>:<o|r>:<g|i>,…   (optional/required, dp.Get / dp.InjectTo)   <out> = ok|fail|nil
  get <n>                               -> inst <class> ran=<names> | err <kind> ran=<names>
  inject <fields>                       -> ok vals=<class|->,… ran=… | err <kind> vals=… ran=…
       <fields> = - | <name>:<o|r>,…
  keys                                  -> keys <names>
  calls                                 -> calls <name>=<count>,…   (factory invocations so far, by name)
<class> numbers object identities in order of first appearance in the program's output;
`ran` lists the factory invocations of this request in order.
-/
import Goat.Model.DI
open Goat.DI

structure Prog where
  st      : St
  classes : List Inst      -- identity classes in order of first appearance
  nset    : Nat            -- caller objects handed out so far

def Prog.fresh : Prog := { st := St.empty, classes := [], nset := 0 }

def join (l : List String) : String := if l.isEmpty then "-" else ",".intercalate l

def classOf (p : Prog) (i : Inst) : Prog × Nat :=
  match p.classes.idxOf? i with
  | some k => (p, k)
  | none => ({ p with classes := p.classes ++ [i] }, p.classes.length)

def kindName : Err → String
  | .cyclic => "cyclic"
  | .missing => "missing"
  | .nilInstance => "nil"
  | .failed => "failed"
  | .fuel => "fuel"

def ranOf (before after : St) : String :=
  join ((after.log.drop before.log.length).filterMap fun
    | .start n => some (toString n)
    | .done _ _ => none)

def parseDep (s : String) : Option Dep :=
  match s.splitOn ":" with
  | [n, o, v] => do
    let n ← n.toNat?
    let o ← if o = "o" then some true else if o = "r" then some false else none
    let v ← if v = "i" then some true else if v = "g" then some false else none
    pure ⟨n, o, v⟩
  | _ => none

def parseFactory (deps out : String) : Option Factory := do
  let ds ← if deps = "-" then some [] else (deps.splitOn ",").mapM parseDep
  let o ← if out = "ok" then some Out.ok else if out = "fail" then some Out.fail
          else if out = "nil" then some Out.nilInst else none
  pure ⟨ds, o⟩

def parseField (s : String) : Option Field :=
  match s.splitOn ":" with
  | [n, o] => do
    let n ← n.toNat?
    let o ← if o = "o" then some true else if o = "r" then some false else none
    pure ⟨n, o⟩
  | _ => none

def showAccepted (b : Bool) : String := if b then "ok" else "refused"

def showVals (p : Prog) (vals : List (Option Inst)) (nfields : Nat) : Prog × String :=
  let (p, strs) := vals.foldl (fun (acc : Prog × List String) v =>
    match v with
    | none => (acc.1, acc.2 ++ ["-"])
    | some i => let (p', k) := classOf acc.1 i; (p', acc.2 ++ [toString k])) (p, [])
  (p, join (strs ++ List.replicate (nfields - vals.length) "-"))

def countCalls (log : List Ev) : String :=
  let names := log.filterMap fun | .start n => some n | .done _ _ => none
  let uniq := (names.foldl (fun acc n => if acc.contains n then acc else acc ++ [n]) []).toArray.qsort (· < ·) |>.toList
  join (uniq.map fun n => s!"{n}={(names.filter (· == n)).length}")

def stepLine (p : Prog) (line : String) : Prog × String :=
  match line.splitOn " " with
  | ["new"] => (Prog.fresh, "ok")
  | ["set", n] =>
    match n.toNat? with
    | some n => let r := set p.st n (.given p.nset)
                ({ p with st := r.1, nset := p.nset + 1 }, showAccepted r.2)
    | none => (p, "bad-op")
  | ["setdefault", n] =>
    match n.toNat? with
    | some n => let r := setDefault p.st n (.given p.nset)
                ({ p with st := r.1, nset := p.nset + 1 }, showAccepted r.2)
    | none => (p, "bad-op")
  | ["factory", n, deps, out] =>
    match n.toNat?, parseFactory deps out with
    | some n, some f => let r := addFactory p.st n f; ({ p with st := r.1 }, showAccepted r.2)
    | _, _ => (p, "bad-op")
  | ["deffactory", n, deps, out] =>
    match n.toNat?, parseFactory deps out with
    | some n, some f => let r := addDefaultFactory p.st n f; ({ p with st := r.1 }, showAccepted r.2)
    | _, _ => (p, "bad-op")
  | ["get", n] =>
    match n.toNat? with
    | some n =>
      let r := Get p.st n
      let ran := ranOf p.st r.1
      let p := { p with st := r.1 }
      match r.2 with
      | .inst i => let (p, k) := classOf p i; (p, s!"inst {k} ran={ran}")
      | .err e => (p, s!"err {kindName e} ran={ran}")
    | none => (p, "bad-op")
  | ["inject", fields] =>
    match (if fields = "-" then some [] else (fields.splitOn ",").mapM parseField) with
    | some fs =>
      let r := InjectTo p.st fs
      let ran := ranOf p.st r.1
      let p := { p with st := r.1 }
      let (p, vals) := showVals p r.2.1 fs.length
      match r.2.2 with
      | none => (p, s!"ok vals={vals} ran={ran}")
      | some e => (p, s!"err {kindName e} vals={vals} ran={ran}")
    | none => (p, "bad-op")
  | ["keys"] => (p, s!"keys {join ((Keys p.st).map toString)}")
  | ["calls"] => (p, s!"calls {countCalls p.st.log}")
  | _ => (p, "bad-op")

partial def loop (inp out : IO.FS.Stream) (p : Prog) : IO Unit := do
  let line ← inp.getLine
  if line.isEmpty then return ()
  let line := (line.dropEndWhile (fun c => c = '\n' || c = '\r')).toString
  if line.isEmpty || line.startsWith "#" then loop inp out p else
  let (p, res) := stepLine p line
  out.putStrLn (if p.st.exhausted then res ++ " FUEL-EXHAUSTED" else res)
  loop inp out p

def main : IO Unit := do
  let out ← IO.getStdout
  loop (← IO.getStdin) out Prog.fresh
  out.flush
