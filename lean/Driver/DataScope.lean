/-
Model driver for the `datascope` line protocol (C13).  One operation per input line, one result
line per operation (anything after ` | ` on an op line is a hint for the Go side and ignored here).

  reset                      -> ok                      (fresh store)
  root                       -> id <n>                  datascope.New(empty map)
  child <p>                  -> id <n> | bad            datascope.NewChild(scope p, empty map)
  set <s> <k> <v|nil>        -> ok
  get <s> <k>                -> val <v|nil>
  keys <s>                   -> keys <k,…|->            (sorted: Go map order is not observable)
  lock <s> <h>               -> ok                      h := scope.LockData()   (h: handle chosen by the generator)
  lset/lget/lkeys <h> …      -> as above, through the locker bound to handle h (`bad` if h is unbound)
  llock <h> <h'>             -> ok                      h' := locker(h).LockData()
  commit <h>                 -> ok [resumed=<pid>:<result>;…] | fatal

A call whose next critical section needs a mutex that is taken does not return: the result is
`blocked <pid>` and the call stays pending; it is resumed by the `commit` that releases that mutex
and its result is reported on that commit line.  To keep the outcome independent of the order in
which the Go runtime wakes the waiters, a call that would block is only *admitted* as a pending
probe when (1) it would run to completion once that one mutex is released, (2) no pending write
waits on the same mutex and, if it is a write itself, nothing else waits there; otherwise the
result is `skip` and nothing happens (the Go side skips it too).  While probes are pending new
`lock`/`llock` requests are skipped, and so is (3) the `commit` of a locker on whose own mutex probes
are pending (it would turn their hits into misses: `Commit` sets `data = nil`).  Should a resumed
probe block a second time all the same, the rest of the case is skipped (`tainted`): the comparison
never depends on the order in which the Go runtime wakes waiters.  A blocked `lock` probe stands for `LockData(); Commit()`.
`fatal` (second Commit = unlock of an unlocked RWMutex) is not executed on the Go side.
-/
import Goat.Model.DataScope
open Goat Goat.DataScope

inductive PTask where
  | task (t : Task) (isWrite : Bool)
  | lockProbe

structure Pend where
  pid : Nat
  mu : Mu
  what : PTask

structure Sess where
  st : Store
  pending : List Pend
  nextPid : Nat
  /-- generator handle ↦ locker index of the model store -/
  handles : List (Nat × Nat)
  /-- a resumed probe blocked again: outcomes from here on could depend on wake-up order -/
  tainted : Bool

def Sess.empty : Sess :=
  { st := { scopes := [], lockers := [] }, pending := [], nextPid := 0, handles := [], tainted := false }

def Sess.locker (se : Sess) (h : Nat) : Option Nat := (se.handles.find? (fun p => p.1 == h)).map (·.2)

def showVal : Val → String
  | none => "nil"
  | some n => toString n

def showKeys (ks : List Key) : String :=
  if ks.isEmpty then "-" else ",".intercalate ((ks.toArray.qsort (· < ·)).toList.map toString)

def showRes : Res → String
  | .ok => "ok"
  | .val v => s!"val {showVal v}"
  | .keys ks => s!"keys {showKeys ks}"
  | .locker l => s!"lk {l}"
  | .panic => "panic"
  | .fatal => "fatal"
  | .bad => "bad"

def blockedOn : Task → Mu
  | .walk s _ => .scope s
  | .req (.set s _ _) => .scope s
  | .req (.get s _) => .scope s
  | .req (.keys s) => .scope s
  | .req (.lock s) => .scope s
  | .req (.lset l _ _) => .locker l
  | .req (.lget l _) => .locker l
  | .req (.lkeys l) => .locker l
  | .req (.llock l) => .locker l
  | .req (.commit l) => .locker l

def release (st : Store) : Mu → Store
  | .scope s => { st with scopes := setHeld st.scopes s false }
  | .locker l =>
    match st.lockers[l]? with
    | some lk => setLocker st l { lk with held := false }
    | none => st

def isLockReq : Req → Bool
  | .lock _ => true
  | .llock _ => true
  | _ => false

def isWriteReq : Req → Bool
  | .set .. => true
  | .lset .. => true
  | _ => false

def muFree (st : Store) : Mu → Bool
  | .scope s => isFree st.scopes s
  | .locker l => match st.lockers[l]? with
    | some lk => !lk.held
    | none => false

/-- resume the probes waiting on `m` (in pid order); returns the report items -/
def resume (se : Sess) (m : Mu) : Sess × List String := Id.run do
  let mut st := se.st
  let mut keep : List Pend := []
  let mut out : List String := []
  let mut tainted := se.tainted
  for p in se.pending do
    if p.mu == m then
      match p.what with
      | .lockProbe =>
        if muFree st m then out := out ++ [s!"{p.pid}:ok"] else keep := keep ++ [p]
      | .task t w =>
        match run st t with
        | (st', .inl r) =>
          st := st'
          out := out ++ [s!"{p.pid}:{showRes r}"]
        | (st', .inr t') =>
          st := st'
          tainted := true
          keep := keep ++ [{ p with mu := blockedOn t', what := .task t' w }]
    else keep := keep ++ [p]
  return ({ se with st := st, pending := keep, tainted := tainted }, out)

def request (se : Sess) (r : Req) (bind : Option Nat := none) : Sess × String :=
  if se.tainted then (se, "skip") else
  if (match r with
      | .commit l => se.pending.any (fun (p : Pend) => p.mu == Mu.locker l)
      | _ => false) then (se, "skip") else
  match run se.st (.req r) with
  | (st', .inl res) =>
    if isLockReq r && !se.pending.isEmpty && (match res with | .locker _ => true | _ => false) then (se, "skip")
    else
      match r, res with
      | .commit l, .ok =>
        let m := match se.st.lockers[l]? with
          | some lk => lk.unlock
          | none => .locker l
        let (se', items) := resume { se with st := st' } m
        (se', if items.isEmpty then "ok" else "ok resumed=" ++ ";".intercalate items)
      | _, .locker id =>
        match bind with
        | some h => ({ se with st := st', handles := (h, id) :: se.handles }, "ok")
        | none => ({ se with st := st' }, showRes res)
      | _, _ => ({ se with st := st' }, showRes res)
  | (_, .inr t) =>
    let m := blockedOn t
    let wouldFinish := match run (release se.st m) t with
      | (_, .inl _) => true
      | (_, .inr _) => false
    let same := se.pending.filter (fun p => p.mu == m)
    let sameHasWrite := same.any (fun p => match p.what with | .task _ w => w | .lockProbe => false)
    let w := isWriteReq r
    if !wouldFinish || sameHasWrite || (w && !same.isEmpty) then (se, "skip")
    else
      let what := if isLockReq r then PTask.lockProbe else PTask.task t w
      (({ se with pending := se.pending ++ [{ pid := se.nextPid, mu := m, what := what }], nextPid := se.nextPid + 1 } : Sess),
       s!"blocked {se.nextPid}")

def parseVal (s : String) : Option Val :=
  if s = "nil" then some none else s.toNat?.map some

def handle (se : Sess) (line : String) : Sess × String :=
  let line := match line.splitOn " | " with
    | l :: _ => l
    | [] => line
  match line.splitOn " " with
  | ["reset"] => (Sess.empty, "ok")
  | ["root"] =>
    (({ se with st := { se.st with scopes := newRoot se.st.scopes [] } } : Sess), s!"id {se.st.scopes.length}")
  | ["child", p] =>
    match p.toNat? with
    | some p =>
      if p < se.st.scopes.length then
        (({ se with st := { se.st with scopes := newChild se.st.scopes p [] } } : Sess), s!"id {se.st.scopes.length}")
      else (se, "bad")
    | none => (se, "bad-op")
  | ["set", s, k, v] =>
    match s.toNat?, k.toNat?, parseVal v with
    | some s, some k, some v => request se (.set s k v)
    | _, _, _ => (se, "bad-op")
  | ["get", s, k] =>
    match s.toNat?, k.toNat? with
    | some s, some k => request se (.get s k)
    | _, _ => (se, "bad-op")
  | ["keys", s] =>
    match s.toNat? with
    | some s => request se (.keys s)
    | none => (se, "bad-op")
  | ["lock", s, h] =>
    match s.toNat?, h.toNat? with
    | some s, some h => request se (.lock s) (some h)
    | _, _ => (se, "bad-op")
  | ["lset", l, k, v] =>
    match l.toNat?, k.toNat?, parseVal v with
    | some h, some k, some v =>
      match se.locker h with
      | some l => request se (.lset l k v)
      | none => (se, "bad")
    | _, _, _ => (se, "bad-op")
  | ["lget", l, k] =>
    match l.toNat?, k.toNat? with
    | some h, some k =>
      match se.locker h with
      | some l => request se (.lget l k)
      | none => (se, "bad")
    | _, _ => (se, "bad-op")
  | ["lkeys", l] =>
    match (l.toNat?).map se.locker with
    | some (some l) => request se (.lkeys l)
    | some none => (se, "bad")
    | none => (se, "bad-op")
  | ["llock", l, h] =>
    match (l.toNat?).map se.locker, h.toNat? with
    | some (some l), some h => request se (.llock l) (some h)
    | some none, some _ => (se, "bad")
    | _, _ => (se, "bad-op")
  | ["commit", l] =>
    match (l.toNat?).map se.locker with
    | some (some l) => request se (.commit l)
    | some none => (se, "bad")
    | none => (se, "bad-op")
  | _ => (se, "bad-op")

partial def loop (inp out : IO.FS.Stream) (se : Sess) : IO Unit := do
  let line ← inp.getLine
  if line.isEmpty then return ()
  let line := (line.dropEndWhile (fun c => c = '\n' || c = '\r')).toString
  if line.isEmpty || line.startsWith "#" then loop inp out se else
  let (se', res) := handle se line
  out.putStrLn res
  loop inp out se'

def main : IO Unit := do
  let out ← IO.getStdout
  loop (← IO.getStdin) out Sess.empty
  out.flush
