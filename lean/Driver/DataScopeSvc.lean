/-
Model driver for the `dssvc` line protocol (C13, service units on scope trees).  One operation per
input line, one result line per operation (anything after ` | ` is a hint for the Go side).

  reset                   -> ok
  root | child <p>        -> id <n> | bad                 scope.New / scope.NewChild(parent p)
  goc <U> <s>             -> inst <n>                     U = t|e|w: tasks.Unit.FromScope / envs.Unit.Envs / waits.ForScope
  bind <s> <n>            -> ok                           tasks.Unit.BindScope(s, instance n)   (n: an instance of service t)
  clear <s>               -> ok                           tasks.Unit.Clear(s)
  set <U> <s> <n|nil>     -> ok                           s.SetValue(key U, instance n / nil)
  get <U> <s>             -> inst <n|nil>                 s.Value(key U)
  lock <s> <h>            -> ok                           h := s.LockData()
  lset <U> <h> <n|nil>    -> ok ; lget <U> <h> -> inst <n|nil> ; commit <h> -> ok

A call that would have to wait for a mutex (the driver is a single goroutine: it would wait for ever)
is `skip` on both sides; an unknown scope/handle/instance or an instance of another service is `bad`.
While no locker is open every result carries the observation ` obs t=…;e=…;w=…`: for every node, in
order, the instance `Value(key U)` resolves to.  Instances are numbered in order of creation, over all
three services.
-/
import Goat.Model.DataScopeSvc
open Goat Goat.DataScope

structure SSess where
  st : Store
  fresh : Nat
  /-- service key of each instance -/
  owner : List Key
  /-- open handles: generator handle ↦ locker index -/
  handles : List (Nat × Nat)

def SSess.empty : SSess := { st := { scopes := [], lockers := [] }, fresh := 0, owner := [], handles := [] }

def svcKey : String → Option Key
  | "t" => some 101
  | "e" => some 102
  | "w" => some 103
  | _ => none

def showInst : Val → String
  | none => "nil"
  | some n => toString n

def obsOf (se : SSess) : String :=
  if se.st.scopes.any (·.held) then "" else
  let one (k : Key) : String :=
    ",".intercalate ((List.range se.st.scopes.length).map (fun n => showInst (value se.st.scopes n k)))
  s!" obs t={one 101};e={one 102};w={one 103}"

def fin (se : SSess) (r : String) : SSess × String := (se, r ++ obsOf se)

/-- `n|nil` as a value of service key `k`: the instance must exist and belong to that service -/
def parseInst (se : SSess) (k : Key) (s : String) : Option (Option Val) :=
  if s = "nil" then some (some none) else
  match s.toNat? with
  | none => none
  | some n => if se.owner[n]? = some k then some (some (some n)) else some none

def SSess.handle (se : SSess) (h : Nat) : Option Nat := (se.handles.find? (fun p => p.1 == h)).map (·.2)

def doSet (se : SSess) (s : Nat) (k : Key) (v : Val) : SSess × String :=
  if s ≥ se.st.scopes.length then (se, "bad") else
  match setRun se.st s k v with
  | some st' => fin { se with st := st' } "ok"
  | none => (se, "skip")

def handleLine (se : SSess) (line : String) : SSess × String :=
  let line := match line.splitOn " | " with
    | l :: _ => l
    | [] => line
  match line.splitOn " " with
  | ["reset"] => (SSess.empty, "ok")
  | ["root"] => ({ se with st := { se.st with scopes := newRoot se.st.scopes [] } }, s!"id {se.st.scopes.length}")
  | ["child", p] =>
    match p.toNat? with
    | some p =>
      if p < se.st.scopes.length then
        ({ se with st := { se.st with scopes := newChild se.st.scopes p [] } }, s!"id {se.st.scopes.length}")
      else (se, "bad")
    | none => (se, "bad-op")
  | ["goc", u, s] =>
    match svcKey u, s.toNat? with
    | some k, some s =>
      if s ≥ se.st.scopes.length then (se, "bad") else
      match gocRun se.st se.fresh s k with
      | some (st', fresh', v) =>
        let owner := if fresh' > se.fresh then se.owner ++ [k] else se.owner
        fin { se with st := st', fresh := fresh', owner := owner } s!"inst {v}"
      | none => (se, "skip")
    | _, _ => (se, "bad-op")
  | ["bind", s, n] =>
    match s.toNat?, parseInst se 101 n with
    | some s, some (some (some m)) => doSet se s 101 (some m)
    | some _, some _ => (se, "bad")
    | _, _ => (se, "bad-op")
  | ["clear", s] =>
    match s.toNat? with
    | some s => doSet se s 101 none
    | none => (se, "bad-op")
  | ["set", u, s, n] =>
    match svcKey u, s.toNat? with
    | some k, some s =>
      match parseInst se k n with
      | some (some v) => doSet se s k v
      | some none => (se, "bad")
      | none => (se, "bad-op")
    | _, _ => (se, "bad-op")
  | ["get", u, s] =>
    match svcKey u, s.toNat? with
    | some k, some s =>
      if s ≥ se.st.scopes.length then (se, "bad") else
      match getRun se.st s k with
      | some v => fin se s!"inst {showInst v}"
      | none => (se, "skip")
    | _, _ => (se, "bad-op")
  | ["lock", s, h] =>
    match s.toNat?, h.toNat? with
    | some s, some h =>
      if s ≥ se.st.scopes.length || (se.handle h).isSome then (se, "bad") else
      match run se.st (.req (.lock s)) with
      | (st', .inl (.locker l)) => fin { se with st := st', handles := (h, l) :: se.handles } "ok"
      | _ => (se, "skip")
    | _, _ => (se, "bad-op")
  | ["lset", u, h, n] =>
    match svcKey u, h.toNat? with
    | some k, some h =>
      match se.handle h, parseInst se k n with
      | some l, some (some v) =>
        match run se.st (.req (.lset l k v)) with
        | (st', .inl .ok) => fin { se with st := st' } "ok"
        | _ => (se, "skip")
      | _, none => (se, "bad-op")
      | _, _ => (se, "bad")
    | _, _ => (se, "bad-op")
  | ["lget", u, h] =>
    match svcKey u, h.toNat? with
    | some k, some h =>
      match se.handle h with
      | some l =>
        match run se.st (.req (.lget l k)) with
        | (_, .inl (.val v)) => fin se s!"inst {showInst v}"
        | _ => (se, "skip")
      | none => (se, "bad")
    | _, _ => (se, "bad-op")
  | ["commit", h] =>
    match h.toNat? with
    | some h =>
      match se.handle h with
      | some l =>
        match run se.st (.req (.commit l)) with
        | (st', .inl .ok) => fin { se with st := st', handles := se.handles.filter (fun p => p.1 != h) } "ok"
        | _ => (se, "skip")
      | none => (se, "bad")
    | none => (se, "bad-op")
  | _ => (se, "bad-op")

partial def loop (inp out : IO.FS.Stream) (se : SSess) : IO Unit := do
  let line ← inp.getLine
  if line.isEmpty then return ()
  let line := (line.dropEndWhile (fun c => c = '\n' || c = '\r')).toString
  if line.isEmpty || line.startsWith "#" then loop inp out se else
  let (se', res) := handleLine se line
  out.putStrLn res
  loop inp out se'

def main : IO Unit := do
  let out ← IO.getStdout
  loop (← IO.getStdin) out SSess.empty
  out.flush
