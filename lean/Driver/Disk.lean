/-
Model driver of property C02 on the `fs` line protocol (`Driver/FSCore.lean`); executable `m_disk`,
Go twin `/verif/harness/cmd/disk`.  The SAME op file drives a disk filespace and a memory filespace:
  new <id> disk     a disk filespace (model `Goat.Model.DiskFS`) rooted at `root` on a fresh host
                    `DiskFS.demoHost`: `root/` empty, next to it the sentinels `hostsecret`, `rootx/inner`,
                    `a/b` (what the harness plants around the real root directory)
  new <id> mem      a memory filespace (model `Goat.Model.MemFS`, reused through `Driver/FSMem.lean`)
  view …            `Filespace(path)` on either: a memory wrapper, or another disk filespace rooted deeper
  hostsnap <k>      -> host <path>/ … <path>=<data> …   everything on the host of the k-th disk filespace of
                    this history except what is below `root` (the root directory itself is listed), sorted
                    by path string; `nofs` when there is no k-th disk
A model outcome `Out.panic` (proved unreachable: `Goat.C02.no_panic`) would be printed as the impossible
answer `stat 70616e6963 d` and so show up as a difference.
-/
import Driver.FSCore
import Driver.FSMem
import Goat.Model.DiskFS
open Goat Goat.FS FSDrv

namespace DiskDrv

inductive Backend where
  | mem (h : MemHandle)
  | disk (store : Nat) (root : DiskFS.HPath)

structure World where
  mem : MemWorld := #[]
  disks : Array DiskFS.Host := #[]

def outResult : DiskFS.Out → Result
  | .val r => r
  | .panic => .stat (str "panic") true 0

def applyOp (w : World) : Backend → Op → World × Result
  | .mem h, op => let (m, r) := memApply w.mem h op; ({ w with mem := m }, r)
  | .disk i root, op =>
    let (H, o) := DiskFS.step root w.disks[i]! op
    ({ w with disks := w.disks.set! i H }, outResult o)

def openView (w : World) : Backend → Bytes → Option Backend
  | .mem h, raw => (memOpenView h raw).map .mem
  | .disk i root, raw => (DiskFS.openView root w.disks[i]! raw).map (.disk i)

/-- the host outside the root directory, as the harness prints it -/
def hostSnap (H : DiskFS.Host) : String :=
  let keep := H.filter fun kv => !(DiskFS.demoRoot.isPrefixOf kv.1 && kv.1 != DiskFS.demoRoot)
  let items := keep.map fun kv =>
    let p := Path.join kv.1
    (p, match kv.2 with
        | .dir => Hex.encode p ++ "/"
        | .file d => s!"{Hex.encode p}={Hex.encode d}")
  let items := items.mergeSort (fun x y => !bytesLt y.1 x.1)
  if items.isEmpty then "host" else "host " ++ " ".intercalate (items.map (·.2))

def impl : Impl World Backend where
  init := {}
  newFS := fun w _ kind args =>
    match kind, args with
    | "mem", [] => let (m, h) := memNew w.mem; some ({ w with mem := m }, some (.mem h))
    | "disk", [] =>
      some ({ w with disks := w.disks.push DiskFS.demoHost }, some (.disk w.disks.size DiskFS.demoRoot))
    | _, _ => none
  applyOp := applyOp
  openView := openView
  command := fun w _ word args =>
    match word, args with
    | "hostsnap", [k] =>
      match k.toNat? with
      | none => some (w, "bad-op")
      | some k =>
        match w.disks[k]? with
        | none => some (w, "nofs")
        | some H => some (w, hostSnap H)
    | "hostsnap", _ => some (w, "bad-op")
    | _, _ => none

end DiskDrv

def main : IO Unit := FSDrv.runMain DiskDrv.impl
