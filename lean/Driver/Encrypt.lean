/-
Model driver for the `enc` line protocol (C05).  One operation per input line, one result line each.
Bytes are lower-case hex (`-` = empty); a list of byte strings is `_` (empty list) or comma separated;
a list of sizes is `_` or comma separated decimals.

  fs <toy|ext:<tag>> <mem|disk> <h1> <sec1> <salt1> <whole|stream> <entropy> <chunks> <tamper>
     <h2> <sec2> <salt2> <whole|stream> <sizes>
       write `chunks` through an encrypted filespace (settings 1, toy AEAD, `entropy` = what the toy's
       random source delivers), tamper with the stored bytes (none | trunc:<n> | flip:<i>:<xx> | set:<hex>),
       read through a filespace with settings 2
       -> w=<ok|err|panic> stored=<hex> r=<ok|err|panic> parts=<hex>/<eof>,… leak=<0|1>
  aes <raw|tagged> <whole|stream> <bad> <km> <stored> <none|hex> <sizes>
       the real AES-GCM ciphers read `stored`; the 6th field is what AES-GCM `Open` answers for the
       nonce/ciphertext split of `stored` (computed by the generator with the standard library)
       -> r=… parts=… leak=…
  ns <method> <arg>…      -> calls=<Method(args)>   the call the underlying filespace receives
  xkey <raw|tagged> <mem|disk> <h1> <sec1> <salt1> <h2> <sec2> <salt2> <whole|stream> <whole|stream> <pt>
       real AES-GCM on the Go side, an ideal AEAD (opens iff key and nonce are the sealing ones) here
       -> r=<same|other|err|panic>

  shared <raw|tagged> <mem|disk> <hostonly> <secret> <salts> <mutate> <whole|stream> <whole|stream>
       several filespaces side by side, all built from the SAME secret buffer and from salts that are sub-slices
       of one array (spare capacity everywhere), each writing its own file; `mutate`: the caller scribbles over
       its buffers afterwards      -> m=<row>,<row>,…   row i, column j ∈ {s,o,e,p}: filespace i reading file j

  hist <raw|tagged> <mem|disk> <settings> <steps>
       a history with SEVERAL OPEN HANDLES over one base: `settings` = `h:sec:salt,…` (one encrypted filespace
       each, real AES-GCM on the Go side, the ideal AEAD here), `steps` = comma separated
         wf:<fs>:<file>:<len>:<seed>   WriteFile of the content pattern(len,seed)      -> ok | err
         rf:<fs>:<file>                ReadFile                                          -> <len>/<fnv32> | err
         or:<fs>:<file>:<h>            Reader (handle number h, fresh)                   -> ok | err
         rd:<h>:<n>                    one Read with an n-byte buffer                    -> <len>/<fnv32>/<eof>
         ra:<h>                        read everything that is left                      -> <len>/<fnv32>
         cr:<h>                        Close of the reader                               -> ok
         ow:<fs>:<file>:<h>            Writer                                            -> ok | err
         wr:<h>:<len>:<seed>           one Write                                         -> ok
         cw:<h>                        Close of the writer (seals and stores)            -> ok | err
       an operation on a handle whose open failed answers `dead`; `panic` ends the answer list
       -> h=<answer>,<answer>,…      (`bad-op` when the history is not well formed, see Model/EncHandles.lean)

Everything after ` | ` on a result line is model-only information (branch taken) and is stripped by the check
before the comparison.
-/
import Goat.Model.Encrypt
import Goat.Model.EncHandles
open Goat Goat.Enc

def parseBytesList (s : String) : Option (List Bytes) :=
  if s = "_" then some [] else (s.splitOn ",").mapM Hex.decode

def parseSizes (s : String) : Option (List Nat) :=
  if s = "_" then some [] else (s.splitOn ",").mapM String.toNat?

def parsePath (s : String) : Option Path2 :=
  if s = "whole" then some .whole else if s = "stream" then some .stream else none

def parseBool (s : String) : Option Bool :=
  if s = "0" then some false else if s = "1" then some true else none

def parseKind (s : String) : Option Kind :=
  if s = "raw" then some .raw else if s = "tagged" then some .tagged else none

def xorAt : Bytes → Nat → UInt8 → Bytes
  | [], _, _ => []
  | b :: rest, 0, x => (b ^^^ x) :: rest
  | b :: rest, i + 1, x => b :: xorAt rest i x

def tamper (stored : Bytes) (t : String) : Option Bytes :=
  match t.splitOn ":" with
  | ["none"] => some stored
  | ["trunc", n] => n.toNat?.map fun k => stored.take k
  | ["flip", i, x] => do
    let i ← i.toNat?
    let x ← Hex.decode x
    match x with
    | [b] => pure (xorAt stored i b)
    | _ => none
  | ["set", h] => Hex.decode h
  | _ => none

def kindName : ErrKind → String
  | .short => "short" | .unknownTag => "unknownTag" | .auth => "auth" | .io => "io" | .entropy => "entropy"

def resWord {α : Type} : Res α → String
  | .ok _ => "ok" | .err _ => "err" | .panic => "panic"

def resBranch {α : Type} : Res α → String
  | .ok _ => "ok" | .err k => kindName k | .panic => "panic"

def showParts (cs : List (Bytes × Bool)) : String :=
  if cs.isEmpty then "_" else ",".intercalate (cs.map fun (b, e) => s!"{Hex.encode b}/{if e then 1 else 0}")

def showRead (o : ReadOut) : String :=
  match o.res with
  | .ok cs => s!"r=ok parts={showParts cs} leak={if o.leak then 1 else 0}"
  | .err _ => s!"r=err parts=_ leak={if o.leak then 1 else 0}"
  | .panic => s!"r=panic parts=_ leak={if o.leak then 1 else 0}"

/-- AES-GCM as seen by toy-produced data: never authentic -/
def refusingAEAD : AEAD := { nonceSize := 12, overhead := 16, «seal» := fun _ _ p => p, «open» := fun _ _ _ => none }

/-- the cipher under test of an `fs` line: the toy directly, or `extcfs.NewCipher(tag, {tag: toy, 0: aesgcm})` -/
def toyCipherOf (s : String) : Option Cipher :=
  let toy := aesCipher Rev.fixed toyAEAD id
  match s.splitOn ":" with
  | ["toy"] => some toy
  | ["ext", t] => do
    let t ← t.toNat?
    let tag := UInt32.ofNat t
    extCipher Rev.fixed tag [(tag, toy), (0, aesCipher Rev.fixed refusingAEAD id)]
  | _ => none

/-- a base filespace holding one file -/
def oneFile : BaseOps Unit (Option Bytes) Unit where
  ns := fun _ _ s => ((), s)
  sub := fun _ _ _ => some ()
  load := fun _ _ s => s
  store := fun _ _ d _ => some (some d)

def doFs (f : Array String) : Option String := do
  let c ← toyCipherOf f[1]!
  let h1 ← parseBool f[3]!
  let sec1 ← Hex.decode f[4]!
  let salt1 ← Hex.decode f[5]!
  let wp ← parsePath f[6]!
  let ent ← Hex.decode f[7]!
  let chunks ← parseBytesList f[8]!
  let h2 ← parseBool f[10]!
  let sec2 ← Hex.decode f[11]!
  let salt2 ← Hex.decode f[12]!
  let rp ← parsePath f[13]!
  let sizes ← parseSizes f[14]!
  let p : Bytes := str "f.bin"
  let fs1 := newEncryptFS hostIDActual () ⟨sec1, salt1, h1⟩ c
  let fs2 := newEncryptFS hostIDActual () ⟨sec2, salt2, h2⟩ c
  match fs1.write oneFile wp p ent chunks none with
  | .ok (some stored) =>
    let stored' ← tamper stored f[9]!
    let o := fs2.read oneFile rp p sizes (some stored')
    pure s!"w=ok stored={Hex.encode stored} {showRead o} | w:ok r:{resBranch o.res}"
  | .ok none => pure "w=ok stored=?"
  | .err k => pure s!"w=err | w:{kindName k}"
  | .panic => pure "w=panic | w:panic"

def doAes (f : Array String) : Option String := do
  let k ← parseKind f[1]!
  let rp ← parsePath f[2]!
  let bad ← parseBool f[3]!
  let km ← Hex.decode f[4]!
  let stored ← Hex.decode f[5]!
  let ans ← if f[6]! = "none" then some none else (Hex.decode f[6]!).map some
  let sizes ← parseSizes f[7]!
  let a : AEAD := { nonceSize := 12, overhead := 16, «seal» := fun _ _ p => p, «open» := fun _ _ _ => ans }
  let o := (mkCipher a id k).readVia rp km stored (bad && rp == .stream) sizes
  pure s!"{showRead o} | r:{resBranch o.res}"

def lenPrefix (b : Bytes) : Bytes :=
  let n := b.length
  [UInt8.ofNat (n / 16777216), UInt8.ofNat (n / 65536), UInt8.ofNat (n / 256), UInt8.ofNat n] ++ b

/-- ideal AEAD: the sealed text names key and nonce; it opens iff both are the sealing ones -/
def idealAEAD : AEAD where
  nonceSize := 12
  overhead := 0
  «seal» := fun k n p => lenPrefix k ++ lenPrefix n ++ p
  «open» := fun k n c =>
    let hd := lenPrefix k ++ lenPrefix n
    if c.take hd.length = hd then some (c.drop hd.length) else none

def doXkey (f : Array String) : Option String := do
  let k ← parseKind f[1]!
  let h1 ← parseBool f[3]!
  let sec1 ← Hex.decode f[4]!
  let salt1 ← Hex.decode f[5]!
  let h2 ← parseBool f[6]!
  let sec2 ← Hex.decode f[7]!
  let salt2 ← Hex.decode f[8]!
  let wp ← parsePath f[9]!
  let rp ← parsePath f[10]!
  let pt ← Hex.decode f[11]!
  let c := mkCipher idealAEAD id k
  let km1 := keyMaterial hostIDActual ⟨sec1, salt1, h1⟩
  let km2 := keyMaterial hostIDActual ⟨sec2, salt2, h2⟩
  let ent : Bytes := List.replicate 12 0
  match c.writeVia wp km1 ent [pt] with
  | .ok stored =>
    let o := c.readVia rp km2 stored false []
    let r := match o.res with
      | .ok cs => if content cs = pt then "same" else "other"
      | .err _ => "err"
      | .panic => "panic"
    pure s!"r={r} | eqkm={if km1 = km2 then 1 else 0} r:{resBranch o.res}"
  | .err k => pure s!"r=err | w:{kindName k}"
  | .panic => pure "r=panic"

/-- `shared`: filespaces built side by side from the same secret and a list of salts, each writes its own file;
row i = what filespace i answers for file j (s = same data, o = other data, e = error, p = panic).  In the
model key material is a value, so neither the order of construction nor what the caller does to its buffers
afterwards (field 6) can matter. -/
def doShared (f : Array String) : Option String := do
  let k ← parseKind f[1]!
  let h ← parseBool f[3]!
  let sec ← Hex.decode f[4]!
  let salts ← parseBytesList f[5]!
  let wp ← parsePath f[7]!
  let rp ← parsePath f[8]!
  let c := mkCipher idealAEAD id k
  let kms := salts.map fun salt => keyMaterial hostIDActual ⟨sec, salt, h⟩
  let ent : Bytes := List.replicate 12 0
  let pts : List Bytes := (List.range kms.length).map fun j => [UInt8.ofNat j, 100]
  let stored ← (List.zip kms pts).mapM fun (km, pt) =>
    match c.writeVia wp km ent [pt] with
    | .ok st => some st
    | _ => none
  let rows := kms.map fun km =>
    String.ofList ((List.zip stored pts).map fun (st, pt) =>
      match (c.readVia rp km st false []).res with
      | .ok cs => if content cs = pt then 's' else 'o'
      | .err _ => 'e'
      | .panic => 'p')
  pure s!"m={",".intercalate rows}"

/-! ### `hist`: several open handles -/

def parseSetting (s : String) : Option Settings :=
  match s.splitOn ":" with
  | [h, sec, salt] => do
    let h ← parseBool h
    let sec ← Hex.decode sec
    let salt ← Hex.decode salt
    pure ⟨sec, salt, h⟩
  | _ => none

def parseHStep (s : String) : Option HStep :=
  match s.splitOn ":" with
  | ["wf", fs, file, len, seed] => do pure (.writeFile (← fs.toNat?) (← file.toNat?) (pattern (← len.toNat?) (← seed.toNat?)))
  | ["rf", fs, file] => do pure (.readFile (← fs.toNat?) (← file.toNat?))
  | ["or", fs, file, h] => do pure (.openReader (← fs.toNat?) (← file.toNat?) (← h.toNat?))
  | ["rd", h, n] => do pure (.read (← h.toNat?) (← n.toNat?))
  | ["ra", h] => do pure (.readAll (← h.toNat?))
  | ["cr", h] => do pure (.closeReader (← h.toNat?))
  | ["ow", fs, file, h] => do pure (.openWriter (← fs.toNat?) (← file.toNat?) (← h.toNat?))
  | ["wr", h, len, seed] => do pure (.write (← h.toNat?) (pattern (← len.toNat?) (← seed.toNat?)))
  | ["cw", h] => do pure (.closeWriter (← h.toNat?))
  | _ => none

def hex8 (n : UInt32) : String :=
  String.ofList ((List.range 8).map fun i => Hex.digit ((n.toNat / 16 ^ (7 - i)) % 16))

def digest (b : Bytes) : String := s!"{b.length}/{hex8 (fnv32 b)}"

def showHOut : HOut → String
  | .ok => "ok"
  | .err => "err"
  | .data b none => digest b
  | .data b (some e) => s!"{digest b}/{if e then 1 else 0}"
  | .dead => "dead"
  | .panic => "panic"

/-- answers up to and including the first panic -/
def cutAtPanic : List HOut → List HOut
  | [] => []
  | .panic :: _ => [.panic]
  | o :: rest => o :: cutAtPanic rest

def doHist (f : Array String) : Option String := do
  let k ← parseKind f[1]!
  let _ ← if f[2]! = "mem" || f[2]! = "disk" then some () else none
  let sets ← (f[3]!.splitOn ",").mapM parseSetting
  let steps ← (f[4]!.splitOn ",").mapM parseHStep
  let c := mkCipher idealAEAD id k
  let kms := sets.map (keyMaterial hostIDActual)
  let ent : Bytes := List.replicate 12 0
  let (_, outs) ← hrun c kms ent HState.empty steps
  let outs := cutAtPanic outs
  let nOpen := (steps.filter fun st => match st with | .openReader .. => true | .openWriter .. => true | _ => false).length
  pure s!"h={",".intercalate (outs.map showHOut)} | handles:{min nOpen 6}"

/-- a base that only records the call it receives -/
def logBase : BaseOps Unit (List String) Unit where
  ns := fun _ op log =>
    let h := Hex.encode
    let line := match op with
      | .copy a b => s!"Copy({h a},{h b})"
      | .copyDirectory a b => s!"CopyDirectory({h a},{h b})"
      | .copyFile a b => s!"CopyFile({h a},{h b})"
      | .readDir p => s!"ReadDir({h p})"
      | .isExist p => s!"IsExist({h p})"
      | .isFile p => s!"IsFile({h p})"
      | .isDir p => s!"IsDir({h p})"
      | .mkdirAll p m => s!"MkdirAll({h p},{m})"
      | .remove p => s!"Remove({h p})"
      | .removeAll p => s!"RemoveAll({h p})"
      | .lstat p => s!"Lstat({h p})"
    ((), log ++ [line])
  sub := fun _ _ _ => some ()
  load := fun _ _ _ => none
  store := fun _ _ _ _ => none

def doNs (f : Array String) : Option String := do
  let fs := newEncryptFS hostIDActual () ⟨[1], [2], false⟩ (mkCipher toyAEAD id .tagged)
  let one (op : NsOp) : String := ";".intercalate (fs.ns logBase op []).2
  let a1 ← Hex.decode (f[2]?.getD "-")
  let a2 := (Hex.decode (f[3]?.getD "-")).getD []
  let h := Hex.encode
  let calls ← match f[1]! with
    | "copy" => some (one (.copy a1 a2))
    | "copydirectory" => some (one (.copyDirectory a1 a2))
    | "copyfile" => some (one (.copyFile a1 a2))
    | "readdir" => some (one (.readDir a1))
    | "isexist" => some (one (.isExist a1))
    | "isfile" => some (one (.isFile a1))
    | "isdir" => some (one (.isDir a1))
    | "mkdirall" => (f[3]?.bind String.toNat?).map fun m => one (.mkdirAll a1 m)
    | "remove" => some (one (.remove a1))
    | "removeall" => some (one (.removeAll a1))
    | "lstat" => some (one (.lstat a1))
    -- the four data methods and Filespace(path) make exactly one call of the same name on the base
    | "filespace" => some s!"Filespace({h a1})"
    | "readfile" => some s!"ReadFile({h a1})"
    | "writefile" => (f[3]?.bind String.toNat?).map fun m => s!"WriteFile({h a1},{m})"
    | "reader" => some s!"Reader({h a1})"
    | "writer" => some s!"Writer({h a1})"
    | _ => none
  pure s!"calls={calls} same=1"

def stepLine (line : String) : String :=
  let f := (line.splitOn " ").toArray
  let r := match f[0]? with
    | some "fs" => if f.size = 15 then doFs f else none
    | some "aes" => if f.size = 8 then doAes f else none
    | some "xkey" => if f.size = 12 then doXkey f else none
    | some "shared" => if f.size = 9 then doShared f else none
    | some "hist" => if f.size = 5 then doHist f else none
    | some "ns" => if f.size ≥ 3 then doNs f else none
    | _ => none
  r.getD "bad-op"

partial def loop (inp out : IO.FS.Stream) : IO Unit := do
  let line ← inp.getLine
  if line.isEmpty then return ()
  let line := (line.dropEndWhile (fun c => c = '\n' || c = '\r')).toString
  if line.isEmpty || line.startsWith "#" then loop inp out else
  out.putStrLn (stepLine line)
  loop inp out

def main : IO Unit := do
  let out ← IO.getStdout
  loop (← IO.getStdin) out
  out.flush
