/-
Model driver for the `script` line protocol (C18).  One operation per input line, all byte
strings in hex (`-` = empty), an environment list is `k=v,k=v,…` or `_` when empty:

  selfcheck                                  -> selfcheck ok | selfcheck bad <names>
  name <k>                                   -> ok | err                 (Environments.Set)
  case <kind> <entry> <tag> <envs>           -> script <hex>             (builder output)
                                                vars <k>=<v|!>,…         (POSIX mini-shell on that script)
                                                dash-vars <k>=<v|!>,…    (the same in the dash 0.5.12 dialect)
        kind = container | ssh | sshold ; envs in the order of the script
  raw <script> <entry> <names,…>             -> vars … / dash-vars …     (mini-shell on script ++ entry)

`vars` lists, sorted, the value the entrypoint finds in its environment for every key of the
case plus PRESET (`!` = not in the environment); `unsupported` when the script leaves the modelled
fragment, `stuck <hex>` when the mini-shell stopped before the entrypoint.
-/
import Goat.Model.EnvScript
open Goat Goat.EnvScript

def presetName : Bytes := [80, 82, 69, 83, 69, 84]
def presetValue : Bytes := [112, 114, 101, 115, 101, 116]

/-- the harness starts the real shell with `PRESET=preset` in its environment -/
def st0 : State := { vars := [(presetName, presetValue)], exported := [presetName], errexit := false, xtrace := false }

def selfcheck : List String :=
  let t (n : String) (b : Bool) : List String := if b then [] else [n]
  t "header" (header == str "\nset -e\nset +x\n") ++
  t "assignMid" (assignMid == str "=$(cat <<") ++
  t "classifyMid" (classify (str "A=$(cat <<'T'") == .assign (str "A") (str "T") true) ++
  t "classifyMidU" (classify (str "A=$(cat <<T") == .assign (str "A") (str "T") false) ++
  t "rparen" (rparenLine == str ")") ++
  t "export" (exportKw == str "export") ++
  t "set" (setKw == str "set" && dashE == str "-e" && plusX == str "+x") ++
  t "eof" (eofPrefix == str "EOF") ++
  t "reserved" (reserved == [str "PATH", str "OPTIND"]) ++
  t "chars" (nl == 10 && [squote, space, eqSign, dollar, backslash, backquote, underscore] == str "' =$\\`_") ++
  t "preset" (presetName == str "PRESET" && presetValue == str "preset")

def parseKV (s : String) : Option (Bytes × Bytes) :=
  match s.splitOn "=" with
  | [k, v] => do pure ((← Hex.decode k), (← Hex.decode v))
  | _ => none

def parseEnvs (s : String) : Option Env :=
  if s = "_" then some [] else (s.splitOn ",").mapM parseKV

def parseNames (s : String) : Option (List Bytes) :=
  if s = "_" then some [] else (s.splitOn ",").mapM Hex.decode

def dedup (l : List Bytes) : List Bytes :=
  l.foldl (fun acc k => if acc.contains k then acc else acc ++ [k]) []

def showVars (st : State) (names : List Bytes) : String :=
  let items := (dedup names).map fun k =>
    match st.environ k with
    | some v => s!"{Hex.encode k}={Hex.encode v}"
    | none => s!"{Hex.encode k}=!"
  "vars " ++ ",".intercalate (items.toArray.qsort (· < ·)).toList

def showOutcome (o : Outcome) (expectRest : Bytes) (names : List Bytes) : String :=
  match o with
  | .unsupported => "unsupported"
  | .stop st rest =>
    if rest == expectRest then showVars st names
    else s!"stuck {Hex.encode (rest.take 40)}"

def stepLine (out : IO.FS.Stream) (line : String) : IO Unit := do
  match line.splitOn " " with
  | ["selfcheck"] =>
    out.putStrLn (if selfcheck.isEmpty then "selfcheck ok" else s!"selfcheck bad {selfcheck}")
  | ["name", k] =>
    match Hex.decode k with
    | some k => out.putStrLn (if (envSet [] k [118]).isSome then "ok" else "err")
    | none => out.putStrLn "bad-op"
  | ["case", kind, entry, tag, envs] =>
    match Hex.decode entry, Hex.decode tag, parseEnvs envs with
    | some entry, some tag, some envs =>
      let names := presetName :: envs.map (·.1)
      match kind with
      | "container" =>
        out.putStrLn s!"script {Hex.encode (containerScript envs tag)}"
        out.putStrLn (showOutcome (sh .posix st0 (containerStdin envs tag entry)) entry names)
        out.putStrLn ("dash-" ++ showOutcome (sh .dash st0 (containerStdin envs tag entry)) entry names)
      | "ssh" =>
        let s := sshScript envs tag entry
        out.putStrLn s!"script {Hex.encode s}"
        out.putStrLn (showOutcome (sh .posix st0 s) (entry ++ [nl]) names)
        out.putStrLn ("dash-" ++ showOutcome (sh .dash st0 s) (entry ++ [nl]) names)
      | "sshold" =>
        let s := sshScriptOld envs tag entry
        out.putStrLn s!"script {Hex.encode s}"
        out.putStrLn (showOutcome (sh .posix st0 s) (entry ++ [nl]) names)
        out.putStrLn ("dash-" ++ showOutcome (sh .dash st0 s) (entry ++ [nl]) names)
      | _ => out.putStrLn "bad-op"
    | _, _, _ => out.putStrLn "bad-op"
  | ["raw", script, entry, names] =>
    match Hex.decode script, Hex.decode entry, parseNames names with
    | some script, some entry, some names =>
      out.putStrLn (showOutcome (sh .posix st0 (script ++ entry)) entry (presetName :: names))
      out.putStrLn ("dash-" ++ showOutcome (sh .dash st0 (script ++ entry)) entry (presetName :: names))
    | _, _, _ => out.putStrLn "bad-op"
  | _ => out.putStrLn "bad-op"

partial def loop (inp out : IO.FS.Stream) : IO Unit := do
  let line ← inp.getLine
  if line.isEmpty then return ()
  let line := (line.dropEndWhile (fun c => c = '\n' || c = '\r')).toString
  if line.isEmpty || line.startsWith "#" then loop inp out else
  stepLine out line
  loop inp out

def main : IO Unit := do
  let out ← IO.getStdout
  loop (← IO.getStdin) out
  out.flush
