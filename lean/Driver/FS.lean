/-
Model driver for the `fs` line protocol (filespace family, properties C01–C07): executable `m_fs`.
The Go side (`/verif/harness/cmd/fs`, `fs drive`) reads the same lines and runs the real code;
the two output streams are compared line by line.

PROTOCOL  (one operation per line, one result line per operation, except `pathenum`)
  tokens are separated by single spaces;  `#…` and empty lines are skipped (no result line)
  <fs> <id> <k> <i> <size> <n>  decimal numbers
  <path> <data> <chunk> <name>   byte strings in lower-case hex, the empty string is `-`
  <b>                            a byte, decimal 0..255

  reset                              -> ok        forget every filespace and kept buffer (start of a history)
  new <id> <kind> [<arg>…]           -> ok | err | bad-op
        bind <id> to a fresh filespace.  kinds:   mem            memfs.NewFilespace()
        (EXTENSION POINT: further kinds — disk, enc, cache, ro, sub — are added as new `kind`
         words with their own arguments, e.g. `new 3 cache 0`; existing op syntax does not change.
         In this file: a constructor of `Backend`, a case in `newFS`, `applyOp`, `openViewOf`.)
  view <id> <fs> <path>              -> ok | err   bind <id> to <fs>.Filespace(path)
  write <fs> <path> <data>           -> ok | err   WriteFile
  writer <fs> <path> <chunk>*        -> ok | err   Writer, one Write per chunk, Close
  reader <fs> <path> <size>*         -> rd <hex>:<e|c>,… | err
        Reader, one Read per size (buffer of that length), Close; per read the bytes delivered and
        `e` when io.EOF was returned with them, `c` otherwise (`rd` alone when no size is given)
  mkdir | remove | removeall <fs> <path>          -> ok | err
  readfile <fs> <path>               -> data <hex> | err
  readdir <fs> <path>                -> list <name>:<d|f>,… | err      entries in the order returned
  isexist | isfile | isdir <fs> <path>            -> t | f
  lstat <fs> <path>                  -> stat <name> d | stat <name> f <size> | err
  copy | copyfile | copydir <fs> <src> <dst>      -> ok | err
  dump <fs>                          -> tree <path>/ … <path>=<data> … | err
        full walk from the filespace's root through the public interface only (ReadDir, ReadFile,
        cross-checked with IsExist/IsDir/IsFile), entries sorted by path bytes, directories as
        `<path>/`, files as `<path>=<data>`; `<path>!` marks an entry whose queries are inconsistent
        (never printed by a model); `err` when the root cannot be listed
  alias probes (snapshot clause of C01) — the driver remembers the byte slice or listing that the
  immediately preceding line handed in (`write`: the data buffer, `writer`: the last chunk buffer)
  or out (`readfile`: the returned slice, `readdir`: the returned listing, `reader`: the filled
  part of the last buffer); any other line forgets it:
  keep <k>                           -> ok | none  store that buffer in slot <k>
  mutate <k> <i> <b>                 -> ok | none  slot <k>, element <i>: a byte slice gets byte <b>,
                                                   a listing gets a copy of its element number <b> mod length;
                                                   `none` when the slot is empty or <i> out of range
  recheck <k>                        -> data <hex> | list … | none     current content of slot <k>
        A model has no aliasing: `recheck` shows the kept value with the caller's own mutations and
        nothing else, and no `mutate` changes a filespace.
  path clean|cleanpath|reduce <hex>  -> data <hex> | err     path.Clean, varutil.CleanPath, varutil.ReduceAbsPath
  pathenum <n>                       -> one line `<hex> <clean> <cleanpath> <reduce|err>` for every
                                        string of length ≤ n over {a . /} (shorter first, then a < . < /)
  results common to every line: `nofs` (unknown <fs>), `bad-op` (unparsable);  only the
  implementation side can answer `panic` or `hang`.
-/
import Goat.Model.MemFS
open Goat Goat.FS Goat.MemFS

/-- EXTENSION POINT: one constructor per backend kind.  A memory filespace is a store (the shared
root tree) and a handle into it (root or wrapper). -/
inductive Backend where
  | mem (store : Nat) (ref : FSRef)

inductive Kept where
  | bytes (b : Bytes)
  | listing (l : List (Bytes × Bool))

structure St where
  stores : Array Node := #[]
  fss : List (Nat × Backend) := []
  slots : List (Nat × Kept) := []
  last : Option Kept := none

def St.fs? (s : St) (id : Nat) : Option Backend := (s.fss.find? (·.1 == id)).map (·.2)
def St.bind (s : St) (id : Nat) (b : Backend) : St :=
  { s with fss := (id, b) :: s.fss.filter (·.1 != id) }

/-- EXTENSION POINT: `new <id> <kind> <args>` -/
def newFS (s : St) (kind : String) (args : List String) : Option (St × Option Backend) :=
  match kind, args with
  | "mem", [] =>
    let store := s.stores.size
    some ({ s with stores := s.stores.push Node.empty }, some (.mem store .root))
  | _, _ => none

/-- EXTENSION POINT: one interface call on a backend -/
def applyOp (s : St) (b : Backend) (op : Op) : St × Result :=
  match b with
  | .mem store ref =>
    let t := s.stores[store]!
    let (t', r) := MemFS.step ref t op
    ({ s with stores := s.stores.set! store t' }, r)

/-- EXTENSION POINT: `Filespace(path)` of a backend -/
def openViewOf (_s : St) (b : Backend) (raw : Bytes) : Option Backend :=
  match b with
  | .mem store ref => (MemFS.openView ref raw).map (.mem store)

/-! ### printing -/

def showEntries (l : List (Bytes × Bool)) : String :=
  ",".intercalate (l.map fun (n, d) => s!"{Hex.encode n}:{if d then "d" else "f"}")

def showList (l : List (Bytes × Bool)) : String :=
  if l.isEmpty then "list" else "list " ++ showEntries l

def showResult : Result → String
  | .ok => "ok"
  | .err => "err"
  | .bool b => if b then "t" else "f"
  | .data d => s!"data {Hex.encode d}"
  | .list l => showList l
  | .stat n true _ => s!"stat {Hex.encode n} d"
  | .stat n false sz => s!"stat {Hex.encode n} f {sz}"
  | .chunks l =>
    if l.isEmpty then "rd" else
    "rd " ++ ",".intercalate (l.map fun (c, e) => s!"{Hex.encode c}:{if e then "e" else "c"}")

def bytesLt : Bytes → Bytes → Bool
  | [], [] => false
  | [], _ :: _ => true
  | _ :: _, [] => false
  | a :: as, b :: bs => if a < b then true else if b < a then false else bytesLt as bs

/-- the generic walk of `dump`, through interface calls only (works for every backend) -/
partial def walkFS (s : St) (b : Backend) (dir : Bytes) : List (Bytes × String) :=
  match (applyOp s b (.readDir dir)).2 with
  | .list l =>
    l.flatMap fun (name, isDir) =>
      let p := if dir.isEmpty then name else dir ++ Path.slash :: name
      let q (op : Op) : Bool := (applyOp s b op).2 == .bool true
      let consistent := q (.isExist p) && (q (.isDir p) == isDir) && (q (.isFile p) == !isDir)
      if !consistent then [(p, Hex.encode p ++ "!")]
      else if isDir then (p, Hex.encode p ++ "/") :: walkFS s b p
      else match (applyOp s b (.readFile p)).2 with
        | .data d => [(p, s!"{Hex.encode p}={Hex.encode d}")]
        | _ => [(p, Hex.encode p ++ "!")]
  | _ => [(dir, Hex.encode dir ++ "!")]

def dumpFS (s : St) (b : Backend) : String :=
  match (applyOp s b (.readDir [])).2 with
  | .list _ =>
    let items := (walkFS s b []).mergeSort (fun x y => !bytesLt y.1 x.1)
    if items.isEmpty then "tree" else "tree " ++ " ".intercalate (items.map (·.2))
  | _ => "err"

/-! ### parsing -/

def hexs (l : List String) : Option (List Bytes) := l.mapM Hex.decode
def nats (l : List String) : Option (List Nat) := l.mapM String.toNat?

/-- a parsed interface call and the buffer it hands in, if any -/
def parseOp (cmd : String) (args : List String) : Option (Op × Option Kept) := do
  match cmd, args with
  | "write", [p, d] =>
    let d ← Hex.decode d
    pure (.writeFile (← Hex.decode p) d, some (.bytes d))
  | "writer", p :: cs =>
    let cs ← hexs cs
    pure (.writer (← Hex.decode p) cs, cs.getLast?.map .bytes)
  | "reader", p :: ss => pure (.reader (← Hex.decode p) (← nats ss), none)
  | "mkdir", [p] => pure (.mkdirAll (← Hex.decode p), none)
  | "remove", [p] => pure (.remove (← Hex.decode p), none)
  | "removeall", [p] => pure (.removeAll (← Hex.decode p), none)
  | "readfile", [p] => pure (.readFile (← Hex.decode p), none)
  | "readdir", [p] => pure (.readDir (← Hex.decode p), none)
  | "isexist", [p] => pure (.isExist (← Hex.decode p), none)
  | "isfile", [p] => pure (.isFile (← Hex.decode p), none)
  | "isdir", [p] => pure (.isDir (← Hex.decode p), none)
  | "lstat", [p] => pure (.lstat (← Hex.decode p), none)
  | "copy", [a, b] => pure (.copy (← Hex.decode a) (← Hex.decode b), none)
  | "copyfile", [a, b] => pure (.copyFile (← Hex.decode a) (← Hex.decode b), none)
  | "copydir", [a, b] => pure (.copyDirectory (← Hex.decode a) (← Hex.decode b), none)
  | _, _ => none

/-- the buffer a result hands out -/
def keptOfResult : Result → Option Kept
  | .data d => some (.bytes d)
  | .list l => some (.listing l)
  | .chunks l => l.getLast?.map fun c => .bytes c.1
  | _ => none

def setAt {α} (l : List α) (i : Nat) (x : α) : List α := l.set i x

def mutateKept (k : Kept) (i b : Nat) : Option Kept :=
  match k with
  | .bytes d => if i < d.length then some (.bytes (d.set i (UInt8.ofNat b))) else none
  | .listing l =>
    if i < l.length then (l[b % l.length]?).map fun e => .listing (l.set i e) else none

def showKept : Kept → String
  | .bytes d => s!"data {Hex.encode d}"
  | .listing l => showList l

def showPathFn (fn : String) (b : Bytes) : Option String :=
  match fn with
  | "clean" => some s!"data {Hex.encode (Path.clean b)}"
  | "cleanpath" => some s!"data {Hex.encode (Path.cleanPath b)}"
  | "reduce" => some (match Path.reduceAbsPath b with | some r => s!"data {Hex.encode r}" | none => "err")
  | _ => none

def pathAlphabet : List UInt8 := [97, 46, 47]

partial def pathEnum (len : Nat) (cur : List UInt8) (out : IO.FS.Stream) : IO Unit := do
  if len = 0 then
    let p := cur.reverse
    let red := match Path.reduceAbsPath p with | some r => Hex.encode r | none => "err"
    out.putStrLn s!"{Hex.encode p} {Hex.encode (Path.clean p)} {Hex.encode (Path.cleanPath p)} {red}"
  else
    for a in pathAlphabet do
      pathEnum (len - 1) (a :: cur) out

/-- one protocol line: new state and the result line -/
def stepLine (s : St) (line : String) : St × String :=
  let forget (s : St) : St := { s with last := none }
  match line.splitOn " " with
  | ["reset"] => ({}, "ok")
  | "new" :: id :: kind :: args =>
    match id.toNat?, newFS s kind args with
    | some id, some (s', some b) => (forget (s'.bind id b), "ok")
    | some _, some (s', none) => (forget s', "err")
    | _, _ => (forget s, "bad-op")
  | ["view", id, fs, p] =>
    match id.toNat?, fs.toNat?, Hex.decode p with
    | some id, some fs, some p =>
      match s.fs? fs with
      | none => (forget s, "nofs")
      | some b =>
        match openViewOf s b p with
        | some v => (forget (s.bind id v), "ok")
        | none => (forget s, "err")
    | _, _, _ => (forget s, "bad-op")
  | ["dump", fs] =>
    match fs.toNat? with
    | none => (forget s, "bad-op")
    | some fs =>
      match s.fs? fs with
      | none => (forget s, "nofs")
      | some b => (forget s, dumpFS s b)
  | ["keep", k] =>
    match k.toNat?, s.last with
    | some k, some v => ({ s with slots := (k, v) :: s.slots.filter (·.1 != k), last := none }, "ok")
    | some _, none => (forget s, "none")
    | none, _ => (forget s, "bad-op")
  | ["mutate", k, i, b] =>
    match k.toNat?, i.toNat?, b.toNat? with
    | some k, some i, some b =>
      match (s.slots.find? (·.1 == k)).bind fun e => mutateKept e.2 i b with
      | some v => ({ s with slots := (k, v) :: s.slots.filter (·.1 != k), last := none }, "ok")
      | none => (forget s, "none")
    | _, _, _ => (forget s, "bad-op")
  | ["recheck", k] =>
    match k.toNat? with
    | none => (forget s, "bad-op")
    | some k =>
      match s.slots.find? (·.1 == k) with
      | some e => (forget s, showKept e.2)
      | none => (forget s, "none")
  | ["path", fn, h] =>
    match Hex.decode h with
    | none => (forget s, "bad-op")
    | some b => (forget s, (showPathFn fn b).getD "bad-op")
  | cmd :: fs :: args =>
    match fs.toNat?, parseOp cmd args with
    | some fs, some (op, handedIn) =>
      match s.fs? fs with
      | none => (forget s, "nofs")
      | some b =>
        let (s', r) := applyOp s b op
        let last := match handedIn with
          | some k => some k
          | none => keptOfResult r
        ({ s' with last := last }, showResult r)
    | _, _ => (forget s, "bad-op")
  | _ => (forget s, "bad-op")

partial def loop (inp out : IO.FS.Stream) (s : St) : IO Unit := do
  let line ← inp.getLine
  if line.isEmpty then return ()
  let line := (line.dropEndWhile (fun c => c = '\n' || c = '\r')).toString
  if line.isEmpty || line.startsWith "#" then loop inp out s else
  match line.splitOn " " with
  | ["pathenum", n] =>
    match n.toNat? with
    | some k =>
      for l in [0:k+1] do pathEnum l [] out
      loop inp out s
    | none =>
      out.putStrLn "bad-op"
      loop inp out s
  | _ =>
    let (s', res) := stepLine s line
    out.putStrLn res
    loop inp out s'

def main : IO Unit := do
  let out ← IO.getStdout
  loop (← IO.getStdin) out {}
  out.flush
