/-
Executable `m_fs`: the model driver of the `fs` line protocol for C01 (memory filespace only).
Protocol, generic interpreter and the extension mechanism: `Driver/FSCore.lean`; the memory backend:
`Driver/FSMem.lean`.  Other families do not import this file (it defines `main`): they write their own
root next to it (see /verif/notes/FS_EXTENDING.md).
-/
import Driver.FSCore
import Driver.FSMem

def main : IO Unit := FSDrv.runMain FSDrv.memImpl
