/-
Generic model driver of the `fs` line protocol (filespace family, properties C01–C07).
This file has NO `main`: an executable root (`Driver/FS.lean` = `m_fs` for C01, one per further
family) supplies an `FSDrv.Impl` (its backends) and is `def main := FSDrv.runMain impl`.
The Go side (`/verif/harness/internal/fsdrv`, used by `harness/cmd/fs` and the other families'
commands) reads the same lines and runs the real code; the two output streams are compared line by line.

PROTOCOL  (one operation per line, one result line per operation, except `pathenum`)
  tokens are separated by single spaces;  `#…` and empty lines are skipped (no result line)
  <fs> <id> <k> <i> <size> <n>  decimal numbers
  <path> <data> <chunk> <name>   byte strings in lower-case hex, the empty string is `-`
  <b>                            a byte, decimal 0..255

  reset                              -> ok        forget every filespace and kept buffer (start of a history)
  new <id> <kind> [<arg>…]           -> ok | err | bad-op
        bind <id> to a fresh filespace.  kinds:   mem            memfs.NewFilespace()
        (further kinds — disk, enc, cache, ro, sub … — are added by the families that need them as
         new `kind` words with their own arguments, e.g. `new 3 cache 0`; see EXTENSION below)
  view <id> <fs> <path>              -> ok | err   bind <id> to <fs>.Filespace(path)
  write <fs> <path> <data>           -> ok | err   WriteFile
  writer <fs> <path> <chunk>*        -> ok | err   Writer, one Write per chunk, Close
  reader <fs> <path> <size>*         -> rd <hex>:<e|c>,… | err
        Reader, one Read per size (buffer of that length), Close; per read the bytes delivered and
        `e` when io.EOF was returned with them, `c` otherwise (`rd` alone when no size is given)
  mkdir | remove | removeall <fs> <path>          -> ok | err
  readfile <fs> <path>               -> data <hex> | err
  readdir <fs> <path>                -> list <name>:<d|f>,… | err      entries in the order returned
  isexist | isfile | isdir <fs> <path>            -> t | f
  lstat <fs> <path>                  -> stat <name> d | stat <name> f <size> | err
  copy | copyfile | copydir <fs> <src> <dst>      -> ok | err
  dump <fs>                          -> tree <path>/ … <path>=<data> … | err
        full walk from the filespace's root through the public interface only (ReadDir, then per
        entry IsExist, IsDir, IsFile — stopping at the first inconsistent answer — then ReadFile or
        the walk of the directory), entries sorted by path bytes, directories as
        `<path>/`, files as `<path>=<data>`; `<path>!` marks an entry whose queries are inconsistent
        (never printed by a model of a consistent backend); `err` when the root cannot be listed
  alias probes (snapshot clause of C01) — the driver remembers the byte slice or listing that the
  immediately preceding line handed in (`write`: the data buffer, `writer`: the last chunk buffer)
  or out (`readfile`: the returned slice, `readdir`: the returned listing, `reader`: the filled
  part of the last buffer); any other line forgets it:
  keep <k>                           -> ok | none  store that buffer in slot <k>
  mutate <k> <i> <b>                 -> ok | none  slot <k>, element <i>: a byte slice gets byte <b>,
                                                   a listing gets a copy of its element number <b> mod length;
                                                   `none` when the slot is empty or <i> out of range
  recheck <k>                        -> data <hex> | list … | none     current content of slot <k>
        A model has no aliasing: `recheck` shows the kept value with the caller's own mutations and
        nothing else, and no `mutate` changes a filespace.
  path clean|cleanpath|reduce <hex>  -> data <hex> | err     path.Clean, varutil.CleanPath, varutil.ReduceAbsPath
  pathenum <n>                       -> one line `<hex> <clean> <cleanpath> <reduce|err>` for every
                                        string of length ≤ n over {a . /} (shorter first, then a < . < /)
  <word> <arg>*                      -> whatever the family defines; a line whose first word is none of
                                        the words above goes to the family's `command` (EXTENSION); `bad-op`
                                        when no family command takes it
  results common to every line: `nofs` (unknown <fs>), `bad-op` (unparsable);  only the
  implementation side can answer `panic` or `hang` (and `nil` for a `view` that returned no filespace).

EXTENSION  (worked example: /verif/notes/FS_EXTENDING.md, `Driver/FSDemo.lean`, `harness/cmd/fsdemo`)
  Lean side — a family writes its own executable root, `import Driver.FSCore` (+ `Driver.FSMem` to reuse
  the memory backend by delegation), defines a world state `σ`, a handle type `β` (typically an
  inductive with one constructor per backend kind) and an `FSDrv.Impl σ β`:
    init      the world at `reset` (stores of trees, disks, caches …)
    newFS     `new <id> <kind> <args…>`: `none` = bad-op, `some (w, none)` = err, `some (w, some h)` = ok;
              the lookup argument resolves ids that are already bound (wrappers: `new 3 cache 0`)
    applyOp   one of the interface calls on a handle
    openView  `Filespace(path)` on a handle (`none` = err)
    command   extra protocol words (`commit 3`, `raw …`): `none` = not mine (bad-op), else the new
              world and the result line; consulted only when the first word is not a built-in one
  and adds a `[[lean_exe]]` block to lakefile.toml.  Nothing in this file needs to be edited.
  Go side — the family's `harness/cmd/<family>/main.go` imports `gcverif/internal/fsdrv` and calls
    fsdrv.RegisterKind(kind, func(s *fsdrv.Session, args []string) (fsdrv.FS, error))
        (resolve bound ids with s.FSArg(tok) / s.FS(id), release resources with s.OnReset(f),
         return fsdrv.ErrBadOp for unparsable arguments, any other error is the result `err`)
    fsdrv.RegisterCommand(word, func(s *fsdrv.Session, args []string) string)
        (returns the result line; calls into the code under test go through s.Exec)
  before fsdrv.Drive.  `view` needs no registration: it calls Filespace(path) on whatever is bound.
-/
import Goat.Spec.FS
open Goat Goat.FS

namespace FSDrv

/-- What a family supplies: world state `σ`, filespace handles `β`.  See EXTENSION above. -/
structure Impl (σ β : Type) where
  /-- world state at `reset` -/
  init : σ
  /-- `new <id> <kind> <args…>`; `none` = bad-op, `some (w, none)` = err.  The lookup resolves
  already bound ids. -/
  newFS : σ → (Nat → Option β) → String → List String → Option (σ × Option β)
  /-- one interface call on a handle -/
  applyOp : σ → β → Op → σ × Result
  /-- `Filespace(path)` of a handle; `none` = err -/
  openView : σ → β → Bytes → Option β
  /-- extra protocol words; `none` = not mine (bad-op) -/
  command : σ → (Nat → Option β) → String → List String → Option (σ × String) :=
    fun _ _ _ _ => none

inductive Kept where
  | bytes (b : Bytes)
  | listing (l : List (Bytes × Bool))

structure St (σ β : Type) where
  world : σ
  fss : List (Nat × β) := []
  slots : List (Nat × Kept) := []
  last : Option Kept := none

def St.fs? {σ β} (s : St σ β) (id : Nat) : Option β := (s.fss.find? (·.1 == id)).map (·.2)
def St.bind {σ β} (s : St σ β) (id : Nat) (b : β) : St σ β :=
  { s with fss := (id, b) :: s.fss.filter (·.1 != id) }

/-! ### printing -/

def showEntries (l : List (Bytes × Bool)) : String :=
  ",".intercalate (l.map fun (n, d) => s!"{Hex.encode n}:{if d then "d" else "f"}")

def showList (l : List (Bytes × Bool)) : String :=
  if l.isEmpty then "list" else "list " ++ showEntries l

def showResult : Result → String
  | .ok => "ok"
  | .err => "err"
  | .bool b => if b then "t" else "f"
  | .data d => s!"data {Hex.encode d}"
  | .list l => showList l
  | .stat n true _ => s!"stat {Hex.encode n} d"
  | .stat n false sz => s!"stat {Hex.encode n} f {sz}"
  | .chunks l =>
    if l.isEmpty then "rd" else
    "rd " ++ ",".intercalate (l.map fun (c, e) => s!"{Hex.encode c}:{if e then "e" else "c"}")

def bytesLt : Bytes → Bytes → Bool
  | [], [] => false
  | [], _ :: _ => true
  | _ :: _, [] => false
  | a :: as, b :: bs => if a < b then true else if b < a then false else bytesLt as bs

/-- The generic walk of `dump`, through interface calls only (works for every backend), in the
order of calls of the Go side (`fsdrv.Dump`); the world is threaded through because a read may
change it (caches).  `none`: the directory cannot be listed.  `fuel` bounds the depth. -/
def walkFS {σ β} (impl : Impl σ β) (b : β) : Nat → σ → Bytes → σ × Option (Array (Bytes × String))
  | 0, w, _ => (w, none)
  | fuel + 1, w, dir =>
    match impl.applyOp w b (.readDir dir) with
    | (w, .list l) =>
      let (w, items) := l.foldl (init := (w, (#[] : Array (Bytes × String)))) fun (w, acc) (name, isDir) =>
        let p := if dir.isEmpty then name else dir ++ Path.slash :: name
        let hp := Hex.encode p
        let q (w : σ) (op : Op) : σ × Bool :=
          let (w', r) := impl.applyOp w b op
          (w', r == .bool true)
        let bad (w : σ) := (w, acc.push (p, hp ++ "!"))
        let (w, ex) := q w (.isExist p)
        if !ex then bad w else
        let (w, d) := q w (.isDir p)
        if d != isDir then bad w else
        let (w, f) := q w (.isFile p)
        if f == isDir then bad w else
        if isDir then
          match walkFS impl b fuel w p with
          | (w, some sub) => (w, acc.push (p, hp ++ "/") ++ sub)
          | (w, none) => (w, (acc.push (p, hp ++ "/")).push (p, hp ++ "!"))
        else
          match impl.applyOp w b (.readFile p) with
          | (w, .data d) => (w, acc.push (p, s!"{hp}={Hex.encode d}"))
          | (w, _) => bad w
      (w, some items)
    | (w, _) => (w, none)

def dumpFS {σ β} (impl : Impl σ β) (w : σ) (b : β) : σ × String :=
  match walkFS impl b 4096 w [] with
  | (w, some items) =>
    let items := items.toList.mergeSort (fun x y => !bytesLt y.1 x.1)
    (w, if items.isEmpty then "tree" else "tree " ++ " ".intercalate (items.map (·.2)))
  | (w, none) => (w, "err")

/-! ### parsing -/

def hexs (l : List String) : Option (List Bytes) := l.mapM Hex.decode
def nats (l : List String) : Option (List Nat) := l.mapM String.toNat?

/-- a parsed interface call and the buffer it hands in, if any -/
def parseOp (cmd : String) (args : List String) : Option (Op × Option Kept) := do
  match cmd, args with
  | "write", [p, d] =>
    let d ← Hex.decode d
    pure (.writeFile (← Hex.decode p) d, some (.bytes d))
  | "writer", p :: cs =>
    let cs ← hexs cs
    pure (.writer (← Hex.decode p) cs, cs.getLast?.map .bytes)
  | "reader", p :: ss => pure (.reader (← Hex.decode p) (← nats ss), none)
  | "mkdir", [p] => pure (.mkdirAll (← Hex.decode p), none)
  | "remove", [p] => pure (.remove (← Hex.decode p), none)
  | "removeall", [p] => pure (.removeAll (← Hex.decode p), none)
  | "readfile", [p] => pure (.readFile (← Hex.decode p), none)
  | "readdir", [p] => pure (.readDir (← Hex.decode p), none)
  | "isexist", [p] => pure (.isExist (← Hex.decode p), none)
  | "isfile", [p] => pure (.isFile (← Hex.decode p), none)
  | "isdir", [p] => pure (.isDir (← Hex.decode p), none)
  | "lstat", [p] => pure (.lstat (← Hex.decode p), none)
  | "copy", [a, b] => pure (.copy (← Hex.decode a) (← Hex.decode b), none)
  | "copyfile", [a, b] => pure (.copyFile (← Hex.decode a) (← Hex.decode b), none)
  | "copydir", [a, b] => pure (.copyDirectory (← Hex.decode a) (← Hex.decode b), none)
  | _, _ => none

/-- the first words the core interprets itself; every other first word goes to `Impl.command` -/
def builtinWords : List String :=
  ["reset", "new", "view", "dump", "keep", "mutate", "recheck", "path", "pathenum",
   "write", "writer", "reader", "mkdir", "remove", "removeall", "readfile", "readdir",
   "isexist", "isfile", "isdir", "lstat", "copy", "copyfile", "copydir"]

/-- the buffer a result hands out -/
def keptOfResult : Result → Option Kept
  | .data d => some (.bytes d)
  | .list l => some (.listing l)
  | .chunks l => l.getLast?.map fun c => .bytes c.1
  | _ => none

def mutateKept (k : Kept) (i b : Nat) : Option Kept :=
  match k with
  | .bytes d => if i < d.length then some (.bytes (d.set i (UInt8.ofNat b))) else none
  | .listing l =>
    if i < l.length then (l[b % l.length]?).map fun e => .listing (l.set i e) else none

def showKept : Kept → String
  | .bytes d => s!"data {Hex.encode d}"
  | .listing l => showList l

def showPathFn (fn : String) (b : Bytes) : Option String :=
  match fn with
  | "clean" => some s!"data {Hex.encode (Path.clean b)}"
  | "cleanpath" => some s!"data {Hex.encode (Path.cleanPath b)}"
  | "reduce" => some (match Path.reduceAbsPath b with | some r => s!"data {Hex.encode r}" | none => "err")
  | _ => none

def pathAlphabet : List UInt8 := [97, 46, 47]

partial def pathEnum (len : Nat) (cur : List UInt8) (out : IO.FS.Stream) : IO Unit := do
  if len = 0 then
    let p := cur.reverse
    let red := match Path.reduceAbsPath p with | some r => Hex.encode r | none => "err"
    out.putStrLn s!"{Hex.encode p} {Hex.encode (Path.clean p)} {Hex.encode (Path.cleanPath p)} {red}"
  else
    for a in pathAlphabet do
      pathEnum (len - 1) (a :: cur) out

/-- one protocol line: new state and the result line -/
def stepLine {σ β} (impl : Impl σ β) (s : St σ β) (line : String) : St σ β × String :=
  let forget (s : St σ β) : St σ β := { s with last := none }
  match line.splitOn " " with
  | ["reset"] => ({ world := impl.init }, "ok")
  | "new" :: id :: kind :: args =>
    match id.toNat?, impl.newFS s.world s.fs? kind args with
    | some id, some (w, some b) => (forget ({ s with world := w }.bind id b), "ok")
    | some _, some (w, none) => (forget { s with world := w }, "err")
    | _, _ => (forget s, "bad-op")
  | ["view", id, fs, p] =>
    match id.toNat?, fs.toNat?, Hex.decode p with
    | some id, some fs, some p =>
      match s.fs? fs with
      | none => (forget s, "nofs")
      | some b =>
        match impl.openView s.world b p with
        | some v => (forget (s.bind id v), "ok")
        | none => (forget s, "err")
    | _, _, _ => (forget s, "bad-op")
  | ["dump", fs] =>
    match fs.toNat? with
    | none => (forget s, "bad-op")
    | some fs =>
      match s.fs? fs with
      | none => (forget s, "nofs")
      | some b =>
        let (w, res) := dumpFS impl s.world b
        (forget { s with world := w }, res)
  | ["keep", k] =>
    match k.toNat?, s.last with
    | some k, some v => ({ s with slots := (k, v) :: s.slots.filter (·.1 != k), last := none }, "ok")
    | some _, none => (forget s, "none")
    | none, _ => (forget s, "bad-op")
  | ["mutate", k, i, b] =>
    match k.toNat?, i.toNat?, b.toNat? with
    | some k, some i, some b =>
      match (s.slots.find? (·.1 == k)).bind fun e => mutateKept e.2 i b with
      | some v => ({ s with slots := (k, v) :: s.slots.filter (·.1 != k), last := none }, "ok")
      | none => (forget s, "none")
    | _, _, _ => (forget s, "bad-op")
  | ["recheck", k] =>
    match k.toNat? with
    | none => (forget s, "bad-op")
    | some k =>
      match s.slots.find? (·.1 == k) with
      | some e => (forget s, showKept e.2)
      | none => (forget s, "none")
  | ["path", fn, h] =>
    match Hex.decode h with
    | none => (forget s, "bad-op")
    | some b => (forget s, (showPathFn fn b).getD "bad-op")
  | word :: rest =>
    if !builtinWords.contains word then
      match impl.command s.world s.fs? word rest with
      | some (w, res) => (forget { s with world := w }, res)
      | none => (forget s, "bad-op")
    else
    match rest with
    | fs :: args =>
      match fs.toNat?, parseOp word args with
      | some fs, some (op, handedIn) =>
        match s.fs? fs with
        | none => (forget s, "nofs")
        | some b =>
          let (w, r) := impl.applyOp s.world b op
          let last := match handedIn with
            | some k => some k
            | none => keptOfResult r
          ({ s with world := w, last := last }, showResult r)
      | _, _ => (forget s, "bad-op")
    | [] => (forget s, "bad-op")
  | [] => (forget s, "bad-op")

partial def loop {σ β} (impl : Impl σ β) (inp out : IO.FS.Stream) (s : St σ β) : IO Unit := do
  let line ← inp.getLine
  if line.isEmpty then return ()
  let line := (line.dropEndWhile (fun c => c = '\n' || c = '\r')).toString
  if line.isEmpty || line.startsWith "#" then loop impl inp out s else
  match line.splitOn " " with
  | ["pathenum", n] =>
    match n.toNat? with
    | some k =>
      for l in [0:k+1] do pathEnum l [] out
      loop impl inp out s
    | none =>
      out.putStrLn "bad-op"
      loop impl inp out s
  | _ =>
    let (s', res) := stepLine impl s line
    out.putStrLn res
    loop impl inp out s'

/-- the whole driver: `def main : IO Unit := FSDrv.runMain myImpl` -/
def runMain {σ β} (impl : Impl σ β) : IO Unit := do
  let out ← IO.getStdout
  loop impl (← IO.getStdin) out { world := impl.init }
  out.flush

end FSDrv
