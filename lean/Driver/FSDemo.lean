/-
EXAMPLE (not part of any property's check): the smallest family built on `Driver/FSCore.lean`;
executable `m_fsdemo`, Go twin `/verif/harness/cmd/fsdemo`.  See /verif/notes/FS_EXTENDING.md.
  new <id> sub <fs> <hexpath>   fshelper.NewSubFS(<fs>, path): every call reduces its path arguments
                                (climbing = the call fails) and passes clean(path)/<reduced> to <fs>
  size <fs> <hexpath>           -> n <len(ReadFile)> | err
The memory backend is reused by delegation (`Driver/FSMem.lean`).
-/
import Driver.FSCore
import Driver.FSMem
open Goat Goat.FS

namespace FSDemo
open FSDrv

/-- one constructor per backend kind -/
inductive Backend where
  | mem (h : MemHandle)
  | sub (inner : Backend) (base : Bytes)   -- base = clean(path) ++ "/"

/-- the world: only the memory stores (a disk or cache family adds its own fields) -/
structure World where
  mem : MemWorld := #[]

/-- SubFS: the call on the inner filespace, `none` when a path argument climbs -/
def subOp (base : Bytes) (op : Op) : Option Op :=
  let r (p : Bytes) : Option Bytes := (Path.reduceAbsPath p).map (base ++ ·)
  let nonRoot (p : Bytes) : Option Bytes :=
    match Path.reduceAbsPath p with
    | some [] => none          -- Remove / RemoveAll of the sub root
    | some q => some (base ++ q)
    | none => none
  match op with
  | .copy s d => do pure (.copy (← r s) (← r d))
  | .copyDirectory s d => do pure (.copyDirectory (← r s) (← r d))
  | .copyFile s d => do pure (.copyFile (← r s) (← r d))
  | .readDir p => (r p).map .readDir
  | .isExist p => (r p).map .isExist
  | .isFile p => (r p).map .isFile
  | .isDir p => (r p).map .isDir
  | .mkdirAll p => (r p).map .mkdirAll
  | .readFile p => (r p).map .readFile
  | .writeFile p d => (r p).map (.writeFile · d)
  | .filespace p => (r p).map .filespace
  | .reader p ss => (r p).map (.reader · ss)
  | .writer p cs => (r p).map (.writer · cs)
  | .remove p => (nonRoot p).map .remove
  | .removeAll p => (nonRoot p).map .removeAll
  | .lstat p => (r p).map .lstat

/-- what a call answers when it fails before reaching the inner filespace -/
def failResult : Op → Result
  | .isExist _ | .isFile _ | .isDir _ => .bool false
  | _ => .err

def applyOp (w : World) : Backend → Op → World × Result
  | .mem h, op => let (m, r) := memApply w.mem h op; ({ w with mem := m }, r)
  | .sub inner base, op =>
    match subOp base op with
    | some op' => applyOp w inner op'
    | none => (w, failResult op)

def openView (_w : World) : Backend → Bytes → Option Backend
  | .mem h, raw => (memOpenView h raw).map .mem
  | .sub inner base, raw => (Path.reduceAbsPath raw).map fun q => .sub inner (base ++ q ++ [Path.slash])

def impl : Impl World Backend where
  init := {}
  newFS := fun w lookup kind args =>
    match kind, args with
    | "mem", [] => let (m, h) := memNew w.mem; some ({ w with mem := m }, some (.mem h))
    | "sub", [fs, p] =>
      match fs.toNat?.bind lookup, Hex.decode p with
      | some inner, some p => some (w, some (.sub inner (Path.clean p ++ [Path.slash])))
      | _, _ => none
    | _, _ => none
  applyOp := applyOp
  openView := openView
  command := fun w lookup word args =>
    match word, args with
    | "size", [fs, p] =>
      match fs.toNat?, Hex.decode p with
      | some fs, some p =>
        match lookup fs with
        | none => some (w, "nofs")
        | some b =>
          match applyOp w b (.readFile p) with
          | (w, .data d) => some (w, s!"n {d.length}")
          | (w, _) => some (w, "err")
      | _, _ => some (w, "bad-op")
    | _, _ => none

end FSDemo

def main : IO Unit := FSDrv.runMain FSDemo.impl
