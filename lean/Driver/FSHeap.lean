/-
Executable `m_fsheap`: the HEAP-LEVEL model of memfs (`Goat/Model/MemFSHeap.lean`) behind the same `fs`
line protocol as `m_fs` (protocol: `Driver/FSCore.lean`), so that the generators and the implementation
driver of `harness/cmd/fs` drive it unchanged.  Used by checks/c01.py as the third party of every campaign.

What is different from `m_fs` is exactly the alias probes.  In `m_fs` (`FSCore.stepLine`) a kept buffer
is a *value* stored in the driver.  Here the driver plays the caller of the heap model:

  write <fs> <path> <data>    the caller makes a buffer (`HOp.alloc data`), then `WriteFile(path, id)`;
                              the buffer handed in is that id
  writer <fs> <path> <c>*     one caller buffer per chunk, then `Writer`/`Write`*/`Close` with the ids
  readfile / readdir / reader the handle(s) the model hands out
  keep <k>                    the driver remembers the *handle* (an id into the model's heap) in slot <k>
  mutate <k> <i> <b>          `HOp.mutate handle i b`: the write goes into the model's heap — if the tree
                              shared that object, the tree would change (it does in the pre-fix variant)
  recheck <k>                 `HOp.recheck handle`: what the heap holds now behind the handle

Everything else (`new … mem`, `view`, `dump`, `path`, `pathenum`, the 15 call words) answers as `m_fs`.
`m_fsheap old` runs the pre-fix variant `Cfg.preFix` (used only to show that the probes see the defect).
Core Lean only.
-/
import Driver.FSCore
import Goat.Model.MemFSHeap
open Goat Goat.FS Goat.MemFSHeap

namespace FSHeapDrv

/-- a bound filespace: which store (one `HWorld` per `new <id> mem`) and which of its handles -/
structure FsRef where
  store : Nat
  view : Nat

structure St where
  cfg : Cfg
  worlds : Array HWorld := #[]
  fss : List (Nat × FsRef) := []
  slots : List (Nat × (Nat × Handle)) := []
  last : Option (Nat × Handle) := none

def St.fs? (s : St) (id : Nat) : Option FsRef := (s.fss.find? (·.1 == id)).map (·.2)
def St.bind (s : St) (id : Nat) (b : FsRef) : St := { s with fss := (id, b) :: s.fss.filter (·.1 != id) }

/-- run a list of caller buffers into the world: their ids, in order -/
def allocBufs (cfg : Cfg) (w : HWorld) : List Bytes → HWorld × List BufId
  | [] => (w, [])
  | d :: ds =>
    let r := w.step cfg (.alloc d)
    let r2 := allocBufs cfg r.1 ds
    (r2.1, r.2.out ++ r2.2)

/-- an interface call given with byte values (as the protocol gives it): the caller first makes its
buffers, then calls.  Returns the world, the result and the handle the alias probes may keep. -/
def applyOp (cfg : Cfg) (w : HWorld) (n : Nat) (op : Op) : HWorld × Result × Option Handle :=
  let plain (c : HCall) : HWorld × Result × Option Handle :=
    let r := w.step cfg (.call n c)
    (r.1, r.2.res, (outHandles c r.2).getLast?)
  match op with
  | .writeFile p d =>
    let (w1, ids) := allocBufs cfg w [d]
    match ids with
    | [id] =>
      let r := w1.step cfg (.call n (.writeFile p id))
      (r.1, r.2.res, some (.buf id))
    | _ => (w1, .err, none)
  | .writer p cs =>
    let (w1, ids) := allocBufs cfg w cs
    let r := w1.step cfg (.call n (.writer p ids))
    (r.1, r.2.res, ids.getLast?.map .buf)
  | .copy s d => plain (.copy s d)
  | .copyDirectory s d => plain (.copyDirectory s d)
  | .copyFile s d => plain (.copyFile s d)
  | .readDir p => plain (.readDir p)
  | .isExist p => plain (.isExist p)
  | .isFile p => plain (.isFile p)
  | .isDir p => plain (.isDir p)
  | .mkdirAll p => plain (.mkdirAll p)
  | .readFile p => plain (.readFile p)
  | .filespace p => plain (.filespace p)
  | .reader p sizes => plain (.reader p sizes)
  | .remove p => plain (.remove p)
  | .removeAll p => plain (.removeAll p)
  | .lstat p => plain (.lstat p)

/-- the generic `dump` walk of `FSCore` over one world (handles are the world's view numbers) -/
def dumpImpl (cfg : Cfg) : FSDrv.Impl HWorld Nat where
  init := HWorld.init
  newFS := fun _ _ _ _ => none
  applyOp := fun w n op => let r := applyOp cfg w n op; (r.1, r.2.1)
  openView := fun _ _ _ => none

def showRes (r : Result) : String := FSDrv.showResult r

/-- one protocol line: new state and the result line (same case analysis as `FSDrv.stepLine`) -/
def stepLine (s : St) (line : String) : St × String :=
  let forget (s : St) : St := { s with last := none }
  match line.splitOn " " with
  | ["reset"] => ({ cfg := s.cfg }, "ok")
  | "new" :: id :: kind :: args =>
    match id.toNat?, kind, args with
    | some id, "mem", [] =>
      let b : FsRef := { store := s.worlds.size, view := 0 }
      (forget ({ s with worlds := s.worlds.push HWorld.init }.bind id b), "ok")
    | _, _, _ => (forget s, "bad-op")
  | ["view", id, fs, p] =>
    match id.toNat?, fs.toNat?, Hex.decode p with
    | some id, some fs, some p =>
      match s.fs? fs with
      | none => (forget s, "nofs")
      | some b =>
        let w := s.worlds[b.store]!
        let r := w.step s.cfg (.call b.view (.filespace p))
        match r.2.res with
        | .ok =>
          (forget ({ s with worlds := s.worlds.set! b.store r.1 }.bind id { b with view := w.views.length }), "ok")
        | _ => (forget s, "err")
    | _, _, _ => (forget s, "bad-op")
  | ["dump", fs] =>
    match fs.toNat? with
    | none => (forget s, "bad-op")
    | some fs =>
      match s.fs? fs with
      | none => (forget s, "nofs")
      | some b =>
        let (w, res) := FSDrv.dumpFS (dumpImpl s.cfg) s.worlds[b.store]! b.view
        (forget { s with worlds := s.worlds.set! b.store w }, res)
  | ["keep", k] =>
    match k.toNat?, s.last with
    | some k, some v => ({ s with slots := (k, v) :: s.slots.filter (·.1 != k), last := none }, "ok")
    | some _, none => (forget s, "none")
    | none, _ => (forget s, "bad-op")
  | ["mutate", k, i, b] =>
    match k.toNat?, i.toNat?, b.toNat? with
    | some k, some i, some b =>
      match s.slots.find? (·.1 == k) with
      | none => (forget s, "none")
      | some (_, store, hd) =>
        let r := s.worlds[store]!.step s.cfg (.mutate hd i b)
        match r.2.res with
        | .ok => (forget { s with worlds := s.worlds.set! store r.1 }, "ok")
        | _ => (forget s, "none")
    | _, _, _ => (forget s, "bad-op")
  | ["recheck", k] =>
    match k.toNat? with
    | none => (forget s, "bad-op")
    | some k =>
      match s.slots.find? (·.1 == k) with
      | none => (forget s, "none")
      | some (_, store, hd) =>
        let r := s.worlds[store]!.step s.cfg (.recheck hd)
        match r.2.res with
        | .err => (forget s, "none")
        | res => (forget s, showRes res)
  | ["path", fn, h] =>
    match Hex.decode h with
    | none => (forget s, "bad-op")
    | some b => (forget s, (FSDrv.showPathFn fn b).getD "bad-op")
  | word :: rest =>
    if !FSDrv.builtinWords.contains word then (forget s, "bad-op") else
    match rest with
    | fs :: args =>
      match fs.toNat?, FSDrv.parseOp word args with
      | some fs, some (op, _) =>
        match s.fs? fs with
        | none => (forget s, "nofs")
        | some b =>
          let (w, r, hd) := applyOp s.cfg s.worlds[b.store]! b.view op
          ({ s with worlds := s.worlds.set! b.store w, last := hd.map fun x => (b.store, x) }, showRes r)
      | _, _ => (forget s, "bad-op")
    | [] => (forget s, "bad-op")
  | [] => (forget s, "bad-op")

partial def loop (inp out : IO.FS.Stream) (s : St) : IO Unit := do
  let line ← inp.getLine
  if line.isEmpty then return ()
  let line := (line.dropEndWhile (fun c => c = '\n' || c = '\r')).toString
  if line.isEmpty || line.startsWith "#" then loop inp out s else
  match line.splitOn " " with
  | ["pathenum", n] =>
    match n.toNat? with
    | some k =>
      for l in [0:k+1] do FSDrv.pathEnum l [] out
      loop inp out s
    | none =>
      out.putStrLn "bad-op"
      loop inp out s
  | _ =>
    let (s', res) := stepLine s line
    out.putStrLn res
    loop inp out s'

end FSHeapDrv

def main (args : List String) : IO Unit := do
  let cfg := if args.contains "old" then Cfg.preFix else Cfg.fixed
  let out ← IO.getStdout
  FSHeapDrv.loop (← IO.getStdin) out { cfg := cfg }
  out.flush
